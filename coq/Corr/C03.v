(* Correspondence for C03 (extraction content) and C04 (extraction stays inside). *)
From Rdest Require Import Base BCodec Metainfo Extract Corr.MetaCase.
Open Scope N_scope.

(* what the harness saw: refused at parse time, or a status (0 done, 1 fail, 2 panic),
   the files (path relative to cwd, content) sorted by path and the directories created *)
Inductive iobs := IRefused | IParsePanic | IStatus (st : N) (files : list (bytes * bytes)) (dirs : list bytes).
Inductive case := CExt (doc content : bytes) (pl : N) (impl : iobs).

Definition files_eqb (a b : list (bytes * bytes)) : bool :=
  list_eqb (fun x y => bytes_eqb (fst x) (fst y) && bytes_eqb (snd x) (snd y)) a b.

Definition model_obs (doc content : bytes) (pl : N) : iobs :=
  match metainfo_of doc with
  | Ok m => match extract Extractor_tail_from_start (store_of m content pl) true m with
            | Ok ws => IStatus 0 (sort_by_key ws) []
            | Err => IStatus 1 [] []
            | _ => IStatus 2 [] []
            end
  | Err => IRefused
  | _ => IParsePanic
  end.

(* paths for which the lexical model predicts the file system: relative, no empty / "." / ".."
   components, pairwise distinct, none a directory prefix of another *)
Definition simple_path (p : bytes) : bool :=
  negb (is_abs p) && forallb (fun c => negb (bytes_eqb c []) && negb (bytes_eqb c dot) && negb (bytes_eqb c dotdot)
                                       && forallb (fun b => negb (b =? 0)) c && (len c <? 200)) (split_path p).
Fixpoint is_prefix (a b : bytes) : bool :=
  match a, b with [], _ => true | x :: a', y :: b' => (x =? y) && is_prefix a' b' | _, _ => false end.
Fixpoint pairwise (f : bytes -> bytes -> bool) (l : list bytes) : bool :=
  match l with [] => true | x :: r => forallb (fun y => f x y && f y x) r && pairwise f r end.
Definition clean (m : metainfo) : bool :=
  let ps := map (out_path m) (m_files m) in
  forallb simple_path ps && pairwise (fun p q => negb (bytes_eqb p q) && negb (is_prefix (p ++ [slash]) q)) ps.

Definition geometryb (m : metainfo) (content : bytes) (pl : N) : bool :=
  let n := pieces_num m in
  (0 <? m_piece_length m) && (pl =? m_piece_length m) && (len content =? sum_lengths (m_files m))
  && (len content <? two64) && (len content <=? n * pl) && ((n =? 0) || ((n - 1) * pl <? len content)).

Definition k_ok (doc content : bytes) (pl : N) (impl : iobs) : bool :=
  match model_obs doc content pl, impl with
  | IRefused, IRefused => true
  | IParsePanic, IParsePanic => true
  | IStatus 0 fs _, IStatus 0 fs' _ =>
      (* file contents are predicted only for clean paths *)
      match metainfo_of doc with Ok m => if clean m then files_eqb fs fs' else true | _ => false end
  | IStatus a _ _, IStatus b _ _ =>
      match metainfo_of doc with Ok m => if clean m then a =? b else true | _ => false end
  | _, _ => false
  end.

(* C03 oracle: consistent geometry + clean paths => done, and exactly the described files *)
Definition o03 (doc content : bytes) (pl : N) (impl : iobs) : bool :=
  match metainfo_of doc with
  | Ok m => if geometryb m content pl && clean m
            then match impl with
                 | IStatus 0 fs _ => files_eqb (sort_by_key (spec_files m content)) fs
                 | _ => false
                 end
            else true
  | _ => true
  end.

(* C04 oracle: whatever was created lies inside cwd (inside cwd/name for multi-file torrents) *)
Fixpoint comps_prefix (a b : list bytes) : bool :=
  match a, b with [], _ => true | x :: a', y :: b' => bytes_eqb x y && comps_prefix a' b' | _, _ => false end.
Definition entry_inside (m : metainfo) (p : bytes) : bool :=
  inside p && negb (bytes_eqb p []) &&
  (if 1 <? len (m_files m)
   then (* inside the directory named by the torrent: the entry is below it, is it, or is one of the
           ancestors that have to exist for it (name "a/b" creates "a") *)
        let d := comps (m_name m) in let q := comps p in comps_prefix d q || comps_prefix q d
   else true).
Definition o04 (doc : bytes) (impl : iobs) : bool :=
  match impl with
  | IStatus _ fs ds =>
      match metainfo_of doc with
      | Ok m => forallb (fun f => entry_inside m (fst f)) fs && forallb (entry_inside m) ds
      | _ => false
      end
  | IRefused => true
  | IParsePanic => false
  end.

Definition code (which : N) (c : case) : N :=
  match c with
  | CExt doc content pl impl =>
      let k := k_ok doc content pl impl in
      let o := if which =? 3 then o03 doc content pl impl else o04 doc impl in
      (if k then 0 else 1) + (if o then 0 else 2)
  end.
Definition codes03 (cs : list case) : list N := map (code 3) cs.
Definition codes04 (cs : list case) : list N := map (code 4) cs.
