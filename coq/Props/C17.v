(* C17 — the metainfo model is a faithful, safe reading of the .torrent. *)
From Rdest Require Import Base Consts BCodec DeepFinder Metainfo MetaProofs CreateProofs.
Open Scope N_scope.

(* parsing any byte string terminates without panicking *)
Theorem C17_total : forall data, metainfo_of data <> Panic /\ metainfo_of data <> OutOfFuel.
Proof. exact metainfo_total. Qed.

(* when it succeeds, the fields are what one top-level dictionary of the
   document says (FieldsOf: announce, info.name, info.piece length, the 20-byte
   chunks of info.pieces, and either [length x name] or the order-preserving
   filter of the well-formed entries of info.files) *)
Theorem C17_faithful : forall data m, metainfo_of data = Ok m ->
  exists vs d, decode data = Ok vs /\ In (BDict d) vs /\ FieldsOf d m /\
               find_first key_info_raw data = Some (m_hash_input m).
Proof. exact metainfo_faithful. Qed.

(* every accessor is then safe for every valid piece index, with overflow
   checks on (debug) and off (release) *)
Theorem C17_accessors_safe : forall ovf data m, metainfo_of data = Ok m ->
  total_length ovf m <> Panic /\ file_piece_ranges ovf m <> Panic /\
  forall i, i < pieces_num m -> piece m i <> Panic /\ piece_length ovf m i <> Panic.
Proof. intros ovf data m. exact (accessors_safe ovf data m eq_refl eq_refl). Qed.

(* create -> parse: the document create_file writes (for any name, tracker, data length and hash string within the
   stated bounds) is read back as exactly those fields, and what is hashed for it is the canonical encoding of its info
   dictionary (decode_encode for the decoder, FinderProofs.find_first_spec for the info span) *)
Theorem C17_create_parse : forall name tracker pieces data_len,
  len name < 18446744073709551616 -> len tracker < 18446744073709551616 -> len pieces < 18446744073709551616 ->
  data_len < 9223372036854775808 -> utf8_valid name = true -> utf8_valid tracker = true -> safe_path name = true ->
  len pieces mod HASH_SIZE = 0 ->
  metainfo_of (create_torrent_with name tracker data_len pieces) =
    Ok (mkmeta tracker name PIECE_LENGTH (chunks (N.to_nat HASH_SIZE) pieces) [mkfile data_len name]
               (encode (BDict (info_dict name data_len pieces)))).
Proof. exact create_parse. Qed.
(* with the hashes computed by any 20-byte hash function over the 256 KiB chunks of the data *)
Theorem C17_create_file_parse : forall (sha1 : bytes -> bytes) name tracker data,
  (forall x, len (sha1 x) = HASH_SIZE) ->
  len name < 18446744073709551616 -> len tracker < 18446744073709551616 -> len data < 9223372036854775808 ->
  utf8_valid name = true -> utf8_valid tracker = true -> safe_path name = true ->
  exists h,
    metainfo_of (create_torrent sha1 name tracker data) =
      Ok (mkmeta tracker name PIECE_LENGTH (map sha1 (chunks (N.to_nat PIECE_LENGTH) data)) [mkfile (len data) name] h) /\
    find_first key_info_raw (create_torrent sha1 name tracker data) = Some h.
Proof. exact create_file_parse. Qed.

Check C17_total : forall data, metainfo_of data <> Panic /\ metainfo_of data <> OutOfFuel.
Check C17_accessors_safe : forall ovf data m, metainfo_of data = Ok m ->
  total_length ovf m <> Panic /\ file_piece_ranges ovf m <> Panic /\
  forall i, i < pieces_num m -> piece m i <> Panic /\ piece_length ovf m i <> Panic.

(* non-vacuity: a document that parses, with two files and three pieces *)
From Coq Require Import String.
Example C17_parses :
  match metainfo_of (hx "64383a616e6e6f756e6365333a55524c343a696e666f64343a6e616d65343a4e414d4531323a7069656365206c656e6774686933333365363a70696563657332303a4141414141424242424243434343434444444444353a66696c65736c64363a6c656e6774686937373765343a70617468343a5041544865656565") with
  | Ok m => (pieces_num m =? 1) && (m_piece_length m =? 333) && (len (m_files m) =? 1)
  | _ => false
  end = true.
Proof. vm_compute. reflexivity. Qed.

(* the chunk size of create_file in the property text (256 KiB) and the hash size are the code's constants, pinned *)
Example C17_chunk_pinned : PIECE_LENGTH = 262144 /\ HASH_SIZE = 20. Proof. split; reflexivity. Qed.

Print Assumptions C17_total.
Print Assumptions C17_faithful.
Print Assumptions C17_accessors_safe.
Print Assumptions C17_create_parse.
Print Assumptions C17_create_file_parse.
