(* StoreProofs.v — what is served is verified data (links C01 and C09).

   The piece store is a function from file names (hashes) to contents.  StoreVerified: every file's content hashes
   to its name -- established by the writes of the tasks (C01_writes_verified) and kept by them.  TxOk: the piece a
   task has loaded for upload hashes to the hash of its index.  Then every block a task sends is a slice of data whose
   hash is the torrent's hash for that piece. *)
From Rdest Require Import Base BaseProofs Consts Wire Manager Handler HandlerProofs PairProofs.
From Coq Require Import ZifyBool ZifyN ZifyNat.
Open Scope N_scope.

Section Store.
  Variable sha1 : bytes -> bytes.
  Variable cf : hconf.

  Definition StoreVerified (disk : bytes -> option bytes) : Prop :=
    forall h d, disk h = Some d -> bytes_eqb (sha1 d) h = true.
  Definition TxOk (s : hst) : Prop :=
    forall t, h_tx s = Some t -> bytes_eqb (sha1 (tx_buff t)) (hash_of cf (tx_index t)) = true.

  (* the store after a task's writes *)
  Definition write (disk : bytes -> option bytes) (h d : bytes) : bytes -> option bytes :=
    fun k => if bytes_eqb k h then Some d else disk k.
  Fixpoint apply_writes (disk : bytes -> option bytes) (acts : list action) : bytes -> option bytes :=
    match acts with
    | [] => disk
    | AWrite h d :: r => apply_writes (write disk h d) r
    | _ :: r => apply_writes disk r
    end.

  Lemma bytes_eqb_eq (a b : bytes) : bytes_eqb a b = true -> a = b.
  Proof.
    revert b. induction a as [|x a IH]; intros [|y b]; cbn; try discriminate; [reflexivity|].
    intros H. apply andb_true_iff in H. destruct H as [H1 H2]. apply N.eqb_eq in H1. rewrite H1, (IH b H2). reflexivity.
  Qed.

  Lemma write_verified disk h d : StoreVerified disk -> bytes_eqb (sha1 d) h = true -> StoreVerified (write disk h d).
  Proof.
    intros HS Hh k x. unfold write. destruct (bytes_eqb k h) eqn:E; [|apply HS].
    intros [= <-]. apply bytes_eqb_eq in E. rewrite E. exact Hh.
  Qed.

  (* the tasks' writes keep the store verified (every write is of verified data: C01) *)
  Theorem writes_keep_store_verified disk0 disk ovf s ev r :
    StoreVerified disk -> StoreVerified (apply_writes disk (acts_of (hstep sha1 cf disk0 ovf s ev r))).
  Proof.
    intros HS. pose proof (writes_verified sha1 cf disk0 ovf s ev r) as HW.
    revert disk HS HW. generalize (acts_of (hstep sha1 cf disk0 ovf s ev r)).
    induction l as [|x l IH]; intros disk HS HW; [exact HS|].
    destruct x as [m|c|h d]; cbn [apply_writes]; try (apply IH; [exact HS | intros h0 d0 Hin; apply HW; right; exact Hin]).
    apply IH; [apply write_verified; [exact HS | apply HW; left; reflexivity] | intros h0 d0 Hin; apply HW; right; exact Hin].
  Qed.

  Variable disk : bytes -> option bytes.
  Hypothesis Hstore : StoreVerified disk.

  Lemma load_tx_ok s ri r t : TxOk s -> load_tx cf disk s ri r = Ok (Some t) ->
    bytes_eqb (sha1 (tx_buff t)) (hash_of cf (tx_index t)) = true.
  Proof.
    intros HT. unfold load_tx. destruct (need_ask s ri).
    - destruct r as [[]|]; try discriminate.
      destruct (disk (hash_of cf i)) as [data|] eqn:E; [|discriminate]. intros [= <-]. cbn [tx_buff tx_index]. exact (Hstore _ _ E).
    - intros [= E]. exact (HT t E).
  Qed.

  (* C09 + C01: the block sent in answer to a request is a slice of data that hashes to the torrent's hash of that piece *)
  Theorem served_block_is_verified ovf s ri rb rl r i b blk :
    TxOk s -> In (i, b, blk) (pieces_in (acts_of (handle_request cf disk ovf s ri rb rl r))) ->
    exists t, bytes_eqb (sha1 (tx_buff t)) (hash_of cf (tx_index t)) = true /\
              tx_index t mod 4294967296 = i /\ b = rb /\ blk = slice (tx_buff t) rb rl.
  Proof.
    intros HT Hin. pose proof (request_answer cf disk ovf s ri rb rl r eq_refl) as RA.
    destruct (handle_request cf disk ovf s ri rb rl r) as [s1 a1|s1 a1 nrm|a1]; [| |contradiction];
      (destruct RA as [E|(t & HL & Hi & _ & _ & _ & E)]; cbn [acts_of] in *; rewrite E in Hin; [contradiction|];
       destruct Hin as [[= <- <- <-]|[]]; exists t; split; [exact (load_tx_ok s ri r t HT HL)|]; split; [exact Hi|]; split; reflexivity).
  Qed.

  (* what is loaded stays verified: TxOk is kept by every event of the task *)
  Theorem tx_ok_kept ovf s ev r s' acts : TxOk s -> hstep sha1 cf disk ovf s ev r = HCont s' acts -> TxOk s'.
  Proof.
    intros HT H.
    assert (Same : forall s1, h_tx s1 = h_tx s -> TxOk s1) by (intros s1 E t Ht; rewrite E in Ht; exact (HT t Ht)).
    assert (Apf : forall s0 pre s1 a1, h_tx s0 = h_tx s ->
              (after_piece_finish cf s0 pre r = HCont s1 a1 \/ after_piece_finish cf s0 pre r = HEnd s1 a1 true) -> h_tx s1 = h_tx s).
    { intros s0 pre s1 a1 E0. unfold after_piece_finish.
      destruct r as [[| | | | | | | | | | | | | |i len| | |]|];
        try (destruct (new_piece_request _ _ _ _) as [r0 a0]); intros [H1|H1]; try discriminate; injection H1 as <- _; exact E0. }
    assert (Init : forall s0 id s1 a1, h_tx s0 = h_tx s -> init_handshake cf s0 id r = HCont s1 a1 -> h_tx s1 = h_tx s).
    { intros s0 id s1 a1 E0. unfold init_handshake. destruct r as [[]|]; try discriminate. intros [= <- _]. exact E0. }
    destruct ev as [|m| | | |i|[[|]|]]; cbn [hstep] in H.
    - destruct (h_peer_id s); [apply Same; eapply Init; [reflexivity | exact H] | injection H as <- _; exact HT].
    - unfold handle_frame in H.
      destruct (Handler_gate_on_handshake && negb (h_hs_done s) && negb match m with Handshake _ _ => true | _ => false end); [discriminate|].
      destruct m as [ih pid| | | | | |idx|bs|ri rb rl|pi pb blk|ci cb cl].
      + destruct (negb (bytes_eqb ih (c_info_hash cf))); [discriminate|].
        destruct (h_peer_id (set_ka s 0)).
        * destruct (negb (bytes_eqb pid b)); [discriminate|]. injection H as <- _. apply Same. reflexivity.
        * apply Same. eapply Init; [|exact H]. reflexivity.
      + injection H as <- _. exact HT.
      + injection H as <- _. apply Same. reflexivity.
      + destruct (Handler_ignore_repeated_unchoke && negb (h_choked (set_ka s 0))); [injection H as <- _; apply Same; reflexivity|].
        destruct r as [[| |i len|i len| | | | | | | | | | | | | |]|]; try discriminate;
          try (destruct (new_piece_request _ _ _ _) as [r0 a0]); injection H as <- _; apply Same; reflexivity.
      + injection H as <- _. apply Same. reflexivity.
      + destruct r as [[]|]; try discriminate. injection H as <- _. apply Same. reflexivity.
      + destruct (c_pieces_num cf <=? idx); [discriminate|].
        destruct r as [[| | | | | | | |i len| | | | | | | | |]|]; try discriminate;
          try (destruct (new_piece_request _ _ _ _) as [r0 a0]); injection H as <- _; apply Same; reflexivity.
      + destruct (negb (bitfield_validate bs (c_pieces_num cf))); [discriminate|].
        destruct r as [[]|]; try discriminate. injection H as <- _. apply Same. reflexivity.
      + (* a request: what is loaded now comes from the verified store, or was loaded before *)
        unfold handle_request in H.
        assert (HT0 : TxOk (set_ka s 0)) by (apply Same; reflexivity).
        destruct (load_tx cf disk (set_ka s 0) ri r) as [[t|]| | |] eqn:EL; try discriminate.
        * pose proof (load_tx_ok _ _ _ _ HT0 EL) as Hv.
          destruct (request_validate cf ovf ri rb rl (tx_index t) (len (tx_buff t))); try discriminate.
          destruct (len (tx_buff t) <? rb + rl); [discriminate|]. injection H as <- _.
          intros t' [= <-]. exact Hv.
        * injection H as <- _. intros t' Ht'. discriminate.
      + unfold handle_piece in H. cbn [h_rx set_ka] in H.
        destruct (h_rx s) as [rx|]; [|injection H as <- _; apply Same; reflexivity].
        destruct (negb (is_requested rx pi pb blk)); [injection H as <- _; apply Same; reflexivity|].
        cbn [rx_left rx_hash] in H.
        destruct (rx_left rx) as [|l0 lr].
        * destruct (filter _ (rx_requested rx)) as [|q0 qr].
          -- destruct (negb (bytes_eqb _ _)); [discriminate|]. apply Same. eapply Apf; [|left; exact H]. reflexivity.
          -- destruct (send_request _) as [r2 a]. injection H as <- _. apply Same. reflexivity.
        * destruct (send_request _) as [r2 a]. injection H as <- _. apply Same. reflexivity.
      + injection H as <- _. apply Same. reflexivity.
    - discriminate.
    - change Handler_recv_error_terminates with true in H. discriminate.
    - destruct (h_keep_alive s =? peer_handler_KEEP_ALIVE_LIMIT); [discriminate|]. injection H as <- _. apply Same. reflexivity.
    - assert (Ann : forall s0 s2 a2, (if h_choked s0 then (set_buff s0 (h_msg_buff s0 ++ [i]), []) else (s0, [ASend (Wire.Have i)])) = (s2, a2) ->
                    h_tx s2 = h_tx s0).
      { intros s0 s2 a2. destruct (h_choked s0); intros [= <- _]; reflexivity. }
      destruct (h_rx s) as [rx|].
      + destruct (rx_index rx =? i).
        * destruct (after_piece_finish cf (set_rx s None) _ r) as [s1 a1|s1 a1 [|]|] eqn:E; try discriminate.
          -- destruct (if h_choked s1 then _ else _) as [s2 a2] eqn:E2. injection H as <- _. apply Same.
             rewrite (Ann _ _ _ E2). eapply Apf; [|left; exact E]. reflexivity.
          -- destruct (if h_choked s1 then _ else _) as [s2 a2] eqn:E2. injection H as <- _. apply Same.
             rewrite (Ann _ _ _ E2). eapply Apf; [|right; exact E]. reflexivity.
        * destruct (if h_choked s then _ else _) as [s2 a2] eqn:E2. injection H as <- _. apply Same. exact (Ann _ _ _ E2).
      + destruct (if h_choked s then _ else _) as [s2 a2] eqn:E2. injection H as <- _. apply Same. exact (Ann _ _ _ E2).
    - injection H as <- _. intros t Ht. discriminate.
    - injection H as <- _. exact HT.
    - injection H as <- _. exact HT.
  Qed.
End Store.
