"""Bencode value generator / encoders / converters shared by C05, C15, C16, C17, C19."""
import re
from vlib import coq_bytes

I64 = [0, 1, -1, 9, 10, -10, 255, 2 ** 31, 2 ** 32, 2 ** 63 - 1, -2 ** 63, -2 ** 63 + 1, 4294967297]
TRICKY = [b"", b"e", b":", b"i", b"l", b"d", b"0", b"1:", b"i1e", b"le", b"de", b"a", b"ab", b"abc", b"b",
          b"\x00", b"\xff", b"info", b"4:info", b"-", b"00"]


def rstr(rng, maxlen=8):
    r = rng.random()
    if r < 0.35:
        return rng.choice(TRICKY)
    n = rng.randrange(0, maxlen + 1)
    if r < 0.45:
        # strings that begin or end with ASCII whitespace / control bytes (nothing may trim them)
        core = bytes(rng.choice(b"ab:e1") for _ in range(n))
        ws = lambda: bytes(rng.choice(b" \t\n\r\x0b\x0c\x00") for _ in range(rng.choice([1, 1, 2])))
        return rng.choice([core + ws(), ws() + core, ws() + core + ws(), ws()])
    if r < 0.65:
        return bytes(rng.choice(b"0123456789:eild-ab") for _ in range(n))
    return bytes(rng.randrange(256) for _ in range(n))


def rint(rng):
    r = rng.random()
    if r < 0.4:
        return rng.choice(I64)
    if r < 0.7:
        return rng.randrange(-1000, 1000)
    return rng.randrange(-2 ** 63, 2 ** 63)


def rvalue(rng, depth=3):
    """values are ('i', n) | ('s', bytes) | ('l', [..]) | ('d', [(k, v)..]) with distinct keys"""
    r = rng.random()
    if depth <= 0 or r < 0.3:
        return ("i", rint(rng)) if rng.random() < 0.5 else ("s", rstr(rng))
    if r < 0.45:
        return ("s", rstr(rng, 20))
    if r < 0.7:
        return ("l", [rvalue(rng, depth - 1) for _ in range(rng.choice([0, 0, 1, 2, 3]))])
    keys = []
    for _ in range(rng.choice([0, 1, 2, 3, 4])):
        k = rstr(rng)
        if rng.random() < 0.3 and keys:  # keys that are prefixes of each other
            k = rng.choice(keys) + rstr(rng, 2)
        if k not in keys:
            keys.append(k)
    return ("d", [(k, rvalue(rng, depth - 1)) for k in keys])


def encode(v, rng=None, sort=True, lead0=0.0, shuffle=0.0):
    """canonical by default; with rng and lead0/shuffle > 0 produces legal non-canonical spellings"""
    t = v[0]
    if t == "i":
        return b"i%de" % v[1]
    if t == "s":
        return enc_str(v[1], rng, lead0)
    if t == "l":
        return b"l" + b"".join(encode(x, rng, sort, lead0, shuffle) for x in v[1]) + b"e"
    items = list(v[1])
    if sort:
        items.sort(key=lambda kv: kv[0])
    if rng is not None and rng.random() < shuffle:
        rng.shuffle(items)
    return b"d" + b"".join(enc_str(k, rng, lead0) + encode(x, rng, sort, lead0, shuffle) for k, x in items) + b"e"


def enc_str(s, rng=None, lead0=0.0):
    z = b""
    if rng is not None and rng.random() < lead0:
        z = b"0" * rng.randrange(1, 3)
    return z + b"%d:" % len(s) + s


def to_coq(v):
    """Gallina term; dictionaries sorted by key (the canonical map representative)"""
    t = v[0]
    if t == "i":
        return "(BInt (%d))" % v[1] if v[1] < 0 else "(BInt %d)" % v[1]
    if t == "s":
        return "(BStr %s)" % coq_bytes(v[1])
    if t == "l":
        return "(BList [%s])" % "; ".join(to_coq(x) for x in v[1])
    items = sorted(v[1], key=lambda kv: kv[0])
    return "(BDict [%s])" % "; ".join("(%s, %s)" % (coq_bytes(k), to_coq(x)) for k, x in items)


def to_tokens(v):
    t = v[0]
    if t == "i":
        return "i %d" % v[1]
    if t == "s":
        return "s %s" % (v[1].hex() or "-")
    if t == "l":
        return "l %d %s" % (len(v[1]), " ".join(to_tokens(x) for x in v[1]))
    return ("d %d %s" % (len(v[1]), " ".join("%s %s" % (k.hex() or "-", to_tokens(x)) for k, x in v[1]))).strip()


def impl_vals_to_coq(s):
    """harness rendering '[(BInt 1); (BStr #6162#)]' -> Gallina"""
    def rep(m):
        h = m.group(1)
        return coq_bytes(b"" if h == "-" else bytes.fromhex(h))
    return re.sub(r"#([0-9a-f\-]+)#", rep, s)


def impl_result_to_coq(s):
    s = s.strip()
    if s == "ERR":
        return "Err"
    if s == "PANIC":
        return "Panic"
    if s.startswith("OK "):
        return "(Ok %s)" % impl_vals_to_coq(s[3:])
    raise ValueError("bad result " + s[:60])


HUGE_LENGTHS = [b"9999999999999999999", b"18446744073709551615", b"9223372036854775808", b"18446744073709551616",
                b"99999999999999999999999"]


def mutate(rng, doc):
    if rng.random() < 0.1:
        # a string header announcing far more bytes than follow (the length must be checked against the input
        # before anything is sized by it)
        import re
        ms = list(re.finditer(rb"\d+:", doc))
        if ms:
            m = rng.choice(ms)
            return doc[:m.start()] + rng.choice(HUGE_LENGTHS) + doc[m.end() - 1:]
    b = bytearray(doc)
    r = rng.random()
    if r < 0.35 and b:
        return bytes(b[:rng.randrange(0, len(b))])          # truncation
    if r < 0.55 and b:
        del b[rng.randrange(len(b))]
        return bytes(b)
    if r < 0.8:
        b.insert(rng.randrange(len(b) + 1), rng.choice(b"0123456789:eild-+ x"))
        return bytes(b)
    if b:
        b[rng.randrange(len(b))] = rng.choice(b"0123456789:eild-")
    return bytes(b)
