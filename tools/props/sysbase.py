"""Shared by C01 and C02: end-to-end runs of the composed system."""
from driver import Case


def geometry(rng):
    pl = rng.choice([16384, 16384, 20000, 32768, 40000, 49152])
    k = rng.choice([1, 1, 2, 3])
    flens = [rng.choice([0, 1, pl - 1, pl, pl + 1, rng.randrange(1, 3 * pl)]) for _ in range(k)]
    if sum(flens) == 0:
        flens[0] = rng.randrange(1, 2 * pl)
    total = sum(flens)
    n = -(-total // pl)
    return pl, flens, n


class SysBase:
    harness_sub = "sys"
    harness_timeout = 1500
    harness_shards = 12
    coq_timeout = 600
    allowed_axioms = []
    model_targets = ["Pack.vo", "Corr/Sys.vo"]
    corr_name = "end-to-end composition (no model run: components are tied by the other correspondences)"
    classes = {}
    assumptions = []
    _offered = {}
    _sole = {}

    def mk(self, seed, pl, flens, peers, kind, offered, sole=None):
        line = "sys %d %d %s ; %s" % (seed, pl, ",".join(map(str, flens)), " ; ".join("peer %s %s" % (b, beh) for b, beh in peers))
        c = Case(line, kind, {"piece_length": pl, "files": flens, "peers": ["%s %s" % p for p in peers], "offered": offered})
        self._offered[line] = offered
        self._sole[line] = sole
        return c

    def coq_case(self, c, out):
        offered = "true" if self._offered[c.line] else "false"
        sole = self._sole.get(c.line)
        sole = "None" if sole is None else "(Some (%d, %d))" % tuple(sole)
        out = out.strip()
        if out in ("MANAGERPANIC", "BADTORRENT"):
            return "CSys %s %s [] None" % (offered, sole)
        f = dict(x.split("=", 1) for x in out.split())
        ex = {"SAME": "(Some true)", "DIFF": "(Some false)", "-": "None"}[f["extracted"]]
        b = lambda x: "true" if x else "false"
        have = "[%s]" % ";".join("true" if x == "H" else "false" for x in f["st"].split(","))
        if getattr(self, "needs_uploads", False):
            c.nontrivial = int(f["upok"]) > 0
        return "CSys %s %s %s (Some (mksobs %s %s %s %s %s %s %s %s %s %s %s %s %s))" % (
            offered, sole, have, b(f["allhave"] == "1"), ex, b("extractor" in f["spawned"]), b(f["mgr"] != "-"), f["taskpanics"],
            f["files"], f["badfiles"], f["havenofile"], f["adverts"], f["earlyadverts"], f["upok"], f["upbad"], f["upchoked"])

    def model_term(self, c):
        return "(%s)" % c.term
