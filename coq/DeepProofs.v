(* DeepProofs.v — the grammar (and the model decoder) accept well-formed nesting of every depth. *)
From Rdest Require Import Base BaseProofs BCodec BGrammar BProofs.
Open Scope N_scope.

Fixpoint nested (n : nat) : bvalue := match n with O => BList [] | S k => BList [nested k] end.
Fixpoint nested_text (n : nat) : bytes := match n with O => [ch_l; ch_e] | S k => [ch_l] ++ nested_text k ++ [ch_e] end.

Lemma nested_wf n : WfVal (nested_text n) (nested n).
Proof.
  induction n as [|n IH]; cbn [nested nested_text].
  - change [ch_l; ch_e] with ([ch_l] ++ [] ++ [ch_e]). constructor. constructor.
  - constructor. rewrite <- (app_nil_r (nested_text n)). constructor; [exact IH | constructor].
Qed.

Theorem nested_accepted n : decode (nested_text n) = Ok [nested n].
Proof.
  apply decode_complete. rewrite <- (app_nil_r (nested_text n)). constructor; [apply nested_wf | constructor].
Qed.

Lemma nested_text_shape n : nested_text n = repeat ch_l (S n) ++ repeat ch_e (S n).
Proof.
  induction n as [|n IH]; [reflexivity|]. cbn [nested_text]. rewrite IH.
  replace (repeat ch_e (S (S n))) with (repeat ch_e (S n) ++ [ch_e]) by (symmetry; apply repeat_cons).
  change (repeat ch_l (S (S n))) with ([ch_l] ++ repeat ch_l (S n)).
  rewrite <- !app_assoc. reflexivity.
Qed.
