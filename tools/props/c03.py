"""C03 — verified pieces are reassembled into exactly the described files."""
import itertools
from driver import Case
from extbase import ExtBase, geometry_case, PATHS


class C03(ExtBase):
    id = "C03"
    proof_target = "Props/C03.vo"
    theorems = ["C03_partition", "C03_extract", "C03_lengths", "C03_pinned_refuted"]
    coq_header = ("From Rdest Require Import Base BCodec Metainfo Extract Corr.MetaCase Corr.C03.\n"
                  "Open Scope N_scope.\nDefinition codes := codes03.\n")
    rule = ("torrent geometries: piece length 1..5 x file-length lists (0..7 each, up to 4 files; a seeded sample in the "
            "quick tier, all of them in the thorough tier) plus 16 KiB-scale geometries, single- and multi-file, nested "
            "directories, and inconsistent piece counts (for model/impl agreement only). The real extractor runs on a "
            "piece store built from the content; every output file is read back. Non-trivial: consistent geometries "
            "with at least one file; distinct lines.")
    statement_status = "full statement proved for the repaired extractor (C03_extract); the pinned code is refuted by C03_pinned_refuted"

    def corpus(self):
        return [geometry_case(self.tok(), b"n", 4, [1, 2, 7], [b"f1", b"f2", b"f3"], kind="corpus"),
                geometry_case(self.tok(), b"n", 4, [4, 0, 4], [b"a", b"b", b"c"], kind="corpus"),
                geometry_case(self.tok(), b"n", 3, [2, 0, 0, 5], [b"a", b"b", b"d/c", b"d/e"], kind="corpus"),
                geometry_case(self.tok(), b"solo", 4, [10], [b"solo"], single=True, kind="corpus"),
                geometry_case(self.tok(), b"solo", 4, [0], [b"solo"], single=True, kind="corpus")]

    def gen(self, rng, tier):
        cases = []
        allg = []
        for pl in range(1, 6):
            for k in range(1, 5):
                for lens in itertools.product(range(0, 8), repeat=k):
                    allg.append((pl, lens))
        if tier == "thorough":
            pick = allg
            self.exhaustive = True
        else:
            pick = rng.sample(allg, {"quick": 700, "search": 3000}.get(tier, 700))
        for pl, lens in pick:
            paths = PATHS[:len(lens)]
            single = len(lens) == 1 and rng.random() < 0.5
            cases.append(geometry_case(self.tok(), b"top", pl, list(lens), [b"top"] if single else paths, single=single,
                                       seed=rng.randrange(250)))
        # inconsistent piece counts: agreement of model and implementation only
        for _ in range({"quick": 40, "thorough": 400, "search": 100}.get(tier, 40)):
            pl = rng.randrange(1, 6)
            lens = [rng.randrange(0, 8) for _ in range(rng.randrange(1, 4))]
            total = sum(lens)
            n = max(0, -(-total // pl) + rng.choice([-1, 1, 2]))
            cases.append(geometry_case(self.tok(), b"top", pl, lens, PATHS[:len(lens)], npieces=n, kind="inconsistent",
                                       seed=rng.randrange(250)))
            cases[-1].nontrivial = False
        # block-scale geometries
        for _ in range({"quick": 4, "thorough": 30, "search": 6}.get(tier, 4)):
            pl = rng.choice([16384, 16384 * 2, 20000])
            lens = [rng.choice([0, 1, pl - 1, pl, pl + 1, rng.randrange(0, 3 * pl)]) for _ in range(rng.randrange(1, 4))]
            cases.append(geometry_case(self.tok(), b"big", pl, lens, PATHS[:len(lens)], kind="blockscale",
                                       seed=rng.randrange(250)))
        return cases


PROP = C03()
