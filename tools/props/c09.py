"""C09 — uploads return exactly the requested stored bytes, or nothing."""
from hndbase import *


def upload_scenario(rng, n, plens, outgoing):
    ev, _ = greet(rng, outgoing, n)
    stored = set()
    we_unchoked = False
    for _ in range(rng.choice([4, 8, 14])):
        r = rng.random()
        if r < 0.15:
            i = rng.randrange(n)
            if i not in stored:         # a piece file is written once (the client never rewrites one)
                ev.append(ev_store(i, bad=rng.random() < 0.1))
                stored.add(i)
        elif r < 0.3:
            b = rng.random() < 0.35          # True = we choke
            ev.append(ev_bown(b))
            we_unchoked = not b
        elif r < 0.38:
            ev.append(ev_msg(m_bitfield([True] * n), bf=rng.choice(["10", "11", "00"])))
            # the bitfield reply may unchoke (with_am_unchoked)
            if ev[-1].pol["bf"][0] == "1":
                we_unchoked = True
        elif r < 0.45:
            ev.append(ev_msg(random_peer_msg(rng, n, plens), **random_policy(rng, n, plens)))
        else:
            i = rng.randrange(n + 1) if rng.random() < 0.9 else rng.choice([2 ** 32 - 1, 2 ** 31])
            pl = plens[i] if i < n else 9
            b = rng.choice([0, 1, pl - 1, pl, pl + 1, BLOCK, 2 ** 32 - 1, 2 ** 32 - 2, 2 ** 31, max(0, pl - 4)])
            l = rng.choice([0, 1, 2, 4, pl, pl + 1, BLOCK, BLOCK + 1, 2 ** 32 - 1, max(0, pl - b)])
            b = max(0, min(b, 2 ** 32 - 1))
            l = max(0, min(l, 2 ** 32 - 1))
            # the manager allows the upload iff it has the peer unchoked and owns the piece
            allow = we_unchoked and i < n and i in stored
            ev.append(ev_msg(m_request(i, b, l), req=("LOAD:%d" % i) if allow else "IGN"))
    return ev[:2] + split_events(rng, ev[2:], 0.2)


class C09(HndBase):
    id = "C09"
    proof_target = "Props/C09.vo"
    theorems = ["C09_reply", "C09_manager", "C09_choke_drops", "C09_served_is_verified", "C09_loaded_stays_verified", "C09_store_stays_verified"]
    coq_header = ("From Rdest Require Import Base Consts Wire Manager Handler Corr.Hnd.\nOpen Scope N_scope.\n"
                  "Definition codes := codes09.\n")
    rule = ("upload histories on the real PeerHandler: pieces stored on disk (some truncated), our choke/unchoke decisions "
            "broadcast by the manager, block requests with boundary triples (index n, 2^32-1; begin/length 0, 1, len-1, len, "
            "len+1, 16384, 16385, 2^31, 2^32-1, sums that wrap 32 bits), piece switches; the manager-side answer is LOAD exactly "
            "when it has the peer unchoked and owns the piece. Oracle: each request is answered by nothing or by one Piece "
            "with the same index/offset and exactly the stored bytes, only while we have the peer unchoked, within the piece, "
            "at most 16 KiB, and the task never panics. End to end (part C09Sys): scripted remotes that download from the client while it downloads from seeders check every block they receive against the original content and the piece store. Non-trivial: histories with a request for a stored piece; distinct lines.")
    statement_status = "see Props/C09.v"

    def corpus(self):
        import random
        rng = random.Random(5)
        g = greet(rng, False, 2)[0]
        e1 = g + [ev_store(0), ev_bown(False), ev_msg(m_request(0, 0, 4), req="LOAD:0"), ev_msg(m_request(0, 2 ** 32 - 1, 2))]
        e2 = g + [ev_store(0), ev_bown(False), ev_msg(m_request(0, 0, 4), req="LOAD:0"), ev_bown(True), ev_msg(m_request(0, 1, 3))]
        return [self.case(Scenario(False, [9, 3], 41, e1, "corpus")), self.case(Scenario(False, [9, 3], 41, e2, "corpus"))]

    def gen(self, rng, tier):
        k = {"quick": 300, "thorough": 6000, "search": 1500}.get(tier, 300)
        cases = []
        for _ in range(k):
            n = rng.choice([1, 2, 3])
            plens = [rng.choice([1, 9, 20, 16384, 16390, 40000]) for _ in range(n)]
            outgoing = rng.random() < 0.5
            cases.append(self.case(Scenario(outgoing, plens, rng.randrange(1, 10 ** 6), upload_scenario(rng, n, plens, outgoing), "upload")))
        return cases


from mgrbase import MgrBase, rand_bits


class C09Mgr(MgrBase):
    """manager side of C09: Peer::handle_request after choke rotations (regular and optimistic slots)"""
    id = "C09"
    coq_header = ("From Rdest Require Import Base Consts Wire Manager Corr.Mgr.\nOpen Scope N_scope.\n"
                  "Definition codes := codes09m.\n")
    rule = ""

    def corpus(self):
        return []

    def gen(self, rng, tier):
        k = {"quick": 120, "thorough": 2500, "search": 600}.get(tier, 120)
        cases = []
        for _ in range(k):
            n = rng.choice([2, 3, 5])
            npeers = rng.choice([2, 5, 11, 12, 14])
            sts = [rng.choice(["H", "H", "M", "R1"]) for _ in range(n)]
            ops = ["add %d" % a for a in range(1, npeers + 1)] + ["setst " + ",".join(sts)]
            alive = list(range(1, npeers + 1))
            for a in alive:
                if rng.random() < 0.8:
                    ops.append("int %d" % a)
            for _ in range(rng.choice([2, 3, 5])):
                rates = ["%d:%d" % (a, rng.randrange(50)) for a in alive]
                rng.shuffle(rates)
                ops.append("rotate %s %s" % (",".join(rates), "?" if rng.random() < 0.5 else "-"))
                if rng.random() < 0.4:
                    ops.append("nint %d" % rng.choice(alive))
                for _ in range(rng.choice([2, 4, 6])):
                    ops.append("req %d %d" % (rng.choice(alive), rng.randrange(n + 1)))
            c = self.mk("raw", n, 4, 4 * n, ops, "manager-upload")
            cases.append(c)
        return cases


class C09Release(C09):
    """the same upload histories against a release build (wrapping arithmetic), model evaluated with ovf = false"""
    release = True
    ovf = "false"
    coq_header = ("From Rdest Require Import Base Consts Wire Manager Handler Corr.Hnd.\nOpen Scope N_scope.\n"
                  "Definition codes := codes09r.\n")

    def corpus(self):
        return [Case(c.line, "release-" + c.kind, c.info) if False else self._retag(c) for c in C09.corpus(self)]

    def gen(self, rng, tier):
        return [self._retag(c) for c in C09.gen(self, rng, "quick")]

    def _retag(self, c):
        c.kind = "release-" + c.kind
        return c


from sysbase import SysBase, geometry


class C09Sys(SysBase):
    """end to end: remotes that download FROM the client ('leech': own nothing, ask for every piece the client advertises as
    soon as it is unchoked, check every block received against the original content) next to the seeders the client
    downloads from -- the real Session, real tasks, real piece files written by real downloads and read back for upload"""
    id = "C09"
    needs_uploads = True          # non-trivial: at least one block was uploaded and checked
    coq_header = "From Rdest Require Import Base Corr.Sys.\nOpen Scope N_scope.\nDefinition codes := codes09s.\n"
    rule = ""

    def corpus(self):
        return [self.mk(21, 16384, [40000], [("111", "honest"), ("000", "leech 1")], "upload", True),
                self.mk(22, 20000, [30000, 9], [("11", "slow"), ("00", "leech 0"), ("00", "leech 1")], "upload", True)]

    def gen(self, rng, tier):
        k = {"quick": 24, "thorough": 400, "search": 80}.get(tier, 24)
        cases = []
        for _ in range(k):
            pl, flens, n = geometry(rng)
            seeders = rng.choice([1, 1, 2, 3])
            have = [[rng.random() < 0.6 for _ in range(n)] for _ in range(seeders)]
            for i in range(n):
                if not any(h[i] for h in have):
                    have[rng.randrange(seeders)][i] = True
            peers = [("".join("1" if x else "0" for x in h), rng.choice(["honest", "honest", "slow", "dup", "corrupt %d" % rng.randrange(2, 5)]))
                     for h in have]
            for _ in range(rng.choice([1, 1, 2, 3])):
                peers.append(("0" * n, "leech %d" % rng.choice([0, 1])))
            rng.shuffle(peers)
            cases.append(self.mk(rng.randrange(1, 10 ** 6), pl, flens, peers, "upload", False))
        return cases


PROP = C09()
PROP.parts = [PROP, C09Mgr(), C09Sys()]
PROP.release_parts = [C09Release()]
