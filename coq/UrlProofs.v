(* UrlProofs.v — C18: the percent-encoding of the info-hash decodes back to exactly the hash, and never
   contains a character that could end the parameter. *)
From Rdest Require Import Base BaseProofs BCodec Consts Url.
From Coq Require Import ZifyBool ZifyN ZifyNat.
Ltac Zify.zify_post_hook ::= Z.div_mod_to_equations.
Open Scope N_scope.

(* finite facts about single bytes / hex digits, checked by computation over the whole range *)
Definition below (n : nat) : list N := map N.of_nat (seq 0 n).
Lemma in_below n b : b < N.of_nat n -> In b (below n).
Proof. intros H. unfold below. apply in_map_iff. exists (N.to_nat b). split; [lia | apply in_seq; lia]. Qed.

Lemma unreserved_plain_all : forallb (fun b => negb (unreserved b) || (negb (b =? 43) && negb (b =? 37))) (below 256) = true.
Proof. vm_compute. reflexivity. Qed.
Lemma hex_roundtrip_all : forallb (fun x => match unhexd (hexd x) with Some y => y =? x | None => false end) (below 16) = true.
Proof. vm_compute. reflexivity. Qed.
Lemma ser_safe_all : forallb (fun b => forallb (fun c => negb (c =? ch_amp) && negb (c =? ch_eq) && negb (c =? ch_q) && negb (c =? 35))
                                                 (ser_byte b)) (below 256) = true.
Proof. vm_compute. reflexivity. Qed.

Lemma unreserved_plain b : b < 256 -> unreserved b = true -> b <> 43 /\ b <> 37.
Proof.
  intros Hb U. pose proof unreserved_plain_all as H. rewrite forallb_forall in H. specialize (H b (in_below 256 b Hb)).
  rewrite U in H. cbn [negb orb] in H. apply andb_true_iff in H. destruct H as [A B].
  apply negb_true_iff, N.eqb_neq in A, B. tauto.
Qed.
Lemma hex_roundtrip x : x < 16 -> unhexd (hexd x) = Some x.
Proof.
  intros Hx. pose proof hex_roundtrip_all as H. rewrite forallb_forall in H. specialize (H x (in_below 16 x Hx)).
  destruct (unhexd (hexd x)) as [y|]; [|discriminate]. apply N.eqb_eq in H. subst. reflexivity.
Qed.

Lemma decode_ser_byte b rest : b < 256 -> form_decode (ser_byte b ++ rest) = b :: form_decode rest.
Proof.
  intros Hb. unfold ser_byte. destruct (unreserved b) eqn:U.
  - destruct (unreserved_plain b Hb U) as [N43 N37]. cbn [app form_decode].
    apply N.eqb_neq in N43, N37. rewrite N43, N37. reflexivity.
  - destruct (N.eqb_spec b 32) as [->|N32]; [reflexivity|].
    cbn [app form_decode]. cbn [N.eqb Pos.eqb].
    rewrite !hex_roundtrip by (try apply N.mod_lt; try (apply N.div_lt_upper_bound); lia).
    f_equal. pose proof (N.div_mod b 16). lia.
Qed.

Theorem decode_serialize bs : Forall (fun b => b < 256) bs -> form_decode (byte_serialize bs) = bs.
Proof.
  induction 1 as [|b bs Hb _ IH]; [reflexivity|].
  cbn [byte_serialize flat_map]. fold (byte_serialize bs). rewrite decode_ser_byte by exact Hb. rewrite IH. reflexivity.
Qed.

(* the encoded hash cannot be cut short or confused with another parameter: no '&', '=', '?', '#' in it *)
Theorem serialize_safe bs : Forall (fun b => b < 256) bs ->
  forallb (fun c => negb (c =? ch_amp) && negb (c =? ch_eq) && negb (c =? ch_q) && negb (c =? 35)) (byte_serialize bs) = true.
Proof.
  induction 1 as [|b bs Hb _ IH]; [reflexivity|].
  cbn [byte_serialize flat_map]. fold (byte_serialize bs). rewrite forallb_app, IH, andb_true_r.
  pose proof ser_safe_all as H. rewrite forallb_forall in H. exact (H b (in_below 256 b Hb)).
Qed.
