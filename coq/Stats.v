(* Stats.v — executable mirror of the per-connection transfer statistics of src/peer_handler.rs (struct Stats and
   timeout_sync_stats): byte counters per 10 s interval, the two-interval window, the rates reported to the manager
   with PeerCmd::SyncStats (the "measured rate" the choke rotation ranks by).  usize = u64. *)
From Rdest Require Export Base Consts.
Open Scope N_scope.

Record stats := mkstats { st_down : list N; st_up : list N; st_unexp : N }.
Definition stats_new : stats := mkstats [0] [0] 0.

Definition two32 : N := 4294967296.
Definition two64s : N := 18446744073709551616.

(* Repair flag of Stats::{downloaded,uploaded}_rate (sum in u64, saturating), pinned by the correspondence. *)
Definition Stats_rate_sum_u64 : bool := true.

(* self.downloaded[0] += amount *)
Definition bump (ovf : bool) (q : list N) (x : N) : result (list N) :=
  match q with
  | [] => Panic                                     (* index out of bounds: the queue is never empty *)
  | h :: r => let s := h + x in
              if s <? two64s then Ok (s :: r) else if ovf then Panic else Ok (s mod two64s :: r)
  end.

Inductive sop := SDown (x : N) | SUp (x : N) | SUnexpected | STick.

Section WithFlag.
Variable u64 : bool.      (* Stats_rate_sum_u64, or false for the pinned code in the refutation theorem *)

(* sum::<u32>() of the values cast to u32, divided by the queue length; None until the window is full *)
Definition rate (ovf : bool) (q : list N) : result (option N) :=
  if negb (len q =? peer_handler_MAX_STATS_QUEUE_SIZE) then Ok None
  else if u64 then
    (* repaired: sum in u64 (two values below 2^64 each: at most 2^65; the code adds with saturation), mean, clamp *)
    let s := fold_left (fun acc d => N.min (acc + d) (two64s - 1)) q 0 in
    Ok (Some (N.min (s / len q) (two32 - 1)))
  else
    match fold_left (fun acc d => do a <- acc;
                                  let s := a + d mod two32 in
                                  if s <? two32 then Ok s else if ovf then Panic else Ok (s mod two32)) q (Ok 0) with
    | Ok s => Ok (Some (s / len q))
    | Err => Err | Panic => Panic | OutOfFuel => OutOfFuel
    end.

Definition shift (s : stats) : stats :=
  let full := len (st_down s) =? peer_handler_MAX_STATS_QUEUE_SIZE in
  let cut (q : list N) := if full then removelast q else q in
  mkstats (0 :: cut (st_down s)) (0 :: cut (st_up s)) 0.

(* one operation; a tick reports (downloaded rate, uploaded rate, unexpected blocks) when the window is full *)
Definition sstep (ovf : bool) (s : stats) (o : sop) : result (stats * option (option N * option N * N)) :=
  match o with
  | SDown x => do q <- bump ovf (st_down s) x; Ok (mkstats q (st_up s) (st_unexp s), None)
  | SUp x => do q <- bump ovf (st_up s) x; Ok (mkstats (st_down s) q (st_unexp s), None)
  | SUnexpected =>
      let u := st_unexp s + 1 in
      if u <? two64s then Ok (mkstats (st_down s) (st_up s) u, None)
      else if ovf then Panic else Ok (mkstats (st_down s) (st_up s) (u mod two64s), None)
  | STick =>
      if len (st_down s) =? peer_handler_MAX_STATS_QUEUE_SIZE then
        do d <- rate ovf (st_down s); do u <- rate ovf (st_up s);
        Ok (shift s, Some (d, u, st_unexp s))
      else Ok (shift s, None)
  end.

Fixpoint srun_with (ovf : bool) (s : stats) (ops : list sop) (acc : list (option N * option N * N))
  : result (list (option N * option N * N)) :=
  match ops with
  | [] => Ok acc
  | o :: r => do x <- sstep ovf s o;
              srun_with ovf (fst x) r (match snd x with Some rep => acc ++ [rep] | None => acc end)
  end.
End WithFlag.
Definition srun := srun_with Stats_rate_sum_u64.
