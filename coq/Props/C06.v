(* C06 — peer stream decoding is total, segmentation-independent and bounded. *)
From Rdest Require Import Base Consts Wire Conn ConnProofs Manager Handler HandlerProofs.
Open Scope N_scope.

(* no byte sequence makes the decoder panic (Frame::parse and Connection::parse_frame) *)
Theorem C06_total : forall buf, conn_parse buf <> PCrash /\ parse_frame buf <> PPanic.
Proof.
  intros buf. split; [apply conn_parse_total; reflexivity|].
  pose proof (parse_frame_bounds buf). destruct (parse_frame buf); try discriminate. contradiction.
Qed.

(* a peer can never make the client wait with one maximum-size frame (4 + 65536 bytes) or more buffered;
   what a single read adds on top is a run-time quantity and is not claimed *)
Theorem C06_bounded : forall buf, conn_parse buf = PWait -> len buf < 4 + 65536.
Proof. exact conn_wait_bounded. Qed.

(* every delivered or skipped message consumes bytes: recv_frame's loop always makes progress *)
Theorem C06_progress : forall buf, match conn_parse buf with
                                   | PDeliver _ rest | PSkip rest => len rest < len buf
                                   | _ => True
                                   end.
Proof. exact conn_parse_progress. Qed.

(* a receive error (malformed length, oversized frame, truncated stream) ends the peer task *)
Theorem C06_error_terminates : forall sha1 cf disk ovf s r, hstep sha1 cf disk ovf s ERecvErr r = HEnd s [] false.
Proof. reflexivity. Qed.

(* full statement kept visible (segmentation independence):
     forall reads, fst (fst (run_conn reads)) = fst (fst (spec_stream (concat reads)))
   not proved in Coq yet; it is decided per prefix by the correspondence (all 2^(n-1) cuts of short streams). *)

(* the pinned decoder is refuted: an unknown id whose body has not arrived crashed the connection *)
Example C06_nonvacuous : parse_frame [0;0;0;5;9;0] = PUnknown 9 9 /\ conn_parse [0;0;0;5;9;0] = PWait
                         /\ run_conn [[0;0;0;5;9;0]; [1;2;3;0;0;0;1;0]] = ([Choke], RPending, []).
Proof. vm_compute. repeat split. Qed.

Print Assumptions C06_total.
Print Assumptions C06_bounded.
Print Assumptions C06_progress.
Print Assumptions C06_error_terminates.
