"""C01 — only hash-verified data is ever stored, advertised or assembled."""
from sysbase import SysBase, geometry


class C01(SysBase):
    id = "C01"
    proof_target = "Props/C01.vo"
    theorems = ["C01_writes_verified", "C01_done_after_write", "C01_mismatch_discards", "C01_only_done_makes_have", "C01_owned_stays", "C01_pair_invariant", "C01_marked_is_verified", "C01_env_steps", "C01_one_task_per_address", "C01_tracker_answer_one_task_per_address"]
    coq_header = "From Rdest Require Import Base Corr.Sys.\nOpen Scope N_scope.\nDefinition codes := codes01.\n"
    rule = ("end-to-end runs (real Session, real PeerHandler tasks, real piece files) against 1-4 scripted remote peers of which "
            "most misbehave: corrupt every k-th block, answer for another offset/piece, duplicate every block, send garbage, "
            "disconnect after n messages, alongside honest ones; random segmentation and delays. Every Have / Bitfield bit a "
            "remote receives is checked against the piece store at that instant; afterwards every *.piece file is re-hashed. "
            "Oracle: no file that is not verified data the torrent lists, no piece owned without its file, nothing advertised "
            "early, no panic. Non-trivial: runs with at least one misbehaving peer; distinct lines.")
    statement_status = "see Props/C01.v"

    def corpus(self):
        return [self.mk(9, 16384, [40000], [("111", "corrupt 1")], "corpus", False),
                self.mk(10, 16384, [40000], [("111", "corrupt 2"), ("111", "honest")], "corpus", True),
                self.mk(11, 20000, [30000, 9], [("11", "wrongoffset 1"), ("11", "dup")], "corpus", False),
                self.mk(12, 32768, [65536], [("11", "swap")], "corpus", False),
                self.mk(13, 49152, [98304, 5], [("111", "swap"), ("111", "honest")], "corpus", False)]

    def gen(self, rng, tier):
        k = {"quick": 40, "thorough": 800, "search": 150}.get(tier, 40)
        cases = []
        for _ in range(k):
            pl, flens, n = geometry(rng)
            npeers = rng.choice([1, 2, 3, 4])
            peers = []
            for p in range(npeers):
                bits = "".join("1" if rng.random() < 0.7 else "0" for _ in range(n))
                beh = rng.choice(["corrupt %d" % rng.randrange(1, 4), "wrongoffset %d" % rng.randrange(1, 3), "dup", "swap", "swap",
                                  "garbage %d" % rng.randrange(1, 6), "dropafter %d" % rng.randrange(1, 9), "honest", "slow"])
                peers.append((bits, beh))
            if rng.random() < 0.3:        # a remote that downloads from the client meanwhile (reads the stored pieces back)
                peers.append(("0" * n, "leech %d" % rng.choice([0, 1])))
            cases.append(self.mk(rng.randrange(1, 10 ** 6), pl, flens, peers, "adversarial", False))
        return cases


from mgrbase import MgrBase, protocol_scenario


class C01Mgr(MgrBase):
    """manager side of C01: pieces become owned only by the PieceDone of their assignee; the extractor is started only
    when every piece is owned -- histories with duplicate completions (end-game, in-flight blocks of a choked peer),
    kills and late joiners on the real Session"""
    id = "C01"
    coq_header = ("From Rdest Require Import Base Consts Wire Manager Corr.Mgr.\nOpen Scope N_scope.\n"
                  "Definition codes := codes01m.\n")
    rule = ""

    def corpus(self):
        # two peers complete the same piece (end-game duplicate), then one leaves while piece 1 is unfinished
        ops = ["add 1", "init 1", "bf 1 11", "add 2", "init 2", "bf 2 11", "unchoke 1", "unchoke 2", "done 1", "done 2", "done 1",
               "kill 2", "done 1", "kill 1"]
        # candidates left over from one tracker answer (more listed than free slots) are contacted at the next one
        left = sum([["add %d" % k, "init %d" % k, "bf %d 11" % k] for k in range(1, 9)], []) + ["tresp 31,32,33,34", "tresp 35", "tresp -"]
        return [self.mk("prod", 2, 4, 7, ops, "completion"), self.mk("prod", 2, 4, 7, left, "tracker-leftovers")]

    def gen(self, rng, tier):
        k = {"quick": 200, "thorough": 5000, "search": 1200}.get(tier, 200)
        w = {"unchoke": 5, "choke": 2, "have": 1, "done": 10, "cancel": 1, "kill": 2, "join": 2, "bf": 1, "bfsparse": 3, "nint": 1, "tresp": 2, "accept": 2}
        cases = []
        for _ in range(k):
            n = rng.choice([1, 2, 2, 3, 4])
            pl = 4
            total = pl * n - rng.randrange(0, pl)
            ops = protocol_scenario(rng, rng.choice([2, 2, 3]), n, rng.choice([10, 16, 24]), weights=w)
            cases.append(self.mk("prod", n, pl, total, ops, "completion"))
        return cases


from hndbase import HndBase, Scenario
from c10 import download_scenario


class C01Hnd(HndBase):
    """task side of C01: download histories on one real PeerHandler (blocks in any order, duplicated, for other pieces,
    corrupted; chokes mid-piece; several pieces in a row), the harness as remote peer and as manager.  Every file the task
    writes is re-hashed; at the instant a PieceDone reaches the manager side a newly written, complete, verified piece
    file must exist (DONE-EARLY otherwise)"""
    id = "C01"
    coq_header = ("From Rdest Require Import Base Consts Wire Manager Handler Corr.Hnd.\nOpen Scope N_scope.\n"
                  "Definition codes := codes01h.\n")
    rule = ""

    def corpus(self):
        import random
        return [self.case(Scenario(False, pl, 300 + k, download_scenario(random.Random(k), pl, 300 + k, False), "task-corpus"))
                for k, pl in enumerate([[1], [16384], [40000, 7]])]

    def gen(self, rng, tier):
        k = {"quick": 60, "thorough": 1500, "search": 300}.get(tier, 60)
        cases = []
        for _ in range(k):
            n = rng.choice([1, 2, 3])
            plens = [rng.choice([1, 5, 16383, 16384, 16385, 20000, 32768, 40000]) for _ in range(n)]
            seed = rng.randrange(1, 10 ** 6)
            outgoing = rng.random() < 0.5
            cases.append(self.case(Scenario(outgoing, plens, seed, download_scenario(rng, plens, seed, outgoing), "task-download")))
        return cases


PROP = C01()
PROP.parts = [PROP, C01Mgr(), C01Hnd()]
