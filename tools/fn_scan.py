"""Enumerate the functions of /repo's sources (file -> ['Type::name' | 'name']); shared by gen_consts.py and the
one-off generator of tools/fn_map.json."""
import os, re


def scan(repo):
    out = {}
    for root, _, files in os.walk(os.path.join(repo, "src")):
        for f in sorted(files):
            if not f.endswith(".rs"):
                continue
            p = os.path.join(root, f)
            src = open(p).read()
            src = re.sub(r"//[^\n]*", "", src)
            src = re.sub(r"/\*.*?\*/", "", src, flags=re.S)
            spans = []
            for m in re.finditer(r"^impl(?:<[^>]*>)?\s+(?:(\w+)(?:<[^>]*>)?\s+for\s+)?(\w+)[^{;]*\{", src, re.M):
                depth, i = 0, m.end() - 1
                while i < len(src):
                    if src[i] == "{":
                        depth += 1
                    elif src[i] == "}":
                        depth -= 1
                        if depth == 0:
                            break
                    i += 1
                spans.append((m.start(), i, (m.group(1) + " for " if m.group(1) else "") + m.group(2)))
            names = []
            for m in re.finditer(r"\bfn\s+(\w+)", src):
                owner = None
                for a, b, n in spans:
                    if a <= m.start() <= b:
                        owner = n
                names.append((owner + "::" if owner else "") + m.group(1))
            rel = os.path.relpath(p, repo)
            out[rel] = sorted(set(names))
    return out
