(* Observations of end-to-end runs of the composed system (real Session, real PeerHandler tasks, scripted
   remote peers, real Extractor): the oracles of C01 and C02.  The components are tied to their models by
   the other correspondences; here only the implementation's behaviour is judged. *)
From Rdest Require Import Base.
Open Scope N_scope.

Record sobs := mksobs {
  so_all_have : bool; so_extracted_same : option bool; so_extractor_spawned : bool;
  so_manager_failed : bool; so_task_panics : N; so_files : N; so_bad_files : N; so_have_without_file : N;
  so_adverts : N; so_early_adverts : N;
  (* what 'leech' remotes received: blocks that are exactly the requested range of the original content; anything else
     (unrequested, other bytes, a piece whose verified file does not exist at that moment); blocks that arrived after a Choke and before the next Unchoke *)
  so_up_ok : N; so_up_bad : N; so_up_choked : N
}.
(* offered: every piece is offered by at least one peer that follows the protocol and stays *)
(* sole: the scenario has a piece whose only staying holder is one honest peer (generator's flag), with how that peer
   makes the piece known: 0 = in its bitfield, 1 = by a Have sent later, unchoking only when asked;
   have: the observed final statuses (true = Have) *)
Inductive case := CSys (offered : bool) (sole : option (N * N)) (have : list bool) (o : option sobs).     (* o = None: the manager panicked *)

(* C01: whatever the peers did, only verified data the torrent lists is on disk, a piece counts as owned only
   with its file present, nothing is advertised before that; no panic *)
Definition o01 (c : case) : bool :=
  match c with
  | CSys _ _ _ None => false
  | CSys _ _ _ (Some o) =>
      (so_bad_files o =? 0) && (so_have_without_file o =? 0) && (so_early_adverts o =? 0)
      && (so_task_panics o =? 0) && negb (so_manager_failed o)
  end.
(* C02: an honest swarm offering every piece leads to a complete, identical download, without crash or hang *)
Definition o02 (c : case) : bool :=
  match c with
  | CSys _ _ _ None => false
  | CSys offered _ _ (Some o) =>
      (so_task_panics o =? 0) && negb (so_manager_failed o) &&
      (negb offered || (so_all_have o && so_extractor_spawned o && match so_extracted_same o with Some true => true | _ => false end))
      && (negb (so_all_have o) || match so_extracted_same o with Some true => true | _ => false end)
  end.
(* C09, end to end: whatever a remote that downloads from the client received is exactly what it asked for, out of the
   verified content; nothing crashed.  (The end-to-end runs handle peer commands only -- no choke rotation -- so the client
   never chokes a leech there: so_up_choked = 0 is kept as a sanity clause; "only while unchoked" is the business of the
   task and manager parts of C09.) *)
Definition o09 (c : case) : bool :=
  match c with
  | CSys _ _ _ None => false
  | CSys _ _ _ (Some o) =>
      (so_up_bad o =? 0) && (so_up_choked o =? 0) && (so_task_panics o =? 0) && negb (so_manager_failed o)
  end.
Definition codes09s (cs : list case) : list N := map (fun c => if o09 c then 0 else 2) cs.
Definition codes01 (cs : list case) : list N := map (fun c => if o01 c then 0 else 2) cs.
(* known-finding classes of C02: nothing crashed and exactly the sole-holder's piece is what is still missing, and
   1 (sole-holder-idle-after-reserver-left): the holder advertised it in its bitfield and the torrent has at least
     eleven pieces (more than ten were missing, no end-game);
   2 (sole-holder-have-while-reserved): the holder announced it by Have and unchokes only when asked *)
Definition class02 (c : case) : N :=
  match c with
  | CSys _ (Some (p, how)) have (Some o) =>
      if (so_task_panics o =? 0) && negb (so_manager_failed o)
         && list_eqb Bool.eqb have (map (fun i => negb (N.of_nat i =? p)) (seq 0 (length have)))
      then (if how =? 1 then 2 else if 11 <=? len have then 1 else 0) else 0
  | _ => 0
  end.
Definition codes02 (cs : list case) : list N := map (fun c => if o02 c then 0 else 2 + 4 * class02 c) cs.
