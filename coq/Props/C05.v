(* C05 — the info-hash is the SHA-1 of the exact info value of the file.
   SHA-1 is uninterpreted: the model records the bytes that are hashed
   (m_hash_input); the harness checks hash = SHA-1(those bytes) with hashlib. *)
From Coq Require Import String.
From Rdest Require Import Base BCodec DeepFinder Metainfo InfoSpec MetaProofs.
Open Scope N_scope.

(* FULL STATEMENT (false of the code, see the refutations below):
     forall doc m vs i, metainfo_of doc = Ok m -> decode doc = Ok vs ->
       selected_index doc vs 0 = Some i -> info_span doc i = Some (m_hash_input m).   *)

(* what is hashed is what DeepFinder::find_first("4:info") returns on the whole document *)
Theorem C05_hash_input : forall doc m, metainfo_of doc = Ok m ->
  find_first key_info_raw doc = Some (m_hash_input m).
Proof. intros doc m H. destruct (metainfo_faithful doc m H) as (vs & d & _ & _ & _ & HH). exact HH. Qed.

Definition hashed_span_ok (doc : bytes) : bool :=
  match metainfo_of doc, decode doc with
  | Ok m, Ok vs => match selected_index doc vs 0 with
                   | Some i => match info_span doc i with
                               | Some sp => bytes_eqb sp (m_hash_input m)
                               | None => false
                               end
                   | None => false
                   end
  | _, _ => false
  end.

(* the three known-finding classes, each with its witness (replayed on the
   implementation by the correspondence corpus) *)
Theorem C05_refuted_nested_info : is_ok (metainfo_of (hx "64313a6164343a696e666f69316565383a616e6e6f756e6365333a55524c343a696e666f64343a6e616d65313a6131323a7069656365206c656e677468693465363a70696563657332303a4141414141424242424243434343434444444444363a6c656e6774686935656565")) = true /\ hashed_span_ok (hx "64313a6164343a696e666f69316565383a616e6e6f756e6365333a55524c343a696e666f64343a6e616d65313a6131323a7069656365206c656e677468693465363a70696563657332303a4141414141424242424243434343434444444444363a6c656e6774686935656565") = false.
Proof. split; vm_compute; reflexivity. Qed.
Theorem C05_refuted_duplicate_info : is_ok (metainfo_of (hx "64383a616e6e6f756e6365333a55524c343a696e666f64343a6e616d65313a6131323a7069656365206c656e677468693465363a70696563657332303a4141414141424242424243434343434444444444363a6c656e67746869356565343a696e666f64343a6e616d65313a6231323a7069656365206c656e677468693465363a70696563657332303a4141414141424242424243434343434444444444363a6c656e6774686935656565")) = true /\ hashed_span_ok (hx "64383a616e6e6f756e6365333a55524c343a696e666f64343a6e616d65313a6131323a7069656365206c656e677468693465363a70696563657332303a4141414141424242424243434343434444444444363a6c656e67746869356565343a696e666f64343a6e616d65313a6231323a7069656365206c656e677468693465363a70696563657332303a4141414141424242424243434343434444444444363a6c656e6774686935656565") = false.
Proof. split; vm_compute; reflexivity. Qed.
Theorem C05_refuted_truncated : is_ok (metainfo_of (hx "64383a616e6e6f756e6365333a55524c343a696e666f64343a6e616d65313a6131323a7069656365206c656e677468693465363a70696563657332303a4141414141424242424243434343434444444444363a6c656e677468693565")) = true /\ hashed_span_ok (hx "64383a616e6e6f756e6365333a55524c343a696e666f64343a6e616d65313a6131323a7069656365206c656e677468693465363a70696563657332303a4141414141424242424243434343434444444444363a6c656e677468693565") = false.
Proof. split; vm_compute; reflexivity. Qed.

(* PARTIAL (not proved in general): outside those classes the hashed bytes are the
   exact span.  Here: one non-trivial instance (extra keys before and after info,
   non-canonical key order and a leading-zero length inside info, trailing data). *)
Example C05_instance : hashed_span_ok (hx "64373a636f6d6d656e74343a74657874383a616e6e6f756e6365333a55524c343a696e666f64363a6c656e677468693565343a6e616d65313a6131323a7069656365206c656e677468693465363a7069656365733032303a414141414142424242424343434343444444444465333a7a7a7a6c6931656565353a747261696c") = true.
Proof. vm_compute. reflexivity. Qed.

Print Assumptions C05_hash_input.
Print Assumptions C05_refuted_nested_info.
Print Assumptions C05_refuted_duplicate_info.
Print Assumptions C05_refuted_truncated.
