(* Correspondence for C06 (stream decoding): chunks written to the real Connection one at a time,
   recv_frame called until it is pending after each. *)
From Rdest Require Import Base Consts Wire Conn WireSpec.
Open Scope N_scope.

(* how recv_frame left off after a chunk: pending with n bytes buffered, closed, error, crash *)
Inductive term := TPending (n : N) | TClosed | TErr | TCrash.
Inductive case := CConn (chunks : list bytes) (obs : list (list msg * term)).   (* [] chunk = end of stream *)

Definition term_eqb (a b : term) : bool :=
  match a, b with
  | TPending x, TPending y => x =? y
  | TClosed, TClosed | TErr, TErr | TCrash, TCrash => true
  | _, _ => false
  end.

(* model: feed the chunks one at a time; after each, drain *)
Fixpoint model_run (buf : bytes) (chunks : list bytes) (obs : list (list msg * term)) : bool :=
  match chunks, obs with
  | [], [] => true
  | ch :: cs, (ms, t) :: os =>
      let '(got, r, buf') := drain (S (length buf + length ch + 2)) buf [ch] [] in
      list_eqb msg_eqb got ms &&
      match r, t with
      | RPending, TPending n => (n =? len buf') && model_run buf' cs os
      | RClosed, TClosed | RErr, TErr | RCrash, TCrash => match os with [] => true | _ => false end
      | _, _ => false
      end
  | _, _ => false
  end.

(* oracle: after every prefix of the stream, exactly the messages of that prefix have been delivered
   (independently of the cuts), the remainder is what is buffered, nothing crashes; a malformed
   length / oversized frame / truncated stream ends the connection *)
Fixpoint oracle_run (seen : bytes) (delivered : list msg) (chunks : list bytes) (obs : list (list msg * term)) : bool :=
  match chunks, obs with
  | [], [] => true
  | ch :: cs, (ms, t) :: os =>
      let eof := match ch with [] => true | _ => false end in
      let seen' := seen ++ ch in
      let delivered' := delivered ++ ms in
      let '(want, sr, rest) := spec_stream seen' in
      list_eqb msg_eqb delivered' want &&
      match sr with
      | SBad => match t with TErr => match os with [] => true | _ => false end | _ => false end
      | SMore =>
          if eof then match t, rest with
                      | TClosed, [] => true
                      | TErr, _ :: _ => true
                      | _, _ => false
                      end
          else match t with
               | TPending n => (n =? len rest) && (n <? 4 + 65536) && oracle_run seen' delivered' cs os
               | _ => false
               end
      end
  | _, _ => false
  end.

(* an independent reading of one family of streams, not built from the model's parse_frame: a sequence of complete
   frames (4-byte length L with 1 <= L <= 65536, then L bytes) none of whose ids is one of the nine BEP3 ids 0..8 (a
   length of at most 65536 cannot begin like a handshake, whose first byte is 19).  Such messages "with unknown ids are skipped": nothing is
   delivered, nothing stays buffered, the connection stays up *)
Fixpoint all_unknown_frames (fuel : nat) (s : bytes) : bool :=
  match fuel with
  | O => false
  | S f =>
      match s with
      | [] => true
      | a :: b :: c :: d :: id :: _ =>
          let L := ((a * 256 + b) * 256 + c) * 256 + d in       (* nested ifs: vm_compute is call-by-value *)
          if (1 <=? L) && (L <=? 65536) && negb (id <=? 8) then
            if 4 + L <=? len s then all_unknown_frames f (skipn (N.to_nat (4 + L)) s) else false
          else false
      | _ => false
      end
  end.
Fixpoint unknown_oracle (seen : bytes) (chunks : list bytes) (obs : list (list msg * term)) : bool :=
  match chunks, obs with
  | ch :: cs, (ms, t) :: os =>
      let seen' := seen ++ ch in
      (if all_unknown_frames (S (length seen')) seen'
       then match ch, ms, t with
            | [], [], _ => true
            | _ :: _, [], TPending 0 => true
            | _, _, _ => false
            end
       else true) &&
      unknown_oracle seen' cs os
  | _, _ => true
  end.

(* The general form of that independent reading, for every stream.  The consumed part of the stream (everything but what
   the decoder reports as still buffered) is cut into tokens by the length prefix alone -- 68 bytes where a handshake
   begins ("\x13Bit" + "T"), 4 + L bytes otherwise -- and must consist of whole tokens; token by token, in order: a
   keep-alive, a handshake or a frame with one of the nine ids is backed by the next delivered message, which it encodes
   by the BEP3 layout of WireSpec.v (reserved handshake bytes free); a frame with any other id is backed by nothing; no
   message is delivered that no token backs.  What stays buffered is not a complete token. *)
Definition token_len (s : bytes) : option (N * bool) :=       (* (length, is a handshake); None: too few bytes to decide *)
  match s with
  | a :: b :: c :: d :: rest =>
      let L := ((a * 256 + b) * 256 + c) * 256 + d in
      if L =? 0 then Some (4, false)
      else match rest with
           | [] => None
           | id :: _ => if (L =? 323119476) && (id =? 84) then Some (68, true) else Some (4 + L, false)
           end
  | _ => None
  end.
Definition handshake_token_ok (m : msg) (t : bytes) : bool :=
  match m with
  | Handshake h p => bytes_eqb (firstn 20 t) (19 :: pstr) && bytes_eqb (skipn 28 t) (h ++ p) && (len h =? 20) && (len p =? 20)
  | _ => false
  end.
(* whole = true: s must consist of whole tokens and ms be exactly the messages they back (the consumed part of a pending
   stream); whole = false: the tokens at the front of s must back ms in order, whatever follows (what was delivered before
   an error or the end of the stream) *)
Fixpoint consumed_ok (whole : bool) (fuel : nat) (s : bytes) (ms : list msg) : bool :=
  match fuel with
  | O => false
  | S f =>
      match s, ms with
      | [], [] => true
      | [], _ :: _ => false
      | _ :: _, [] => if whole then (match token_len s with
                                     | Some (tl, hs) =>
                                         if len s <? tl then false else
                                         (* only frames that back nothing may remain *)
                                         match firstn (N.to_nat tl) s with
                                         | _ :: _ :: _ :: _ :: id :: _ => negb hs && negb (id <=? 8) && consumed_ok whole f (skipn (N.to_nat tl) s) []
                                         | _ => false
                                         end
                                     | None => false
                                     end)
                      else true
      | _ :: _, m :: ms' =>
          match token_len s with
          | None => false
          | Some (tl, hs) =>
              if len s <? tl then false else
              let t := firstn (N.to_nat tl) s in
              let s' := skipn (N.to_nat tl) s in
              let known := match t with
                           | _ :: _ :: _ :: _ :: id :: _ => hs || (id <=? 8)
                           | _ => true                       (* keep-alive *)
                           end in
              if known then (if hs then handshake_token_ok m t else bep3b m t) && consumed_ok whole f s' ms'
              else consumed_ok whole f s' ms
          end
      end
  end.
Definition incomplete (rest : bytes) : bool :=
  match token_len rest with None => true | Some (tl, _) => len rest <? tl end.
Fixpoint token_oracle (seen : bytes) (delivered : list msg) (chunks : list bytes) (obs : list (list msg * term)) : bool :=
  match chunks, obs with
  | ch :: cs, (ms, t) :: os =>
      let seen' := seen ++ ch in
      let delivered' := delivered ++ ms in
      match t with
      | TPending n =>
          if len seen' <? n then false else
          let k := N.to_nat (len seen' - n) in
          consumed_ok true (S (length seen')) (firstn k seen') delivered' && incomplete (skipn k seen')
          && token_oracle seen' delivered' cs os
      | _ => consumed_ok false (S (length seen')) seen' delivered'
      end
  | _, _ => true
  end.

Definition code (c : case) : N :=
  match c with
  | CConn chunks obs =>
      (if model_run [] chunks obs then 0 else 1) +
      (if oracle_run [] [] chunks obs && unknown_oracle [] chunks obs && token_oracle [] [] chunks obs then 0 else 2)
  end.
Definition codes (cs : list case) : list N := map code cs.
