(* C01 — only hash-verified data is ever stored, advertised or assembled. *)
From Rdest Require Import Base Consts Wire Manager MgrProofs Handler HandlerProofs PairProofs.
Open Scope N_scope.

(* connection task, for every state, event (any frame a peer can send, any broadcast, any timer) and manager
   answer: whatever it writes to the piece store hashes to its file name ... *)
Theorem C01_writes_verified : forall sha1 cf disk ovf s ev r h d,
  In (AWrite h d) (acts_of (hstep sha1 cf disk ovf s ev r)) -> bytes_eqb (sha1 d) h = true.
Proof. exact writes_verified. Qed.

(* ... a piece is reported done only right after such a write ... *)
Theorem C01_done_after_write : forall sha1 cf disk ovf s ev r,
  In (ACmd KPieceDone) (acts_of (hstep sha1 cf disk ovf s ev r)) ->
  exists h d pre post, acts_of (hstep sha1 cf disk ovf s ev r) = pre ++ AWrite h d :: ACmd KPieceDone :: post /\ bytes_eqb (sha1 d) h = true.
Proof. intros. apply done_after_write; [reflexivity | assumption]. Qed.

(* ... and assembled data that fails the hash is discarded: nothing written, nothing reported, the task ends *)
Theorem C01_mismatch_discards : forall sha1 cf disk ovf s rx i b blk reply,
  h_hs_done s = true -> h_rx s = Some rx -> is_requested rx i b blk = true -> rx_left rx = [] ->
  filter (fun bl => negb ((fst bl =? b) && (snd bl =? len blk))) (rx_requested rx) = [] ->
  bytes_eqb (sha1 (put_block (rx_buff rx) b blk)) (rx_hash rx) = false ->
  exists s', hstep sha1 cf disk ovf s (EFrame (Piece i b blk)) reply = HEnd s' [] false.
Proof. exact mismatch_discards. Qed.

(* manager: a piece becomes owned only through PieceDone from the peer it was assigned to, and stays owned *)
Theorem C01_only_done_makes_have : forall m c pick m' r bc sp i, mstep m c pick = Ok (m', r, bc, sp) ->
  ~ have_at (m_status m) i -> have_at (m_status m') i ->
  exists a p, c = CPieceDone a /\ pget (m_peers m) a = Some p /\ p_piece_index p = Some (N.of_nat i).
Proof. exact only_done_makes_have. Qed.
Theorem C01_owned_stays : forall m c pick m' r bc sp i, mstep m c pick = Ok (m', r, bc, sp) ->
  have_at (m_status m) i -> have_at (m_status m') i.
Proof. exact have_absorbing. Qed.

(* THE LINK between the two: task and manager composed for one peer address a.  The manager handles the commands an
   event makes the task send in order (FIFO channel), the one exchange with an answer gets the manager's actual
   answer; steps for other addresses, choke rotations, tracker answers, disconnects of others interleave freely
   (EnvKeeps: proved for mstep at other addresses, change_conn_state, handle_tracker_resp).  In every reachable
   composition the manager's piece_index for a is the index the task is assembling and its "peer chokes us" flag is
   the task's ... *)
Theorem C01_pair_invariant : forall sha1 cf disk ovf a m s, creach sha1 cf disk ovf a m s ->
  Pair a m s /\ exists p, pget (m_peers m) a = Some p.
Proof. exact pair_reachable. Qed.
(* ... so when the task, having verified and written the piece with index rx_index rx, reports PieceDone, the piece
   the manager marks owned and broadcasts as Have is exactly that one *)
Theorem C01_marked_is_verified : forall sha1 cf disk ovf a m s rx pk m' rep bc sp,
  creach sha1 cf disk ovf a m s -> h_rx s = Some rx -> mstep m (CPieceDone a) pk = Ok (m', rep, bc, sp) ->
  nthN (m_status m') (rx_index rx) = Some Manager.Have /\ bc = [BHave (rx_index rx)].
Proof. exact done_marks_verified. Qed.
(* the interleaving steps the invariant is closed under *)
Theorem C01_env_steps : forall a,
  (forall m c pk m' rep bc sp, cmd_addr c <> a -> mstep m c pk = Ok (m', rep, bc, sp) -> EnvKeeps a m m') /\
  (forall m rates new_opt m' fl, change_conn_state m rates new_opt = Ok (m', fl) -> EnvKeeps a m m') /\
  (forall m peers, EnvKeeps a m (fst (handle_tracker_resp m peers))).
Proof.
  intros a. split; [intros; eapply mstep_other_keeps; eassumption|]. split; [intros; eapply rotation_keeps; eassumption|].
  intros. apply tracker_resp_keeps.
Qed.
(* one task per address (the start rule of the composition): the manager opens a connection only to an address
   that has no entry, one at a time *)
Theorem C01_one_task_per_address : forall m,
  (forall m' a, spawn_peer m = (m', [SpPeer a]) -> pget (m_peers m) a = None) /\
  (snd (spawn_peer m) = [] \/ exists a, snd (spawn_peer m) = [SpPeer a]).
Proof. intros m. split; [intros m' a; apply spawn_only_absent | apply spawn_at_most_one]. Qed.
(* ... and for a whole tracker answer (candidates left over from earlier answers included): the addresses it connects to
   are pairwise distinct and had no entry *)
Theorem C01_tracker_answer_one_task_per_address : forall m peers,
  let sp := spawned_addrs (snd (handle_tracker_resp m peers)) in
  NoDup sp /\ forall a, In a sp -> pget (m_peers m) a = None.
Proof. exact tracker_resp_one_task_per_address. Qed.
(* non-vacuity: a reachable composition (handshake, Have, Unchoke with assignment) in which the task assembles
   piece 0 and its PieceDone makes the manager mark and broadcast piece 0 *)
Example C01_composition_nonvacuous :
  creach ex_sha1 ex_cf ex_disk true 1 ex_m4 ex_s3 /\
  (exists rx, h_rx ex_s3 = Some rx /\ rx_index rx = 0) /\
  exists m' rep sp, mstep ex_m4 (CPieceDone 1) None = Ok (m', rep, [BHave 0], sp).
Proof. exact composition_reaches_a_download. Qed.

(* serving (C09_manager), advertising (C11_bitfield, C11_broadcast) and counting as done all read Have.
   Modelling assumption of the composition: a task's fire-and-forget commands (Choke, Interested) are handled before
   its next event (they are handled before its next exchange: FIFO; the manager fields they set are read only when
   handling this task's own commands).  The end-to-end runs (Corr/Sys.v) check the store, the adverts and the
   statuses on the real system. *)
Print Assumptions C01_writes_verified.
Print Assumptions C01_done_after_write.
Print Assumptions C01_mismatch_discards.
Print Assumptions C01_only_done_makes_have.
Print Assumptions C01_owned_stays.
Print Assumptions C01_pair_invariant.
Print Assumptions C01_marked_is_verified.
Print Assumptions C01_env_steps.
Print Assumptions C01_one_task_per_address.
Print Assumptions C01_tracker_answer_one_task_per_address.
