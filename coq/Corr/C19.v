(* Correspondence for C19 (reply parsing).  Class bit 1 = non-utf8-failure-reason. *)
From Rdest Require Import Base BCodec Metainfo TrackerResp Manager Tracker Corr.MetaCase.
Open Scope N_scope.

Inductive case :=
| CResp (body : bytes) (impl : result (list (bytes * bytes)))
(* fault sequence: n failed announces then a reply listing `peers`, while `interested` peers are already
   being downloaded from; what the harness saw: every pumped command came back (true) or the manager
   was blocked (false); the peers contacted afterwards (sorted) and the candidates left (in order) *)
| CFaults (n : N) (peers : list N) (interested : N) (pumps : list bool) (contacted cands : list N)
          (kill_served : option bool)      (* a connection ending while the tracker was failing was handled at once *)
(* the real TrackerClient::run against a loopback tracker that fails `fails` times in scripted ways (`refused` of them
   with nothing listening) and then answers `body`: the commands the task sent (false = Fail, true = TrackerResp), the
   peers of the reply it delivered, the requests the tracker saw, whether the task then ended by itself, whether it
   asked again afterwards *)
| CReal (fails refused : N) (body : bytes) (cmds : list bool) (peers : list (bytes * bytes)) (reqs : N) (done extra : bool).

(* the model's tracker task (Tracker.v, tnext) run against a manager side that takes every command at once *)
Fixpoint real_run (fuel : nat) (s : tsys) (acc : list tcmd) : list tcmd * bool :=
  match fuel with
  | O => (acc, false)
  | S f =>
      match tnext true s StTracker with
      | Some s1 =>
          match t_queue s1 with
          | c :: _ => match tnext true s1 StMgrRecv with
                      | Some s2 => real_run f s2 (acc ++ [c])
                      | None => (acc, false)
                      end
          | [] => real_run f s1 acc
          end
      | None => (acc, match t_task s with TFinished => true | _ => false end)
      end
  end.
Definition real_model (fails : N) : list bool * bool :=
  let '(cs, fin) := real_run (3 * N.to_nat fails + 6) (t_init (N.to_nat fails)) [] in
  (map (fun c => match c with TResp => true | TFail => false end) cs, fin).

(* model of the scenario: the transition system under the schedule "tracker runs until it sleeps or
   blocks, then the manager handles one command" that the harness realises *)
Fixpoint pump_model (j : bool) (fuel : nat) (s : tsys) (acc : list bool) : list bool * tsys :=
  match fuel with
  | O => (acc, s)
  | S f =>
      (* the task sends and goes to sleep (or finishes) *)
      let s1 := match tnext j s StTracker with Some x => x | None => s end in
      let s1 := match t_task s1 with TFinishing => match tnext j s1 StTracker with Some x => x | None => s1 end | _ => s1 end in
      match tnext j s1 StMgrRecv with
      | None => (acc, s1)
      | Some s2 =>
          match t_mgr s2 with
          | MIdle => (* came back *)
              let s3 := match t_task s2 with TSleeping _ => match tnext j s2 StTracker with Some x => x | None => s2 end | _ => s2 end in
              pump_model j f s3 (acc ++ [true])
          | MAwaitJob =>
              match tnext j s2 StMgrJoin with
              | Some s3 => pump_model j f s3 (acc ++ [true])      (* the task had finished: join returns at once *)
              | None => (acc ++ [false], s2)                      (* blocked until the task ends *)
              end
          end
      end
  end.

Fixpoint insert_sorted_N (x : N) (l : list N) : list N :=
  match l with [] => [x] | y :: r => if x <=? y then x :: l else y :: insert_sorted_N x r end.
Definition sortN (l : list N) : list N := fold_right insert_sorted_N [] l.

Definition faults_model (n : N) (peers : list N) (interested : N) : list bool * list N * list N :=
  let '(pumps, s) := pump_model Session_join_tracker_only_on_resp (S (N.to_nat n)) (t_init (N.to_nat n)) [] in
  let m0 := mkmgr [Missing; Missing; Missing]
                  (map (fun k => (1000 + N.of_nat k, set_assign (new_peer None 3) None true)) (seq 0 (N.to_nat interested)))
                  [] 0 false [4; 4; 2] in
  if t_got_resp s then
    let '(m1, sp) := handle_tracker_resp m0 (map (fun a => (a, [])) peers) in
    (pumps, sortN (flat_map (fun x => match x with SpPeer a => [a] | _ => [] end) sp), map fst (m_candidates m1))
  else (pumps, [], []).

(* specification: the manager always comes back, and ends up contacting the listed peers (as many as the
   upload/download slots allow, taken from the end of the list) *)
Definition faults_spec (n : N) (peers : list N) (interested : N) (pumps : list bool) (contacted cands : list N) : bool :=
  let k := N.min (len peers) (11 - interested) in
  let keep := N.to_nat (len peers - k) in
  list_eqb Bool.eqb pumps (repeat true (S (N.to_nat n)))
  && list_eqb N.eqb contacted (sortN (skipn keep peers))
  && list_eqb N.eqb cands (firstn keep peers).


Definition peers_eqb (a b : list (bytes * bytes)) : bool :=
  list_eqb (fun x y => bytes_eqb (fst x) (fst y) && bytes_eqb (snd x) (snd y)) a b.

(* oracle, written against the decoded document: some top-level dictionary
   without a failure reason whose well-formed peer entries, in order, are the
   answer; a dictionary carrying a failure reason (any string) never yields peers *)
Definition spec_peer (v : bvalue) : option (bytes * bytes) :=
  match v with
  | BDict e => match map_get k_ip e, map_get k_peer_id e, map_get k_port e with
               | Some (BStr ip), Some (BStr id), Some (BInt port) =>
                   if utf8_valid ip && (len id =? 20) && (0 <=? port)%Z
                   then Some (ip ++ [58] ++ dec_N (Z.to_N port), id) else None
               | _, _, _ => None
               end
  | _ => None
  end.
Definition spec_dict_ok (d : dict) (out : list (bytes * bytes)) : bool :=
  match map_get k_failure d, map_get k_interval d, map_get k_peers d with
  | Some (BStr _), _, _ => false
  | _, Some (BInt i), Some (BList l) => (0 <=? i)%Z && peers_eqb (Metainfo.filter_map spec_peer l) out
  | _, _, _ => false
  end.
Definition has_str_failure (d : dict) : bool :=
  match map_get k_failure d with Some (BStr _) => true | _ => false end.

Definition code (c : case) : N :=
  match c with
  | CReal fails refused body cmds peers reqs done extra =>
      let '(mc, mfin) := real_model fails in
      let k := list_eqb Bool.eqb mc cmds && Bool.eqb mfin done in
      (* any run of failed or malformed announces followed by a good one: one Fail per failed attempt, then the reply
         with its peers, read faithfully; the task ends and asks nothing more *)
      let o := list_eqb Bool.eqb cmds (repeat false (N.to_nat fails) ++ [true])
               && peers_eqb peers (match tracker_resp_of body with Ok t => peers_out t | _ => [] end)
               && (reqs + refused =? fails + 1) && done && negb extra in
      (if k then 0 else 1) + (if o then 0 else 2)
  | CFaults n peers interested pumps contacted cands kill_served =>
      let '(mp, mc, mk) := faults_model n peers interested in
      (* the model's manager can always take another event before the tracker succeeded (C19_faults_never_blocked) *)
      let k := list_eqb Bool.eqb mp pumps && list_eqb N.eqb mc contacted && list_eqb N.eqb mk cands
               && match kill_served with Some b => Bool.eqb b Session_join_tracker_only_on_resp || b | None => true end in
      let o := faults_spec n peers interested pumps contacted cands && match kill_served with Some b => b | None => true end in
      (if k then 0 else 1) + (if o then 0 else 2 + 4 * 2)
  | CResp body impl =>
      let model := do t <- tracker_resp_of body; Ok (peers_out t) in
      let k := res_eqb peers_eqb model impl in
      let '(o, cls) :=
        match impl, decode body with
        | Ok out, Ok vs =>
            if existsb (fun v => match v with BDict d => spec_dict_ok d out | _ => false end) vs then (true, 0)
            else (false, if existsb (fun v => match v with BDict d => has_str_failure d | _ => false end) vs then 1 else 0)
        | Ok _, _ => (false, 0)
        | Err, Ok vs =>
            (* a failure is right only if no top-level dictionary is a well-formed success reply *)
            (negb (existsb (fun v => match v with
                                     | BDict d => match map_get k_failure d, map_get k_interval d, map_get k_peers d with
                                                  | Some (BStr _), _, _ => false
                                                  | _, Some (BInt i), Some (BList _) => (0 <=? i)%Z
                                                  | _, _, _ => false
                                                  end
                                     | _ => false
                                     end) vs), 0)
        | Err, _ => (true, 0)
        | _, _ => (false, 0)
        end in
      (if k then 0 else 1) + (if o then 0 else 2 + 4 * cls)
  end.
Definition codes (cs : list case) : list N := map code cs.
