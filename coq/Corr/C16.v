(* Correspondence for C16 (decoder) — see Corr/C07.v for the code convention.
   Class bits (code >> 2) name the known-finding classes an oracle failure
   falls in: 1 = unterminated-container, 2 = missing-colon-empty-string. *)
From Rdest Require Import Base BCodec BGrammar.
Open Scope N_scope.

(* the decoder as the code has it; regenerated knowledge of which quirks the
   code still has comes from the model file only *)
Definition decode_code : bytes -> result (list bvalue) := decode_with true BCodec_lenient_colon.

Inductive case :=
| CDec (doc : bytes) (impl : result (list bvalue))
| CEnum (alpha : bytes) (n : N) (prefix : bytes) (impl_accepted : list (bytes * list bvalue)).

Definition quirk_mask (doc : bytes) : N :=
  (if is_ok (decode_with false true doc) then 0 else 1)
  + (if is_ok (decode_with true false doc) then 0 else 2).

(* oracle for one document: the implementation accepts exactly the strict
   language, with the strict values; a panic is always a failure *)
Definition oracle_ok (doc : bytes) (impl : result (list bvalue)) : bool :=
  match impl, decode_strict doc with
  | Ok vs, Ok vs' => bvalue_eqb (BList vs) (BList vs')
  | Err, Ok _ => false
  | Err, _ => true
  | _, _ => false
  end.

Definition code_dec (doc : bytes) (impl : result (list bvalue)) : N :=
  let k := res_values_eqb (decode_code doc) impl in
  let o := oracle_ok doc impl in
  (if k then 0 else 1) + (if o then 0 else 2 + 4 * (match impl with Ok _ => quirk_mask doc | _ => 0 end)).

Fixpoint all_strings (alpha : bytes) (n : nat) : list bytes :=
  match n with
  | O => [[]]
  | S k => flat_map (fun s => map (fun c => c :: s) alpha) (all_strings alpha k)
  end.

Definition count_ok (dec : bytes -> result (list bvalue)) (l : list bytes) : N :=
  fold_left (fun acc s => if is_ok (dec s) then acc + 1 else acc) l 0.

Definition code_enum (alpha : bytes) (n : N) (prefix : bytes) (impl : list (bytes * list bvalue)) : N :=
  let all := map (fun s => prefix ++ s) (all_strings alpha (N.to_nat n)) in
  let k := forallb (fun sv => res_values_eqb (decode_code (fst sv)) (Ok (snd sv))) impl
           && (count_ok decode_code all =? len impl) in
  let offenders := filter (fun sv => negb (oracle_ok (fst sv) (Ok (snd sv)))) impl in
  let missing := negb (count_ok decode_strict all + len offenders =? len impl) in
  (* impl ⊇ strict language is checked by counting: every non-offender is strict-accepted *)
  let masks := map (fun sv => quirk_mask (fst sv)) offenders in
  let o := match offenders with [] => negb missing | _ => false end in
  let cls := if missing || existsb (fun m => m =? 0) masks then 0
             else fold_left N.lor masks 0 in
  (if k then 0 else 1) + (if o then 0 else 2 + 4 * cls).

Definition code (c : case) : N :=
  match c with
  | CDec doc impl => code_dec doc impl
  | CEnum alpha n prefix impl => code_enum alpha n prefix impl
  end.
Definition codes (cs : list case) : list N := map code cs.
