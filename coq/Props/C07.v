(* C07 — every peer-wire message round-trips through its BEP3 byte layout.
   Statements only; proofs are in WireProofs.v. *)
From Rdest Require Import Base Wire WireSpec WireProofs.
Open Scope N_scope.

(* (a) the bytes emitted are exactly the BEP3 encoding *)
Theorem C07_layout : forall m, FieldsOk m -> Bep3 m (encode_msg m).
Proof. exact layout. Qed.

(* (b) decoding them (whatever follows in the buffer) yields the same message
   and consumes exactly its length *)
Theorem C07_roundtrip : forall m rest, FieldsOk m ->
  parse_frame (encode_msg m ++ rest) = PFrame m (len (encode_msg m)).
Proof. exact roundtrip. Qed.

(* (b') hence the layout is uniquely decodable: no encoding is a prefix of another, and two
   sequences of messages with the same bytes are the same sequence *)
Theorem C07_prefix_free : forall m1 m2 r1 r2, FieldsOk m1 -> FieldsOk m2 ->
  encode_msg m1 ++ r1 = encode_msg m2 ++ r2 -> m1 = m2 /\ r1 = r2.
Proof. exact encode_prefix_free. Qed.

Theorem C07_stream_injective : forall ms1 ms2, Forall FieldsOk ms1 -> Forall FieldsOk ms2 ->
  concat (map encode_msg ms1) = concat (map encode_msg ms2) -> ms1 = ms2.
Proof. exact encode_stream_injective. Qed.

(* (c) bitfields: piece i <-> the (i mod 8)-th most significant bit of byte i/8,
   in both directions, for every piece count *)
Theorem C07_bitfield_pack : forall bits i, (i < length bits)%nat ->
  nth_error bits i = Some (bit_of (from_vec bits) i).
Proof. exact from_vec_bits. Qed.

Theorem C07_bitfield_unpack : forall bs n v,
  Forall (fun b => b < 256) bs -> to_vec bs n = Some v ->
  length v = N.to_nat n /\ forall i, (i < N.to_nat n)%nat -> nth_error v i = Some (bit_of bs i).
Proof. exact to_vec_bits. Qed.

Theorem C07_bitfield_roundtrip : forall bits, to_vec (from_vec bits) (len bits) = Some bits.
Proof. exact to_vec_from_vec. Qed.

(* hence two different sets of owned pieces (same piece count) never share a bitfield *)
Theorem C07_bitfield_injective : forall a b, length a = length b -> from_vec a = from_vec b -> a = b.
Proof.
  intros a b L E. pose proof (C07_bitfield_roundtrip a) as A. pose proof (C07_bitfield_roundtrip b) as B.
  unfold len in *. rewrite E, L in A. rewrite A in B. injection B as ->. reflexivity.
Qed.

(* statements pinned *)
Check C07_layout : forall m, FieldsOk m -> Bep3 m (encode_msg m).
Check C07_roundtrip : forall m rest, FieldsOk m ->
  parse_frame (encode_msg m ++ rest) = PFrame m (len (encode_msg m)).

(* non-vacuity: the hypotheses are met by non-trivial messages *)
Example C07_fields_ok_piece : FieldsOk (Piece 4294967295 16384 (repeat 7 300)).
Proof. vm_compute. repeat split; congruence. Qed.
Example C07_fields_ok_handshake : FieldsOk (Handshake (repeat 1 20) (repeat 2 20)).
Proof. split; reflexivity. Qed.
Example C07_bitfield_example : from_vec [true; false; false; false; false; false; false; false; false; true] = [128; 64].
Proof. reflexivity. Qed.

Print Assumptions C07_layout.
Print Assumptions C07_roundtrip.
Print Assumptions C07_bitfield_pack.
Print Assumptions C07_bitfield_unpack.
Print Assumptions C07_bitfield_roundtrip.
Print Assumptions C07_prefix_free.
Print Assumptions C07_stream_injective.
Print Assumptions C07_bitfield_injective.
