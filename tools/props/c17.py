"""C17 — the metainfo model is a faithful, safe reading of the .torrent."""
from driver import Case
from metabase import MetaBase


class C17(MetaBase):
    id = "C17"
    model_targets = ["Pack.vo", "Corr/C17.vo"]
    proof_target = "Props/C17.vo"
    theorems = ["C17_total", "C17_faithful", "C17_accessors_safe", "C17_create_parse", "C17_create_file_parse"]
    coq_header = "From Rdest Require Import Base BCodec DeepFinder Metainfo Corr.MetaCase Corr.C17.\nOpen Scope N_scope.\n"
    corr_name = "Metainfo::from_bencode + accessors vs Metainfo.v"
    classes = {1: "piece-length-zero", 2: "total-length-overflow", 3: "piece-length-zero+total-length-overflow"}
    rule = ("torrent grammar (single/multi-file, extra keys, wrong types, 0/1/2^63-1/negative numerics, non-UTF-8 names, "
            "pieces not divisible by 20, nested and duplicate keys, trailing/leading values, truncations) plus byte "
            "mutations; for every accepted document every accessor is called for the first and last valid piece indices "
            "under catch_unwind. Non-trivial: documents that parse; distinct input lines.")
    statement_status = "partial: totality, faithful reading and accessor safety proved in full; the create->parse round trip is tied by the correspondence only"
    assumptions = []

    def gen(self, rng, tier):
        cases = self.gen_docs(rng, {"quick": 1500, "thorough": 30000, "search": 6000}[tier])
        import json, os, vlib
        plen = json.load(open(os.path.join(vlib.BUILD, "consts.json"))).get("PIECE_LENGTH", 262144)
        sizes = [0, 1, 20, plen - 1, plen, plen + 1, 2 * plen, 2 * plen + 7]
        nc = {"quick": 12, "thorough": 60, "search": 20}[tier]
        for k in range(nc):
            n = sizes[k] if k < len(sizes) else rng.randrange(0, 3 * plen)
            name = rng.choice([b"a.dat", b"file", b"x y.bin", "\u00e9.iso".encode()])
            tracker = rng.choice([b"http://127.0.0.1:8000", b"http://t/announce?k=v", b""])
            seed = rng.randrange(1, 2 ** 31)
            c = Case("create %s %s @%d:%d" % (name.hex(), tracker.hex() or "-", seed, n), "create", {"len": n})
            self._create[c.line] = (name, tracker, seed, n, plen)
            cases.append(c)
        return cases

    _create = {}

    def coq_case(self, c, out):
        if not c.line.startswith("create"):
            return MetaBase.coq_case(self, c, out)
        import hashlib, re
        from vlib import coq_bytes, prand
        from metabase import obs_to_coq, hexb
        name, tracker, seed, n, plen = self._create[c.line]
        data = prand(seed, n)
        hashes = [hashlib.sha1(data[i:i + plen]).digest() for i in range(0, n, plen)]
        m = re.match(r"TORRENT (\S+) (.*)$", out, re.S)
        tor = hexb(m.group(1))
        return "CCreate %s %s %d [%s] %s %s" % (coq_bytes(name), coq_bytes(tracker), n,
                                                "; ".join(coq_bytes(h) for h in hashes), coq_bytes(tor),
                                                obs_to_coq(m.group(2)))

    def model_term(self, c):
        if c.line.startswith("create"):
            return "code (%s)" % c.term
        return MetaBase.model_term(self, c)


class C17Release(C17):
    """accessors without overflow checks: release build of the harness, model with ovf = false"""
    release = True
    ovf = "false"

    def gen(self, rng, tier):
        cases = self.gen_docs(rng, 1500)
        for c in cases:
            c.kind = "release-" + c.kind
        return cases

    def corpus(self):
        return []


from deepbase import DeepPart

PROP = C17()
PROP.parts = [PROP, DeepPart("C17", "meta", "meta",
                             b"d8:announce3:URL4:infod6:lengthi5e4:name1:a12:piece lengthi4e6:pieces20:AAAAABBBBBCCCCCDDDDDe3:zzz", b"e",
                             "Metainfo::from_bencode")]
PROP.release_parts = [C17Release()]
