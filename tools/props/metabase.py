"""Shared by C05 and C17: cases over Metainfo::from_bencode."""
import hashlib, re
from driver import Case
from vlib import coq_bytes
import bgen, tgen

TESTS = [b"d8:announce3:URL4:infod4:name4:NAME12:piece lengthi111e6:pieces20:AAAAABBBBBCCCCCDDDDD6:lengthi222eee",
         b"d8:announce3:URL4:infod4:name4:NAME12:piece lengthi333e6:pieces20:AAAAABBBBBCCCCCDDDDD5:filesld6:lengthi777e4:path4:PATHeeee",
         b"d8:announcei1e4:infod4:name4:NAME6:lengthi111ee", b"", b"12", b"i12e",
         b"d8:announce3:URL4:infod4:name4:NAME12:piece lengthi999e6:pieces20:AAAAABBBBBCCCCCDDDDDee",
         b"d8:announce3:URL4:infod4:name4:NAME12:piece lengthi999e6:pieces20:AAAAABBBBBCCCCCDDDDD6:lengthi1e5:filesleee",
         # piece length 0, total-length overflow, nested info first, duplicate info, unterminated
         b"d8:announce3:URL4:infod4:name1:a12:piece lengthi0e6:pieces20:AAAAABBBBBCCCCCDDDDD6:lengthi5eee",
         b"d8:announce3:URL4:infod4:name1:a12:piece lengthi4e6:pieces20:AAAAABBBBBCCCCCDDDDD5:filesld6:lengthi9223372036854775807e4:path1:xed6:lengthi9223372036854775807e4:path1:yed6:lengthi9e4:path1:zeeee",
         b"d1:ad4:infoi1ee8:announce3:URL4:infod4:name1:a12:piece lengthi4e6:pieces20:AAAAABBBBBCCCCCDDDDD6:lengthi5eee",
         b"d8:announce3:URL4:infod4:name1:a12:piece lengthi4e6:pieces20:AAAAABBBBBCCCCCDDDDD6:lengthi5ee4:infod4:name1:b12:piece lengthi4e6:pieces20:AAAAABBBBBCCCCCDDDDD6:lengthi5eee",
         b"d8:announce3:URL4:infod4:name1:a12:piece lengthi4e6:pieces20:AAAAABBBBBCCCCCDDDDD6:lengthi5e",
         b"ld4:infoi1eeed8:announce3:URL4:infod4:name1:a12:piece lengthi4e6:pieces20:AAAAABBBBBCCCCCDDDDD6:lengthi5eee"]


def res(tok, conv):
    return "Panic" if tok == "PANIC" else "(Ok %s)" % conv(tok)


def hexb(h):
    return b"" if h == "-" else bytes.fromhex(h)


def obs_to_coq(out):
    out = out.strip()
    if out == "ERR":
        return "Err"
    if out == "PANIC":
        return "Panic"
    f = dict(x.split("=", 1) for x in out[3:].split(" "))
    ff = f["ff"]
    if ff == "NONE":
        ffc, hash_ok = "None", False
    elif ff == "PANIC":
        raise ValueError("find_first panicked")
    else:
        ffb = hexb(ff)
        ffc = "(Some %s)" % coq_bytes(ffb)
        hash_ok = hashlib.sha1(ffb).hexdigest() == f["hash"]
    pieces = [] if f["piece"] == "-" else [x.split(":") for x in f["piece"].split(",")]
    plens = [] if f["plen"] == "-" else [x.split(":") for x in f["plen"].split(",")]
    if f["ranges"] == "PANIC":
        ranges = "Panic"
    elif f["ranges"] == "-":
        ranges = "(Ok [])"
    else:
        rs = []
        for r in f["ranges"].split(","):
            p, a, b, c, d = r.split("/")
            rs.append("(%s, %s, %s, %s, %s)" % (coq_bytes(hexb(p)), a, b, c, d))
        ranges = "(Ok [%s])" % "; ".join(rs)
    return "(Ok (mkobs %s %s %s %s [%s] [%s] %s %s))" % (
        coq_bytes(hexb(f["url"])), f["n"], "true" if hash_ok else "false", ffc,
        "; ".join("(%s, %s)" % (i, res(h, lambda t: coq_bytes(hexb(t)))) for i, h in pieces),
        "; ".join("(%s, %s)" % (i, res(l, str)) for i, l in plens),
        res(f["total"], str), ranges)


class MetaBase:
    harness_sub = "meta"
    harness_timeout = 600
    coq_timeout = 900
    allowed_axioms = []
    ovf = "true"

    def corpus(self):
        return [Case("meta %s" % (d.hex() or "-"), "corpus", {"doc": d[:80].decode("latin1")}) for d in TESTS]

    def gen_docs(self, rng, n):
        cases = []
        for _ in range(n):
            doc, flags = tgen.document(rng)
            if rng.random() < 0.15:
                doc = bgen.mutate(rng, doc)
                flags.add("mutated")
            kind = "+".join(sorted(flags)) or "plain"
            cases.append(Case("meta %s" % (doc.hex() or "-"), kind, {"doc": doc[:80].decode("latin1")}))
        return cases

    def coq_case(self, c, out):
        t = c.line.split()
        doc = hexb(t[1])
        return "CMeta %s %s %s" % (self.ovf, coq_bytes(doc), obs_to_coq(out))

    def model_term(self, c):
        t = c.line.split()
        return "(metainfo_of %s)" % coq_bytes(hexb(t[1]))

    def shrink_candidates(self, c):
        return []
