#!/bin/sh
# confirm_seed.sh <worktree> <outdir>: confirms a seeded change myself:
#   with the patch: crate builds, existing tests pass, demo FAILS; without: demo PASSES.
WT="$1"; OUT="$2"
export CARGO_NET_OFFLINE=true
cd "$WT" || exit 2
git checkout -q -- . ; rm -f tests/demo_seed.rs
git apply "$OUT/patch.diff" || { echo "RESULT patch-does-not-apply"; exit 1; }
cargo build --offline -q 2>/dev/null || { echo "RESULT build-fails"; git checkout -q -- .; exit 1; }
T=$(cargo test --offline --tests --features verif 2>&1 | grep "^test result" | awk '{p+=$4; f+=$6} END {print p"/"f}')
cp "$OUT/demo_test.rs" tests/demo_seed.rs
D1=$(cargo test --offline --features verif --test demo_seed 2>&1 | grep "^test result" | awk '{print $4"/"$6}')
git checkout -q -- src Cargo.toml 2>/dev/null
D0=$(cargo test --offline --features verif --test demo_seed 2>&1 | grep "^test result" | awk '{print $4"/"$6}')
rm -f tests/demo_seed.rs; git checkout -q -- .
echo "RESULT suite_with_patch(pass/fail)=$T demo_with_patch(pass/fail)=$D1 demo_without(pass/fail)=$D0"
