(* BProofs.v — proofs about the bencode decoder/encoder models. *)
From Rdest Require Import Base BaseProofs BCodec BGrammar.
From Coq Require Import ZifyBool ZifyN ZifyNat.
Ltac Zify.zify_post_hook ::= Z.div_mod_to_equations.
Open Scope N_scope.

(* ---- take_until ------------------------------------------------------------ *)

Lemma take_until_spec c s :
  let '(p, rest, found) := take_until c s in
  Forall (fun b => b <> c) p /\
  (if found then s = p ++ c :: rest else s = p /\ rest = []).
Proof.
  induction s as [|b r IH]; cbn [take_until].
  - split; [constructor | split; reflexivity].
  - destruct (N.eqb_spec b c) as [->|Hne].
    + split; [constructor | reflexivity].
    + destruct (take_until c r) as [[p rest] found]. destruct IH as [HF HS].
      split; [constructor; assumption|].
      destruct found; [rewrite HS at 1; reflexivity|].
      destruct HS as [-> ->]. split; reflexivity.
Qed.

Lemma take_until_app c p rest :
  Forall (fun b => b <> c) p -> take_until c (p ++ c :: rest) = (p, rest, true).
Proof.
  induction 1 as [|b p Hb Hp IH]; cbn [app take_until].
  - rewrite N.eqb_refl. reflexivity.
  - replace (b =? c) with false by (symmetry; apply N.eqb_neq; exact Hb). rewrite IH. reflexivity.
Qed.

Lemma take_until_length c s :
  let '(p, rest, found) := take_until c s in (length rest <= length s)%nat.
Proof.
  pose proof (take_until_spec c s) as H. destruct (take_until c s) as [[p rest] found].
  destruct H as [_ H]. destruct found.
  - subst s. rewrite app_length. cbn [length]. lia.
  - destruct H as [_ ->]. cbn. lia.
Qed.

(* ---- results --------------------------------------------------------------- *)

Lemma bind_ok {A B} (r : result A) (f : A -> result B) b :
  bind r f = Ok b -> exists a, r = Ok a /\ f a = Ok b.
Proof. destruct r; cbn; try discriminate. intros H. eexists; split; [reflexivity | exact H]. Qed.

(* ---- parse_byte_str / parse_int consume input -------------------------------- *)

Lemma parse_byte_str_rest lc b s v raw r :
  parse_byte_str lc b s = Ok (v, raw, r) -> (length r <= length s)%nat.
Proof.
  unfold parse_byte_str. pose proof (take_until_length ch_colon s) as HL.
  destruct (take_until ch_colon s) as [[p after] found].
  destruct (negb (forallb is_digit (b :: p))); [discriminate|].
  destruct (parse_usize (b :: p)) as [n|]; [|discriminate].
  destruct (negb found && negb lc); [discriminate|].
  destruct (len after <? n); [discriminate|].
  intros [= _ _ <-]. rewrite skipn_length. lia.
Qed.

Lemma parse_int_rest s z raw r :
  parse_int s = Ok (z, raw, r) -> (length r <= length s)%nat.
Proof.
  unfold parse_int. pose proof (take_until_length ch_e s) as HL.
  destruct (take_until ch_e s) as [[num after] found].
  destruct (negb (forallb _ num)); [discriminate|].
  destruct (negb found); [discriminate|].
  match goal with |- context[if ?c then Err else _] => destruct c; [discriminate|] end.
  destruct (parse_i64 num); [|discriminate].
  intros [= _ _ <-]. exact HL.
Qed.

(* ---- values: fuel ------------------------------------------------------------ *)

Section Fuel.
  Variables le lc : bool.
  Notation values := (values le lc).

  Lemma values_rest f : forall we s vs r,
    values f we s = Ok (vs, r) -> (length r <= length s)%nat.
  Proof.
    induction f as [|f IH]; intros we s vs r; cbn [BCodec.values]; [discriminate|]. unfold values_body.
    destruct s as [|b s]; [destruct (we && negb le); [discriminate|]; intros [= _ <-]; lia|].
    cbn [length].
    destruct (is_digit b).
    { intros H. apply bind_ok in H. destruct H as ([[v raw] r1] & H1 & H).
      apply bind_ok in H. destruct H as ([vs2 r2] & H2 & H). injection H as _ <-.
      apply parse_byte_str_rest in H1. apply IH in H2. lia. }
    destruct (b =? ch_i).
    { intros H. apply bind_ok in H. destruct H as ([[z raw] r1] & H1 & H).
      apply bind_ok in H. destruct H as ([vs2 r2] & H2 & H). injection H as _ <-.
      apply parse_int_rest in H1. apply IH in H2. lia. }
    destruct (b =? ch_l).
    { intros H. apply bind_ok in H. destruct H as ([l r1] & H1 & H).
      apply bind_ok in H. destruct H as ([vs2 r2] & H2 & H). injection H as _ <-.
      apply IH in H1. apply IH in H2. lia. }
    destruct (b =? ch_d).
    { intros H. apply bind_ok in H. destruct H as ([l r1] & H1 & H).
      apply bind_ok in H. destruct H as (ps & Hps & H).
      apply bind_ok in H. destruct H as ([vs2 r2] & H2 & H). injection H as _ <-.
      apply IH in H1. apply IH in H2. lia. }
    destruct (b =? ch_e); [|discriminate].
    destruct we; [|discriminate]. intros [= _ <-]. lia.
  Qed.

  (* enough fuel never runs out *)
  Lemma values_fuel f : forall we s, (length s < f)%nat -> values f we s <> OutOfFuel.
  Proof.
    induction f as [|f IH]; intros we s Hf; [lia|]. cbn [BCodec.values]. unfold values_body.
    destruct s as [|b s]; [destruct (we && negb le); discriminate|].
    cbn [length] in Hf.
    assert (Hsub : forall we' s', (length s' <= length s)%nat -> values f we' s' <> OutOfFuel)
      by (intros; apply IH; lia).
    destruct (is_digit b).
    { destruct (parse_byte_str lc b s) as [[[v raw] r1]| | |] eqn:E1; cbn [bind]; try discriminate.
      - apply parse_byte_str_rest in E1. specialize (Hsub we r1 E1).
        destruct (values f we r1) as [[vs2 r2]| | |]; cbn [bind]; congruence.
      - exfalso. unfold parse_byte_str in E1.
        destruct (take_until ch_colon s) as [[p after] found].
        destruct (negb _); [discriminate|]. destruct (parse_usize _); [|discriminate].
        destruct (_ && _); [discriminate|]. destruct (_ <? _); discriminate. }
    destruct (b =? ch_i).
    { destruct (parse_int s) as [[[z raw] r1]| | |] eqn:E1; cbn [bind]; try discriminate.
      - apply parse_int_rest in E1. specialize (Hsub we r1 E1).
        destruct (values f we r1) as [[vs2 r2]| | |]; cbn [bind]; congruence.
      - exfalso. unfold parse_int in E1. destruct (take_until ch_e s) as [[num after] found].
        destruct (negb _); [discriminate|]. destruct (negb found); [discriminate|].
        match type of E1 with context[if ?c then Err else _] => destruct c; [discriminate|] end.
        destruct (parse_i64 num); discriminate. }
    destruct (b =? ch_l).
    { pose proof (Hsub true s (Nat.le_refl _)) as H1.
      destruct (values f true s) as [[l r1]| | |] eqn:E1; cbn [bind]; try congruence.
      apply values_rest in E1. specialize (Hsub we r1 E1).
      destruct (values f we r1) as [[vs2 r2]| | |]; cbn [bind]; congruence. }
    destruct (b =? ch_d).
    { pose proof (Hsub true s (Nat.le_refl _)) as H1.
      destruct (values f true s) as [[l r1]| | |] eqn:E1; cbn [bind]; try congruence.
      apply values_rest in E1. specialize (Hsub we r1 E1).
      assert (Hdp : forall l, dict_pairs l <> OutOfFuel /\ dict_pairs l <> Panic).
      { fix IHl 1. intros [|[] [|v l']]; cbn; try (split; discriminate).
        destruct (IHl l') as [A B]. destruct (dict_pairs l'); cbn; split; congruence. }
      destruct (Hdp l) as [A B].
      destruct (dict_pairs l) as [ps| | |]; cbn [bind]; try congruence.
      destruct (values f we r1) as [[vs2 r2]| | |]; cbn [bind]; congruence. }
    destruct (b =? ch_e); [destruct we|]; discriminate.
  Qed.
End Fuel.

Section Mono.
  Variables le lc : bool.
  Notation values := (values le lc).

  Lemma bind_mono {A B} (r r' : result A) (k k' : A -> result B) :
    (r <> OutOfFuel -> r' = r) ->
    (forall a, r = Ok a -> k a <> OutOfFuel -> k' a = k a) ->
    bind r k <> OutOfFuel -> bind r' k' = bind r k.
  Proof.
    intros Hr Hk H. destruct r as [a| | |]; cbn [bind] in *.
    - rewrite Hr by discriminate. cbn [bind]. apply Hk; [reflexivity | exact H].
    - rewrite Hr by discriminate. reflexivity.
    - rewrite Hr by discriminate. reflexivity.
    - congruence.
  Qed.

  Lemma values_step f : forall we s, values f we s <> OutOfFuel -> values (S f) we s = values f we s.
  Proof.
    induction f as [|f IH]; intros we s H; [cbn in H; congruence|].
    change (values_body le lc (values (S f)) we s = values_body le lc (values f) we s).
    change (values_body le lc (values f) we s <> OutOfFuel) in H.
    unfold values_body in *.
    destruct s as [|b s]; [reflexivity|].
    destruct (is_digit b).
    { apply bind_mono; [reflexivity| |exact H]. intros [[v raw] r1] _ H1.
      apply bind_mono; [apply IH| |exact H1]. intros [vs2 r2] _ _. reflexivity. }
    destruct (b =? ch_i).
    { apply bind_mono; [reflexivity| |exact H]. intros [[z raw] r1] _ H1.
      apply bind_mono; [apply IH| |exact H1]. intros [vs2 r2] _ _. reflexivity. }
    destruct (b =? ch_l).
    { apply bind_mono; [apply IH| |exact H]. intros [l r1] _ H1.
      apply bind_mono; [apply IH| |exact H1]. intros [vs2 r2] _ _. reflexivity. }
    destruct (b =? ch_d).
    { apply bind_mono; [apply IH| |exact H]. intros [l r1] _ H1.
      apply bind_mono; [reflexivity| |exact H1]. intros ps _ H2.
      apply bind_mono; [apply IH| |exact H2]. intros [vs2 r2] _ _. reflexivity. }
    reflexivity.
  Qed.

  Lemma values_mono f f' we s : (f <= f')%nat -> values f we s <> OutOfFuel -> values f' we s = values f we s.
  Proof.
    induction 1 as [|f' Hle IH]; intros H; [reflexivity|].
    rewrite values_step; [apply IH, H | rewrite IH by exact H; exact H].
  Qed.

  (* any two sufficient amounts of fuel agree *)
  Lemma values_any_fuel f f' we s x :
    values f we s = Ok x -> (length s < f')%nat -> values f' we s = Ok x.
  Proof.
    intros H Hf'. pose proof (values_fuel le lc f' we s Hf') as Hn.
    destruct (Nat.le_ge_cases f f') as [L|L].
    - rewrite (values_mono f f') by (assumption || congruence). exact H.
    - rewrite <- (values_mono f' f) by assumption. exact H.
  Qed.

  Lemma values_no_panic f : forall we s, values f we s <> Panic.
  Proof.
    induction f as [|f IH]; intros we s; cbn [BCodec.values]; [discriminate|]. unfold values_body.
    assert (Hb : forall A B (r : result A) (k : A -> result B),
               r <> Panic -> (forall a, k a <> Panic) -> bind r k <> Panic)
      by (intros A B [a| | |] k Hr Hk; cbn; auto; congruence).
    assert (Hp1 : forall b s, parse_byte_str lc b s <> Panic).
    { intros b0 s0. unfold parse_byte_str. destruct (take_until ch_colon s0) as [[p after] found].
      destruct (negb _); [discriminate|]. destruct (parse_usize _); [|discriminate].
      destruct (_ && _); [discriminate|]. destruct (_ <? _); discriminate. }
    assert (Hp2 : forall s, parse_int s <> Panic).
    { intros s0. unfold parse_int. destruct (take_until ch_e s0) as [[num after] found].
      destruct (negb _); [discriminate|]. destruct (negb found); [discriminate|].
      match goal with |- context[if ?c then Err else _] => destruct c; [discriminate|] end.
      destruct (parse_i64 num); discriminate. }
    assert (Hdp : forall l, dict_pairs l <> Panic).
    { fix IHl 1. intros [|[] [|v l']]; cbn; try discriminate.
      specialize (IHl l'). destruct (dict_pairs l'); cbn; congruence. }
    destruct s as [|b s]; [destruct (we && negb le); discriminate|].
    destruct (is_digit b).
    { apply Hb; [apply Hp1|]. intros [[v raw] r1]. apply Hb; [apply IH|]. intros [? ?]; discriminate. }
    destruct (b =? ch_i).
    { apply Hb; [apply Hp2|]. intros [[v raw] r1]. apply Hb; [apply IH|]. intros [? ?]; discriminate. }
    destruct (b =? ch_l).
    { apply Hb; [apply IH|]. intros [l r1]. apply Hb; [apply IH|]. intros [? ?]; discriminate. }
    destruct (b =? ch_d).
    { apply Hb; [apply IH|]. intros [l r1]. apply Hb; [apply Hdp|]. intros ps.
      apply Hb; [apply IH|]. intros [? ?]; discriminate. }
    destruct (b =? ch_e); [destruct we|]; discriminate.
  Qed.

  Theorem decode_total s : decode_with le lc s <> Panic /\ decode_with le lc s <> OutOfFuel.
  Proof.
    unfold decode_with.
    pose proof (values_no_panic (S (length s)) false s) as H1.
    pose proof (values_fuel le lc (S (length s)) false s (Nat.lt_succ_diag_r _)) as H2.
    destruct (values (S (length s)) false s) as [[vs r]| | |]; cbn; split; congruence.
  Qed.
End Mono.

(* ---- decimal numerals ---------------------------------------------------------- *)

Definition dstep (acc d : N) : N := acc * 10 + (d - 48).
Lemma digits_val_snoc ds d : digits_val (ds ++ [d]) = digits_val ds * 10 + (d - 48).
Proof. unfold digits_val. rewrite fold_left_app. reflexivity. Qed.

Lemma is_digit_spec b : is_digit b = true <-> 48 <= b <= 57.
Proof. unfold is_digit. lia. Qed.

Lemma forallb_Forall {A} (p : A -> bool) l : forallb p l = true <-> Forall (fun x => p x = true) l.
Proof.
  induction l as [|x l IH]; cbn; [split; [constructor | reflexivity]|].
  rewrite andb_true_iff, IH. split; [intros [? ?]; constructor; assumption | intros H; inversion H; auto].
Qed.

Lemma fold_dstep_ge ds : forall acc, acc <= fold_left dstep ds acc.
Proof. induction ds as [|d ds IH]; intros acc; cbn [fold_left]; [lia|]. specialize (IH (dstep acc d)). unfold dstep in *. lia. Qed.

(* a numeral whose first digit is not '0' has a non-zero value *)
Lemma digits_val_nonzero d ds : is_digit d = true -> d <> ch_0 -> digits_val (d :: ds) <> 0.
Proof.
  intros Hd Hn. unfold digits_val. cbn [fold_left]. apply is_digit_spec in Hd. unfold ch_0 in Hn.
  pose proof (fold_dstep_ge ds (0 * 10 + (d - 48))) as H.
  change (fun acc d0 => acc * 10 + (d0 - 48)) with dstep. lia.
Qed.

Lemma print_dec_spec fuel : forall n, n < 10 ^ N.of_nat (S fuel) ->
  let ds := print_dec (S fuel) n in
  ds <> [] /\ Forall (fun b => is_digit b = true) ds /\ digits_val ds = n /\
  (1 <= n -> hd 0 ds <> ch_0) /\ Shortest ds.
Proof.
  induction fuel as [|f IH]; intros n Hn.
  { cbn in Hn. cbn [print_dec]. replace (n <? 10) with true by lia. cbv zeta.
    split; [discriminate|]. split; [constructor; [apply is_digit_spec; lia | constructor]|].
    split; [unfold digits_val; cbn [fold_left]; cbv beta; lia|]. split; [|exact I].
    cbn [hd]. unfold ch_0. lia. }
  remember (S f) as f1 eqn:Ef1. cbn [print_dec]. destruct (N.ltb_spec n 10) as [Hs|Hb].
  - cbv zeta. split; [discriminate|]. split; [constructor; [apply is_digit_spec; lia | constructor]|].
    split; [unfold digits_val; cbn [fold_left]; cbv beta; lia|]. split; [|exact I].
    cbn [hd]. unfold ch_0. lia.
  - rewrite Nat2N.inj_succ, N.pow_succ_r' in Hn.
    assert (Hq : n / 10 < 10 ^ N.of_nat f1) by (apply N.div_lt_upper_bound; lia).
    destruct (IH (n / 10) Hq) as (Hne & Hall & Hval & Hhd & Hsh). cbv zeta.
    set (ds0 := print_dec f1 (n / 10)) in *.
    split; [destruct ds0; discriminate|].
    split; [apply Forall_app; split; [exact Hall | constructor; [apply is_digit_spec; lia | constructor]]|].
    split; [rewrite digits_val_snoc, Hval; lia|].
    assert (Hq1 : 1 <= n / 10) by (apply N.div_le_lower_bound; lia).
    destruct ds0 as [|d0 ds1] eqn:E; [congruence|].
    cbn [hd] in Hhd. split.
    + intros _. cbn [app hd]. apply Hhd, Hq1.
    + cbn [app]. destruct ds1; cbn [app Shortest]; apply Hhd, Hq1.
Qed.

Lemma dec_N_spec n : n < 18446744073709551616 ->
  Numeral (dec_N n) /\ Shortest (dec_N n) /\ digits_val (dec_N n) = n.
Proof.
  intros H. unfold dec_N. assert (Hpow : 10 ^ N.of_nat 20 = 100000000000000000000) by (vm_compute; reflexivity).
  destruct (print_dec_spec 19 n) as (A & B & C & _ & D); [rewrite Hpow; lia|].
  split; [split; assumption|]. split; assumption.
Qed.

Lemma Numeral_cons ds : Numeral ds -> exists d r, ds = d :: r /\ is_digit d = true /\ forallb is_digit ds = true.
Proof.
  intros [Hne Hall]. destruct ds as [|d r]; [congruence|]. exists d, r. split; [reflexivity|].
  split; [inversion Hall; assumption | apply forallb_Forall; exact Hall].
Qed.

Lemma parse_usize_numeral ds : Numeral ds -> digits_val ds < 18446744073709551616 ->
  parse_usize ds = Some (digits_val ds).
Proof.
  intros HN Hv. destruct (Numeral_cons ds HN) as (d & r & -> & _ & Hall).
  unfold parse_usize. rewrite Hall. replace (_ <? _) with true by lia. reflexivity.
Qed.

Lemma digits_not c ds : Forall (fun b => is_digit b = true) ds -> ~ (48 <= c <= 57) -> Forall (fun b => b <> c) ds.
Proof. intros H Hc. eapply Forall_impl; [|exact H]. cbn. intros b Hb. apply is_digit_spec in Hb. lia. Qed.

(* ---- completeness: every well-formed document decodes to its denotation ------ *)

Lemma Pairs_dict_pairs vs ps : Pairs vs ps -> dict_pairs vs = Ok ps.
Proof. induction 1 as [|k v r ps H IH]; cbn [dict_pairs]; [reflexivity|]. rewrite IH. reflexivity. Qed.

Lemma dict_pairs_Pairs : forall vs ps, dict_pairs vs = Ok ps -> Pairs vs ps.
Proof.
  fix IH 1. intros [|[z|k|l|d] [|v r]] ps; cbn [dict_pairs]; try discriminate.
  - intros [= <-]. constructor.
  - intros H. apply bind_ok in H. destruct H as (ps' & H1 & [= <-]).
    constructor. apply IH. exact H1.
Qed.

Section Complete.
  Variables le lc : bool.
  Definition Vals (we : bool) (s : bytes) (vs : list bvalue) (r : bytes) : Prop :=
    exists f, values le lc f we s = Ok (vs, r).

  Lemma Vals_end r : Vals true (ch_e :: r) [] r.
  Proof. exists 1%nat. reflexivity. Qed.
  Lemma Vals_top : Vals false [] [] [].
  Proof. exists 1%nat. reflexivity. Qed.

  Lemma Vals_str we b s v raw r1 vs r2 :
    is_digit b = true -> parse_byte_str lc b s = Ok (v, raw, r1) -> Vals we r1 vs r2 ->
    Vals we (b :: s) (BStr v :: vs) r2.
  Proof.
    intros Hb Hp [f Hf]. exists (S f). cbn [values]. unfold values_body.
    rewrite Hb, Hp. cbn [bind]. rewrite Hf. reflexivity.
  Qed.

  Lemma Vals_int we s z raw r1 vs r2 :
    parse_int s = Ok (z, raw, r1) -> Vals we r1 vs r2 -> Vals we (ch_i :: s) (BInt z :: vs) r2.
  Proof.
    intros Hp [f Hf]. exists (S f). cbn [values]. unfold values_body.
    change (is_digit ch_i) with false. change (ch_i =? ch_i) with true. cbv iota.
    rewrite Hp. cbn [bind]. rewrite Hf. reflexivity.
  Qed.

  Lemma Vals_list we s l r1 vs r2 :
    Vals true s l r1 -> Vals we r1 vs r2 -> Vals we (ch_l :: s) (BList l :: vs) r2.
  Proof.
    intros [f1 H1] [f2 H2]. exists (S (Nat.max f1 f2)). cbn [values]. unfold values_body.
    change (is_digit ch_l) with false. change (ch_l =? ch_i) with false. change (ch_l =? ch_l) with true. cbv iota.
    rewrite (values_mono le lc f1) by (lia || congruence). rewrite H1. cbn [bind].
    rewrite (values_mono le lc f2) by (lia || congruence). rewrite H2. reflexivity.
  Qed.

  Lemma Vals_dict we s l ps r1 vs r2 :
    Vals true s l r1 -> dict_pairs l = Ok ps -> Vals we r1 vs r2 ->
    Vals we (ch_d :: s) (BDict (map_of_list ps) :: vs) r2.
  Proof.
    intros [f1 H1] Hps [f2 H2]. exists (S (Nat.max f1 f2)). cbn [values]. unfold values_body.
    change (is_digit ch_d) with false. change (ch_d =? ch_i) with false. change (ch_d =? ch_l) with false.
    change (ch_d =? ch_d) with true. cbv iota.
    rewrite (values_mono le lc f1) by (lia || congruence). rewrite H1. cbn [bind]. rewrite Hps. cbn [bind].
    rewrite (values_mono le lc f2) by (lia || congruence). rewrite H2. reflexivity.
  Qed.

  Lemma parse_byte_str_complete ds d dr s rest :
    Numeral ds -> ds = d :: dr -> digits_val ds = len s -> len s < 18446744073709551616 ->
    parse_byte_str lc d (dr ++ [ch_colon] ++ s ++ rest) = Ok (s, ds ++ [ch_colon] ++ s, rest).
  Proof.
    intros HN -> Hv Hl. unfold parse_byte_str.
    destruct HN as [_ Hall]. assert (Hdr : Forall (fun b => is_digit b = true) dr) by (inversion Hall; assumption).
    cbn [app]. rewrite take_until_app by (apply (digits_not ch_colon); [exact Hdr | unfold ch_colon; lia]).
    replace (forallb is_digit (d :: dr)) with true by (symmetry; apply forallb_Forall; exact Hall).
    cbn [negb]. rewrite parse_usize_numeral; [| split; [discriminate | exact Hall] | lia].
    cbn [negb andb]. rewrite Hv. rewrite len_app.
    replace (len s + len rest <? len s) with false by lia.
    rewrite to_nat_len. rewrite firstn_app, firstn_all, Nat.sub_diag. cbn [firstn]. rewrite app_nil_r.
    rewrite skipn_app, skipn_all, Nat.sub_diag. cbn [skipn app]. reflexivity.
  Qed.

  Lemma parse_int_pos ds z rest :
    Numeral ds -> Shortest ds -> z = Z.of_N (digits_val ds) -> in_i64 z ->
    parse_int (ds ++ [ch_e] ++ rest) = Ok (z, [ch_i] ++ ds ++ [ch_e], rest).
  Proof.
    intros HN HS -> Hz. unfold parse_int. destruct (Numeral_cons ds HN) as (d & r & -> & Hd & Hall).
    destruct HN as [_ HF].
    cbn [app]. change (d :: r ++ ch_e :: rest) with ((d :: r) ++ ch_e :: rest).
    rewrite take_until_app by (apply (digits_not ch_e); [exact HF | unfold ch_e; lia]).
    assert (Hall2 : forallb (fun b => is_digit b || (b =? ch_minus)) (d :: r) = true).
    { apply forallb_Forall. eapply Forall_impl; [|exact HF]. cbn. intros b ->. reflexivity. }
    rewrite Hall2. cbn [negb].
    apply is_digit_spec in Hd.
    assert (Hlead : (match d :: r with a :: _ :: _ => a =? ch_0 | _ => false end
                     || match d :: r with a :: b :: _ => (a =? ch_minus) && (b =? ch_0) | _ => false end) = false).
    { destruct r as [|d2 r]; [reflexivity|]. cbn [Shortest] in HS. unfold ch_0, ch_minus in *. lia. }
    rewrite Hlead. unfold parse_i64.
    replace (d =? ch_minus) with false by (unfold ch_minus; lia). rewrite Hall.
    unfold in_i64 in Hz. replace (_ <? _) with true by lia. reflexivity.
  Qed.

  Lemma parse_int_neg ds z rest :
    Numeral ds -> Shortest ds -> digits_val ds <> 0 -> z = (- Z.of_N (digits_val ds))%Z -> in_i64 z ->
    parse_int ([ch_minus] ++ ds ++ [ch_e] ++ rest) = Ok (z, [ch_i; ch_minus] ++ ds ++ [ch_e], rest).
  Proof.
    intros HN HS Hnz -> Hz. unfold parse_int. destruct (Numeral_cons ds HN) as (d & r & -> & Hd & Hall).
    destruct HN as [_ HF].
    change ([ch_minus] ++ (d :: r) ++ [ch_e] ++ rest) with ((ch_minus :: d :: r) ++ ch_e :: rest).
    rewrite take_until_app.
    2:{ constructor; [discriminate|]. apply (digits_not ch_e); [exact HF | unfold ch_e; lia]. }
    assert (Hall2 : forallb (fun b => is_digit b || (b =? ch_minus)) (ch_minus :: d :: r) = true).
    { apply forallb_Forall. constructor; [reflexivity|].
      eapply Forall_impl; [|exact HF]. cbn. intros b ->. reflexivity. }
    rewrite Hall2. cbn [negb].
    assert (Hd0 : d <> ch_0).
    { destruct r as [|d2 r]; [|exact HS]. intros ->. apply Hnz. reflexivity. }
    apply is_digit_spec in Hd.
    assert (Hlead : (match ch_minus :: d :: r with a :: _ :: _ => a =? ch_0 | _ => false end
                     || match ch_minus :: d :: r with a :: b :: _ => (a =? ch_minus) && (b =? ch_0) | _ => false end) = false).
    { cbn. unfold ch_0 in *. lia. }
    rewrite Hlead. unfold parse_i64. change (ch_minus =? ch_minus) with true. cbv iota. rewrite Hall.
    unfold in_i64 in Hz. replace (_ <=? _) with true by lia. reflexivity.
  Qed.

  Lemma WfVal_Vals :
    forall a v, WfVal a v -> forall we rest vs r, Vals we rest vs r -> Vals we (a ++ rest) (v :: vs) r.
  Proof.
    apply (WfVal_mut
             (fun a v _ => forall we rest vs r, Vals we rest vs r -> Vals we (a ++ rest) (v :: vs) r)
             (fun b vs _ => forall we rest vs' r, Vals we rest vs' r -> Vals we (b ++ rest) (vs ++ vs') r)).
    - intros ds z HN HS Hz Hi we rest vs r HV.
      rewrite <- !app_assoc. cbn [app]. eapply Vals_int; [|exact HV].
      apply (parse_int_pos ds z rest); assumption.
    - intros ds z HN HS Hnz Hz Hi we rest vs r HV.
      rewrite <- !app_assoc. cbn [app]. eapply Vals_int; [|exact HV].
      apply (parse_int_neg ds z rest); assumption.
    - intros ds s HN Hv Hl we rest vs r HV.
      destruct (Numeral_cons ds HN) as (d & dr & E & Hd & _).
      rewrite <- !app_assoc. rewrite E at 1. cbn [app].
      eapply Vals_str; [exact Hd| |exact HV].
      apply (parse_byte_str_complete ds d dr s rest); assumption.
    - intros body vs Hseq IH we rest vs' r HV.
      rewrite <- !app_assoc. cbn [app]. eapply Vals_list; [|exact HV].
      specialize (IH true (ch_e :: rest) [] rest (Vals_end rest)). rewrite app_nil_r in IH. exact IH.
    - intros body vs ps Hseq IH HP we rest vs' r HV.
      rewrite <- !app_assoc. cbn [app]. eapply Vals_dict; [|apply Pairs_dict_pairs; exact HP|exact HV].
      specialize (IH true (ch_e :: rest) [] rest (Vals_end rest)). rewrite app_nil_r in IH. exact IH.
    - intros we rest vs' r HV. exact HV.
    - intros a v b vs Hv IHv Hs IHs we rest vs' r HV.
      rewrite <- app_assoc. cbn [app]. apply IHv. apply IHs. exact HV.
  Qed.

  Lemma WfSeq_Vals b vs : WfSeq b vs ->
    forall we rest vs' r, Vals we rest vs' r -> Vals we (b ++ rest) (vs ++ vs') r.
  Proof.
    induction 1 as [|a v b vs Hv Hs IH]; intros we rest vs' r HV; [exact HV|].
    rewrite <- app_assoc. cbn [app]. apply WfVal_Vals; [exact Hv|]. apply IH, HV.
  Qed.

  Theorem decode_complete doc vs : WfSeq doc vs -> decode_with le lc doc = Ok vs.
  Proof.
    intros H. pose proof (WfSeq_Vals doc vs H false [] [] [] Vals_top) as [f Hf].
    rewrite !app_nil_r in Hf. unfold decode_with.
    rewrite (values_any_fuel le lc f (S (length doc)) false doc _ Hf) by lia. reflexivity.
  Qed.
End Complete.

(* ---- soundness of the strict decoder ------------------------------------------- *)

Lemma parse_usize_some ds n : parse_usize ds = Some n ->
  Numeral ds /\ n = digits_val ds /\ n < 18446744073709551616.
Proof.
  unfold parse_usize. destruct ds as [|d r]; [discriminate|].
  destruct (forallb is_digit (d :: r)) eqn:E; [|discriminate].
  destruct (N.ltb_spec (digits_val (d :: r)) 18446744073709551616); [|discriminate].
  intros [= <-]. split; [split; [discriminate | apply forallb_Forall; exact E]|]. split; [reflexivity | assumption].
Qed.

Lemma parse_byte_str_sound b s v raw r :
  parse_byte_str false b s = Ok (v, raw, r) ->
  exists a, WfVal a (BStr v) /\ b :: s = a ++ r.
Proof.
  unfold parse_byte_str. pose proof (take_until_spec ch_colon s) as HT.
  destruct (take_until ch_colon s) as [[p after] found]. destruct HT as [_ HT].
  destruct (negb (forallb is_digit (b :: p))); [discriminate|].
  destruct (parse_usize (b :: p)) as [n|] eqn:EU; [|discriminate].
  apply parse_usize_some in EU. destruct EU as (HN & Hn & Hlt).
  destruct found; cbn [negb andb]; [|discriminate].
  destruct (N.ltb_spec (len after) n) as [|Hge]; [discriminate|].
  intros [= <- _ <-].
  exists ((b :: p) ++ [ch_colon] ++ firstn (N.to_nat n) after). split.
  - assert (Hl : len (firstn (N.to_nat n) after) = n).
    { unfold len in *. rewrite firstn_length. lia. }
    constructor; [exact HN | rewrite Hl; symmetry; exact Hn | rewrite Hl; exact Hlt].
  - rewrite HT. rewrite <- !app_assoc. cbn [app]. rewrite firstn_skipn. reflexivity.
Qed.

Lemma parse_i64_some s z : parse_i64 s = Some z ->
  (exists ds, s = ch_minus :: ds /\ Numeral ds /\ z = (- Z.of_N (digits_val ds))%Z /\ digits_val ds <= 9223372036854775808)
  \/ (Numeral s /\ z = Z.of_N (digits_val s) /\ digits_val s < 9223372036854775808 /\ hd 0 s <> ch_minus).
Proof.
  unfold parse_i64. destruct s as [|c ds]; [discriminate|].
  destruct (N.eqb_spec c ch_minus) as [->|Hc].
  - destruct ds as [|d r]; [discriminate|].
    destruct (forallb is_digit (d :: r)) eqn:E; [|discriminate].
    destruct (N.leb_spec (digits_val (d :: r)) 9223372036854775808); [|discriminate].
    intros [= <-]. left. exists (d :: r). split; [reflexivity|].
    split; [split; [discriminate | apply forallb_Forall; exact E]|]. split; [reflexivity | assumption].
  - destruct (forallb is_digit (c :: ds)) eqn:E; [|discriminate].
    destruct (N.ltb_spec (digits_val (c :: ds)) 9223372036854775808); [|discriminate].
    intros [= <-]. right. split; [split; [discriminate | apply forallb_Forall; exact E]|].
    split; [reflexivity|]. split; [assumption | exact Hc].
Qed.

Lemma parse_int_sound s z raw r :
  parse_int s = Ok (z, raw, r) -> exists a, WfVal a (BInt z) /\ ch_i :: s = a ++ r.
Proof.
  unfold parse_int. pose proof (take_until_spec ch_e s) as HT.
  destruct (take_until ch_e s) as [[num after] found]. destruct HT as [_ HT].
  destruct (negb (forallb _ num)); [discriminate|].
  destruct found; cbn [negb]; [|discriminate].
  match goal with |- context[if ?c then Err else _] => destruct c eqn:Elead; [discriminate|] end.
  destruct (parse_i64 num) as [z'|] eqn:EP; [|discriminate].
  intros [= <- _ <-]. apply orb_false_iff in Elead. destruct Elead as [L1 L2].
  apply parse_i64_some in EP. destruct EP as [(ds & -> & HN & Hz & Hle) | (HN & Hz & Hlt & Hhd)].
  - exists ([ch_i; ch_minus] ++ ds ++ [ch_e]). split.
    + destruct (Numeral_cons ds HN) as (d & dr & -> & Hd & _).
      assert (Hd0 : d <> ch_0).
      { intros ->. cbn in L2. discriminate. }
      apply Wf_neg; [exact HN | destruct dr; [exact I | exact Hd0] | apply digits_val_nonzero; assumption
                    | exact Hz | unfold in_i64; lia].
    + rewrite HT. rewrite <- !app_assoc. reflexivity.
  - exists ([ch_i] ++ num ++ [ch_e]). split.
    + apply Wf_int; [exact HN | | exact Hz | unfold in_i64; lia].
      destruct num as [|a [|b t]]; try exact I. cbn [Shortest]. intros ->. cbn in L1. discriminate.
    + rewrite HT. rewrite <- !app_assoc. reflexivity.
Qed.

Lemma values_strict_sound f : forall we s vs r,
  values false false f we s = Ok (vs, r) ->
  exists body, WfSeq body vs /\ s = body ++ (if we then ch_e :: r else []) /\ (we = false -> r = []).
Proof.
  induction f as [|f IH]; intros we s vs r; cbn [values]; [discriminate|]. unfold values_body.
  destruct s as [|b s].
  { destruct we; cbn [andb negb]; [discriminate|]. intros [= <- <-].
    exists []. split; [constructor|]. split; reflexivity. }
  destruct (is_digit b) eqn:Hb.
  { intros H. apply bind_ok in H. destruct H as ([[v raw] r1] & H1 & H).
    apply bind_ok in H. destruct H as ([vs2 r2] & H2 & [= <- <-]).
    apply parse_byte_str_sound in H1. destruct H1 as (a & Ha & Es).
    apply IH in H2. destruct H2 as (body2 & Hb2 & Er1 & Hr).
    exists (a ++ body2). split; [constructor; assumption|]. split; [|exact Hr].
    rewrite Es, Er1, app_assoc. reflexivity. }
  destruct (N.eqb_spec b ch_i) as [->|Hi].
  { intros H. apply bind_ok in H. destruct H as ([[z raw] r1] & H1 & H).
    apply bind_ok in H. destruct H as ([vs2 r2] & H2 & [= <- <-]).
    apply parse_int_sound in H1. destruct H1 as (a & Ha & Es).
    apply IH in H2. destruct H2 as (body2 & Hb2 & Er1 & Hr).
    exists (a ++ body2). split; [constructor; assumption|]. split; [|exact Hr].
    rewrite Es, Er1, app_assoc. reflexivity. }
  destruct (N.eqb_spec b ch_l) as [->|Hl].
  { intros H. apply bind_ok in H. destruct H as ([l r1] & H1 & H).
    apply bind_ok in H. destruct H as ([vs2 r2] & H2 & [= <- <-]).
    apply IH in H1. destruct H1 as (body1 & Hb1 & Es & _).
    apply IH in H2. destruct H2 as (body2 & Hb2 & Er1 & Hr).
    exists (([ch_l] ++ body1 ++ [ch_e]) ++ body2). split; [constructor; [constructor; exact Hb1 | exact Hb2]|].
    split; [|exact Hr]. rewrite Es, Er1. rewrite <- !app_assoc. reflexivity. }
  destruct (N.eqb_spec b ch_d) as [->|Hd].
  { intros H. apply bind_ok in H. destruct H as ([l r1] & H1 & H).
    apply bind_ok in H. destruct H as (ps & Hps & H).
    apply bind_ok in H. destruct H as ([vs2 r2] & H2 & [= <- <-]).
    apply IH in H1. destruct H1 as (body1 & Hb1 & Es & _).
    apply IH in H2. destruct H2 as (body2 & Hb2 & Er1 & Hr).
    apply dict_pairs_Pairs in Hps.
    exists (([ch_d] ++ body1 ++ [ch_e]) ++ body2).
    split; [constructor; [econstructor; eassumption | exact Hb2]|].
    split; [|exact Hr]. rewrite Es, Er1. rewrite <- !app_assoc. reflexivity. }
  destruct (N.eqb_spec b ch_e) as [->|He]; [|discriminate].
  destruct we; [|discriminate]. intros [= <- <-].
  exists []. split; [constructor|]. split; [reflexivity | discriminate].
Qed.

Theorem decode_strict_sound doc vs : decode_strict doc = Ok vs -> WfSeq doc vs.
Proof.
  unfold decode_strict, decode_with. intros H. apply bind_ok in H. destruct H as ([vs' r] & H & [= <-]).
  apply values_strict_sound in H. destruct H as (body & Hb & Es & _).
  rewrite app_nil_r in Es. subst. exact Hb.
Qed.

Theorem decode_strict_iff doc vs : decode_strict doc = Ok vs <-> WfSeq doc vs.
Proof. split; [apply decode_strict_sound | apply decode_complete]. Qed.

(* the code's decoder is sound on every document the strict decoder does not reject *)
Theorem decode_sound_partial doc vs :
  decode doc = Ok vs -> is_ok (decode_strict doc) = true -> WfSeq doc vs.
Proof.
  intros H Hs. destruct (decode_strict doc) as [vs'| | |] eqn:E; try discriminate.
  pose proof (decode_strict_sound doc vs' E) as HW.
  pose proof (decode_complete true BCodec_lenient_colon doc vs' HW) as H'.
  unfold decode in H. rewrite H' in H. injection H as <-. exact HW.
Qed.

Lemma decode_refuted_unterminated :
  decode [ch_l; ch_i; 49; ch_e] = Ok [BList [BInt 1]] /\ ~ exists vs, WfSeq [ch_l; ch_i; 49; ch_e] vs.
Proof.
  split; [vm_compute; reflexivity|]. intros [vs H]. apply decode_strict_iff in H. vm_compute in H. discriminate.
Qed.
