(* BGrammar.v — the bencode grammar stated independently of the decoder:
   what a well-formed document is and which values it denotes, and what a
   canonical document is. *)
From Rdest Require Export Base BCodec.
Open Scope N_scope.

Definition in_i64 (z : Z) : Prop := (-9223372036854775808 <= z < 9223372036854775808)%Z.

(* a decimal numeral: non-empty, digits only; its value *)
Definition Numeral (ds : bytes) : Prop := ds <> [] /\ Forall (fun b => is_digit b = true) ds.
(* shortest form: no leading zero unless the numeral is "0" *)
Definition Shortest (ds : bytes) : Prop := match ds with a :: _ :: _ => a <> ch_0 | _ => True end.

(* pairs of a dictionary body: key must be a string *)
Inductive Pairs : list bvalue -> list (bytes * bvalue) -> Prop :=
| Pairs_nil : Pairs [] []
| Pairs_cons k v r ps : Pairs r ps -> Pairs (BStr k :: v :: r) ((k, v) :: ps).

(* WfVal doc v: doc is exactly one well-formed value, denoting v.  Key order and
   uniqueness are not enforced; a repeated key keeps its last value. *)
Inductive WfVal : bytes -> bvalue -> Prop :=
| Wf_int ds z :
    Numeral ds -> Shortest ds -> z = Z.of_N (digits_val ds) -> in_i64 z ->
    WfVal ([ch_i] ++ ds ++ [ch_e]) (BInt z)
| Wf_neg ds z :
    Numeral ds -> Shortest ds -> digits_val ds <> 0 -> z = (- Z.of_N (digits_val ds))%Z -> in_i64 z ->
    WfVal ([ch_i; ch_minus] ++ ds ++ [ch_e]) (BInt z)
| Wf_str ds s :
    Numeral ds -> digits_val ds = len s -> len s < 18446744073709551616 ->
    WfVal (ds ++ [ch_colon] ++ s) (BStr s)
| Wf_list body vs :
    WfSeq body vs -> WfVal ([ch_l] ++ body ++ [ch_e]) (BList vs)
| Wf_dict body vs ps :
    WfSeq body vs -> Pairs vs ps -> WfVal ([ch_d] ++ body ++ [ch_e]) (BDict (map_of_list ps))
with WfSeq : bytes -> list bvalue -> Prop :=
| Wf_nil : WfSeq [] []
| Wf_cons a v b vs : WfVal a v -> WfSeq b vs -> WfSeq (a ++ b) (v :: vs).

Scheme WfVal_mut := Induction for WfVal Sort Prop
with WfSeq_mut := Induction for WfSeq Sort Prop.

(* the strict decoder is the executable recogniser of this grammar (proved in
   BProofs.v: decode_strict doc = Ok vs <-> WfSeq doc vs); the code as written
   is decode_with true true before, decode_with true false after the repair of
   the missing-colon defect *)
Definition decode_strict : bytes -> result (list bvalue) := decode_with false false.

(* ---- well-formed values (the encoder's domain) and canonical documents ---- *)

Fixpoint keys_sorted {V} (d : list (bytes * V)) : bool :=
  match d with
  | [] => true
  | (k, _) :: d' => match d' with
                    | [] => true
                    | (k', _) :: _ => bytes_ltb k k' && keys_sorted d'
                    end
  end.

(* a value the HashMap-based BValue can hold: i64 integers, dictionaries with
   distinct keys (represented sorted), strings shorter than 2^64 *)
Fixpoint wf_value (v : bvalue) : bool :=
  match v with
  | BInt z => (-9223372036854775808 <=? z)%Z && (z <? 9223372036854775808)%Z
  | BStr s => len s <? 18446744073709551616
  | BList l => forallb wf_value l
  | BDict d => keys_sorted d
               && (fix go (d : list (bytes * bvalue)) : bool :=
                     match d with
                     | [] => true
                     | (k, v) :: d' => (len k <? 18446744073709551616) && wf_value v && go d'
                     end) d
  end.

(* canonical documents: shortest length prefixes, keys strictly ascending
   (integers are already forced into shortest form by WfVal) *)
Inductive Canon : bytes -> bvalue -> Prop :=
| Cn_int ds z :
    Numeral ds -> Shortest ds -> z = Z.of_N (digits_val ds) -> in_i64 z ->
    Canon ([ch_i] ++ ds ++ [ch_e]) (BInt z)
| Cn_neg ds z :
    Numeral ds -> Shortest ds -> digits_val ds <> 0 -> z = (- Z.of_N (digits_val ds))%Z -> in_i64 z ->
    Canon ([ch_i; ch_minus] ++ ds ++ [ch_e]) (BInt z)
| Cn_str ds s :
    Numeral ds -> Shortest ds -> digits_val ds = len s -> len s < 18446744073709551616 ->
    Canon (ds ++ [ch_colon] ++ s) (BStr s)
| Cn_list body vs :
    CanonSeq body vs -> Canon ([ch_l] ++ body ++ [ch_e]) (BList vs)
| Cn_dict body vs ps :
    CanonSeq body vs -> Pairs vs ps -> keys_sorted ps = true ->
    Canon ([ch_d] ++ body ++ [ch_e]) (BDict ps)
with CanonSeq : bytes -> list bvalue -> Prop :=
| Cn_nil : CanonSeq [] []
| Cn_cons a v b vs : Canon a v -> CanonSeq b vs -> CanonSeq (a ++ b) (v :: vs).

Scheme Canon_mut := Induction for Canon Sort Prop
with CanonSeq_mut := Induction for CanonSeq Sort Prop.

(* ---- executable recogniser of canonical documents (the oracle) ----------- *)
(* a strict parse that additionally rejects leading-zero lengths and
   unsorted / duplicate keys; independent of `encode` *)
Definition shortestb (ds : bytes) : bool :=
  match ds with a :: _ :: _ => negb (a =? ch_0) | _ => true end.

Fixpoint canon_values (fuel : nat) (with_end : bool) (s : bytes) : result (list bvalue * bytes) :=
  match fuel with
  | O => OutOfFuel
  | S f =>
    match s with
    | [] => if with_end then Err else Ok ([], [])
    | b :: r =>
      if is_digit b then
        let '(lenrest, _, _) := take_until ch_colon r in
        if negb (shortestb (b :: lenrest)) then Err else
        do (v, _, r1) <- parse_byte_str false b r;
        do (vs, r2) <- canon_values f with_end r1;
        Ok (BStr v :: vs, r2)
      else if b =? ch_i then
        do (z, _, r1) <- parse_int r;
        do (vs, r2) <- canon_values f with_end r1;
        Ok (BInt z :: vs, r2)
      else if b =? ch_l then
        do (l, r1) <- canon_values f true r;
        do (vs, r2) <- canon_values f with_end r1;
        Ok (BList l :: vs, r2)
      else if b =? ch_d then
        do (l, r1) <- canon_values f true r;
        do ps <- dict_pairs l;
        if negb (keys_sorted ps) then Err else
        do (vs, r2) <- canon_values f with_end r1;
        Ok (BDict ps :: vs, r2)
      else if b =? ch_e then
        if with_end then Ok ([], r) else Err
      else Err
    end
  end.

Definition canonicalb (s : bytes) : bool :=
  match canon_values (S (length s)) false s with Ok _ => true | _ => false end.
