#!/usr/bin/env python3
"""Constant translator: regenerates coq/Consts.v from /repo's current sources.

Every `const NAME: T = EXPR;` of the listed files is parsed, EXPR is evaluated
(integer / byte-string literals, + - * / %, parentheses, `as T`, references to
other constants, `.len()`, `[i]`) and written as a Gallina definition.  An
expression the evaluator cannot handle is a hard failure (exit 2): the tie
between model and code is then broken and the caller reports it.

Naming: free constants of constants.rs keep their name; free constants of other
files are `<file stem>_<NAME>`; associated constants are `<Type>_<NAME>`.
"""
import re, sys, os, json

REPO = os.environ.get("VERIF_REPO", "/repo")
FILES = ["src/constants.rs", "src/peer_handler.rs", "src/session.rs",
         "src/tracker_client.rs", "src/metainfo.rs", "src/frame.rs",
         "src/connection.rs", "src/peer.rs"] + \
        ["src/messages/%s.rs" % m for m in
         ["bitfield", "cancel", "choke", "handshake", "have", "interested",
          "keep_alive", "not_interested", "piece", "request", "unchoke"]]

CONST_RE = re.compile(r"\bconst\s+([A-Z][A-Z0-9_]*)\s*:\s*((?:[^=;\[]|\[[^\]]*\])+?)\s*=\s*(.+?);", re.S)
IMPL_RE = re.compile(r"^impl(?:<[^>]*>)?\s+([A-Za-z0-9_]+)\s*\{", re.M)


class Fail(Exception):
    pass


def strip_comments(src):
    src = re.sub(r"//[^\n]*", "", src)
    return re.sub(r"/\*.*?\*/", "", src, flags=re.S)


def scopes(src):
    """Yield (scope_name_or_None, text) regions: impl blocks and the rest."""
    out = []
    pos = 0
    rest = []
    for m in IMPL_RE.finditer(src):
        if m.start() < pos:
            continue
        depth = 0
        i = m.end() - 1
        while i < len(src):
            if src[i] == "{":
                depth += 1
            elif src[i] == "}":
                depth -= 1
                if depth == 0:
                    break
            i += 1
        rest.append(src[pos:m.start()])
        out.append((m.group(1), src[m.end():i]))
        pos = i + 1
    rest.append(src[pos:])
    out.append((None, "\n".join(rest)))
    return out


def collect():
    raw = {}  # name -> (type, expr, scope, file)
    for f in FILES:
        p = os.path.join(REPO, f)
        if not os.path.exists(p):
            raise Fail("missing source file %s" % f)
        src = strip_comments(open(p).read())
        stem = os.path.splitext(os.path.basename(f))[0]
        for scope, text in scopes(src):
            for m in CONST_RE.finditer(text):
                name, ty, expr = m.group(1), m.group(2).strip(), m.group(3).strip()
                if ty == "bool":
                    continue
                if scope:
                    full = "%s_%s" % (scope, name)
                elif stem == "constants":
                    full = name
                else:
                    full = "%s_%s" % (stem, name)
                if full in raw:
                    raise Fail("duplicate constant %s" % full)
                raw[full] = (ty, expr, scope, stem)
    return raw


def evaluate(raw):
    vals = {}
    busy = set()

    def lookup(full):
        if full in vals:
            return vals[full]
        if full not in raw:
            raise Fail("reference to unknown constant %s" % full)
        if full in busy:
            raise Fail("cyclic constant %s" % full)
        busy.add(full)
        ty, expr, scope, stem = raw[full]
        e = re.sub(r"\s+", " ", expr)
        e = re.sub(r"\bas\s+[a-z0-9]+", "", e)
        e = re.sub(r"\bSelf::", (scope or "") + "::", e)

        def qual(m):
            return 'V("%s_%s")' % (m.group(1), m.group(2))
        e = re.sub(r"\b([A-Z][A-Za-z0-9]*)::([A-Z][A-Z0-9_]*)\b", qual, e)

        def bare(m):
            n = m.group(0)
            cands = ["%s_%s" % (stem, n), n]
            for c in cands:
                if c in raw:
                    return 'V("%s")' % c
            raise Fail("cannot resolve %s in %s" % (n, full))
        # bare ALLCAPS identifiers that are not inside V("...") or a byte string
        parts = re.split(r'(V\("[^"]*"\)|b"(?:[^"\\]|\\.)*")', e)
        for i in range(0, len(parts), 2):
            parts[i] = re.sub(r"\b[A-Z][A-Z0-9_]{1,}\b", bare, parts[i])
        e = "".join(parts)
        e = re.sub(r'(V\("[^"]*"\))\.len\(\)', r"len(\1)", e)
        e = e.replace("/", "//")
        if re.search(r"[^0-9A-Za-z_ ()+\-*/%\[\]\".,:\\']", e.replace("//", "/")) and 'b"' not in e:
            raise Fail("unsupported expression for %s: %s" % (full, expr))
        try:
            v = eval(e, {"__builtins__": {}}, {"V": lookup, "len": len})
        except Fail:
            raise
        except Exception as ex:
            raise Fail("cannot evaluate %s = %s (%s)" % (full, expr, ex))
        if isinstance(v, bytes):
            v = list(v)
        elif not isinstance(v, int) or isinstance(v, bool) or v < 0:
            raise Fail("unsupported value for %s: %r" % (full, v))
        busy.discard(full)
        vals[full] = v
        return v

    for k in raw:
        lookup(k)
    return vals


def render(vals):
    lines = ["(* GENERATED by tools/gen_consts.py from /repo's working tree. Do not edit. *)",
             "From Coq Require Import NArith List.", "Import ListNotations.", "Open Scope N_scope.", ""]
    for k in sorted(vals):
        v = vals[k]
        if isinstance(v, list):
            lines.append("Definition %s : list N := [%s]." % (k, "; ".join(map(str, v))))
        else:
            lines.append("Definition %s : N := %d." % (k, v))
    nums = [k for k in sorted(vals) if not isinstance(vals[k], list)]
    lines.append("")
    lines.append("(* unfold every numeric constant (for lia) *)")
    lines.append("Ltac unfold_consts := cbv delta [%s] in *." % " ".join(nums))
    return "\n".join(lines) + "\n"


# ---- the vocabulary of the code: variants of the enums the models mirror ---------------------------------------
SHAPE_FILES = ["src/commands.rs", "src/frame.rs", "src/session.rs", "src/bcodec/bvalue.rs"]
SHAPE_ENUMS = ["TrackerCmd", "ExtractorCmd", "BroadCmd", "PeerCmd", "InitCmd", "UnchokeCmd", "NotInterestedCmd", "HaveCmd",
               "BitfieldCmd", "RequestCmd", "PieceCmd", "Frame", "Status", "BValue"]


def enums_of(path):
    src = strip_comments(open(path).read())
    out = {}
    for m in re.finditer(r"\benum\s+(\w+)\s*\{", src):
        i = m.end()
        depth, j = 1, i
        while depth:
            c = src[j]
            if c == "{":
                depth += 1
            elif c == "}":
                depth -= 1
            j += 1
        body = src[i:j - 1]
        vs, d, cur = [], 0, ""
        for ch in body:
            if ch in "{(":
                d += 1
            if ch in "})":
                d -= 1
            if ch == "," and d == 0:
                vs.append(cur)
                cur = ""
            else:
                cur += ch
        vs.append(cur)
        names = []
        for v in vs:
            v = re.sub(r"#\[[^\]]*\]", "", v).strip()
            mm = re.match(r"(\w+)", v)
            if mm:
                names.append(mm.group(1))
        out[m.group(1)] = names
    return out


def render_shape():
    found = {}
    for f in SHAPE_FILES:
        p = os.path.join(REPO, f)
        if not os.path.exists(p):
            raise Fail("missing source file %s" % f)
        found.update(enums_of(p))
    lines = ["(* GENERATED by tools/gen_consts.py from /repo's working tree: the variants of the enums the models mirror. Do not edit. *)",
             "From Coq Require Import String List.", "Import ListNotations.", "Open Scope string_scope.", ""]
    for e in SHAPE_ENUMS:
        if e not in found:
            raise Fail("enum %s not found in the sources" % e)
        lines.append("Definition shape_%s : list string := [%s]." % (e, "; ".join('"%s"' % v for v in found[e])))
    return "\n".join(lines) + "\n"


# ---- every function of the code is classified: modelled (where), hook, or not modelled (why) ---------------------
def check_fn_map():
    here = os.path.dirname(os.path.abspath(__file__))
    sys.path.insert(0, here)
    from fn_scan import scan
    found = {f: ns for f, ns in scan(REPO).items() if ns}
    fmap = json.load(open(os.path.join(here, "fn_map.json")))
    problems = []
    for f, ns in sorted(found.items()):
        for n in ns:
            if n not in fmap.get(f, {}):
                problems.append("function %s of %s is not classified in tools/fn_map.json (modelled where? hook? not modelled why?)" % (n, f))
    for f, d in sorted(fmap.items()):
        for n in d:
            if n not in found.get(f, []):
                problems.append("tools/fn_map.json classifies %s of %s, which no longer exists" % (n, f))
    if problems:
        raise Fail("; ".join(problems[:6]) + (" ... (%d in all)" % len(problems) if len(problems) > 6 else ""))
    return sum(len(d) for d in fmap.values())


def main():
    out = sys.argv[1] if len(sys.argv) > 1 else "/verif/coq/Consts.v"
    try:
        vals = evaluate(collect())
    except Fail as e:
        print("gen_consts: BROKEN TIE: %s" % e)
        sys.exit(2)
    try:
        shape = render_shape()
    except Fail as e:
        print("gen_consts: BROKEN TIE: %s" % e)
        sys.exit(2)
    fn_problem = None
    try:
        nfn = check_fn_map()
    except Fail as e:
        # the generated files are still written: the rest of the check can go on and look for a failing input
        fn_problem = str(e)
        nfn = 0
    shape_out = os.path.join(os.path.dirname(out), "Shape.v")
    if not os.path.exists(shape_out) or open(shape_out).read() != shape:
        with open(shape_out, "w") as f:
            f.write(shape)
    text = render(vals)
    old = open(out).read() if os.path.exists(out) else None
    if old != text:
        with open(out, "w") as f:
            f.write(text)
    if len(sys.argv) > 2:
        json.dump(vals, open(sys.argv[2], "w"), indent=0, sort_keys=True)
    if fn_problem:
        print("gen_consts: BROKEN TIE (function map): %s" % fn_problem)
        sys.exit(3)
    print("gen_consts: %d constants%s, %d functions classified" % (len(vals), "" if old == text else " (changed)", nfn))


if __name__ == "__main__":
    main()
