(* C14 — upload slots are bounded and follow the choking policy. *)
From Coq Require Import Permutation.
From Rdest Require Import Base Consts Wire Manager MgrProofs Handler HandlerProofs Stats HStats Corr.Stats StatsProofs HStatsProofs.
Open Scope N_scope.
Definition acts_of_outcome (o : outcome) : list action := match o with HCont _ a | HEnd _ a _ | HPanic a => a end.

(* between rotations: a newcomer's bitfield never takes the regular (non-optimistic) unchoked peers above ten *)
Theorem C14_bitfield_bound : forall m a bits pick m' r bc sp,
  mstep m (CBitfield a bits) pick = Ok (m', r, bc, sp) ->
  regular_unchoked (m_peers m) <= 10 -> regular_unchoked (m_peers m') <= 10.
Proof. intros. eapply bitfield_keeps_bound; eauto. Qed.

(* after every choke rotation carried out over all connected peers (every rate order, ties included, any optimistic
   pick): at most ten peers are unchoked, plus the new optimistic ones (at most one: new_optimistic_peers picks one) *)
Theorem C14_rotation_bound : forall m rates new_opt m' fl,
  NoDup (map fst (m_peers m)) -> Permutation (map fst rates) (map fst (m_peers m)) ->
  change_conn_state m rates new_opt = Ok (m', fl) -> U (m_peers m') <= 10 + len new_opt.
Proof. exact rotation_bound. Qed.

(* policy, first half: after a rotation every unchoked peer that is not a freshly picked optimistic one has declared
   interest -- so each regular slot belongs to an interested peer and every peer that lost interest has been choked *)
Theorem C14_slots_interested : forall m rates new_opt m' fl,
  NoDup (map fst rates) -> change_conn_state m rates new_opt = Ok (m', fl) ->
  forall a p', In a (map fst rates) -> ~ In a new_opt -> pget (m_peers m') a = Some p' ->
  p_am_choked p' = false -> p_interested p' = true.
Proof. exact rotation_slots_interested. Qed.

(* policy, second half: after a rotation over the rated peers (every rate list with distinct addresses, ties
   included, any optimistic pick) no peer left choked although interested has a strictly better rate than a peer
   holding a regular (non-optimistic) slot: the slots went to the interested peers in descending rate order *)
Theorem C14_rate_order : forall m rates new_opt m' fl,
  NoDup (map fst rates) -> change_conn_state m rates new_opt = Ok (m', fl) ->
  forall a ra b rb pa pb, In (a, ra) rates -> In (b, rb) rates ->
    pget (m_peers m') a = Some pa -> pget (m_peers m') b = Some pb ->
    p_am_choked pa = true -> p_interested pa = true ->
    p_am_choked pb = false -> p_optimistic pb = false -> ra <= rb.
Proof. exact rotation_rate_order. Qed.

(* the choke/unchoke messages correspond exactly to the changes: the map broadcast after a rotation holds, for every
   peer, its new value exactly when the value changed (the new optimistic picks are taken among peers we choke, as
   new_optimistic_peers does: it filters on am_choked) ... *)
Theorem C14_map_exact : forall m rates new_opt m' fl,
  NoDup (map fst rates) -> NoDup new_opt ->
  (forall a, In a new_opt -> amc (m_peers m) a = Some true) ->
  change_conn_state m rates new_opt = Ok (m', fl) ->
  forall a, match mlook fl a with
            | Some b => amc (m_peers m') a = Some b /\ amc (m_peers m) a = Some (negb b)
            | None => amc (m_peers m') a = amc (m_peers m) a
            end.
Proof. exact rotation_map_exact. Qed.
(* ... and each connection task turns its entry of the map into exactly one Choke or Unchoke frame, nothing without one *)
Theorem C14_messages_follow_map : forall sha1 cf disk ovf s r,
  acts_of_outcome (hstep sha1 cf disk ovf s (EBroadOwn (Some true)) r) = [ASend Choke] /\
  acts_of_outcome (hstep sha1 cf disk ovf s (EBroadOwn (Some false)) r) = [ASend Unchoke] /\
  acts_of_outcome (hstep sha1 cf disk ovf s (EBroadOwn None) r) = [].
Proof. intros. repeat split. Qed.

(* the timer's own wrapper (timeout_change_conn_state) hands change_conn_state one (address, rate) pair per connected
   peer -- upload rates while leeching, download rates once everything is owned -- in the iteration order of a hash map,
   i.e. SOME permutation of the peers: the theorems above quantify over every rate list, so they hold for whatever
   order that is, ties included *)
Definition tick_rates (m : mgr) : list (addr * N) :=
  let seeder := forallb is_have (m_status m) in
  map (fun kp => (fst kp, match (if seeder then p_drate (snd kp) else p_urate (snd kp)) with Some r => r | None => 0 end)) (m_peers m).
Theorem C14_timer_wrapper : forall m rates new_opt m' fl,
  NoDup (map fst (m_peers m)) -> Permutation rates (tick_rates m) ->
  change_conn_state m rates new_opt = Ok (m', fl) ->
  U (m_peers m') <= 10 + len new_opt /\
  (forall a p', In a (map fst rates) -> ~ In a new_opt -> pget (m_peers m') a = Some p' -> p_am_choked p' = false -> p_interested p' = true) /\
  (forall a ra b rb pa pb, In (a, ra) rates -> In (b, rb) rates ->
     pget (m_peers m') a = Some pa -> pget (m_peers m') b = Some pb ->
     p_am_choked pa = true -> p_interested pa = true -> p_am_choked pb = false -> p_optimistic pb = false -> ra <= rb).
Proof.
  intros m rates new_opt m' fl Hnd Hperm H.
  assert (Hkeys : Permutation (map fst rates) (map fst (m_peers m))).
  { eapply Permutation_trans; [apply Permutation_map; exact Hperm|]. unfold tick_rates. rewrite map_map. cbn [fst]. apply Permutation_refl. }
  assert (Hnd' : NoDup (map fst rates)) by (eapply Permutation_NoDup; [apply Permutation_sym; exact Hkeys | exact Hnd]).
  split; [exact (rotation_bound m rates new_opt m' fl Hnd Hkeys H)|].
  split; [intros; eapply rotation_slots_interested; eassumption | intros; eapply rotation_rate_order; eassumption].
Qed.

(* the wrapper itself (timeout_change_conn_state = Manager.timer_tick; compared with the code on every tick whose rates
   have no ties, where the peer map's iteration order cannot matter): while some peer has not reported both rates a tick
   only advances the round; otherwise it is the rotation on the reported rates in whatever order the map yields, with
   the optimistic pick used in round 0 only, and the slot bound holds afterwards *)
Theorem C14_timer_tick_quiet : forall m order pick, timer_rates m = None ->
  exists m', timer_tick m order pick = Ok (m', None) /\ m_peers m' = m_peers m /\ m_status m' = m_status m /\
             m_round m' = (m_round m + 1) mod MAX_OPTIMISTIC_ROUNDS.
Proof. exact timer_tick_quiet. Qed.
Theorem C14_timer_tick_bound : forall m order pick m' fl,
  NoDup (map fst (m_peers m)) -> Permutation (map fst order) (map fst (m_peers m)) ->
  timer_tick m order pick = Ok (m', Some fl) ->
  U (m_peers m') <= 10 + len pick /\ m_round m' = (m_round m + 1) mod MAX_OPTIMISTIC_ROUNDS /\ m_status m' = m_status m.
Proof. exact timer_tick_bound. Qed.

Theorem C14_timer_tick_is_rotation : forall m order pick m' fl,
  timer_tick m order pick = Ok (m', Some fl) ->
  let r := (m_round m + 1) mod MAX_OPTIMISTIC_ROUNDS in
  change_conn_state (mkmgr (m_status m) (m_peers m) (m_candidates m) r (m_extracted m) (m_plens m)) order
                    (if r =? 0 then pick else []) = Ok (m', fl).
Proof. exact timer_tick_is_rotation. Qed.

Example C14_nonvacuous :
  let p c i := mkpeer None [] None false c i true false None None in
  match change_conn_state (mkmgr [] [(1, p true true); (2, p false false); (3, p true true)] [] 0 false []) [(1, 5); (2, 9); (3, 5)] [] with
  | Ok (m', fl) => map (fun kp => p_am_choked (snd kp)) (m_peers m') = [false; true; false] /\ fl = [(2, true); (1, false); (3, false)]
  | _ => False
  end.
Proof. vm_compute. split; reflexivity. Qed.

(* "at most ten peers unchoked plus at most one optimistic unchoke": the code's constants, pinned *)
Example C14_slots_pinned : MAX_UNCHOKED = 10 /\ MAX_OPTIMISTIC = 1 /\ MAX_OPTIMISTIC_ROUNDS = 3. Proof. repeat split; reflexivity. Qed.

(* What the "measured rate" measures (HStats.v: the statistics call sites of the connection task; Stats.v: the counters).
   (The first two statements unfold the projection HStats.stats_ops for arbitrary action lists -- it is tied to the code
   by the correspondence part C14Rates; the following ones are about the task's steps.)
   Counted as uploaded are exactly the payload bytes of the piece messages written; a block counts as downloaded exactly
   when it answers an outstanding request of the piece being assembled, any other one is refused, counted as unexpected
   and changes nothing; and over a connection's whole life every report is the mean over the last two 10 s intervals of
   these byte counts (clamped to u32) with the unexpected blocks of the current interval. *)
Theorem C14_rate_uploads_counted : forall s ev acts, sum_up (stats_ops s ev acts) = uploaded_bytes acts.
Proof. exact uploads_counted. Qed.
Theorem C14_rate_block_counted : forall s i b blk acts,
  sum_down (stats_ops s (EFrame (Piece i b blk)) acts) =
  if piece_reaches_handler s && match h_rx s with Some r => is_requested r i b blk | None => false end then len blk else 0.
Proof. exact block_counted. Qed.
(* ... and about the task's own steps (hstep), whatever the manager answers: a Piece frame moves exactly one counter;
   nothing but the answer to a Request frame counts as uploaded (piece messages are written only there: actions_ok) *)
Theorem C14_rate_task_block_counted : forall sha1 cf disk ovf s i b blk r,
  stats_ops s (EFrame (Piece i b blk)) (acts_of (hstep sha1 cf disk ovf s (EFrame (Piece i b blk)) r)) =
  if piece_reaches_handler s then
    (if match h_rx s with Some rx => is_requested rx i b blk | None => false end then [SDown (len blk)] else [SUnexpected])
  else [].
Proof. exact task_block_counted. Qed.
Theorem C14_rate_no_upload_without_request : forall sha1 cf disk ovf s ev r,
  (forall ri rb rl, ev <> EFrame (Request ri rb rl)) ->
  sum_up (stats_ops s ev (acts_of (hstep sha1 cf disk ovf s ev r))) = 0.
Proof. exact no_upload_without_request. Qed.
Theorem C14_rate_refused_block : forall sha1 cf disk ovf s i b blk rep,
  piece_reaches_handler s = true ->
  match h_rx s with Some r => is_requested r i b blk | None => false end = false ->
  hstep sha1 cf disk ovf s (EFrame (Piece i b blk)) rep = HCont (set_ka s 0) [] /\
  stats_ops s (EFrame (Piece i b blk)) [] = [SUnexpected].
Proof. exact refused_block_changes_nothing. Qed.
Theorem C14_rate_reports_exact : forall sha1 cf disk ovf s0 tr,
  fits (trace_ops sha1 cf disk ovf s0 tr) 0 0 0 ->
  srun_with true ovf stats_new (trace_ops sha1 cf disk ovf s0 tr) [] =
  Ok (expected (trace_ops sha1 cf disk ovf s0 tr) None None 0 0 0).
Proof. exact reports_are_interval_means. Qed.

Print Assumptions C14_bitfield_bound.
Print Assumptions C14_rotation_bound.
Print Assumptions C14_slots_interested.
Print Assumptions C14_rate_order.
Print Assumptions C14_map_exact.
Print Assumptions C14_messages_follow_map.
Print Assumptions C14_timer_wrapper.
Print Assumptions C14_timer_tick_quiet.
Print Assumptions C14_timer_tick_bound.
Print Assumptions C14_timer_tick_is_rotation.
Print Assumptions C14_rate_uploads_counted.
Print Assumptions C14_rate_block_counted.
Print Assumptions C14_rate_task_block_counted.
Print Assumptions C14_rate_no_upload_without_request.
Print Assumptions C14_rate_refused_block.
Print Assumptions C14_rate_reports_exact.
