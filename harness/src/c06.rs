//! Connection::recv_frame over an in-memory pipe with scripted segmentation (C06).
//!
//! case line:  conn <chunk hex>,<chunk hex>,...,[EOF]
//! Each chunk is written, then recv_frame is called until it is pending; at EOF the write side is shut down.
//! output: per chunk  F:<frame debug>|...|<P buffered / C / E / X(panic)>  separated by " ; "
use crate::util::*;
use rdest::verif::*;
use tokio::io::AsyncWriteExt;
use tokio::time::Duration;

async fn run_case(line: &str) -> String {
    let t: Vec<&str> = line.split_whitespace().collect();
    assert_eq!(t[0], "conn");
    let chunks: Vec<&str> = if t.len() > 1 { t[1].split(',').collect() } else { vec![] };
    let mut conn = Connection::new("10.0.0.1:6881".to_string());
    let (a, mut b) = tokio::io::duplex(1 << 22);
    conn.verif_with_mem(a);
    let mut outs = vec![];
    let mut over = false;
    for ch in chunks {
        if over {
            break;
        }
        if ch == "EOF" {
            let _ = b.shutdown().await;
        } else {
            let _ = b.write_all(&unhex(ch)).await;
        }
        let mut parts: Vec<String> = vec![];
        PARTIAL.with(|p| *p.borrow_mut() = (outs.clone(), vec![]));
        loop {
            PARTIAL.with(|p| p.borrow_mut().1 = parts.clone());
            match tokio::time::timeout(Duration::from_millis(1), conn.recv_frame()).await {
                Err(_) => {
                    parts.push(format!("P{}", conn.verif_buffer_len()));
                    break;
                }
                Ok(Ok(Some(frame))) => parts.push(format!("F:{:?}", frame)),
                Ok(Ok(None)) => {
                    parts.push("C".to_string());
                    over = true;
                    break;
                }
                Ok(Err(_)) => {
                    parts.push(format!("E{}", conn.verif_buffer_len()));
                    over = true;
                    break;
                }
            }
        }
        outs.push(parts.join("|"));
    }
    PARTIAL.with(|p| *p.borrow_mut() = (vec![], vec![]));
    outs.join(" ; ")
}

pub fn run(lines: &[String]) {
    for line in lines {
        let rt = tokio::runtime::Builder::new_current_thread().enable_all().start_paused(true).build().unwrap();
        match guarded(|| rt.block_on(run_case(line))) {
            Some(s) => println!("{}", if s.is_empty() { "-".to_string() } else { s }),
            None => {
                // the call panicked: report what was delivered before, then the crash
                let (mut outs, mut parts) = PARTIAL.with(|p| p.borrow().clone());
                parts.push("X".to_string());
                outs.push(parts.join("|"));
                println!("{}", outs.join(" ; "));
            }
        }
    }
}

thread_local! {
    static PARTIAL: std::cell::RefCell<(Vec<String>, Vec<String>)> = std::cell::RefCell::new((vec![], vec![]));
}
