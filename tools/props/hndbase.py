"""Shared by the handler-level properties (C08, C09, C10, C11, C20, C01): scenarios for the real
PeerHandler over an in-memory pipe, harness = remote peer + manager, paused clock."""
import hashlib, struct
from driver import Case
from vlib import coq_bytes, prand, Blob

OWN_ID, INFO_HASH, PEER_ID = b"O" * 20, b"I" * 20, b"P" * 20
BLOCK = 16384
TICK_MS = 120000


# ---- wire encoding (independent of the Coq model; BEP3) -------------------------------------
def hs(ih=INFO_HASH, pid=PEER_ID, proto=b"BitTorrent protocol"):
    return bytes([len(proto)]) + proto + bytes(8) + ih + pid


def wmsg(mid, payload=b""):
    return struct.pack(">IB", 1 + len(payload), mid) + payload


class M:
    """a message: raw bytes for the harness, Gallina term for the model"""
    def __init__(self, raw, term):
        self.raw, self.term = raw, term


def m_hs(ih=INFO_HASH, pid=PEER_ID):
    return M(hs(ih, pid), "(Handshake %s %s)" % (coq_bytes(ih), coq_bytes(pid)))


KEEPALIVE = M(struct.pack(">I", 0), "KeepAlive")
CHOKE, UNCHOKE, INTERESTED, NOTINTERESTED = (M(wmsg(0), "Choke"), M(wmsg(1), "Unchoke"), M(wmsg(2), "Interested"),
                                             M(wmsg(3), "NotInterested"))


def m_have(i):
    return M(wmsg(4, struct.pack(">I", i)), "(Wire.Have %d)" % i)


def m_bitfield(bits):
    by = bytearray((len(bits) + 7) // 8)
    for i, b in enumerate(bits):
        if b:
            by[i // 8] |= 128 >> (i % 8)
    return M(wmsg(5, bytes(by)), "(Bitfield %s)" % coq_bytes(bytes(by)))


def m_bitfield_raw(raw):
    return M(wmsg(5, raw), "(Bitfield %s)" % coq_bytes(raw))


def m_request(i, b, l):
    return M(wmsg(6, struct.pack(">III", i, b, l)), "(Request %d %d %d)" % (i, b, l))


def m_cancel(i, b, l):
    return M(wmsg(8, struct.pack(">III", i, b, l)), "(Cancel %d %d %d)" % (i, b, l))


def m_piece(i, b, block, term=None):
    return M(wmsg(7, struct.pack(">II", i, b) + block), "(Piece %d %d %s)" % (i, b, term or coq_bytes(block)))


# ---- replies (policy entries) ------------------------------------------------------------------
def rq(kind, i, l):
    return ("%s:%d:%d" % (kind, i, l), i, l)


COQ_REPLY = {
    "unch": {"IGN": "RUnchoke_Ignore", "NOTINT": "RUnchoke_NotInt", "REQ": "RUnchoke_Req", "INTREQ": "RUnchoke_IntReq"},
    "nint": {"IGN": "RNotInt_Ignore", "KILL": "RNotInt_Kill"},
    "have": {"IGN": "RHave_Ignore", "INT": "RHave_Int", "INTREQ": "RHave_IntReq"},
    "req": {"IGN": "RReq_Ignore", "LOAD": "RReq_Load"},
    "done": {"IGN": "RPiece_Ignore", "NOTINT": "RPiece_NotInt", "KILL": "RPiece_Kill", "REQ": "RPiece_Req"},
    "cancel": {"IGN": "RPiece_Ignore", "NOTINT": "RPiece_NotInt", "KILL": "RPiece_Kill", "REQ": "RPiece_Req"},
}


def coq_reply(kind, tok):
    t = tok.split(":")
    c = COQ_REPLY[kind][t[0]]
    return "(%s %s)" % (c, " ".join(t[1:])) if len(t) > 1 else c


class Ev:
    """one event: stimulus + policy"""
    def __init__(self, stim, term, pol=None):
        self.stim, self.term, self.pol = stim, term, dict(pol or {})

    def line(self):
        p = " ".join("%s=%s" % kv for kv in self.pol.items())
        return self.stim + (" | " + p if p else "")


def ev_msg(m, **pol):
    return Ev("bytes " + m.raw.hex(), "(SMsg %s)" % m.term, pol)


def ev_burst(m, k, bad=False):
    """one write carrying k copies of m (k >= 1), then -- bad -- an oversized frame header that makes recv_frame fail: the
    manager-side channel (64 slots) fills before the harness reads it"""
    tail = struct.pack(">IB", 2 ** 31, 7) if bad else b""
    return Ev("bytes " + (m.raw * k + tail).hex(), "(SBurst %s %d %s)" % (m.term, k, "true" if bad else "false"))


def split_events(rng, evs, prob=0.15):
    """cut some message frames into two writes at a random position (TCP may deliver any prefix first): the first write
    is an incomplete frame and must change nothing, the second completes the message"""
    out = []
    for e in evs:
        if e.stim.startswith("bytes ") and e.term and e.term.startswith("(SMsg") and rng.random() < prob:
            raw = bytes.fromhex(e.stim.split()[1])
            if len(raw) >= 2:
                cut = rng.choice([1, len(raw) - 1, rng.randrange(1, len(raw)), max(1, len(raw) - 4), min(len(raw) - 1, 13)])
                out.append(Ev("bytes " + raw[:cut].hex(), "SNop"))
                out.append(Ev("bytes " + raw[cut:].hex(), e.term, e.pol))
                continue
        out.append(e)
    return out


def ev_start(**pol):
    return Ev("start", "SStart", pol)


def ev_wait(ms):
    return Ev("wait %d" % ms, None)      # STicks k: k is read off the observed clock


def ev_bhave(i, **pol):
    return Ev("bhave %d" % i, "(SBHave %d)" % i, pol)


def ev_bown(b):
    return Ev("bown %s" % ("-" if b is None else int(b)), "(SBOwn %s)" % ("None" if b is None else "(Some %s)" % ("true" if b else "false")))


def ev_close():
    return Ev("close", "SClose")


def ev_store(i, bad=False):
    return Ev("%s %d" % ("storebad" if bad else "store", i), "(SStore %d %s)" % (i, "true" if bad else "false"))


def ev_bad(raw):
    return Ev("bytes " + raw.hex(), "SBad")


def coq_policy(pol, n):
    init = pol.get("init", "0" * n)
    bits = "[%s]" % ";".join("true" if c == "1" else "false" for c in init if c in "01")
    bf = pol.get("bf", "00")
    return "(mkpol %s %s %s %s (RBitfieldState %s %s) %s %s %s)" % (
        bits, coq_reply("unch", pol.get("unch", "IGN")), coq_reply("nint", pol.get("nint", "IGN")),
        coq_reply("have", pol.get("have", "IGN")), "true" if bf[0] == "1" else "false", "true" if bf[1] == "1" else "false",
        coq_reply("req", pol.get("req", "IGN")), coq_reply("done", pol.get("done", "IGN")),
        coq_reply("cancel", pol.get("cancel", "IGN")))


def coq_ocmd(tok):
    t = tok.split(":")
    k = t[0]
    if k == "INIT":
        return "(OInit %s)" % coq_bytes(bytes.fromhex(t[1]))
    if k == "BITFIELD":
        return "(OBitfield %s)" % coq_bytes(b"" if t[1] == "-" else bytes.fromhex(t[1]))
    if k in ("HAVE", "REQUEST"):
        return "(%s %s)" % ("OHave" if k == "HAVE" else "ORequest", t[1])
    if k == "KILL":
        return "(OKill %s)" % ("true" if t[1] == "N" else "false")
    return {"CHOKE": "OChoke", "INT": "OInt", "UNCHOKE": "OUnchoke", "NOTINT": "ONotInt", "DONE": "ODone", "CANCEL": "OCancel", "DONE-EARLY": "ODoneEarly"}[k]


class Scenario:
    def __init__(self, outgoing, plens, seed, events, kind, info=None):
        self.outgoing, self.plens, self.seed, self.events, self.kind = outgoing, plens, seed, events, kind
        self.info = info or {}
        self.datas = [prand(seed + i, l) for i, l in enumerate(plens)]
        self.hashes = [hashlib.sha1(d).digest() for d in self.datas]
        self.blobs = [Blob(seed + i, l) for i, l in enumerate(plens)]

    def line(self):
        return "hnd %s %s %d ; %s" % ("out" if self.outgoing else "in", ",".join(map(str, self.plens)) or "-", self.seed,
                                      " ; ".join(e.line() for e in self.events))


class HndBase:
    harness_sub = "hnd"
    harness_timeout = 900
    coq_timeout = 1200
    allowed_axioms = []
    model_targets = ["Pack.vo", "Corr/Hnd.vo"]
    corr_name = "PeerHandler::event_loop and handlers vs Handler.v"
    classes = {}
    assumptions = []
    coq_chunk = 40
    ovf = "true"
    _scen = {}

    def case(self, sc):
        c = Case(sc.line(), sc.kind, dict(sc.info, mode="out" if sc.outgoing else "in", plens=sc.plens,
                                          events=[e.stim[:60] + (" | " + str(e.pol) if e.pol else "") for e in sc.events][:40]))
        self._scen[c.line] = sc
        return c

    def coq_case(self, c, out):
        sc = self._scen[c.line]
        n = len(sc.plens)
        outs = [o.strip() for o in out.split(" ; ")]
        steps = []
        tprev = 0
        svalid = True
        for e, o in zip(sc.events, outs):
            f = dict(x.split("=", 1) for x in o.split())
            t = int(f["t"])
            term = e.term
            k = t // TICK_MS - tprev // TICK_MS      # keep-alive boundaries crossed, read off the virtual clock
            if term is not None and term.startswith("(SBurst") and k > 0:
                # a burst of 64 or more commands blocks the task on the full channel until the harness drains it one
                # virtual millisecond later; if that millisecond is a keep-alive instant, the timer branch and the rest of
                # the burst are both ready and select! may take either first: not determined -- the history ends here
                break
            if term is None:
                term = "(STicks %d)" % k
            elif k > 0:
                term = "(SThen %s %d)" % (term, k)
            # transfer statistics: a 10 s grid on the same clock; a step that is not a pure wait and crosses a statistics
            # instant has no determined order between its counter updates and the tick: no comparison from there on
            sticks = t // 10000 - tprev // 10000
            if e.term is not None and sticks > 0:
                svalid = False
            tprev = t
            sent = b"" if f["sent"] == "-" else bytes.fromhex(f["sent"])
            cmds = [] if f["cmds"] == "-" else f["cmds"].split(",")
            reports = [x.split(":")[1:] for x in cmds if x.startswith("STATS:")]
            cmds = [x for x in cmds if not x.startswith("STATS:")]
            on = lambda v: "None" if v == "-" else "(Some %s)" % v
            stats = ";".join("(%s, %s, %s)" % (on(r[0]), on(r[1]), r[2]) for r in reports)
            files = []
            if f["files"] != "-":
                for x in f["files"].split(","):
                    name, ln, sh = x.split(":")
                    files.append("(%s, %s, %s)" % (coq_bytes(bytes.fromhex(name)), ln, coq_bytes(bytes.fromhex(sh))))
            fin = {"-": 0, "N": 1, "E": 2, "P": 3}[f["fin"]]
            steps.append("(%s, %s, mkobs %s [%s] [%s] %d [%s] %d %s)" % (term, coq_policy(e.pol, n), coq_bytes(sent, sc.blobs),
                                                                         ";".join(coq_ocmd(x) for x in cmds), ";".join(files), fin,
                                                                         stats, sticks, "true" if svalid else "false"))
        conf = "(mkconf %s %s %d [%s])" % (coq_bytes(OWN_ID), coq_bytes(INFO_HASH), n, ";".join(coq_bytes(h) for h in sc.hashes))
        data = "[%s]" % ";".join(b.term for b in sc.blobs)
        return "mkcase %s %s %s [\n %s]" % ("true" if sc.outgoing else "false", conf, data, ";\n ".join(steps))

    def model_term(self, c):
        return "(k_run (%s) %s (init_mst (%s)) (hc_steps (%s)))" % (c.term, self.ovf, c.term, c.term)


# ---- a simulated remote peer / manager, only to generate interesting inputs ---------------------
def tiling(plen):
    out = []
    b = 0
    while b < plen:
        out.append((b, plen % BLOCK if b + BLOCK > plen else BLOCK))
        b += BLOCK
    return out


class Sim:
    """tracks what the task has asked for, as far as the generator needs to answer plausibly"""
    def __init__(self, sc_plens, seed):
        self.plens, self.seed = sc_plens, seed
        self.idx = None
        self.left, self.requested = [], []
        self.choked = True

    def assign(self, i):
        self.idx = i
        self.left = tiling(self.plens[i])
        self.requested = []
        self.pump()
        self.pump()

    def pump(self):
        if self.left:
            self.requested.append(self.left.pop(0))

    def block_term(self, i, b, l):
        return "(slice (prand %d%%uint63 %d) %d %d)" % (self.seed + i, self.plens[i], b, l)

    def answer(self, which=0, corrupt=False):
        """a Piece message answering an outstanding request"""
        b, l = self.requested[which]
        data = prand(self.seed + self.idx, self.plens[self.idx])[b:b + l]
        if corrupt and data:
            data = bytes([data[0] ^ 1]) + data[1:]
            m = m_piece(self.idx, b, data)
        else:
            m = m_piece(self.idx, b, data, self.block_term(self.idx, b, l))
        return m

    def accepted(self, which=0):
        self.requested.pop(which)
        done = not self.left and not self.requested
        if not done:
            self.pump()
        return done


# ---- mixed histories ---------------------------------------------------------------------------
def greet(rng, outgoing, n, init_bits=None, late=0.0, wrong=None):
    """the opening of a connection; wrong in {None, 'hash', 'id', 'proto'}"""
    ev = []
    init = init_bits if init_bits is not None else "".join(rng.choice("01") for _ in range(n))
    ih, pid = INFO_HASH, PEER_ID
    if wrong == "hash":
        ih = b"J" + INFO_HASH[1:]
    if wrong == "id":
        pid = PEER_ID[:-1] + b"Q"
    first = ev_msg(m_hs(ih, pid)) if outgoing else ev_msg(m_hs(ih, pid), init=init)
    if wrong == "proto":
        # right hash and id, exactly one byte of the fixed beginning (length byte + "BitTorrent protocol") off: not a handshake
        h = bytearray(hs(ih, pid))
        h[rng.randrange(20)] ^= rng.choice([1, 0x20, 0x80, 0xff])
        first = ev_bad(bytes(h))
    if outgoing:
        ev.append(ev_start(init=init))
    ev.append(first)
    return ev, init


def random_peer_msg(rng, n, plens):
    r = rng.random()
    if r < 0.12:
        return KEEPALIVE
    if r < 0.22:
        return CHOKE
    if r < 0.34:
        return UNCHOKE
    if r < 0.42:
        return INTERESTED
    if r < 0.50:
        return NOTINTERESTED
    if r < 0.62:
        return m_have(rng.randrange(n + 1) if rng.random() < 0.9 else 2 ** 32 - 1)
    if r < 0.70:
        return m_bitfield([rng.random() < 0.5 for _ in range(n)]) if rng.random() < 0.85 else m_bitfield_raw(bytes(rng.randrange(0, 4)))
    if r < 0.82:
        i = rng.randrange(n + 1)
        return m_request(i, rng.choice([0, 1, 5, BLOCK]), rng.choice([0, 1, 4, BLOCK, BLOCK + 1]))
    if r < 0.92:
        return m_piece(rng.randrange(n + 1), rng.choice([0, 1, BLOCK]), bytes(rng.randrange(0, 6)))
    return m_cancel(rng.randrange(n + 1), 0, 4)


def random_policy(rng, n, plens):
    pol = {}
    if n and rng.random() < 0.6:
        i = rng.randrange(n)
        pol["unch"] = rng.choice(["IGN", "NOTINT", "REQ:%d:%d" % (i, plens[i]), "INTREQ:%d:%d" % (i, plens[i])])
        pol["have"] = rng.choice(["IGN", "INT", "INTREQ:%d:%d" % (i, plens[i])])
        pol["cancel"] = rng.choice(["IGN", "NOTINT", "KILL", "REQ:%d:%d" % (i, plens[i])])
        pol["done"] = rng.choice(["IGN", "NOTINT", "KILL", "REQ:%d:%d" % (i, plens[i])])
    pol["nint"] = rng.choice(["IGN", "IGN", "KILL"])
    pol["bf"] = rng.choice(["00", "01", "10", "11"])
    return pol


def mixed_scenario(rng, n, plens, outgoing, steps, w_wait=0.15, w_broad=0.15, hs_first=0.8, wrong=None):
    ev = []
    greeted = False
    if rng.random() < hs_first:
        g, _ = greet(rng, outgoing, n, wrong=wrong)
        ev += g
        greeted = True
    elif outgoing:
        ev.append(ev_start(init="0" * n))
    for _ in range(steps):
        r = rng.random()
        if r < w_wait:
            ev.append(ev_wait(rng.choice([1000, 60000, 119990, 120000, 120001, 119000, 240000, 360000, 7])))
        elif r < w_wait + w_broad:
            if rng.random() < 0.6 and n:
                ev.append(ev_bhave(rng.randrange(n), **random_policy(rng, n, plens)))
            else:
                ev.append(ev_bown(rng.choice([None, True, False])))
        elif r < w_wait + w_broad + 0.06 and not greeted:
            g, _ = greet(rng, outgoing, n, wrong=wrong)
            ev += g[-1:]
            greeted = True
        elif r < w_wait + w_broad + 0.09:
            ev.append(ev_msg(m_hs(), init="1" * n))      # repeated / late handshake
        elif r < w_wait + w_broad + 0.12:
            # bytes that make recv_frame fail: oversized frame, impossible length prefix
            ev.append(ev_bad(rng.choice([struct.pack(">IB", 70000, 7), struct.pack(">IB", 2, 0), struct.pack(">IB", 3, 4) + b"ab",
                                         struct.pack(">IB", 2 ** 32 - 1, 5)])))
        else:
            ev.append(ev_msg(random_peer_msg(rng, max(n, 1), plens), **random_policy(rng, n, plens)))
    if rng.random() < 0.2:
        ev.append(ev_close())
        ev.append(ev_wait(1000))
    return split_events(rng, ev, 0.08)
