//! Session manager driven one command at a time (C12, C13, C14, C19 faults, C11 manager side).
//!
//! case line:  mgr <mode> <n pieces> <piece length> <total length> ; op ; op ; ...
//!   mode = raw (every op is executed) | prod (ops a connection task cannot produce are skipped)
//! ops (a = peer number K, address "10.0.0.K:6881"):
//!   add a | addid a | init a | choke a | unchoke a | int a | nint a | have a i | bf a <01..> | bfraw a <hex>
//!   req a i | done a | cancel a | stats a d u | kill a | rotate a:r,... / o1,o2 | tick | choose a k
//!   setst M,R2,H,... | setp a <pieces 01..> <idx|-> <amint><amch><int><ch><opt> <dr|-> <ur|-> | tresp a,b,c
//! output: one line, steps separated by " ; ":  <result> | <snapshot>
use crate::util::*;
use rdest::verif::*;
use rdest::{Metainfo, Session, TrackerResp};
use std::collections::HashMap;
use tokio::sync::oneshot;

// peers created by `accept` reach the session through a real loopback connection and are known to it under the remote
// address of that socket, "127.0.0.1:<source port>"; the source port of peer number K is remembered here
thread_local! {
    static LOOPBACK: std::cell::RefCell<HashMap<usize, u16>> = std::cell::RefCell::new(HashMap::new());
    /// peers whose loopback connection could not be set up (an environment matter): everything about them is skipped
    static NO_SOCKET: std::cell::RefCell<std::collections::HashSet<usize>> = std::cell::RefCell::new(std::collections::HashSet::new());
}
fn loopback_port(k: usize) -> Option<u16> {
    LOOPBACK.with(|m| m.borrow().get(&k).copied())
}
fn addr_of(k: usize) -> String {
    match loopback_port(k) {
        Some(p) => format!("127.0.0.1:{}", p),
        None => format!("10.0.0.{}:6881", k),
    }
}
fn num_of(addr: &str) -> usize {
    if let Some(p) = addr.strip_prefix("127.0.0.1:").and_then(|p| p.parse::<u16>().ok()) {
        if let Some(k) = LOOPBACK.with(|m| m.borrow().iter().find(|(_, v)| **v == p).map(|(k, _)| *k)) {
            return k;
        }
    }
    addr.split(':').next().unwrap().rsplit('.').next().unwrap().parse().unwrap()
}
/// a connection from peer number K arrives at the listener: a loopback socket whose source port is K's (a second
/// connection of the same K binds the same source port -- SO_REUSEPORT -- and reaches a fresh listening port, so that both
/// are alive at once under one remote address); returns the accepted end
async fn loopback_connection(k: usize) -> Option<(tokio::net::TcpStream, tokio::net::TcpStream)> {
    let listener = tokio::net::TcpListener::bind("127.0.0.1:0").await.ok()?;
    let sock = tokio::net::TcpSocket::new_v4().ok()?;
    sock.set_reuseaddr(true).ok()?;
    sock.set_reuseport(true).ok()?;
    let port = loopback_port(k).unwrap_or(0);
    sock.bind(format!("127.0.0.1:{}", port).parse().unwrap()).ok()?;
    let local = sock.local_addr().ok()?.port();
    let client = sock.connect(listener.local_addr().ok()?).await.ok()?;
    let (server, from) = listener.accept().await.ok()?;
    if from.port() != local {
        return None;
    }
    LOOPBACK.with(|m| m.borrow_mut().insert(k, local));
    Some((server, client))
}
fn id_of(k: usize) -> [u8; 20] {
    let mut id = [b'A'; 20];
    id[19] = b'0' + (k % 10) as u8;
    id[18] = b'0' + ((k / 10) % 10) as u8;
    id
}

const OWN_ID: [u8; 20] = *b"XXXXXXXXXXXXXXXXXXXX";

fn torrent_doc(n: usize, pl: usize, total: usize) -> (Vec<u8>, Vec<u8>) {
    let mut pieces = vec![];
    for i in 0..n {
        let mut h = vec![b'A' + (i % 26) as u8; 10];
        h.extend_from_slice(format!("{:010}", i).as_bytes());
        pieces.extend_from_slice(&h);
    }
    let mut info = format!("d6:lengthi{}e4:name1:f12:piece lengthi{}e6:pieces{}:", total, pl, pieces.len()).into_bytes();
    info.extend_from_slice(&pieces);
    info.extend_from_slice(b"e");
    let mut doc = b"d8:announce19:http://127.0.0.1:1/4:info".to_vec();
    doc.extend_from_slice(&info);
    doc.extend_from_slice(b"e");
    (doc, info)
}
pub fn torrent(n: usize, pl: usize, total: usize) -> Metainfo {
    Metainfo::from_bencode(&torrent_doc(n, pl, total).0).expect("harness torrent must parse")
}

fn st(s: &Status) -> String {
    match s {
        Status::Missing => "M".to_string(),
        Status::Have => "H".to_string(),
        Status::Reserved(n) => format!("R{}", n),
    }
}
fn b(x: bool) -> char {
    if x {
        '1'
    } else {
        '0'
    }
}
fn on(x: Option<usize>) -> String {
    x.map(|v| v.to_string()).unwrap_or("-".to_string())
}
fn ou(x: Option<u32>) -> String {
    x.map(|v| v.to_string()).unwrap_or("-".to_string())
}

fn snapshot(s: &mut Session, rx: &HashMap<usize, Option<usize>>, bc: &mut tokio::sync::broadcast::Receiver<BroadCmd>, info_hash: &[u8; 20]) -> String {
    let sts: Vec<String> = s.verif_statuses().iter().map(st).collect();
    let mut addrs: Vec<usize> = s.verif_peer_addrs().iter().map(|a| num_of(a)).collect();
    addrs.sort();
    let mut ps = vec![];
    for k in addrs {
        let p = s.verif_peer(&addr_of(k)).unwrap();
        let pieces: String = p.pieces.iter().map(|x| b(*x)).collect();
        ps.push(format!(
            "{}:{}:{}:{}:{}{}{}{}{}:{}:{}:{}",
            k,
            b(p.id.is_some()),
            if pieces.is_empty() { "-".to_string() } else { pieces },
            on(p.piece_index),
            b(p.am_interested),
            b(p.am_choked),
            b(p.interested),
            b(p.choked),
            b(p.optimistic_unchoke),
            ou(p.download_rate),
            ou(p.uploaded_rate),
            on(rx.get(&k).cloned().flatten()),
        ));
    }
    let cands: Vec<String> = s.verif_candidates().iter().map(|(a, _)| num_of(a).to_string()).collect();
    let mut bcs = vec![];
    while let Ok(cmd) = bc.try_recv() {
        match cmd {
            BroadCmd::SendHave { piece_index } => bcs.push(format!("H{}", piece_index)),
            BroadCmd::SendOwnState { am_choked_map } => {
                let mut v: Vec<(usize, bool)> = am_choked_map.iter().map(|(a, c)| (num_of(a), *c)).collect();
                v.sort();
                let t: Vec<String> = v.iter().map(|(a, c)| format!("{}={}", a, b(*c))).collect();
                bcs.push(format!("S{}", t.join("+")));
            }
        }
    }
    // a recorded "peer" spawn is printed with its address and, when the connection task was not configured with the
    // session's own id, the candidate's peer id, the torrent's info hash and its piece count, the mark BAD
    let args = s.verif_take_spawn_args();
    let mut args_it = args.iter();
    let sp: Vec<String> = s
        .verif_take_spawned()
        .iter()
        .map(|k| {
            if *k != "peer" {
                return k.to_string();
            }
            match args_it.next() {
                None => "peer:0:BAD".to_string(),
                Some(a) => {
                    let t: Vec<&str> = a.split(' ').collect();
                    let key = num_of(t[0]);
                    let hex = |b: &[u8]| b.iter().map(|x| format!("{:02x}", x)).collect::<String>();
                    let ok = t.len() == 5
                        && t[1] == hex(&OWN_ID)
                        // a listener's task expects no particular id; a tracker entry's task the id the tracker listed (K's or a stale one)
                        && (t[2] == (if loopback_port(key).is_some() { "-".to_string() } else { hex(&id_of(key)) }) || t[2] == hex(&id_of(key + 50)))
                        && t[3] == hex(info_hash)
                        && t[4] == s.verif_statuses().len().to_string();
                    format!("peer:{}{}", key, if ok { "" } else { ":BAD" })
                }
            }
        })
        .collect();
    format!(
        "st={} p={} c={} x={} r={} sp={} bc={}",
        if sts.is_empty() { "-".to_string() } else { sts.join(",") },
        if ps.is_empty() { "-".to_string() } else { ps.join(",") },
        if cands.is_empty() { "-".to_string() } else { cands.join(",") },
        b(s.verif_files_extracted()),
        s.verif_round(),
        if sp.is_empty() { "-".to_string() } else { sp.join(",") },
        if bcs.is_empty() { "-".to_string() } else { bcs.join(",") },
    )
}

// which piece of the harness torrent a 20-byte hash belongs to (see `torrent`): the manager's replies carry the hash the
// task will verify against / load the piece file by, and it must be the hash of the piece index in the same reply
fn hash_idx(h: &[u8; 20]) -> String {
    match std::str::from_utf8(&h[10..]).ok().and_then(|t| t.parse::<usize>().ok()) {
        Some(i) if h[..10].iter().all(|c| *c == b'A' + (i % 26) as u8) => i.to_string(),
        _ => "x".to_string(),
    }
}
fn rq(r: &ReqData) -> String {
    format!("{}/{}/{}", r.piece_index, r.piece_length, hash_idx(&r.piece_hash))
}

async fn exec(s: &mut Session, rx: &mut HashMap<usize, Option<usize>>, pend: &mut HashMap<usize, bool>, prod: bool, op: &[&str]) -> String {
    let a = |i: usize| -> usize { op[i].parse().unwrap() };
    macro_rules! res {
        ($e:expr) => {
            match $e {
                Ok(_) => "ok".to_string(),
                Err(_) => return "ERR".to_string(),
            }
        };
    }
    // a peer that came in through `accept` may have been turned away (the listener's own rules): nothing can be said by a
    // connection that does not exist
    if op.len() > 1 {
        if let Ok(k) = op[1].parse::<usize>() {
            if NO_SOCKET.with(|f| f.borrow().contains(&k)) && !matches!(op[0], "setst" | "rotate" | "tresp") {
                return "SKIP".into();
            }
        }
    }
    if op[0] != "accept" && op.len() > 1 {
        if let Ok(k) = op[1].parse::<usize>() {
            if loopback_port(k).is_some() && s.verif_peer(&addr_of(k)).is_none() && !matches!(op[0], "setst" | "rotate" | "tresp") {
                return "SKIP".into();
            }
        }
    }
    match op[0] {
        "accept" => {
            // the sockets stay open until the end of the case (HELD), as a live connection's would
            match loopback_connection(a(1)).await {
                Some((server, client)) => {
                    s.verif_accept(server).await;
                    HELD.with(|h| h.borrow_mut().push(client));
                    if s.verif_peer(&addr_of(a(1))).is_some() {
                        rx.entry(a(1)).or_insert(None);
                    }
                    "ok".into()
                }
                None => {
                    if loopback_port(a(1)).is_none() {
                        NO_SOCKET.with(|f| f.borrow_mut().insert(a(1)));
                    }
                    "SKIP".into()
                }
            }
        }
        "add" => {
            s.verif_add_peer(&addr_of(a(1)), None);
            rx.insert(a(1), None);
            "ok".into()
        }
        "addid" => {
            s.verif_add_peer(&addr_of(a(1)), Some(id_of(a(1))));
            rx.insert(a(1), None);
            "ok".into()
        }
        "init" => {
            let (tx, mut rxc) = oneshot::channel();
            res!(s.verif_handle(PeerCmd::Init { addr: addr_of(a(1)), peer_id: id_of(a(1)), resp_ch: tx }).await);
            match rxc.try_recv() {
                Ok(InitCmd::SendBitfield { bitfield }) => format!("BF {}", hex(&bitfield.data()[5..])),
                Err(_) => "NOREPLY".into(),
            }
        }
        "choke" => {
            res!(s.verif_handle(PeerCmd::RecvChoke { addr: addr_of(a(1)) }).await);
            "ok".into()
        }
        "unchoke" => {
            // a connection task relays an Unchoke only when the peer was choking us
            if prod && s.verif_peer(&addr_of(a(1))).map(|p| !p.choked).unwrap_or(false) {
                return "SKIP".into();
            }
            let (tx, mut rxc) = oneshot::channel();
            res!(s.verif_handle(PeerCmd::RecvUnchoke { addr: addr_of(a(1)), resp_ch: tx }).await);
            match rxc.try_recv() {
                Ok(UnchokeCmd::SendInterestedAndRequest(r)) => {
                    rx.insert(a(1), Some(r.piece_index));
                    format!("U_INTREQ {}", rq(&r))
                }
                Ok(UnchokeCmd::SendRequest(r)) => {
                    rx.insert(a(1), Some(r.piece_index));
                    format!("U_REQ {}", rq(&r))
                }
                // the task drops what it was assembling when the manager un-assigns it
                Ok(UnchokeCmd::SendNotInterested) => {
                    rx.insert(a(1), None);
                    "U_NOTINT".into()
                }
                Ok(UnchokeCmd::Ignore) => {
                    rx.insert(a(1), None);
                    "U_IGNORE".into()
                }
                Err(_) => "NOREPLY".into(),
            }
        }
        "int" => {
            res!(s.verif_handle(PeerCmd::RecvInterested { addr: addr_of(a(1)) }).await);
            "ok".into()
        }
        "nint" => {
            let (tx, mut rxc) = oneshot::channel();
            res!(s.verif_handle(PeerCmd::RecvNotInterested { addr: addr_of(a(1)), resp_ch: tx }).await);
            match rxc.try_recv() {
                Ok(NotInterestedCmd::PrepareKill) => "N_KILL".into(),
                Ok(NotInterestedCmd::Ignore) => "N_IGNORE".into(),
                Err(_) => "NOREPLY".into(),
            }
        }
        "have" => {
            let (tx, mut rxc) = oneshot::channel();
            res!(s.verif_handle(PeerCmd::RecvHave { addr: addr_of(a(1)), piece_index: a(2), resp_ch: tx }).await);
            match rxc.try_recv() {
                Ok(HaveCmd::SendInterestedAndRequest(r)) => {
                    rx.insert(a(1), Some(r.piece_index));
                    format!("H_INTREQ {}", rq(&r))
                }
                Ok(HaveCmd::SendInterested) => "H_INT".into(),
                Ok(HaveCmd::Ignore) => "H_IGNORE".into(),
                Err(_) => "NOREPLY".into(),
            }
        }
        "bf" | "bfraw" => {
            let bitfield = if op[0] == "bf" {
                Bitfield::from_vec(&op[2].chars().filter(|c| *c != '-').map(|c| c == '1').collect())
            } else {
                let raw = unhex(op[2]);
                let mut framed = vec![0, 0, 0, 0, 5];
                framed.extend_from_slice(&raw);
                let mut crs = std::io::Cursor::new(&framed[..]);
                crs.set_position(framed.len() as u64);
                Bitfield::from(&crs)
            };
            let (tx, mut rxc) = oneshot::channel();
            res!(s.verif_handle(PeerCmd::RecvBitfield { addr: addr_of(a(1)), bitfield, resp_ch: tx }).await);
            match rxc.try_recv() {
                Ok(BitfieldCmd::SendState { with_am_unchoked, am_interested }) => format!("B_STATE {}{}", b(with_am_unchoked), b(am_interested)),
                Err(_) => "NOREPLY".into(),
            }
        }
        "req" => {
            let (tx, mut rxc) = oneshot::channel();
            res!(s.verif_handle(PeerCmd::RecvRequest { addr: addr_of(a(1)), piece_index: a(2), resp_ch: tx }).await);
            match rxc.try_recv() {
                Ok(RequestCmd::LoadAndSendPiece { piece_index, piece_hash }) => format!("Q_LOAD {} {}", piece_index, hash_idx(&piece_hash)),
                Ok(RequestCmd::Ignore) => "Q_IGNORE".into(),
                Err(_) => "NOREPLY".into(),
            }
        }
        "done" | "cancel" => {
            let k = a(1);
            if prod {
                // a connection task sends PieceDone only for the piece it is assembling, and
                // PieceCancel only after a SendHave for that very piece
                let has = rx.get(&k).cloned().flatten().is_some();
                if op[0] == "done" && !has {
                    return "SKIP".into();
                }
                if op[0] == "cancel" && !(has && pend.get(&k).cloned().unwrap_or(false)) {
                    return "SKIP".into();
                }
            }
            let (tx, mut rxc) = oneshot::channel();
            let cmd = if op[0] == "done" {
                PeerCmd::PieceDone { addr: addr_of(k), resp_ch: tx }
            } else {
                PeerCmd::PieceCancel { addr: addr_of(k), resp_ch: tx }
            };
            // the task drops its piece_rx before telling the manager
            let finished = rx.get(&k).cloned().flatten();
            rx.insert(k, None);
            pend.insert(k, false);
            res!(s.verif_handle(cmd).await);
            if op[0] == "done" {
                if let Some(i) = finished {
                    let others: Vec<usize> = rx.iter().filter(|(o, v)| **o != k && **v == Some(i)).map(|(o, _)| *o).collect();
                    for o in others {
                        pend.insert(o, true);
                    }
                }
            }
            match rxc.try_recv() {
                Ok(PieceCmd::SendRequest(r)) => {
                    rx.insert(k, Some(r.piece_index));
                    format!("P_REQ {}", rq(&r))
                }
                Ok(PieceCmd::SendNotInterested) => "P_NOTINT".into(),
                Ok(PieceCmd::PrepareKill) => "P_KILL".into(),
                Ok(PieceCmd::Ignore) => "P_IGNORE".into(),
                Err(_) => "NOREPLY".into(),
            }
        }
        "stats" => {
            let d = op[2].parse::<u32>().ok();
            let u = op[3].parse::<u32>().ok();
            res!(s.verif_handle(PeerCmd::SyncStats { addr: addr_of(a(1)), downloaded_rate: d, uploaded_rate: u, unexpected_blocks: 0 }).await);
            "ok".into()
        }
        "kill" => {
            res!(s.verif_handle(PeerCmd::KillReq { addr: addr_of(a(1)), reason: "x".into() }).await);
            rx.remove(&a(1));
            pend.remove(&a(1));
            "ok".into()
        }
        "rotate" => {
            let mut rates: Vec<(String, u32)> = if op[1] == "-" {
                vec![]
            } else {
                op[1].split(',').map(|t| {
                    let mut it = t.split(':');
                    (addr_of(it.next().unwrap().parse().unwrap()), it.next().unwrap().parse().unwrap())
                }).collect()
            };
            let opt: Vec<String> = if op[2] == "-" {
                vec![]
            } else if op[2] == "?" {
                // as new_optimistic_peers: one of the peers we choke and that are interested (lowest address: deterministic)
                let mut c: Vec<usize> = s.verif_peer_addrs().iter().map(|x| num_of(x)).filter(|k| {
                    let p = s.verif_peer(&addr_of(*k)).unwrap();
                    p.am_choked && p.interested
                }).collect();
                c.sort();
                c.iter().take(1).map(|k| addr_of(*k)).collect()
            } else {
                op[2].split(',').map(|t| addr_of(t.parse().unwrap())).collect()
            };
            match s.verif_rotate(&mut rates, &opt) {
                Some(map) => {
                    let mut v: Vec<(usize, bool)> = map.iter().map(|(a, c)| (num_of(a), *c)).collect();
                    v.sort();
                    let t: Vec<String> = v.iter().map(|(a, c)| format!("{}={}", a, b(*c))).collect();
                    let o: Vec<String> = opt.iter().map(|x| num_of(x).to_string()).collect();
                    format!("ROT {} {}", if t.is_empty() { "-".to_string() } else { t.join("+") }, if o.is_empty() { "-".to_string() } else { o.join(",") })
                }
                None => "ERR".into(),
            }
        }
        "tick" => {
            if s.verif_tick_rotate().await {
                "ok".into()
            } else {
                "ERR".into()
            }
        }
        "choose" => {
            let mut picks = vec![];
            for _ in 0..a(2) {
                picks.push(on(s.verif_choose(&addr_of(a(1))).await));
            }
            format!("PICKS {}", picks.join(","))
        }
        "setst" => {
            let v: Vec<Status> = if op[1] == "-" {
                vec![]
            } else {
                op[1].split(',').map(|t| match t {
                    "M" => Status::Missing,
                    "H" => Status::Have,
                    r => Status::Reserved(r[1..].parse().unwrap()),
                }).collect()
            };
            s.verif_set_statuses(v);
            "ok".into()
        }
        "setp" => {
            let k = a(1);
            let p = match s.verif_peer_mut(&addr_of(k)) {
                Some(p) => p,
                None => return "ERR".into(),
            };
            p.pieces = op[2].chars().filter(|c| *c != '-').map(|c| c == '1').collect();
            p.piece_index = op[3].parse().ok();
            let f: Vec<bool> = op[4].chars().map(|c| c == '1').collect();
            p.am_interested = f[0];
            p.am_choked = f[1];
            p.interested = f[2];
            p.choked = f[3];
            p.optimistic_unchoke = f[4];
            p.download_rate = op[5].parse().ok();
            p.uploaded_rate = op[6].parse().ok();
            rx.insert(k, op.get(7).and_then(|t| t.parse().ok()));
            "ok".into()
        }
        "tresp" => {
            let mut body = b"d8:intervali1800e5:peersl".to_vec();
            if op[1] != "-" {
                for t in op[1].split(',') {
                    // "Kx": address K listed under another peer id than the one K is known by (a stale tracker entry)
                    let stale = t.ends_with('x');
                    let k: usize = t.trim_end_matches('x').parse().unwrap();
                    let ip = format!("10.0.0.{}", k);
                    body.extend_from_slice(format!("d2:ip{}:{}7:peer id20:", ip.len(), ip).as_bytes());
                    body.extend_from_slice(&id_of(if stale { k + 50 } else { k }));
                    body.extend_from_slice(b"4:porti6881ee");
                }
            }
            body.extend_from_slice(b"ee");
            let resp = TrackerResp::from_bencode(&body).expect("harness reply must parse");
            let tx = s.verif_tracker_tx();
            tx.send(TrackerCmd::TrackerResp(resp)).await.unwrap();
            s.verif_pump_tracker().await;
            for k in s.verif_peer_addrs().iter().map(|a| num_of(a)) {
                rx.entry(k).or_insert(None);
            }
            "ok".into()
        }
        other => panic!("bad op {}", other),
    }
}

pub fn run(lines: &[String]) {
    let rt = tokio::runtime::Builder::new_current_thread().enable_all().build().unwrap();
    for line in lines {
        let mut parts = line.split(';');
        let head: Vec<&str> = parts.next().unwrap().split_whitespace().collect();
        assert_eq!(head[0], "mgr");
        let prod = head[1] == "prod";
        let (n, pl, total): (usize, usize, usize) = (head[2].parse().unwrap(), head[3].parse().unwrap(), head[4].parse().unwrap());
        let ops: Vec<Vec<&str>> = parts.map(|p| p.split_whitespace().collect()).filter(|v: &Vec<&str>| !v.is_empty()).collect();
        let mut outs: Vec<String> = vec![];
        let r = guarded(|| {
            rt.block_on(async {
                let mut s = Session::new(torrent(n, pl, total), OWN_ID);
                let info_hash = crate::hnd::sha1(&torrent_doc(n, pl, total).1);
                s.verif_record_spawns();
                let mut bc = s.verif_subscribe();
                let mut rx: HashMap<usize, Option<usize>> = HashMap::new();
                let mut pend: HashMap<usize, bool> = HashMap::new();
                let mut res = vec![];
                for op in &ops {
                    // a panic inside a step ends the scenario (the manager would be dead)
                    let step = {
                        let fut = exec(&mut s, &mut rx, &mut pend, prod, op);
                        match tokio::task::unconstrained(fut).await {
                            r => r,
                        }
                    };
                    let snap = snapshot(&mut s, &rx, &mut bc, &info_hash);
                    res.push(format!("{} | {}", step, snap));
                    PROGRESS.with(|p| p.borrow_mut().push(res.last().unwrap().clone()));
                }
                res
            })
        });
        match r {
            Some(res) => outs = res,
            None => {
                PROGRESS.with(|p| outs = p.borrow().clone());
                outs.push("PANIC | -".to_string());
            }
        }
        PROGRESS.with(|p| p.borrow_mut().clear());
        HELD.with(|h| h.borrow_mut().clear());
        LOOPBACK.with(|m| m.borrow_mut().clear());
        NO_SOCKET.with(|f| f.borrow_mut().clear());
        println!("{}", outs.join(" ; "));
    }
}

thread_local! {
    static PROGRESS: std::cell::RefCell<Vec<String>> = std::cell::RefCell::new(vec![]);
    static HELD: std::cell::RefCell<Vec<tokio::net::TcpStream>> = std::cell::RefCell::new(vec![]);
}
