(* UrlProofs.v — C18: the percent-encoding of the info-hash decodes back to exactly the hash, and never
   contains a character that could end the parameter. *)
From Rdest Require Import Base BaseProofs BCodec Consts Url.
From Coq Require Import ZifyBool ZifyN ZifyNat.
Ltac Zify.zify_post_hook ::= Z.div_mod_to_equations.
Open Scope N_scope.

(* finite facts about single bytes / hex digits, checked by computation over the whole range *)
Definition below (n : nat) : list N := map N.of_nat (seq 0 n).
Lemma in_below n b : b < N.of_nat n -> In b (below n).
Proof. intros H. unfold below. apply in_map_iff. exists (N.to_nat b). split; [lia | apply in_seq; lia]. Qed.

Lemma unreserved_plain_all : forallb (fun b => negb (unreserved b) || (negb (b =? 43) && negb (b =? 37))) (below 256) = true.
Proof. vm_compute. reflexivity. Qed.
Lemma hex_roundtrip_all : forallb (fun x => match unhexd (hexd x) with Some y => y =? x | None => false end) (below 16) = true.
Proof. vm_compute. reflexivity. Qed.
Lemma ser_safe_all : forallb (fun b => forallb (fun c => negb (c =? ch_amp) && negb (c =? ch_eq) && negb (c =? ch_q) && negb (c =? 35))
                                                 (ser_byte b)) (below 256) = true.
Proof. vm_compute. reflexivity. Qed.

Lemma unreserved_plain b : b < 256 -> unreserved b = true -> b <> 43 /\ b <> 37.
Proof.
  intros Hb U. pose proof unreserved_plain_all as H. rewrite forallb_forall in H. specialize (H b (in_below 256 b Hb)).
  rewrite U in H. cbn [negb orb] in H. apply andb_true_iff in H. destruct H as [A B].
  apply negb_true_iff, N.eqb_neq in A, B. tauto.
Qed.
Lemma hex_roundtrip x : x < 16 -> unhexd (hexd x) = Some x.
Proof.
  intros Hx. pose proof hex_roundtrip_all as H. rewrite forallb_forall in H. specialize (H x (in_below 16 x Hx)).
  destruct (unhexd (hexd x)) as [y|]; [|discriminate]. apply N.eqb_eq in H. subst. reflexivity.
Qed.

Lemma decode_ser_byte b rest : b < 256 -> form_decode (ser_byte b ++ rest) = b :: form_decode rest.
Proof.
  intros Hb. unfold ser_byte. destruct (unreserved b) eqn:U.
  - destruct (unreserved_plain b Hb U) as [N43 N37]. cbn [app form_decode].
    apply N.eqb_neq in N43, N37. rewrite N43, N37. reflexivity.
  - destruct (N.eqb_spec b 32) as [->|N32]; [reflexivity|].
    cbn [app form_decode]. cbn [N.eqb Pos.eqb].
    rewrite !hex_roundtrip by (try apply N.mod_lt; try (apply N.div_lt_upper_bound); lia).
    f_equal. pose proof (N.div_mod b 16). lia.
Qed.

Theorem decode_serialize bs : Forall (fun b => b < 256) bs -> form_decode (byte_serialize bs) = bs.
Proof.
  induction 1 as [|b bs Hb _ IH]; [reflexivity|].
  cbn [byte_serialize flat_map]. fold (byte_serialize bs). rewrite decode_ser_byte by exact Hb. rewrite IH. reflexivity.
Qed.

(* the encoded hash cannot be cut short or confused with another parameter: no '&', '=', '?', '#' in it *)
Theorem serialize_safe bs : Forall (fun b => b < 256) bs ->
  forallb (fun c => negb (c =? ch_amp) && negb (c =? ch_eq) && negb (c =? ch_q) && negb (c =? 35)) (byte_serialize bs) = true.
Proof.
  induction 1 as [|b bs Hb _ IH]; [reflexivity|].
  cbn [byte_serialize flat_map]. fold (byte_serialize bs). rewrite forallb_app, IH, andb_true_r.
  pose proof ser_safe_all as H. rewrite forallb_forall in H. exact (H b (in_below 256 b Hb)).
Qed.

(* ---- the query string of the request ------------------------------------------------------------ *)
Lemma split_on_app sep cur a b : split_on sep cur (a ++ sep :: b) = split_on sep cur a ++ split_on sep [] b.
Proof.
  revert cur. induction a as [|c a IH]; intros cur.
  - cbn [app split_on]. rewrite N.eqb_refl. reflexivity.
  - cbn [app split_on]. destruct (c =? sep); [rewrite IH; reflexivity | apply IH].
Qed.

Lemma split_on_none sep cur a : forallb (fun c => negb (c =? sep)) a = true -> split_on sep cur a = [rev cur ++ a].
Proof.
  revert cur. induction a as [|c a IH]; intros cur H; cbn [split_on].
  - rewrite app_nil_r. reflexivity.
  - cbn [forallb] in H. apply andb_true_iff in H. destruct H as [Hc Ha]. apply negb_true_iff in Hc. rewrite Hc.
    rewrite IH by exact Ha. cbn [rev]. rewrite <- app_assoc. reflexivity.
Qed.

Lemma break_at_key sep k v : forallb (fun c => negb (c =? sep)) k = true -> break_at sep (k ++ sep :: v) = (k, Some v).
Proof.
  induction k as [|c k IH]; intros H; cbn [app break_at].
  - rewrite N.eqb_refl. reflexivity.
  - cbn [forallb] in H. apply andb_true_iff in H. destruct H as [Hc Hk]. apply negb_true_iff in Hc. rewrite Hc.
    rewrite IH by exact Hk. reflexivity.
Qed.

Definition no_sep (sep : N) (s : bytes) : bool := forallb (fun c => negb (c =? sep)) s.
Lemma no_sep_app sep a b : no_sep sep (a ++ b) = no_sep sep a && no_sep sep b.
Proof. unfold no_sep. apply forallb_app. Qed.

Lemma ser_no_amp bs : Forall (fun b => b < 256) bs -> no_sep ch_amp (byte_serialize bs) = true.
Proof.
  intros H. pose proof (serialize_safe bs H) as S. unfold no_sep. rewrite forallb_forall in *. intros c Hc. specialize (S c Hc).
  apply andb_true_iff in S. destruct S as [S _]. apply andb_true_iff in S. destruct S as [S _]. apply andb_true_iff in S. tauto.
Qed.

(* a parameter k=<serialised v> in the middle of a query: it is one of the pairs, spelled as written *)
Lemma pairs_middle q0 k v rest : no_sep ch_amp k = true -> no_sep ch_eq k = true -> k <> [] -> no_sep ch_amp v = true ->
  query_pairs (q0 ++ ch_amp :: (k ++ ch_eq :: v) ++ ch_amp :: rest) = query_pairs q0 ++ (k, v) :: query_pairs rest.
Proof.
  intros Hk1 Hk2 Hne Hv. unfold query_pairs. rewrite split_on_app.
  replace ((k ++ ch_eq :: v) ++ ch_amp :: rest) with ((k ++ ch_eq :: v) ++ ch_amp :: rest) by reflexivity.
  rewrite (split_on_app ch_amp [] (k ++ ch_eq :: v) rest).
  rewrite (split_on_none ch_amp [] (k ++ ch_eq :: v)).
  2:{ change (no_sep ch_amp (k ++ ch_eq :: v) = true). rewrite no_sep_app, Hk1. cbn [no_sep forallb andb]. exact Hv. }
  cbn [rev app]. rewrite !filter_app, !map_app. cbn [filter].
  assert (Hnn : bytes_eqb (k ++ ch_eq :: v) [] = false) by (destruct k; [congruence | reflexivity]).
  rewrite Hnn. cbn [negb map app]. rewrite (break_at_key ch_eq k v Hk2). reflexivity.
Qed.

Lemma lookup_app_miss k ps1 ps2 : lookup k ps1 = None -> lookup k (ps1 ++ ps2) = lookup k ps2.
Proof.
  unfold lookup. induction ps1 as [|[k1 v1] ps1 IH]; intros H; [reflexivity|]. cbn [app find fst] in *.
  destruct (bytes_eqb (form_decode k1) k); [discriminate | apply IH; exact H].
Qed.

Lemma bytes_eqb_refl (x : bytes) : bytes_eqb x x = true.
Proof. induction x as [|a x IH]; cbn; [reflexivity | rewrite N.eqb_refl, IH; reflexivity]. Qed.

(* the info_hash parameter, behind any existing query that has no info_hash of its own and in front of the client's other
   parameters: it is found, and it decodes to exactly the 20 hash bytes, for every hash *)
Theorem info_hash_found q0 hash rest : Forall (fun b => b < 256) hash -> lookup s_info_hash (query_pairs q0) = None ->
  lookup s_info_hash (query_pairs (q0 ++ ch_amp :: (s_info_hash ++ ch_eq :: byte_serialize hash) ++ ch_amp :: rest)) = Some hash.
Proof.
  intros Hh Hq. rewrite pairs_middle; [| reflexivity | reflexivity | discriminate | apply ser_no_amp; exact Hh].
  rewrite lookup_app_miss by exact Hq. unfold lookup. cbn [find fst snd].
  replace (form_decode s_info_hash) with s_info_hash by reflexivity. rewrite bytes_eqb_refl.
  rewrite decode_serialize by exact Hh. reflexivity.
Qed.

(* consequences of the round trip: distinct hashes never share an info_hash parameter or an announce URL *)
Theorem serialize_injective a b : Forall (fun x => x < 256) a -> Forall (fun x => x < 256) b ->
  byte_serialize a = byte_serialize b -> a = b.
Proof.
  intros Ha Hb E. rewrite <- (decode_serialize a Ha), <- (decode_serialize b Hb), E. reflexivity.
Qed.

Theorem create_url_injective announce h1 h2 : Forall (fun x => x < 256) h1 -> Forall (fun x => x < 256) h2 ->
  create_url announce h1 = create_url announce h2 -> h1 = h2.
Proof.
  intros H1 H2 E. unfold create_url in E.
  repeat (apply app_inv_head in E || (injection E as E)).
  apply serialize_injective; assumption.
Qed.
