(* MgrProofs.v — theorems about the manager model. *)
From Rdest Require Import Base BaseProofs Consts Wire Manager.
From Coq Require Import Permutation Sorted ZifyBool ZifyN ZifyNat.
Open Scope N_scope.

(* ---- C13: the chooser ---------------------------------------------------------------------- *)
Lemma insert_cnt_perm x l : Permutation (insert_cnt x l) (x :: l).
Proof.
  induction l as [|y r IH]; cbn [insert_cnt]; [apply Permutation_refl|].
  destruct (snd x <=? snd y); [apply Permutation_refl|].
  eapply Permutation_trans; [apply perm_skip; exact IH | apply perm_swap].
Qed.

Lemma sort_cnt_perm l : Permutation (sort_cnt l) l.
Proof.
  induction l as [|x l IH]; cbn [sort_cnt fold_right]; [apply Permutation_refl|].
  eapply Permutation_trans; [apply insert_cnt_perm | apply perm_skip; exact IH].
Qed.

Definition le_cnt (a b : nat * N) : Prop := snd a <= snd b.

Lemma insert_cnt_sorted x l : StronglySorted le_cnt l -> StronglySorted le_cnt (insert_cnt x l).
Proof.
  induction 1 as [|y r Hs IH Hy]; cbn [insert_cnt]; [constructor; constructor|].
  destruct (N.leb_spec (snd x) (snd y)) as [Hle|Hgt].
  - constructor; [constructor; assumption|]. constructor; [exact Hle|].
    rewrite Forall_forall in *. intros z Hz. unfold le_cnt in *. specialize (Hy z Hz). lia.
  - constructor; [exact IH|]. rewrite Forall_forall in *. intros z Hz.
    apply (Permutation_in _ (insert_cnt_perm x r)) in Hz. destruct Hz as [<-|Hz]; [unfold le_cnt; lia | apply Hy; exact Hz].
Qed.

Lemma sort_cnt_sorted l : StronglySorted le_cnt (sort_cnt l).
Proof. induction l as [|x l IH]; cbn [sort_cnt fold_right]; [constructor | apply insert_cnt_sorted; exact IH]. Qed.

Lemma find_sorted_min (f : nat * N -> bool) l x : StronglySorted le_cnt l -> find f l = Some x ->
  f x = true /\ In x l /\ forall y, In y l -> f y = true -> snd x <= snd y.
Proof.
  induction 1 as [|z r Hs IH Hz]; cbn [find]; [discriminate|].
  destruct (f z) eqn:E.
  - intros [= <-]. split; [exact E|]. split; [left; reflexivity|].
    intros y [<-|Hy] _; [lia|]. rewrite Forall_forall in Hz. apply (Hz y Hy).
  - intros H. destruct (IH H) as (A & B & C). split; [exact A|]. split; [right; exact B|].
    intros y [<-|Hy] Hf; [congruence | apply C; assumption].
Qed.

Lemma find_none_all {A} (f : A -> bool) l : find f l = None -> forall y, In y l -> f y = false.
Proof.
  induction l as [|z r IH]; cbn [find]; [intros _ y []|].
  destruct (f z) eqn:E; [discriminate|]. intros H y [<-|Hy]; [exact E | apply IH; assumption].
Qed.

Lemma in_rarest m i c : In (i, c) (rarest_list m) <-> In i (indices m) /\ desired m i = true /\ c = count_have m i.
Proof.
  unfold rarest_list. rewrite in_map_iff. split.
  - intros (j & [= <- <-] & Hj). apply filter_In in Hj. tauto.
  - intros (Hi & Hd & ->). exists i. split; [reflexivity | apply filter_In; tauto].
Qed.

Lemma eligible_in_rarest m p j : In j (indices m) -> eligible m p j = true ->
  In (j, count_have m j) (rarest_list m) /\ (0 <? count_have m j) && nth j (p_pieces p) false = true.
Proof.
  unfold eligible. intros Hin H. apply andb_true_iff in H. destruct H as [H Hn]. apply andb_true_iff in H. destruct H as [Hd Hc].
  split; [apply in_rarest; tauto | rewrite Hc, Hn; reflexivity].
Qed.

(* whatever the shuffle, the code's pick satisfies the rarest-first relation *)
Theorem choose_with_ok m p shuffled : Permutation shuffled (rarest_list m) ->
  pick_ok m p (choose_with shuffled p) = true.
Proof.
  intros Hperm. unfold choose_with.
  set (f := fun ic : nat * N => (0 <? snd ic) && nth (fst ic) (p_pieces p) false).
  assert (Hall : forall y, In y (sort_cnt shuffled) <-> In y (rarest_list m)).
  { intros y. split; intros H.
    - apply (Permutation_in _ Hperm). apply (Permutation_in _ (sort_cnt_perm shuffled)). exact H.
    - apply (Permutation_in _ (Permutation_sym (sort_cnt_perm shuffled))). apply (Permutation_in _ (Permutation_sym Hperm)). exact H. }
  destruct (find f (sort_cnt shuffled)) as [[i c]|] eqn:E.
  - destruct (find_sorted_min f _ _ (sort_cnt_sorted shuffled) E) as (Hf & Hin & Hmin).
    apply Hall, in_rarest in Hin. destruct Hin as (Hidx & Hd & ->).
    unfold f in Hf. cbn [fst snd] in Hf. apply andb_true_iff in Hf. destruct Hf as [Hc Hn].
    unfold pick_ok. rewrite Nat2N.id. apply andb_true_iff. split.
    + unfold eligible. rewrite Hd, Hc, Hn. reflexivity.
    + apply forallb_forall. intros j Hj. destruct (eligible m p j) eqn:Ej; [|reflexivity]. cbn [negb orb].
      destruct (eligible_in_rarest m p j Hj Ej) as [Hr Hfj].
      specialize (Hmin (j, count_have m j) (proj2 (Hall _) Hr) Hfj). cbn [snd] in Hmin. apply N.leb_le. exact Hmin.
  - unfold pick_ok. apply forallb_forall. intros j Hj. destruct (eligible m p j) eqn:Ej; [|reflexivity].
    destruct (eligible_in_rarest m p j Hj Ej) as [Hr Hfj].
    pose proof (find_none_all f _ E (j, count_have m j) (proj2 (Hall _) Hr)) as Hf. unfold f in Hf. cbn [fst snd] in Hf. congruence.
Qed.

(* pick_ok read as a statement *)
Definition PickSpec (m : mgr) (p : peer) (pick : option N) : Prop :=
  match pick with
  | Some i =>
      let i' := N.to_nat i in
      (* advertised by the peer, lacked by the client, not being fetched unless fewer than ten remain *)
      nth i' (p_pieces p) false = true /\
      (exists s, nth_error (m_status m) i' = Some s /\ is_have s = false /\
                 (is_missing s = true \/ still_missing m < session_END_GAME_LIMIT)) /\
      (* and no other such piece is advertised by fewer connected peers *)
      (forall j, (j < length (m_status m))%nat -> eligible m p j = true -> count_have m i' <= count_have m j)
  | None => forall j, (j < length (m_status m))%nat -> eligible m p j = false
  end.

Lemma in_indices m j : In j (indices m) <-> (j < length (m_status m))%nat.
Proof. unfold indices. rewrite in_seq. lia. Qed.

Theorem pick_ok_spec m p pick : pick_ok m p pick = true -> PickSpec m p pick.
Proof.
  destruct pick as [i|]; cbn [pick_ok PickSpec].
  - intros H. apply andb_true_iff in H. destruct H as [He Hmin].
    unfold eligible in He. apply andb_true_iff in He. destruct He as [He Hn]. apply andb_true_iff in He. destruct He as [Hd Hc].
    split; [exact Hn|]. split.
    + unfold desired in Hd. destruct (nth_error (m_status m) (N.to_nat i)) as [s|]; [|discriminate].
      exists s. split; [reflexivity|]. unfold end_game in Hd. destruct (still_missing m <? session_END_GAME_LIMIT) eqn:Eg.
      * split; [apply negb_true_iff; exact Hd | right; apply N.ltb_lt; exact Eg].
      * split; [destruct s; cbn in *; congruence | left; exact Hd].
    + intros j Hj Ej. rewrite forallb_forall in Hmin. specialize (Hmin j (proj2 (in_indices m j) Hj)).
      rewrite Ej in Hmin. cbn [negb orb] in Hmin. apply N.leb_le. exact Hmin.
  - intros H j Hj. rewrite forallb_forall in H. specialize (H j (proj2 (in_indices m j) Hj)). apply negb_true_iff. exact H.
Qed.

(* the membership set used by the correspondence is exactly the relation *)
Theorem allowed_picks_ok m p pick : In pick (allowed_picks m p) -> pick_ok m p pick = true.
Proof.
  unfold allowed_picks. destruct (filter (eligible m p) (indices m)) as [|e0 el'] eqn:E.
  - intros [<-|[]]. cbn [pick_ok]. apply forallb_forall. intros j Hj.
    destruct (eligible m p j) eqn:Ej; [|reflexivity].
    assert (In j (filter (eligible m p) (indices m))) by (apply filter_In; tauto). rewrite E in H. destruct H.
  - set (el := e0 :: el') in *. intros H. apply in_map_iff in H. destruct H as (i & <- & Hi).
    apply filter_In in Hi. destruct Hi as [Hiel Hmin]. rewrite <- E in Hiel. apply filter_In in Hiel. destruct Hiel as [Hidx He].
    cbn [pick_ok]. rewrite Nat2N.id. rewrite He. cbn [andb]. apply forallb_forall. intros j Hj.
    destruct (eligible m p j) eqn:Ej; [|reflexivity]. cbn [negb orb].
    rewrite forallb_forall in Hmin. apply Hmin. rewrite <- E. apply filter_In. tauto.
Qed.
