(* Shared by Corr/C05.v and Corr/C17.v: what the harness observes of a parsed
   metainfo, and the same observation computed from the model. *)
From Rdest Require Import Base BCodec DeepFinder Metainfo InfoSpec.
Open Scope N_scope.

Record obs := mkobs {
  o_url : bytes;
  o_n : N;
  o_hash_is_sha1_of_ff : bool;          (* checked by the driver with hashlib *)
  o_ff : option bytes;                  (* DeepFinder::find_first("4:info", doc) *)
  o_piece : list (N * result bytes);    (* piece(i) for the sampled valid indices *)
  o_plen : list (N * result N);         (* piece_length(i) *)
  o_total : result N;
  o_ranges : result (list (bytes * N * N * N * N))
}.

Inductive case :=
| CMeta (ovf : bool) (doc : bytes) (impl : result obs)
(* create_file: name, tracker, content length, the SHA-1 of each PIECE_LENGTH chunk
   (computed by the driver), the torrent the implementation wrote, and its parse *)
| CCreate (name tracker : bytes) (data_len : N) (hashes : list bytes) (impl_torrent : bytes) (impl : result obs).

(* PathBuf::join, lexically *)
Definition ends_with_slash (p : bytes) : bool := match rev p with 47 :: _ => true | _ => false end.
Definition join_path (dir p : bytes) : bytes :=
  match p with
  | 47 :: _ => p
  | _ => match dir with
         | [] => p
         | _ => if ends_with_slash dir then dir ++ p else dir ++ [47] ++ p
         end
  end.

Definition res_eqb {A} (eqb : A -> A -> bool) (a b : result A) : bool :=
  match a, b with
  | Ok x, Ok y => eqb x y
  | Err, Err | Panic, Panic | OutOfFuel, OutOfFuel => true
  | _, _ => false
  end.
Definition opt_eqb {A} (eqb : A -> A -> bool) (a b : option A) : bool :=
  match a, b with Some x, Some y => eqb x y | None, None => true | _, _ => false end.

Definition range_eqb (a b : bytes * N * N * N * N) : bool :=
  let '(p, a1, a2, a3, a4) := a in let '(q, b1, b2, b3, b4) := b in
  bytes_eqb p q && (a1 =? b1) && (a2 =? b2) && (a3 =? b3) && (a4 =? b4).

Definition obs_eqb (a b : obs) : bool :=
  bytes_eqb (o_url a) (o_url b) && (o_n a =? o_n b)
  && Bool.eqb (o_hash_is_sha1_of_ff a) (o_hash_is_sha1_of_ff b)
  && opt_eqb bytes_eqb (o_ff a) (o_ff b)
  && list_eqb (fun x y => (fst x =? fst y) && res_eqb bytes_eqb (snd x) (snd y)) (o_piece a) (o_piece b)
  && list_eqb (fun x y => (fst x =? fst y) && res_eqb N.eqb (snd x) (snd y)) (o_plen a) (o_plen b)
  && res_eqb N.eqb (o_total a) (o_total b)
  && res_eqb (list_eqb range_eqb) (o_ranges a) (o_ranges b).

Definition model_obs (ovf : bool) (m : metainfo) (idx : list N) : obs :=
  let dir := match m_files m with _ :: _ :: _ => m_name m | _ => [] end in
  mkobs (m_announce m) (pieces_num m) true (Some (m_hash_input m))
        (map (fun i => (i, piece m i)) idx)
        (map (fun i => (i, piece_length ovf m i)) idx)
        (total_length ovf m)
        (do rs <- file_piece_ranges ovf m;
         Ok (map (fun r => let '(p, s, e) := r in
                           (join_path dir p, file_index s, byte_index s, file_index e, byte_index e)) rs)).

Definition model_case (ovf : bool) (doc : bytes) (impl : result obs) : result obs :=
  let idx := match impl with Ok o => map fst (o_piece o) | _ => [] end in
  do m <- metainfo_of doc; Ok (model_obs ovf m idx).

Definition k_ok (ovf : bool) (doc : bytes) (impl : result obs) : bool :=
  res_eqb obs_eqb (model_case ovf doc impl) impl.
