"""C13 — piece choice is rarest-first among what the peer can give."""
from mgrbase import MgrBase, protocol_scenario, rand_bits


def random_state_ops(rng, n, npeers):
    ops = []
    for a in range(1, npeers + 1):
        ops.append("add %d" % a)
    nhave = rng.choice([0, 0, 1, n // 2, max(0, n - 3), max(0, n - 10), n - 1, n]) if n else 0
    sts = []
    for i in range(n):
        r = rng.random()
        sts.append("H" if i < nhave else ("M" if r < 0.6 else "R%d" % rng.choice([1, 1, 2, 3])))
    rng.shuffle(sts)
    ops.append("setst %s" % (",".join(sts) or "-"))
    dens = rng.choice([0.15, 0.4, 0.7, 1.0])
    for a in range(1, npeers + 1):
        ops.append("setp %d %s - %s - - -" % (a, rand_bits(rng, n, dens), "".join(rng.choice("01") for _ in range(5))))
    return ops


class C13(MgrBase):
    id = "C13"
    proof_target = "Props/C13.vo"
    theorems = ["C13_pick", "C13_pick_spec", "C13_spec_pick", "C13_allowed", "C13_allowed_complete"]
    coq_header = ("From Rdest Require Import Base Consts Wire Manager Corr.Mgr.\nOpen Scope N_scope.\n"
                  "Definition codes := codes13.\n")
    rule = ("random manager states (0-25 pieces so that both sides of the end-game threshold 10 occur, 1-5 peers, sparse to "
            "full advertised sets, Missing/Reserved/Have mixes) set directly in the real Session, then choose_piece_index "
            "called 6 times per peer (different shuffles) and through unchoke / piece done; every pick must be a "
            "minimal-count piece among those the peer advertises and the client wants (membership, since the tie-break is "
            "random). Plus protocol histories. Non-trivial: states with at least two eligible pieces for some peer; distinct lines.")
    statement_status = "full for the model of the chooser (any shuffle): C13_pick; the implementation is tied by membership"

    def corpus(self):
        return [self.mk("raw", 12, 4, 48, ["add 1", "add 2", "setst M,M,M,M,M,M,M,M,M,M,M,R1", "setp 1 111111111111 - 00000 - - -",
                                           "setp 2 100000000001 - 00000 - - -", "choose 1 8", "choose 2 8"], "corpus"),
                self.mk("raw", 3, 4, 10, ["add 1", "setst H,R1,M", "setp 1 111 - 00000 - - -", "choose 1 8"], "corpus"),
                self.mk("raw", 0, 4, 0, ["add 1", "choose 1 2"], "corpus")]

    def gen(self, rng, tier):
        k = {"quick": 400, "thorough": 8000, "search": 2000}.get(tier, 400)
        cases = []
        for _ in range(k):
            n = rng.choice([1, 2, 3, 5, 9, 10, 11, 12, 15, 25])
            npeers = rng.choice([1, 2, 3, 5])
            ops = random_state_ops(rng, n, npeers)
            for a in range(1, npeers + 1):
                ops.append("choose %d 6" % a)
            for _ in range(2):
                a = rng.randrange(1, npeers + 1)
                ops.append(rng.choice(["unchoke %d" % a, "bf %d %s" % (a, rand_bits(rng, n)), "nint %d" % a]))
            cases.append(self.mk("raw", n, 4, 4 * n, ops, "state"))
        # picks made straight from a Have announcement, on the same kind of states
        for _ in range(k // 3):
            n = rng.choice([2, 5, 9, 10, 11, 12, 15, 25])
            npeers = rng.choice([2, 3, 5])
            ops = random_state_ops(rng, n, npeers)
            for _ in range(6):
                ops.append("have %d %d" % (rng.randrange(1, npeers + 1), rng.randrange(n)))
            cases.append(self.mk("raw", n, 4, 4 * n, ops, "have-pick"))
        for _ in range(k // 8):
            n = rng.choice([3, 11, 12])
            cases.append(self.mk("prod", n, 4, 4 * n, protocol_scenario(rng, 2, n, 14), "history"))
        return cases


PROP = C13()
