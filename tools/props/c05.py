"""C05 — the info-hash is the SHA-1 of the exact info value of the file."""
from driver import Case
from metabase import MetaBase


class C05(MetaBase):
    id = "C05"
    model_targets = ["Pack.vo", "Corr/C05.vo"]
    proof_target = "Props/C05.vo"
    theorems = ["C05_hash_input", "C05_refuted_nested_info", "C05_refuted_duplicate_info", "C05_refuted_truncated", "C05_search_spec", "C05_exact_span", "C05_documents_are_trees"]
    coq_header = "From Rdest Require Import Base BCodec DeepFinder Metainfo InfoSpec Corr.MetaCase Corr.C05.\nOpen Scope N_scope.\n"
    corr_name = "DeepFinder::find_first / Metainfo::info_hash vs DeepFinder.v"
    classes = {1: "nested-info-found-first", 2: "duplicate-info-key", 4: "truncated-tail"}
    rule = ("same torrent grammar as C17, weighted to extra keys and nested dictionaries/lists before and after `info`, "
            "nested keys spelled `info`, duplicate top-level `info`, non-canonical key order and leading-zero lengths "
            "inside info, binary strings, data after the dictionary. The driver checks hash = SHA-1(find_first bytes) with "
            "hashlib; Coq compares find_first with the model and with the independent span extractor (InfoSpec). "
            "Non-trivial: accepted documents; distinct input lines.")
    statement_status = "partial: the full statement is refuted (three witness theorems = the three known-finding classes); outside them the property rests on the correspondence with the independent span extractor"
    assumptions = ["SHA-1 itself is uninterpreted; the check compares its pre-image"]

    def gen(self, rng, tier):
        return self.gen_docs(rng, {"quick": 1500, "thorough": 30000, "search": 6000}[tier])


PROP = C05()
