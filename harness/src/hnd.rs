//! The real PeerHandler task over an in-memory pipe, the harness playing the remote peer and the
//! manager, under tokio's paused clock (C08, C09, C10, C11, C20, C01 handler side).
//!
//! case line:  hnd <out|in> <piece lengths a,b,c> <seed> ; ev ; ev ; ...
//!   ev = <stimulus> [| <reply policy>]
//!   stimulus: start | bytes <hex> | wait <ms> | bhave <i> | bown <0|1|-> | close | store <i> | storebad <i>
//!   policy (what the harness-manager answers if asked): init=<bits> unch=<R> nint=<KILL|IGN> have=<R> bf=<uc><int>
//!          req=<LOAD:i|IGN> done=<R> cancel=<R>   with R = IGN | NOTINT | KILL | REQ:i:len | INTREQ:i:len | INT
//! output: one line, per event:  sent=<hex> cmds=<..> files=<name:len:sha1,..> fin=<-|N|E>  separated by " ; "
use crate::util::*;
use rdest::verif::*;
use std::collections::HashMap;
use std::sync::{Arc, Mutex};
use tokio::io::{AsyncReadExt, AsyncWriteExt};
use tokio::sync::{broadcast, mpsc};
use tokio::time::Duration;

pub const OWN_ID: [u8; 20] = *b"OOOOOOOOOOOOOOOOOOOO";
pub const INFO_HASH: [u8; 20] = *b"IIIIIIIIIIIIIIIIIIII";
pub const PEER_ID: [u8; 20] = *b"PPPPPPPPPPPPPPPPPPPP";

pub fn sha1(data: &[u8]) -> [u8; 20] {
    let mut h = sha1_smol::Sha1::new();
    h.update(data);
    h.digest().bytes()
}

pub fn piece_data(seed: u64, i: usize, plen: usize) -> Vec<u8> {
    prand(seed + i as u64, plen)
}

fn hexname(h: &[u8; 20]) -> String {
    h.iter().map(|b| format!("{:02X}", b)).collect::<String>() + ".piece"
}

struct Policy(HashMap<String, String>);
impl Policy {
    fn parse(s: &str) -> Policy {
        let mut m = HashMap::new();
        for t in s.split_whitespace() {
            if let Some((k, v)) = t.split_once('=') {
                m.insert(k.to_string(), v.to_string());
            }
        }
        Policy(m)
    }
    fn get(&self, k: &str) -> String {
        self.0.get(k).cloned().unwrap_or("IGN".to_string())
    }
}

thread_local! {
    /// the piece the harness, as manager, assigned last (every ReqData it builds is sent as a reply)
    static LAST_ASSIGNED: std::cell::Cell<Option<usize>> = std::cell::Cell::new(None);
}
fn reqdata(t: &str, plens: &[usize], hashes: &[[u8; 20]]) -> ReqData {
    let mut it = t.split(':');
    it.next();
    let i: usize = it.next().unwrap().parse().unwrap();
    LAST_ASSIGNED.with(|c| c.set(Some(i)));
    let l: usize = it.next().map(|x| x.parse().unwrap()).unwrap_or(*plens.get(i).unwrap_or(&0));
    ReqData { piece_index: i, piece_length: l, piece_hash: *hashes.get(i).unwrap_or(&[0u8; 20]) }
}

/// answer one command; returns its canonical name, or None for SyncStats (timer noise)
fn answer(cmd: PeerCmd, pol: &Policy, n: usize, plens: &[usize], hashes: &[[u8; 20]]) -> Option<String> {
    match cmd {
        PeerCmd::Init { peer_id, resp_ch, .. } => {
            let bits: Vec<bool> = match pol.0.get("init") {
                Some(b) => b.chars().filter(|c| *c != '-').map(|c| c == '1').collect(),
                None => vec![false; n],
            };
            let _ = resp_ch.send(InitCmd::SendBitfield { bitfield: Bitfield::from_vec(&bits) });
            Some(format!("INIT:{}", hex(&peer_id)))
        }
        PeerCmd::RecvChoke { .. } => Some("CHOKE".into()),
        PeerCmd::RecvInterested { .. } => Some("INT".into()),
        PeerCmd::RecvUnchoke { resp_ch, .. } => {
            let p = pol.get("unch");
            let c = if p.starts_with("INTREQ") {
                UnchokeCmd::SendInterestedAndRequest(reqdata(&p, plens, hashes))
            } else if p.starts_with("REQ") {
                UnchokeCmd::SendRequest(reqdata(&p, plens, hashes))
            } else if p == "NOTINT" {
                UnchokeCmd::SendNotInterested
            } else {
                UnchokeCmd::Ignore
            };
            let _ = resp_ch.send(c);
            Some("UNCHOKE".into())
        }
        PeerCmd::RecvNotInterested { resp_ch, .. } => {
            let _ = resp_ch.send(if pol.get("nint") == "KILL" { NotInterestedCmd::PrepareKill } else { NotInterestedCmd::Ignore });
            Some("NOTINT".into())
        }
        PeerCmd::RecvHave { piece_index, resp_ch, .. } => {
            let p = pol.get("have");
            let c = if p.starts_with("INTREQ") {
                HaveCmd::SendInterestedAndRequest(reqdata(&p, plens, hashes))
            } else if p == "INT" {
                HaveCmd::SendInterested
            } else {
                HaveCmd::Ignore
            };
            let _ = resp_ch.send(c);
            Some(format!("HAVE:{}", piece_index))
        }
        PeerCmd::RecvBitfield { bitfield, resp_ch, .. } => {
            let p = pol.0.get("bf").cloned().unwrap_or("00".to_string());
            let f: Vec<bool> = p.chars().map(|c| c == '1').collect();
            let _ = resp_ch.send(BitfieldCmd::SendState { with_am_unchoked: f[0], am_interested: f[1] });
            Some(format!("BITFIELD:{}", hex(&bitfield.data()[5..])))
        }
        PeerCmd::RecvRequest { piece_index, resp_ch, .. } => {
            let p = pol.get("req");
            let c = if p.starts_with("LOAD") {
                let i: usize = p.split(':').nth(1).unwrap().parse().unwrap();
                RequestCmd::LoadAndSendPiece { piece_index: i, piece_hash: *hashes.get(i).unwrap_or(&[0u8; 20]) }
            } else {
                RequestCmd::Ignore
            };
            let _ = resp_ch.send(c);
            Some(format!("REQUEST:{}", piece_index))
        }
        PeerCmd::PieceDone { resp_ch, .. } | PeerCmd::PieceCancel { resp_ch, .. } => unreachable_piece(resp_ch),
        // the transfer statistics the task reports every 10 s once its two-interval window is full
        PeerCmd::SyncStats { downloaded_rate, uploaded_rate, unexpected_blocks, .. } => Some(format!(
            "STATS:{}:{}:{}",
            downloaded_rate.map(|v| v.to_string()).unwrap_or("-".to_string()),
            uploaded_rate.map(|v| v.to_string()).unwrap_or("-".to_string()),
            unexpected_blocks
        )),
        PeerCmd::KillReq { reason, .. } => Some(format!("KILL:{}", if reason == "End job normally" { "N" } else { "E" })),
    }
}

fn unreachable_piece(_r: tokio::sync::oneshot::Sender<PieceCmd>) -> Option<String> {
    None
}

fn piece_reply(p: &str, plens: &[usize], hashes: &[[u8; 20]]) -> PieceCmd {
    if p.starts_with("REQ") {
        PieceCmd::SendRequest(reqdata(p, plens, hashes))
    } else if p == "NOTINT" {
        PieceCmd::SendNotInterested
    } else if p == "KILL" {
        PieceCmd::PrepareKill
    } else {
        PieceCmd::Ignore
    }
}

async fn run_case(line: &str, scratch: &std::path::Path) -> String {
    let mut parts = line.split(';');
    let head: Vec<&str> = parts.next().unwrap().split_whitespace().collect();
    assert_eq!(head[0], "hnd");
    let outgoing = head[1] == "out";
    let plens: Vec<usize> = if head[2] == "-" { vec![] } else { head[2].split(',').map(|x| x.parse().unwrap()).collect() };
    let seed: u64 = head[3].parse().unwrap();
    let n = plens.len();
    let datas: Vec<Vec<u8>> = (0..n).map(|i| piece_data(seed, i, plens[i])).collect();
    let hashes: Vec<[u8; 20]> = datas.iter().map(|d| sha1(d)).collect();
    let _ = std::fs::remove_dir_all(scratch);
    std::fs::create_dir_all(scratch).unwrap();
    std::env::set_current_dir(scratch).unwrap();
    LAST_ASSIGNED.with(|c| c.set(None));

    let (peer_tx, mut peer_rx) = mpsc::channel::<PeerCmd>(64);
    let (broad_tx, _keep) = broadcast::channel::<BroadCmd>(32);
    let addr = "10.0.0.1:6881".to_string();
    let mut handler = PeerHandler::new(addr.clone(), OWN_ID, if outgoing { Some(PEER_ID) } else { None }, INFO_HASH, n, peer_tx, broad_tx.subscribe());
    let (a, b) = tokio::io::duplex(1 << 22);
    let task = tokio::spawn(async move {
        handler.verif_run_mem(a).await;
    });
    let (mut rd, mut wr) = tokio::io::split(b);
    let sink: Arc<Mutex<Vec<u8>>> = Arc::new(Mutex::new(vec![]));
    let sink2 = sink.clone();
    let eof: Arc<Mutex<bool>> = Arc::new(Mutex::new(false));
    let eof2 = eof.clone();
    let reader = tokio::spawn(async move {
        let mut buf = vec![0u8; 1 << 16];
        loop {
            match rd.read(&mut buf).await {
                Ok(0) | Err(_) => {
                    *eof2.lock().unwrap() = true;
                    break;
                }
                Ok(k) => sink2.lock().unwrap().extend_from_slice(&buf[..k]),
            }
        }
    });

    let t0 = tokio::time::Instant::now();
    // let the task start at virtual time 0, before any stimulus (no time passes while yielding)
    for _ in 0..8 {
        tokio::task::yield_now().await;
    }
    let mut outs = vec![];
    let mut seen_files: HashMap<String, Vec<u8>> = HashMap::new();
    let mut wr_open = true;
    let mut finished = "-".to_string();
    for ev in parts {
        let (stim, pol) = match ev.split_once('|') {
            Some((s, p)) => (s.trim(), Policy::parse(p)),
            None => (ev.trim(), Policy::parse("")),
        };
        if stim.is_empty() {
            continue;
        }
        let t: Vec<&str> = stim.split_whitespace().collect();
        match t[0] {
            "start" => (),
            "bytes" => {
                if wr_open {
                    let _ = wr.write_all(&unhex(t[1])).await;
                }
            }
            "wait" => tokio::time::advance(Duration::from_millis(t[1].parse().unwrap())).await,
            "bhave" => {
                let _ = broad_tx.send(BroadCmd::SendHave { piece_index: t[1].parse().unwrap() });
            }
            "bown" => {
                let mut m = HashMap::new();
                if t[1] != "-" {
                    m.insert(addr.clone(), t[1] == "1");
                }
                let _ = broad_tx.send(BroadCmd::SendOwnState { am_choked_map: m });
            }
            "close" => {
                if wr_open {
                    let _ = wr.shutdown().await;
                    wr_open = false;
                }
            }
            "store" | "storebad" => {
                let i: usize = t[1].parse().unwrap();
                let mut d = datas[i].clone();
                if t[0] == "storebad" && !d.is_empty() {
                    d.truncate(d.len() / 2);
                }
                std::fs::write(hexname(&hashes[i]), &d).unwrap();
                seen_files.insert(hexname(&hashes[i]), d);
            }
            other => panic!("bad stimulus {}", other),
        }
        // settle: let everything run until all tasks are blocked; answer the manager-side requests
        let mut cmds: Vec<String> = vec![];
        loop {
            if t[0] == "start" {
                // the greeting exchange of an outgoing connection happens at time 0, so that the task's
                // timers (created right after it) sit on the k*120 s grid for both kinds of connection
                for _ in 0..8 {
                    tokio::task::yield_now().await;
                }
            } else {
                tokio::time::sleep(Duration::from_millis(1)).await;
            }
            // timers due at this very instant wake their tasks now: let them run before looking
            for _ in 0..4 {
                tokio::task::yield_now().await;
            }
            let mut progressed = false;
            while let Ok(cmd) = peer_rx.try_recv() {
                progressed = true;
                match cmd {
                    PeerCmd::PieceDone { resp_ch, .. } => {
                        // "treated as owned only after such verified data has been stored": at the instant the report
                        // reaches the manager side the file of the piece assigned last must exist, complete and verified
                        // (presence, not novelty: an end-game duplicate completes a piece whose file is already there)
                        let stored = match LAST_ASSIGNED.with(|c| c.get()).and_then(|i| hashes.get(i)) {
                            Some(h) => std::fs::read(hexname(h)).map(|d| sha1(&d) == *h).unwrap_or(false),
                            None => false,
                        };
                        let _ = resp_ch.send(piece_reply(&pol.get("done"), &plens, &hashes));
                        cmds.push(if stored { "DONE".into() } else { "DONE-EARLY".into() });
                    }
                    PeerCmd::PieceCancel { resp_ch, .. } => {
                        let _ = resp_ch.send(piece_reply(&pol.get("cancel"), &plens, &hashes));
                        cmds.push("CANCEL".into());
                    }
                    other => {
                        if let Some(name) = answer(other, &pol, n, &plens, &hashes) {
                            if name.starts_with("KILL") {
                                finished = name[5..].to_string();
                            }
                            cmds.push(name);
                        }
                    }
                }
            }
            // never stop exactly on a keep-alive instant: whether that tick was already handled would be a race
            // (nor on a statistics instant, every 10 s)
            if !progressed && (t[0] == "start" || t0.elapsed().as_millis() % 10000 != 0) {
                break;
            }
        }
        if task.is_finished() && finished == "-" {
            finished = "P".to_string(); // the task ended without a KillReq: it panicked
        }
        let sent = std::mem::take(&mut *sink.lock().unwrap());
        let mut files = vec![];
        if let Ok(rdir) = std::fs::read_dir(".") {
            let mut names: Vec<String> = rdir.flatten().map(|e| e.file_name().to_string_lossy().to_string()).collect();
            names.sort();
            for name in names {
                let data = std::fs::read(&name).unwrap_or_default();
                if seen_files.get(&name) != Some(&data) {
                    files.push(format!("{}:{}:{}", name.trim_end_matches(".piece"), data.len(), hex(&sha1(&data))));
                    seen_files.insert(name, data);
                }
            }
        }
        outs.push(format!(
            "sent={} cmds={} files={} fin={} eof={} t={}",
            hex(&sent),
            if cmds.is_empty() { "-".to_string() } else { cmds.join(",") },
            if files.is_empty() { "-".to_string() } else { files.join(",") },
            finished,
            if *eof.lock().unwrap() { 1 } else { 0 },
            t0.elapsed().as_millis()
        ));
    }
    task.abort();
    reader.abort();
    let _ = task.await;
    outs.join(" ; ")
}

pub fn run(lines: &[String]) {
    let home = std::env::current_dir().unwrap();
    let scratch = std::env::temp_dir().join(format!("rdest-verif-hnd-{}", std::process::id()));
    for line in lines {
        let rt = tokio::runtime::Builder::new_current_thread().enable_all().start_paused(true).build().unwrap();
        let r = guarded(|| rt.block_on(run_case(line, &scratch)));
        std::env::set_current_dir(&home).unwrap();
        match r {
            Some(s) => println!("{}", s),
            None => println!("HARNESSPANIC"),
        }
        drop(rt);
    }
    let _ = std::fs::remove_dir_all(&scratch);
}
