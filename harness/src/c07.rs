//! C07: Serializer::data, Frame::parse, Bitfield::{from_vec,to_vec}.
use crate::util::*;
use rdest::verif::*;
use rdest::Error;
use std::io::Cursor;

pub fn parse_line(buf: &[u8]) -> String {
    let r = guarded(|| {
        let mut crs = Cursor::new(buf);
        let r = Frame::parse(&mut crs);
        (r, crs.position())
    });
    match r {
        None => "PANIC".to_string(),
        Some((Ok(frame), pos)) => format!("OK {} {:?}", pos, frame),
        Some((Err(Error::Incomplete(_)), _)) => "INCOMPLETE".to_string(),
        Some((Err(Error::UnknownId(id)), pos)) => format!("UNKNOWN {} {}", id, pos),
        Some((Err(_), _)) => "ERROR".to_string(),
    }
}

fn usz(s: &str) -> usize {
    s.parse::<u64>().unwrap() as usize
}

fn arr20(b: &[u8]) -> [u8; 20] {
    let mut a = [0u8; 20];
    a.copy_from_slice(b);
    a
}

pub fn run(lines: &[String]) {
    for line in lines {
        let t: Vec<&str> = line.split_whitespace().collect();
        if t.is_empty() {
            continue;
        }
        match t[0] {
            // enc <junk hex> <kind> <fields..> : data() and parse(data ++ junk)
            "enc" => {
                let junk = unhex(t[1]);
                let data = guarded(|| match t[2] {
                    "handshake" => Handshake::new(&arr20(&unhex(t[3])), &arr20(&unhex(t[4]))).data(),
                    "keepalive" => KeepAlive::new().data(),
                    "choke" => Choke::new().data(),
                    "unchoke" => Unchoke::new().data(),
                    "interested" => Interested::new().data(),
                    "notinterested" => NotInterested::new().data(),
                    "have" => Have::new(usz(t[3])).data(),
                    "bitfield" => {
                        let bits: Vec<bool> = if t[3] == "-" { vec![] } else { t[3].bytes().map(|c| c == b'1').collect() };
                        Bitfield::from_vec(&bits).data()
                    }
                    "request" => Request::new(usz(t[3]), usz(t[4]), usz(t[5])).data(),
                    "piece" => Piece::new(usz(t[3]), usz(t[4]), unhex(t[5])).data(),
                    "cancel" => Cancel::new(usz(t[3]), usz(t[4]), usz(t[5])).data(),
                    k => panic!("bad kind {}", k),
                });
                match data {
                    None => println!("PANIC"),
                    Some(d) => {
                        let mut buf = d.clone();
                        buf.extend_from_slice(&junk);
                        println!("DATA {} {}", hex(&d), parse_line(&buf));
                    }
                }
            }
            // parse <hex> : Frame::parse on raw bytes
            "parse" => println!("{}", parse_line(&unhex(t[1]))),
            // tovec <pieces_num> <hex bytes> : parse a bitfield frame made of these bytes, then to_vec
            "tovec" => {
                let n = usz(t[1]);
                let bytes = unhex(t[2]);
                let r = guarded(|| {
                    let mut buf = ((bytes.len() + 1) as u32).to_be_bytes().to_vec();
                    buf.push(5);
                    buf.extend_from_slice(&bytes);
                    let mut crs = Cursor::new(&buf[..]);
                    match Frame::parse(&mut crs) {
                        Ok(Frame::Bitfield(b)) => Some((b.to_vec(n), b.validate(n).is_ok())),
                        _ => None,
                    }
                });
                match r {
                    None => println!("PANIC"),
                    Some(None) => println!("NOPARSE"),
                    Some(Some((Ok(v), val))) => {
                        let s: String = v.iter().map(|b| if *b { '1' } else { '0' }).collect();
                        println!("BITS {} {}", if s.is_empty() { "-".to_string() } else { s }, val)
                    }
                    Some(Some((Err(_), val))) => println!("ERR {}", val),
                }
            }
            k => panic!("bad case {}", k),
        }
    }
}
