"""Shared by C03 and C04: cases that run the real Extractor in a canary directory tree."""
import itertools
from driver import Case
from vlib import coq_bytes
import bgen


def hexb(h):
    return b"" if h == "-" else bytes.fromhex(h)


def piece_hash(i):
    return bytes([65 + (i % 26)]) * 10 + b"%010d" % i


def torrent_doc(name, pl, files, npieces, single=False, announce=b"http://t/a"):
    """files: list of (length, path bytes).  single: use `length` instead of `files`."""
    info = [(b"name", ("s", name)), (b"piece length", ("i", pl)),
            (b"pieces", ("s", b"".join(piece_hash(i) for i in range(npieces))))]
    if single:
        info.append((b"length", ("i", files[0][0])))
    else:
        info.append((b"files", ("l", [("d", [(b"length", ("i", l)), (b"path", ("s", p))]) for l, p in files])))
    return bgen.encode(("d", [(b"announce", ("s", announce)), (b"info", ("d", info))]))


def content_bytes(total, seed):
    base = bytes((seed * 7 + i * 13 + (i >> 8)) % 251 for i in range(total))
    style = seed % 6
    if style == 1:                       # all zeros (sparse-file handling must still produce every byte)
        return bytes(total)
    if style == 2:                       # zeros in the second half: the content ends with zero pieces
        return base[:total // 2] + bytes(total - total // 2)
    if style == 3:                       # alternating runs of zeros
        return bytes(0 if (i // 3) % 2 == 0 else base[i] for i in range(total))
    return base


def geometry_case(token, name, pl, lens, paths, single=False, npieces=None, seed=1, kind="geometry"):
    total = sum(lens)
    n = -(-total // pl) if npieces is None else npieces
    doc = torrent_doc(name, pl, list(zip(lens, paths)), n, single)
    content = content_bytes(total, seed)
    line = "ext %s %s %d %s" % (token, doc.hex(), pl, content.hex() or "-")
    return Case(line, kind, {"pl": pl, "lens": lens, "paths": [p.decode("latin1") for p in paths],
                             "name": name.decode("latin1"), "pieces": n, "single": single})


PATHS = [b"f0", b"f1", b"d/f2", b"d/e/f3", b"g4", b"d/f5", b"h/f6"]


class ExtBase:
    harness_sub = "ext"
    harness_timeout = 900
    coq_timeout = 900
    allowed_axioms = []
    model_targets = ["Pack.vo", "Corr/C03.vo"]
    corr_name = "Extractor::run + Metainfo::file_piece_ranges vs Extract.v"
    classes = {}
    assumptions = []
    _tok = 0

    def tok(self):
        ExtBase._tok += 1
        return "t%d" % ExtBase._tok

    def coq_case(self, c, out):
        t = c.line.split()
        doc, pl, content = hexb(t[2]), int(t[3]), hexb(t[4])
        out = out.strip()
        if out == "REFUSED":
            impl = "IRefused"
        elif out == "PARSEPANIC":
            impl = "IParsePanic"
        else:
            st, ents = out.split(" ", 1)
            code = {"DONE": 0, "FAIL": 1, "PANIC": 2, "NOCMD": 2}[st]
            files, dirs = [], []
            if ents != "-":
                for e in ents.split(","):
                    p, d = e.split("=")
                    if d == "D":
                        dirs.append(hexb(p))
                    else:
                        files.append((hexb(p), hexb(d)))
            files.sort()
            impl = "(IStatus %d [%s] [%s])" % (code, "; ".join("(%s, %s)" % (coq_bytes(p), coq_bytes(d)) for p, d in files),
                                              "; ".join(coq_bytes(p) for p in dirs))
        return "CExt %s %s %d %s" % (coq_bytes(doc), coq_bytes(content), pl, impl)

    def model_term(self, c):
        t = c.line.split()
        return "(model_obs %s %s %d)" % (coq_bytes(hexb(t[2])), coq_bytes(hexb(t[4])), int(t[3]))
