(* StatsProofs.v — the repaired transfer statistics never panic on counters that fit u64 and report exactly the mean
   of the last two intervals (clamped to u32), for every operation sequence. *)
From Rdest Require Import Base BaseProofs Consts Stats Corr.Stats.
From Coq Require Import ZifyBool ZifyN ZifyNat.
Ltac Zify.zify_post_hook ::= Z.div_mod_to_equations.
Open Scope N_scope.

(* the per-interval totals stay below 2^64 (a connection would have to move 16 EiB in ten seconds to break this) *)
Fixpoint fits (ops : list sop) (cur_d cur_u cur_x : N) : Prop :=
  match ops with
  | [] => True
  | SDown x :: r => cur_d + x < two64s /\ fits r (cur_d + x) cur_u cur_x
  | SUp x :: r => cur_u + x < two64s /\ fits r cur_d (cur_u + x) cur_x
  | SUnexpected :: r => cur_x + 1 < two64s /\ fits r cur_d cur_u (cur_x + 1)
  | STick :: r => fits r 0 0 0
  end.

Definition opt_list (o : option N) : list N := match o with Some x => [x] | None => [] end.

Lemma rate_two ovf cur prev : cur < two64s -> prev < two64s ->
  rate true ovf [cur; prev] = Ok (Some (N.min ((prev + cur) / 2) (two32 - 1))).
Proof.
  intros Hc Hp. unfold rate. change (len [cur; prev]) with 2.
  change (negb (2 =? peer_handler_MAX_STATS_QUEUE_SIZE)) with false. cbv iota. cbn [fold_left].
  unfold two64s, two32 in *. f_equal. f_equal. lia.
Qed.
Lemma rate_one u ovf cur : rate u ovf [cur] = Ok None.
Proof. reflexivity. Qed.

Theorem stats_exact ovf : forall ops prev_d prev_u cur_d cur_u cur_x acc,
  (prev_d = None <-> prev_u = None) ->
  cur_d < two64s -> cur_u < two64s -> cur_x < two64s ->
  (forall x, prev_d = Some x -> x < two64s) -> (forall x, prev_u = Some x -> x < two64s) ->
  fits ops cur_d cur_u cur_x ->
  srun_with true ovf (mkstats (cur_d :: opt_list prev_d) (cur_u :: opt_list prev_u) cur_x) ops acc =
  Ok (acc ++ expected ops prev_d prev_u cur_d cur_u cur_x).
Proof.
  induction ops as [|o ops IH]; intros prev_d prev_u cur_d cur_u cur_x acc Hpn Hd Hu Hx Hpd Hpu Hfit.
  - cbn. rewrite app_nil_r. reflexivity.
  - destruct o as [x|x| |]; cbn [fits] in Hfit; cbn [srun_with sstep expected st_down st_up st_unexp bump].
    + destruct Hfit as [Hb Hfit]. replace (cur_d + x <? two64s) with true by lia. cbn [bind fst snd].
      apply IH; assumption.
    + destruct Hfit as [Hb Hfit]. replace (cur_u + x <? two64s) with true by lia. cbn [bind fst snd].
      apply IH; assumption.
    + destruct Hfit as [Hb Hfit]. replace (cur_x + 1 <? two64s) with true by lia. cbn [bind fst snd].
      apply IH; assumption.
    + destruct prev_d as [pd|]; destruct prev_u as [pu|];
        try (exfalso; destruct Hpn as [A B]; (discriminate (A eq_refl) || discriminate (B eq_refl))).
      * cbn [opt_list]. change (len [cur_d; pd] =? peer_handler_MAX_STATS_QUEUE_SIZE) with true. cbv iota.
        rewrite (rate_two ovf cur_d pd Hd (Hpd pd eq_refl)), (rate_two ovf cur_u pu Hu (Hpu pu eq_refl)).
        cbn [bind fst snd]. unfold shift. cbn [st_down st_up].
        change (len [cur_d; pd] =? peer_handler_MAX_STATS_QUEUE_SIZE) with true. cbv iota. cbn [removelast].
        rewrite (IH (Some cur_d) (Some cur_u) 0 0 0); [rewrite <- app_assoc; reflexivity | split; discriminate
          | unfold two64s; lia | unfold two64s; lia | unfold two64s; lia | intros y [= <-]; exact Hd | intros y [= <-]; exact Hu | exact Hfit].
      * cbn [opt_list]. change (len [cur_d] =? peer_handler_MAX_STATS_QUEUE_SIZE) with false. cbv iota.
        cbn [bind fst snd]. unfold shift. cbn [st_down st_up].
        change (len [cur_d] =? peer_handler_MAX_STATS_QUEUE_SIZE) with false. cbv iota.
        rewrite (IH (Some cur_d) (Some cur_u) 0 0 0); [cbn [app]; reflexivity | split; discriminate
          | unfold two64s; lia | unfold two64s; lia | unfold two64s; lia | intros y [= <-]; exact Hd | intros y [= <-]; exact Hu | exact Hfit].
Qed.

(* from a fresh connection *)
Corollary stats_exact_from_start ovf ops : fits ops 0 0 0 ->
  srun_with true ovf stats_new ops [] = Ok (expected ops None None 0 0 0).
Proof.
  intros H. apply (stats_exact ovf ops None None 0 0 0 []); try (unfold two64s; lia); try (intros x Hx; discriminate); [tauto | exact H].
Qed.

(* the pinned code (sum::<u32>() of the values cast to u32): two intervals of 2 GiB each make the connection task
   panic in a build with overflow checks and report a rate of 0 in one without *)
Theorem stats_pinned_refuted :
  srun_with false true stats_new [SDown 2147483648; STick; SDown 2147483648; STick] [] = Panic /\
  srun_with false false stats_new [SDown 2147483648; STick; SDown 2147483648; STick] [] = Ok [(Some 0, Some 0, 0)] /\
  fits [SDown 2147483648; STick; SDown 2147483648; STick] 0 0 0.
Proof. split; [vm_compute; reflexivity|]. split; [vm_compute; reflexivity|]. cbn [fits]. unfold two64s. lia. Qed.

(* the boolean form used by the correspondence oracle is the hypothesis of the theorem *)
Lemma fitsb_fits : forall ops d u x, fitsb ops d u x = true -> fits ops d u x.
Proof.
  induction ops as [|o ops IH]; intros d u x H; [exact I|].
  destruct o; cbn [fitsb fits] in *; try (apply andb_true_iff in H; destruct H as [A B]; split; [lia | apply IH, B]).
  apply IH, H.
Qed.
