"""Generic check driver: one property, one tier.  Implements DESIGN.md 1.3/1.4."""
import importlib, json, os, random, sys, time, traceback
from collections import Counter
import vlib
from vlib import log


class Case:
    """One correspondence case.
    line : harness input line;  kind : generator family (for the distribution);
    info : anything json-able describing the input (for samples / replays)."""
    __slots__ = ("line", "kind", "info", "out", "term", "code", "nontrivial", "blobs", "part")

    def __init__(self, line, kind, info=None, nontrivial=True, blobs=()):
        self.line, self.kind, self.info, self.blobs = line, kind, info, list(blobs)
        self.out = self.term = self.code = None
        self.part = None
        self.nontrivial = nontrivial


def run_correspondence(prop, binp, cases, label):
    """Runs impl and model on the cases.  Returns dict with lists of failing cases."""
    res = {"K_fail": [], "O_fail": [], "known": Counter(), "error": None, "n": len(cases)}
    if not cases:
        return res
    try:
        outs = vlib.run_harness(binp, prop.harness_sub, [c.line for c in cases],
                                timeout=prop.harness_timeout, shards=getattr(prop, "harness_shards", None),
                                isolate=getattr(prop, "harness_isolate", False))
    except RuntimeError as e:
        res["error"] = "harness: %s" % e
        return res
    terms = []
    for c, o in zip(cases, outs):
        c.out = o
        try:
            c.term = prop.coq_case(c, o)
        except Exception as e:  # unparsable implementation output = disagreement
            c.term = None
            c.code = 1
            res["K_fail"].append(c)
    evalc = [c for c in cases if c.term is not None]
    ok, codes, raw = vlib.eval_cases(prop.id + "_" + label, prop.coq_header, [c.term for c in evalc],
                                     timeout=prop.coq_timeout, chunk=getattr(prop, "coq_chunk", None))
    if not ok:
        res["error"] = "coq evaluation of cases failed: %s" % raw[-3000:]
        return res
    for c, code in zip(evalc, codes):
        c.code = code
        if code & 1:
            res["K_fail"].append(c)
        if code & 2:
            cls = code >> 2
            name = prop.classes.get(cls)
            if name and all(part in prop.known_classes for part in name.split("+")):
                res["known"][name] += 1
            else:
                res["O_fail"].append(c)
    return res


def shrink(prop, binp, case, pred_bit):
    """Greedy shrinking through prop.shrink_candidates (optional)."""
    if not hasattr(prop, "shrink_candidates"):
        return case
    cur = case
    for _ in range(60):
        progressed = False
        cands = prop.shrink_candidates(cur)[:64]
        if not cands:
            break
        for x in cands:
            x.part = case.part
        r = run_correspondence(prop, binp, cands, "shrink")
        if r["error"]:
            break
        for c in cands:
            if c.code is not None and (c.code & pred_bit) and not (
                    (c.code & 2) and prop.classes.get(c.code >> 2) and
                    all(p in prop.known_classes for p in prop.classes.get(c.code >> 2).split("+"))):
                cur = c
                progressed = True
                break
        if not progressed:
            break
    return cur


def describe(prop, case):
    d = {"harness_input": case.line, "kind": case.kind, "info": case.info, "impl_output": case.out,
         "code": case.code}
    if case.term is not None and hasattr(prop, "model_term"):
        try:
            d["model_output"] = vlib.eval_terms(prop.id, prop.coq_header, [prop.model_term(case)])[0]
        except Exception as e:
            d["model_output"] = "unavailable: %s" % e
    return d


def main(argv):
    prop_id = argv[1]
    tier = os.environ.get("VERIF_TIER", "quick")
    if "--tier" in argv:
        tier = argv[argv.index("--tier") + 1]
    seed = int(os.environ.get("VERIF_SEED", "1"))
    sys.path.insert(0, os.path.join(vlib.VERIF, "tools", "props"))
    prop = importlib.import_module(prop_id.lower()).PROP
    t0 = time.time()
    rng = random.Random(seed * 1000003 + sum(map(ord, prop_id)))
    known = vlib.load_known(prop_id)
    prop.known_classes = {k["class_id"] for k in known}

    broken = []          # reasons why the property is "no longer shown"
    notes = []
    violations = []      # (replay_path, suffix)

    with vlib.Lock():
        ok, msg = vlib.gen_consts()
        notes.append(msg)
        if not ok:
            broken.append("constants translator: " + msg)
        gate = vlib.grep_gate()
        if gate:
            broken.append("grep gate: " + "; ".join(gate[:5]))
        models_ok = False
        if ok or vlib.CONSTS_USABLE:
            targets = []
            for part in (getattr(prop, "parts", None) or [prop]):
                targets += [t for t in part.model_targets if t not in targets]
            models_ok, out = vlib.coq_make(targets)
            if not models_ok:
                broken.append("model/spec files do not compile: " + out[-1500:])
        proofs_ok = False
        pa = {}
        if models_ok:
            proofs_ok, out = vlib.coq_make([prop.proof_target])
            if not proofs_ok:
                broken.append("proof obligations of %s do not check: %s" % (prop.proof_target, out[-1500:]))
            else:
                okpa, pa, raw = vlib.print_assumptions(prop_id, prop.theorems)
                if not okpa:
                    proofs_ok = False
                    broken.append("Print Assumptions failed: " + raw[-800:])
                else:
                    for t in prop.theorems:
                        extra = [a for a in pa.get(t, ["<missing>"]) if a not in prop.allowed_axioms]
                        if t not in pa or extra:
                            proofs_ok = False
                            broken.append("theorem %s depends on non-allow-listed assumptions %s" % (t, extra))
        hok, hout, binp = vlib.build_harness()
        if not hok:
            broken.append("harness does not build against /repo with hooks on: " + hout[-1500:])
    if tier == "thorough" and proofs_ok:
        okc, outc = coqchk(prop)
        notes.append("coqchk: " + outc[-300:])
        if not okc:
            broken.append("coqchk rejected the compiled proofs: " + outc[-800:])

    dist = Counter()
    total = 0
    nontrivial = set()
    samples = []
    known_counts = Counter()
    K_fail, O_fail = [], []
    # a property may be decided on several harnesses (e.g. connection task and manager): its parts
    parts = list(getattr(prop, "parts", None) or [prop])
    # thorough tier: parts that must also hold without overflow checks run against a release build of the harness
    binp_release = None
    if tier == "thorough" and hok:
        extra = [rp for part in parts for rp in getattr(part, "release_parts", [])]
        if extra:
            rok, rout, binp_release = vlib.build_harness(release=True)
            if rok:
                parts += extra
            else:
                broken.append("release harness does not build: " + rout[-800:])
    for part in parts:
        part.known_classes = prop.known_classes
    if hok and models_ok:
        for part in parts:
            binp_part = binp_release if getattr(part, "release", False) else binp
            cases = part.corpus() + part.gen(rng, tier)
            for c in cases:
                c.part = part
                dist[c.kind] += 1
            r = run_correspondence(part, binp_part, cases, "main")
            total += len(cases)
            if r["error"]:
                broken.append(r["error"])
            K_fail += r["K_fail"]
            O_fail += r["O_fail"]
            known_counts.update(r["known"])
            for c in cases:
                if c.nontrivial:
                    nontrivial.add(c.line)
            step = max(1, len(cases) // 6)
            samples += [{"input": c.line[:300], "impl": (c.out or "")[:300]} for c in cases[::step][:8 if len(parts) == 1 else 4]]
        # search for a concrete failing input when the property is no longer shown to hold
        if (broken or K_fail) and not O_fail:
            log("property no longer shown to hold (%s); searching for a failing input ..." %
                ("; ".join(b[:120] for b in broken) if broken else "%d model/impl disagreements" % len(K_fail)))
            for part in parts:
                seeds = [c for c in K_fail[:20] if c.part is part]
                extra = part.search(rng, seeds) if hasattr(part, "search") else part.gen(rng, "search")
                for c in extra:
                    c.part = part
                r2 = run_correspondence(part, binp, extra, "search")
                total += len(extra)
                if not r2["error"]:
                    O_fail += r2["O_fail"]
                    K_fail = K_fail or r2["K_fail"]
                    known_counts.update(r2["known"])
                if O_fail:
                    break

    for name, cnt in sorted(known_counts.items()):
        desc = next((k.get("what", "") for k in known if k["class_id"] == name), "")
        log("KNOWN-FINDING: property=%s %s (%d cases this run) %s" % (prop_id, name, cnt, desc))

    if O_fail:
        c = shrink(O_fail[0].part, binp, O_fail[0], 2) if hok else O_fail[0]
        c.part = c.part or O_fail[0].part
        path = vlib.write_replay(prop_id, {
            "property": prop_id, "verdict": "the implementation's behaviour on this input fails the specification oracle",
            "case": describe(c.part, c), "other_failing_cases": len(O_fail) - 1,
            "replay": "./check %s --replay <this file>" % prop_id})
        violations.append((path, ""))
    elif broken or K_fail:
        payload = {"property": prop_id,
                   "verdict": "property no longer shown to hold; no input on which it fails was found",
                   "no_longer_checks": broken or ["correspondence model vs implementation (%s)" % K_fail[0].part.corr_name],
                   "replay": "./check %s" % prop_id}
        if K_fail:
            c = shrink(K_fail[0].part, binp, K_fail[0], 1) if hok else K_fail[0]
            c.part = c.part or K_fail[0].part
            payload["first_disagreement"] = describe(c.part, c)
            payload["disagreements"] = len(K_fail)
        path = vlib.write_replay(prop_id, payload)
        violations.append((path, " no-failing-input-found"))

    wall = time.time() - t0
    ev = {
        "property_id": prop_id, "tier": tier if tier in ("quick", "thorough") else "quick", "seed": seed,
        "level": "proof",
        "coverage": {
            "obligations": len(prop.theorems),
            "discharged": len([t for t in prop.theorems if t in pa and not
                               [a for a in pa[t] if a not in prop.allowed_axioms]]) if proofs_ok else 0,
            "checker_cmd": "make -C coq %s && coqc Print Assumptions (tools/vlib.py)" % prop.proof_target,
            "trusted_base": vlib.TRUSTED_BASE + getattr(prop, "trusted_extra", []),
            "theorems": prop.theorems,
            "assumptions": pa,
            "statement_status": getattr(prop, "statement_status", ""),
            "evaluations": total,
            "distinct_nontrivial": len(nontrivial),
            "rule": prop.rule,
            "samples": samples,
            "distribution": dict(dist),
            "known_finding_hits": dict(known_counts),
            "model_impl_disagreements": len(K_fail),
            "oracle_failures": len(O_fail),
            "exhaustive": bool(getattr(prop, "exhaustive", False)),
            "notes": notes,
        },
        "assumptions": getattr(prop, "assumptions", []),
        "wall_s": round(wall, 2),
        "violations": len(violations),
    }
    vlib.write_evidence(prop_id, ev)
    log("%s tier=%s seed=%d: theorems %d/%d, cases %d (K-fail %d, O-fail %d), %.1fs" %
        (prop_id, tier, seed, ev["coverage"]["discharged"], len(prop.theorems), total, len(K_fail), len(O_fail), wall))
    for path, suffix in violations:
        log("VIOLATION property=%s replay=%s%s" % (prop_id, path, suffix))
    return 1 if violations else 0


def coqchk(prop):
    mod = "Rdest.Props." + prop.id
    rc, out = vlib.run(["coqchk", "-silent", "-o", "-Q", vlib.COQ, "Rdest", mod], 1500, cwd=vlib.COQ)
    if rc != 0:
        return False, out
    import re
    m = re.search(r"Axioms:\s*(.*?)(?:\n\s*\n|\Z)", out, re.S)
    axioms = m.group(1).strip() if m else "?"
    return ("<none>" in axioms), "axioms reported by coqchk: " + axioms


if __name__ == "__main__":
    try:
        sys.exit(main(sys.argv))
    except SystemExit:
        raise
    except Exception:
        traceback.print_exc()
        sys.exit(2)
