"""C18 — the tracker announce names the right torrent and client."""
from driver import Case
from vlib import coq_bytes

ALNUM = b"ABCDEFGHIJKLMNOPQRSTUVWXYZabcdefghijklmnopqrstuvwxyz0123456789"


class C18:
    id = "C18"
    harness_sub = "url"
    harness_timeout = 900
    harness_shards = 8
    coq_timeout = 900
    model_targets = ["Pack.vo", "Corr/C18.vo"]
    proof_target = "Props/C18.vo"
    theorems = ["C18_hash_roundtrip", "C18_hash_safe", "C18_url_shape", "C18_info_hash_found", "C18_existing_kept", "C18_hash_injective"]
    allowed_axioms = []
    coq_header = "From Rdest Require Import Base BCodec Consts Url Corr.C18.\nOpen Scope N_scope.\n"
    corr_name = "TrackerClient::create_url + the request reqwest sends vs Url.v"
    classes = {}
    rule = ("the real TrackerClient::run against a loopback HTTP listener: announce URLs with and without a path, with and "
            "without an existing query (one or several parameters, empty query), torrents whose SHA-1 info-hashes cover all "
            "byte values over the run (NUL, '&', '%', '+', '=', non-UTF-8), alphanumeric peer ids, total lengths 0..2^63-1. The "
            "request line received by the listener is read back. Oracle: path and original parameters kept, info_hash "
            "percent-decodes to the 20 hash bytes, peer_id / port / left present with the right values. Non-trivial: "
            "announce URLs with a query; distinct lines.")
    statement_status = "see Props/C18.v"
    assumptions = ["announce URLs from the grammar http://host:port[/path][?k=v(&k=v)*] over unreserved characters"]
    exhaustive = False

    def mk(self, tmpl, name, length, pid, kind):
        c = Case("url %s %s %d %s" % (tmpl.hex(), name.hex(), length, pid.hex()), kind,
                 {"announce": tmpl.decode(), "length": length})
        c.nontrivial = b"?" in tmpl
        return c

    def corpus(self):
        pid = b"ABCDEFGHIJ0123456789"
        return [self.mk(b"http://127.0.0.1:@PORT@/announce", b"nm", 1234, pid, "corpus"),
                self.mk(b"http://127.0.0.1:@PORT@/a/b?key=abc&x=1", b"n2", 7, pid, "corpus"),
                self.mk(b"http://127.0.0.1:@PORT@", b"n3", 0, pid, "corpus"),
                self.mk(b"http://127.0.0.1:@PORT@/a?", b"n4", 2 ** 63 - 1, pid, "corpus"),
                self.mk(b"http://127.0.0.1:@PORT@/t/key/", b"n5", 5, pid, "corpus"),
                self.mk(b"http://127.0.0.1:@PORT@/a?realm=/private/", b"n6", 5, pid, "corpus")]

    def gen(self, rng, tier):
        n = {"quick": 160, "thorough": 3000, "search": 600}.get(tier, 160)
        cases = []
        def word():      # "." and ".." path segments are normalised away by the url crate: not modelled
            while True:
                w = bytes(rng.choice(ALNUM + b"._-") for _ in range(rng.randrange(1, 7)))
                if w not in (b".", b".."):
                    return w
        for i in range(n):
            path = b"".join(b"/" + word() for _ in range(rng.choice([0, 1, 1, 2, 3])))
            if rng.random() < 0.25:
                path += b"/"                      # announce paths ending in '/', e.g. /t/<passkey>/
            r = rng.random()
            if r < 0.45:
                q = b""
            elif r < 0.5:
                q = b"?"
            elif r < 0.65:
                # keys and values that contain the client's own parameter names
                q = rng.choice([b"?transport=tcp", b"?cleft=1", b"?xport=9&yleft=2", b"?myinfo_hash=zz", b"?k=port=1", b"?apeer_id=q",
                                b"?compact=1&support=no", b"?v=left=3&downloaded=7", b"?uploaded=1", b"?passkey=abc&transport=udp"])
            else:
                val = lambda: word() + (rng.choice([b"", b"", b"/", b"/x", b"~", b":8", b"@h"]))
                q = b"?" + b"&".join(word() + b"=" + val() for _ in range(rng.choice([1, 1, 2, 3])))
            tmpl = b"http://127.0.0.1:@PORT@" + path + q
            name = bytes(rng.choice(ALNUM) for _ in range(8))
            length = rng.choice([0, 1, 7, 16384, 2 ** 31, 2 ** 32, 2 ** 63 - 1, rng.randrange(2 ** 40)])
            pid = bytes(rng.choice(ALNUM) for _ in range(20))
            cases.append(self.mk(tmpl, name, length, pid, "query" if q else "plain"))
        return cases

    def coq_case(self, c, out):
        t = c.line.split()
        f = out.split()
        d = dict(zip(f[0::2], f[1::2]))
        port = d["PORT"]
        announce = bytes.fromhex(t[1]).replace(b"@PORT@", port.encode())
        hx = lambda h: b"" if h == "-" else bytes.fromhex(h)
        self._hash_bytes.update(hx(d["HASH"]))
        return "CUrl %s %s %s %s %s %s %s" % (coq_bytes(announce), coq_bytes(hx(d["HASH"])), coq_bytes(hx(t[4])), t[3],
                                              coq_bytes(hx(d["URL"])), coq_bytes(hx(d["TARGET"])),
                                              "true" if f[-1] == "RESP" else "false")

    _hash_bytes = set()

    def model_term(self, c):
        return "(code (%s))" % c.term


from c19 import C19Real


class C18Retry(C19Real):
    """every announce names the torrent and the client, the retries after a failed one included: the real tracker task
    against a loopback tracker that fails first (the scenarios of C19Real); the tracker compares the request targets it reads"""
    id = "C18"
    model_targets = ["Pack.vo", "Corr/C18.vo"]
    coq_header = "From Rdest Require Import Base BCodec Consts Url Corr.C18.\nOpen Scope N_scope.\n"
    corr_name = "request targets across retries"
    classes = {}
    rule = ""

    def corpus(self):
        return [self.mkreal(["500", "garbage"], self.BODIES[1], "retry-targets"), self.mkreal(["failure"], self.BODIES[0], "retry-targets")]

    def gen(self, rng, tier):
        k = {"quick": 10, "thorough": 100, "search": 30}.get(tier, 10)
        out = []
        for _ in range(k):
            n = rng.choice([1, 1, 2, 3])
            script = [rng.choice([x for x in self.OUTCOMES if x != "refused"]) for _ in range(n)]
            out.append(self.mkreal(script, rng.choice(self.BODIES), "retry-targets"))
        return out

    def coq_case(self, c, out):
        t = c.line.split()
        script = [] if t[1] == "-" else t[1].split(",")
        if out.strip() in ("SKIP", "PANIC"):      # (a harness-side failure is no verdict on the client)
            c.nontrivial = False
            return "CRetry 0 1 true"
        f = out.split()
        o = dict(zip(f[0::2], f[1::2]))
        return "CRetry %d %s %s" % (len(script), o["SEEN"], "true" if o["SAME"] == "1" else "false")

    def model_term(self, c):
        return "true"


PROP = C18()
PROP.parts = [PROP, C18Retry()]
