(* HStatsProofs.v — what the "measured rate" of a connection measures.

   The reports a task sends (SyncStats) are the counters of Stats.v driven by the call sites of HStats.v.  Composed:
   over any life of a connection, every report carries the mean over the last two 10 s intervals of exactly the bytes of
   the blocks the task accepted (downloaded) and of the piece messages it wrote (uploaded), and the number of blocks it
   refused in the current interval. *)
From Rdest Require Import Base BaseProofs Consts Wire Manager Handler HandlerProofs Stats HStats Corr.Stats StatsProofs.
From Coq Require Import ZifyBool ZifyN ZifyNat.
Open Scope N_scope.

(* the bytes of the piece messages among the actions of a step *)
Definition uploaded_bytes (acts : list action) : N :=
  fold_right (fun a acc => match a with ASend (Piece _ _ blk) => len blk + acc | _ => acc end) 0 acts.
Definition sum_up (ops : list sop) : N := fold_right (fun o acc => match o with SUp x => x + acc | _ => acc end) 0 ops.
Definition sum_down (ops : list sop) : N := fold_right (fun o acc => match o with SDown x => x + acc | _ => acc end) 0 ops.
Definition count_unexpected (ops : list sop) : N :=
  fold_right (fun o acc => match o with SUnexpected => 1 + acc | _ => acc end) 0 ops.

Lemma sum_up_app a b : sum_up (a ++ b) = sum_up a + sum_up b.
Proof. induction a as [|o a IH]; cbn [app sum_up fold_right]; [reflexivity|]. fold (sum_up (a ++ b)). fold (sum_up a). rewrite IH. destruct o; lia. Qed.

(* uploads: counted are exactly the payload bytes of the piece messages written in that step *)
Theorem uploads_counted s ev acts : sum_up (stats_ops s ev acts) = uploaded_bytes acts.
Proof.
  unfold stats_ops. rewrite sum_up_app.
  assert (H0 : sum_up (match ev with
                       | EFrame (Piece i b blk) =>
                           if piece_reaches_handler s
                           then match h_rx s with
                                | Some r => if is_requested r i b blk then [SDown (len blk)] else [SUnexpected]
                                | None => [SUnexpected]
                                end
                           else []
                       | _ => []
                       end) = 0).
  { destruct ev as [|m| | | |i|b]; try reflexivity. destruct m; try reflexivity.
    destruct (piece_reaches_handler s); [|reflexivity]. destruct (h_rx s) as [r|]; [|reflexivity].
    destruct (is_requested r index begin block); reflexivity. }
  rewrite H0. cbn [N.add]. induction acts as [|a acts IH]; [reflexivity|].
  cbn [flat_map uploaded_bytes fold_right]. fold (uploaded_bytes acts). rewrite sum_up_app, IH.
  destruct a as [m|c|h d]; try reflexivity. destruct m; try reflexivity. cbn [sum_up fold_right]. lia.
Qed.

(* downloads: a block is counted as downloaded exactly when it answers an outstanding request of the piece being
   assembled (and the frame got past the handshake gate); any other piece frame that reaches the handler counts as one
   unexpected block and changes nothing else: the task goes on with the same state (keep-alive count reset) and no action *)
Theorem block_counted s i b blk acts :
  sum_down (stats_ops s (EFrame (Piece i b blk)) acts) =
  if piece_reaches_handler s && match h_rx s with Some r => is_requested r i b blk | None => false end then len blk else 0.
Proof.
  unfold stats_ops.
  assert (Hf : forall l, sum_down (l ++ flat_map (fun a => match a with ASend (Piece _ _ k) => [SUp (len k)] | _ => [] end) acts) = sum_down l).
  { intros l. induction l as [|o l IH]; cbn [app sum_down fold_right].
    - induction acts as [|a acts IHa]; [reflexivity|]. cbn [flat_map]. destruct a as [m|c|h d]; try exact IHa. destruct m; exact IHa.
    - fold (sum_down (l ++ flat_map (fun a => match a with ASend (Piece _ _ k) => [SUp (len k)] | _ => [] end) acts)). fold (sum_down l).
      rewrite IH. reflexivity. }
  rewrite Hf. destruct (piece_reaches_handler s); cbn [andb]; [|reflexivity].
  destruct (h_rx s) as [r|]; [|reflexivity]. destruct (is_requested r i b blk); cbn [sum_down fold_right]; lia.
Qed.

Section Refused.
  Variable sha1 : bytes -> bytes.
  Variable cf : hconf.
  Variable disk : bytes -> option bytes.

  Theorem refused_block_changes_nothing ovf s i b blk rep :
    piece_reaches_handler s = true ->
    match h_rx s with Some r => is_requested r i b blk | None => false end = false ->
    hstep sha1 cf disk ovf s (EFrame (Piece i b blk)) rep = HCont (set_ka s 0) [] /\
    stats_ops s (EFrame (Piece i b blk)) [] = [SUnexpected].
  Proof.
    intros Hg Hr. split.
    - cbn [hstep]. unfold handle_frame. unfold piece_reaches_handler in Hg.
      replace (Handler_gate_on_handshake && negb (h_hs_done s) && negb false) with false
        by (destruct (Handler_gate_on_handshake && negb (h_hs_done s)); [discriminate Hg | reflexivity]).
      unfold handle_piece. cbn [set_ka h_rx]. destruct (h_rx s) as [r|]; [|reflexivity]. rewrite Hr. reflexivity.
    - unfold stats_ops. rewrite Hg. destruct (h_rx s) as [r|]; [rewrite Hr|]; reflexivity.
  Qed.

  (* the reports over a connection's whole life, from its start: exactly the interval means *)
  Theorem reports_are_interval_means ovf s0 tr :
    fits (trace_ops sha1 cf disk ovf s0 tr) 0 0 0 ->
    srun_with true ovf stats_new (trace_ops sha1 cf disk ovf s0 tr) [] =
    Ok (expected (trace_ops sha1 cf disk ovf s0 tr) None None 0 0 0).
  Proof. apply stats_exact_from_start. Qed.
End Refused.

(* ---- the same, stated about the task's own steps (hstep) ------------------------------------------------ *)
Definition up_ops (acts : list action) : list sop :=
  flat_map (fun a => match a with ASend (Piece _ _ k) => [SUp (len k)] | _ => [] end) acts.

Section Task.
  Variable sha1 : bytes -> bytes.
  Variable cf : hconf.
  Variable disk : bytes -> option bytes.

  (* piece messages are written only in answer to a Request frame (HandlerProofs.actions_ok): no other step counts
     anything as uploaded *)
  Lemma no_up_ops ovf s ev r :
    (forall ri rb rl, ev <> EFrame (Request ri rb rl)) -> up_ops (acts_of (hstep sha1 cf disk ovf s ev r)) = [].
  Proof.
    intros Hev. pose proof (actions_ok sha1 cf disk ovf s ev r eq_refl) as H.
    induction (acts_of (hstep sha1 cf disk ovf s ev r)) as [|a acts IH]; [reflexivity|].
    cbn [forallb] in H. apply andb_true_iff in H. destruct H as [Ha H].
    unfold up_ops in *. cbn [flat_map]. rewrite (IH H).
    destruct a as [m|c|h d]; try reflexivity. destruct m; try reflexivity.
    exfalso. cbn [act_ok] in Ha. apply andb_true_iff in Ha. destruct Ha as [_ Ha].
    destruct ev as [|m| | | |i|b]; try discriminate. destruct m; try discriminate. eapply Hev. reflexivity.
  Qed.
  Theorem no_upload_without_request ovf s ev r :
    (forall ri rb rl, ev <> EFrame (Request ri rb rl)) ->
    sum_up (stats_ops s ev (acts_of (hstep sha1 cf disk ovf s ev r))) = 0.
  Proof.
    intros Hev. rewrite uploads_counted.
    pose proof (no_up_ops ovf s ev r Hev) as H. unfold up_ops in H.
    induction (acts_of (hstep sha1 cf disk ovf s ev r)) as [|a acts IH]; [reflexivity|].
    cbn [flat_map] in H. cbn [uploaded_bytes fold_right]. fold (uploaded_bytes acts).
    destruct a as [m|c|h d]; try (apply IH; exact H). destruct m; try (apply IH; exact H). discriminate.
  Qed.

  (* a Piece frame: exactly one counter moves -- downloaded by the block's length when it answers an outstanding request
     of the piece being assembled, unexpected otherwise (nothing when the frame does not get past the handshake gate) --
     whatever the manager answers and whatever else the step does *)
  Theorem task_block_counted ovf s i b blk r :
    stats_ops s (EFrame (Piece i b blk)) (acts_of (hstep sha1 cf disk ovf s (EFrame (Piece i b blk)) r)) =
    if piece_reaches_handler s then
      (if match h_rx s with Some rx => is_requested rx i b blk | None => false end then [SDown (len blk)] else [SUnexpected])
    else [].
  Proof.
    assert (Hn : forall ri rb rl, EFrame (Piece i b blk) <> EFrame (Request ri rb rl)) by (intros; discriminate).
    pose proof (no_up_ops ovf s (EFrame (Piece i b blk)) r Hn) as F. unfold up_ops in F.
    unfold stats_ops. rewrite F, app_nil_r.
    destruct (piece_reaches_handler s); [|reflexivity]. destruct (h_rx s) as [rx|]; [|reflexivity].
    destruct (is_requested rx i b blk); reflexivity.
  Qed.
End Task.
