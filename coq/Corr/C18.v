(* Correspondence for C18: the announce request of the real TrackerClient at a loopback listener. *)
From Rdest Require Import Base BCodec Consts Url.
Open Scope N_scope.

Inductive case :=
| CUrl (announce hash own_id : bytes) (total : N) (impl_url impl_target : bytes) (got_reply : bool)
(* the announces of one run of the real tracker task against a tracker that fails `fails` times first: how many requests
   the tracker read, and whether all of them carried the same target, info_hash included *)
| CRetry (fails : N) (seen : N) (same : bool).

Definition opt_eqb (a : option bytes) (b : bytes) : bool := match a with Some x => bytes_eqb x b | None => false end.

(* oracle, on the implementation's request target only *)
Definition oracle (announce hash own_id : bytes) (total : N) (target : bytes) : bool :=
  let '(path, q) := path_query target in
  let ps := query_pairs q in
  let '(apath, aq) := path_query (target_of announce) in
  bytes_eqb path apath
  (* the announce URL's own parameters are kept *)
  && forallb (fun kv => existsb (fun kv' => bytes_eqb (fst kv) (fst kv') && bytes_eqb (snd kv) (snd kv')) ps) (query_pairs aq)
  && opt_eqb (lookup s_info_hash ps) hash
  && opt_eqb (lookup s_peer_id ps) own_id
  && opt_eqb (lookup s_port ps) (dec_N 6881)
  && opt_eqb (lookup s_left ps) (dec_N total).

Definition code (c : case) : N :=
  match c with
  | CUrl announce hash own_id total impl_url impl_target got_reply =>
      let k := bytes_eqb (create_url announce hash) impl_url
               && bytes_eqb (request_target announce hash own_id total) impl_target in
      let o := got_reply && oracle announce hash own_id total impl_target in
      (if k then 0 else 1) + (if o then 0 else 2)
  | CRetry fails seen same =>
      (* "the HTTP request sent to the tracker": every one of them, the retries after a failure included *)
      if same then 0 else 2
  end.
Definition codes (cs : list case) : list N := map code cs.
