(* WireSpec.v — the BEP3 byte layouts written independently of the code's
   constants: literal numbers only. *)
From Rdest Require Export Base.
From Rdest Require Import Wire.
Open Scope N_scope.

(* "BitTorrent protocol" *)
Definition pstr : bytes :=
  [66; 105; 116; 84; 111; 114; 114; 101; 110; 116; 32; 112; 114; 111; 116; 111; 99; 111; 108].

(* big-endian 32-bit field, stated as a relation: four bytes whose weighted sum is n *)
Definition BE32 (n : N) (bs : bytes) : Prop :=
  exists a b c d, bs = [a; b; c; d] /\ a < 256 /\ b < 256 /\ c < 256 /\ d < 256
                  /\ n = a * 2^24 + b * 2^16 + c * 2^8 + d.

(* <length prefix = 1 + |payload|> <id> <payload> *)
Definition Framed (id : N) (payload : bytes) (out : bytes) : Prop :=
  exists lp, BE32 (1 + len payload) lp /\ out = lp ++ [id] ++ payload.

Definition Bep3 (m : msg) (out : bytes) : Prop :=
  match m with
  | Handshake h p => out = [19] ++ pstr ++ [0;0;0;0;0;0;0;0] ++ h ++ p
  | KeepAlive => out = [0;0;0;0]
  | Choke => Framed 0 [] out
  | Unchoke => Framed 1 [] out
  | Interested => Framed 2 [] out
  | NotInterested => Framed 3 [] out
  | Have i => exists bi, BE32 i bi /\ Framed 4 bi out
  | Bitfield bs => Framed 5 bs out
  | Request i b l => exists bi bb bl, BE32 i bi /\ BE32 b bb /\ BE32 l bl /\ Framed 6 (bi ++ bb ++ bl) out
  | Piece i b blk => exists bi bb, BE32 i bi /\ BE32 b bb /\ Framed 7 (bi ++ bb ++ blk) out
  | Cancel i b l => exists bi bb bl, BE32 i bi /\ BE32 b bb /\ BE32 l bl /\ Framed 8 (bi ++ bb ++ bl) out
  end.

(* the field ranges the property quantifies over: u32 fields, 20-byte hash and
   id, payloads up to the frame limit of 65536 (length prefix included) *)
Definition FieldsOk (m : msg) : Prop :=
  match m with
  | Handshake h p => length h = 20%nat /\ length p = 20%nat
  | Have i => i < 2^32
  | Bitfield bs => 1 + len bs <= 65536
  | Request i b l | Cancel i b l => i < 2^32 /\ b < 2^32 /\ l < 2^32
  | Piece i b blk => i < 2^32 /\ b < 2^32 /\ 9 + len blk <= 65536
  | _ => True
  end.

(* bit i of a piece vector lives in byte i/8, at the (i mod 8)-th most
   significant position *)
Definition bit_of (bs : bytes) (i : nat) : bool :=
  N.testbit (nth (i / 8) bs 0) (N.of_nat (7 - i mod 8)).

(* ---- boolean checkers of the specification (used as the oracle on the
   implementation's output) ------------------------------------------------ *)

Definition is_be32 (n : N) (bs : bytes) : bool :=
  match bs with
  | [a; b; c; d] => (a <? 256) && (b <? 256) && (c <? 256) && (d <? 256)
                    && (n =? a * 2^24 + b * 2^16 + c * 2^8 + d)
  | _ => false
  end.

Definition framedb (id : N) (payload : bytes) (out : bytes) : bool :=
  match out with
  | a :: b :: c :: d :: i :: rest =>
      is_be32 (1 + len payload) [a; b; c; d] && (i =? id) && bytes_eqb rest payload
  | _ => false
  end.

(* payload made of k big-endian words followed by a tail *)
Definition words_then (ws : list N) (tail : bytes) (payload : bytes) : bool :=
  (fix go (ws : list N) (p : bytes) : bool :=
     match ws with
     | [] => bytes_eqb p tail
     | w :: ws' => match p with
                   | a :: b :: c :: d :: p' => is_be32 w [a; b; c; d] && go ws' p'
                   | _ => false
                   end
     end) ws payload.

Definition payload_of (out : bytes) : bytes := skipn 5 out.

Definition bep3b (m : msg) (out : bytes) : bool :=
  match m with
  | Handshake h p => bytes_eqb out ([19] ++ pstr ++ [0;0;0;0;0;0;0;0] ++ h ++ p)
  | KeepAlive => bytes_eqb out [0;0;0;0]
  | Choke => framedb 0 [] out
  | Unchoke => framedb 1 [] out
  | Interested => framedb 2 [] out
  | NotInterested => framedb 3 [] out
  | Have i => framedb 4 (payload_of out) out && words_then [i] [] (payload_of out)
  | Bitfield bs => framedb 5 bs out
  | Request i b l => framedb 6 (payload_of out) out && words_then [i; b; l] [] (payload_of out)
  | Piece i b blk => framedb 7 (payload_of out) out && words_then [i; b] blk (payload_of out)
  | Cancel i b l => framedb 8 (payload_of out) out && words_then [i; b; l] [] (payload_of out)
  end.

(* bit-mapping oracle for a whole vector *)
Definition bits_okb (bs : bytes) (v : list bool) : bool :=
  forallb (fun i => Bool.eqb (nth i v false) (bit_of bs i)) (seq 0 (length v)).
