(* Correspondence for the per-peer task (C08, C09, C10, C11, C20, C01 handler side): the model is
   run event by event with the same stimuli and manager answers as the real PeerHandler; what
   the task wrote to the connection, told the manager and wrote to disk is compared per event.
   The oracles look at the implementation's observations only. *)
From Rdest Require Import Base Consts Wire Manager Handler Stats HStats.
Open Scope N_scope.

Inductive stim :=
| SStart | SMsg (m : msg) | SBad                 (* bytes that make recv_frame fail *)
| STicks (k : N)                                   (* the clock crossed k keep-alive boundaries *)
| SBHave (i : N) | SBOwn (b : option bool) | SClose | SStore (i : N) (bad : bool) | SNop
| SThen (s : stim) (k : N)                         (* s, then k keep-alive boundaries while things settled *)
| SBurst (m : msg) (k : N) (bad : bool).           (* one write carrying k >= 1 copies of m, then (bad) bytes that make recv_frame fail *)
Definition base_of (s : stim) : stim := match s with SThen s' _ => s' | _ => s end.
Definition ticks_of (s : stim) : N := match s with SThen _ k => k | STicks k => k | _ => 0 end.

Record policy := mkpol {
  po_init : list bool; po_unch : reply; po_nint : reply; po_have : reply;
  po_bf : reply; po_req : reply; po_done : reply; po_cancel : reply }.

Inductive ocmd :=
| OInit (id : bytes) | OChoke | OInt | OUnchoke | ONotInt | OHave (i : N) | OBitfield (b : bytes)
| ORequest (i : N) | ODone | OCancel | OKill (normal : bool)
| ODoneEarly.      (* a PieceDone that reached the manager side while no newly written verified piece file existed *)

Record obs := mkobs {
  ob_sent : bytes;
  ob_cmds : list ocmd;
  ob_files : list (bytes * N * bytes);     (* name (the hash), length, SHA-1 of the content *)
  ob_fin : N;                              (* 0 running, 1 ended normally, 2 ended with an error, 3 panicked *)
  (* transfer statistics: the SyncStats reports (downloaded rate, uploaded rate, unexpected blocks) the task sent in this
     step, the statistics instants (every 10 s of the virtual clock) the step crossed, and whether the order between
     this step's counter updates and those instants is determined (false from the first step on where it is not) *)
  ob_stats : list (option N * option N * N);
  ob_sticks : N;
  ob_svalid : bool
}.

Record hcase := mkcase {
  hc_outgoing : bool;
  hc_conf : hconf;
  hc_data : list bytes;                    (* content of every piece (what hashes to c_hashes) *)
  hc_steps : list (stim * policy * obs)
}.

(* SHA-1 restricted to the buffers whose digest the driver computed *)
Definition sha_tab (c : hcase) (x : bytes) : bytes :=
  match find (fun dh => bytes_eqb (fst dh) x) (combine (hc_data c) (c_hashes (hc_conf c))) with
  | Some (_, h) => h
  | None => []
  end.

Definition ocmd_eqb (a b : ocmd) : bool :=
  match a, b with
  | OInit x, OInit y | OBitfield x, OBitfield y => bytes_eqb x y
  | OChoke, OChoke | OInt, OInt | OUnchoke, OUnchoke | ONotInt, ONotInt | ODone, ODone | OCancel, OCancel => true
  | OHave i, OHave j | ORequest i, ORequest j => i =? j
  | OKill x, OKill y => Bool.eqb x y
  | _, _ => false
  end.
Definition of_hcmd (c : hcmd) : ocmd :=
  match c with
  | KInit id => OInit id | KChoke => OChoke | KUnchoke => OUnchoke | KInterested => OInt
  | KNotInterested => ONotInt | KHave i => OHave i | KBitfield b => OBitfield b | KRequest i => ORequest i
  | KPieceDone => ODone | KPieceCancel => OCancel
  end.

Definition reply_for (p : policy) (c : hcmd) : option reply :=
  match c with
  | KInit _ => Some (RBitfield (po_init p))
  | KUnchoke => Some (po_unch p)
  | KNotInterested => Some (po_nint p)
  | KHave _ => Some (po_have p)
  | KBitfield _ => Some (po_bf p)
  | KRequest _ => Some (po_req p)
  | KPieceDone => Some (po_done p)
  | KPieceCancel => Some (po_cancel p)
  | _ => None
  end.

(* model state across events: the task state, whether it ended, the piece store *)
Record mst := mkmst { ms_h : hst; ms_fin : N; ms_disk : list (bytes * bytes); ms_stalled : bool }.

Definition disk_of (d : list (bytes * bytes)) (h : bytes) : option bytes :=
  match find (fun kv => bytes_eqb (fst kv) h) d with Some (_, v) => Some v | None => None end.

Definition one_event (c : hcase) (ovf : bool) (st : mst) (ev : event) (p : policy) : mst * list action :=
  let sha := sha_tab c in
  let cf := hc_conf c in
  let dk := disk_of (ms_disk st) in
  let reply := match rpc_of sha cf dk (ms_h st) ev with Some k => reply_for p k | None => None end in
  match hstep sha cf dk ovf (ms_h st) ev reply with
  | HCont s a =>
      let writes := flat_map (fun x => match x with AWrite h d => [(h, d)] | _ => [] end) a in
      (mkmst s 0 (writes ++ ms_disk st) (ms_stalled st), a)
  | HEnd s a normal =>
      let writes := flat_map (fun x => match x with AWrite h d => [(h, d)] | _ => [] end) a in
      (mkmst s (if normal then 1 else 2) (writes ++ ms_disk st) (ms_stalled st), a)
  | HPanic a => (mkmst (ms_h st) 3 (ms_disk st) (ms_stalled st), a)
  end.

Fixpoint ticks (c : hcase) (ovf : bool) (k : nat) (st : mst) (p : policy) (acc : list action) : mst * list action :=
  match k with
  | O => (st, acc)
  | S k' => if negb (ms_fin st =? 0) then (st, acc)
            else let '(st', a) := one_event c ovf st ETick p in ticks c ovf k' st' p (acc ++ a)
  end.

Definition model_step0 (c : hcase) (ovf : bool) (st : mst) (s : stim) (p : policy) : mst * list action :=
  if negb (ms_fin st =? 0) then (st, []) else
  match s with
  | SStart => one_event c ovf st EStart p
  | SMsg m => if ms_stalled st then (st, []) else one_event c ovf st (EFrame m) p
  | SBad =>
      (* a receive error: with the repair the task ends; the pinned code keeps failing on the same bytes *)
      let '(st', a) := one_event c ovf st ERecvErr p in
      (mkmst (ms_h st') (ms_fin st') (ms_disk st') true, a)
  | STicks k => ticks c ovf (N.to_nat k) st p []
  | SBHave i => one_event c ovf st (EBroadHave i) p
  | SBOwn b => one_event c ovf st (EBroadOwn b) p
  | SClose => if ms_stalled st then (st, []) else one_event c ovf st EClosed p
  | SStore i bad =>
      match nth_error (hc_data c) (N.to_nat i), nthN (c_hashes (hc_conf c)) i with
      | Some d, Some h =>
          let d' := if bad then firstn (length d / 2) d else d in
          (mkmst (ms_h st) (ms_fin st) ((h, d') :: ms_disk st) (ms_stalled st), [])
      | _, _ => (st, [])
      end
  | SBurst m k bad =>
      if ms_stalled st then (st, []) else
      let '(st1, a1) := (fix go (n : nat) (st : mst) (acc : list action) : mst * list action :=
                           match n with
                           | O => (st, acc)
                           | S n' => if negb (ms_fin st =? 0) then (st, acc)
                                     else let '(st', a) := one_event c ovf st (EFrame m) p in go n' st' (acc ++ a)
                           end) (N.to_nat k) st [] in
      if bad && (ms_fin st1 =? 0) then
        let '(st2, a2) := one_event c ovf st1 ERecvErr p in
        (mkmst (ms_h st2) (ms_fin st2) (ms_disk st2) true, a1 ++ a2)
      else (st1, a1)
  | SNop | SThen _ _ => (st, [])
  end.
Definition model_step (c : hcase) (ovf : bool) (st : mst) (s : stim) (p : policy) : mst * list action :=
  match s with
  | SThen s' k => let '(st1, a1) := model_step0 c ovf st s' p in
                  let '(st2, a2) := ticks c ovf (N.to_nat k) st1 p [] in (st2, a1 ++ a2)
  | _ => model_step0 c ovf st s p
  end.

Definition sent_of (a : list action) : bytes :=
  concat (map (fun x => match x with ASend m => encode_msg m | _ => [] end) a).
Definition cmds_of (a : list action) (fin_before fin_after : N) : list ocmd :=
  flat_map (fun x => match x with ACmd k => [of_hcmd k] | _ => [] end) a
  ++ (if (fin_before =? 0) && ((fin_after =? 1) || (fin_after =? 2)) then [OKill (fin_after =? 1)] else []).
Definition files_of (c : hcase) (a : list action) : list (bytes * N * bytes) :=
  flat_map (fun x => match x with AWrite h d => [(h, len d, sha_tab c d)] | _ => [] end) a.
Definition file_eqb (a b : bytes * N * bytes) : bool :=
  let '(n1, l1, h1) := a in let '(n2, l2, h2) := b in bytes_eqb n1 n2 && (l1 =? l2) && bytes_eqb h1 h2.

Definition k_event (c : hcase) (st st' : mst) (a : list action) (o : obs) : bool :=
  bytes_eqb (sent_of a) (ob_sent o)
  && list_eqb ocmd_eqb (cmds_of a (ms_fin st) (ms_fin st')) (ob_cmds o)
  && list_eqb file_eqb (files_of c a) (ob_files o)
  && (ms_fin st' =? ob_fin o).

Fixpoint k_run (c : hcase) (ovf : bool) (st : mst) (steps : list (stim * policy * obs)) : bool :=
  match steps with
  | [] => true
  | (s, p, o) :: rest =>
      let '(st', a) := model_step c ovf st s p in
      k_event c st st' a o && k_run c ovf st' rest
  end.

(* ---- transfer statistics: the call sites (HStats.stats_ops) composed with the counters (Stats.v) ---------------- *)
Definition report_eqb (a b : option N * option N * N) : bool :=
  let oe (x y : option N) := match x, y with Some u, Some v => u =? v | None, None => true | _, _ => false end in
  oe (fst (fst a)) (fst (fst b)) && oe (snd (fst a)) (snd (fst b)) && (snd a =? snd b).
Fixpoint run_sops (ovf : bool) (ss : stats) (ops : list sop) (acc : list (option N * option N * N))
  : result (stats * list (option N * option N * N)) :=
  match ops with
  | [] => Ok (ss, acc)
  | o :: r => do x <- sstep Stats_rate_sum_u64 ovf ss o;
              run_sops ovf (fst x) r (match snd x with Some rep => acc ++ [rep] | None => acc end)
  end.
Definition strip_then (s : stim) : stim := match s with SThen s' _ => s' | _ => s end.
Definition step_sops (st : mst) (s : stim) (a : list action) : list sop :=
  match strip_then s with
  | SMsg m => if (ms_fin st =? 0) && negb (ms_stalled st) then stats_ops (ms_h st) (EFrame m) a else []
  | _ => stats_ops (ms_h st) EClosed a          (* no piece frame: only what was uploaded counts *)
  end.
Fixpoint s_run (c : hcase) (ovf : bool) (st : mst) (ss : stats) (steps : list (stim * policy * obs)) : bool :=
  match steps with
  | [] => true
  | (s, p, o) :: rest =>
      let '(st', a) := model_step c ovf st s p in
      if negb (ob_svalid o) then true else
      if negb (ms_fin st' =? 0) then true else       (* the step in which the task ends is not compared, nor later ones *)
      match run_sops ovf ss (step_sops st s a ++ repeat STick (N.to_nat (ob_sticks o))) [] with
      | Ok (ss', reps) => list_eqb report_eqb reps (ob_stats o) && s_run c ovf st' ss' rest
      | _ => false
      end
  end.

Definition init_mst (c : hcase) : mst :=
  mkmst (h_init (if hc_outgoing c then Some (repeat 80 20) else None)) 0 [] false.

(* ---- decoding what the task wrote ------------------------------------------------------------ *)
Fixpoint decode_all (fuel : nat) (b : bytes) : option (list msg) :=
  match b with
  | [] => Some []
  | _ => match fuel with
         | O => None
         | S f => match parse_frame b with
                  | PFrame m n => match decode_all f (skipn (N.to_nat n) b) with
                                  | Some r => Some (m :: r)
                                  | None => None
                                  end
                  | _ => None
                  end
         end
  end.
Definition msgs_of (o : obs) : option (list msg) := decode_all (S (length (ob_sent o))) (ob_sent o).

(* ================= oracles (on the observations only) ========================================= *)
Definition pair_eqb (a b : N * N) : bool := (fst a =? fst b) && (snd a =? snd b).
Fixpoint remove_first (x : N * N) (l : list (N * N)) : list (N * N) :=
  match l with [] => [] | y :: r => if pair_eqb x y then r else y :: remove_first x r end.
Fixpoint is_prefix_of (a b : list (N * N)) : bool :=
  match a, b with [] , _ => true | x :: a', y :: b' => pair_eqb x y && is_prefix_of a' b' | _, _ => false end.

(* ---- C10: block requests tile each assigned piece exactly once ---- *)
(* the tiling of a piece of length plen, written with the property's 16 KiB *)
Definition tiling_spec (plen : N) : list (N * N) :=
  map (fun j => (N.of_nat j * 16384, 16384)) (seq 0 (N.to_nat (plen / 16384)))
  ++ (if plen mod 16384 =? 0 then [] else [(plen / 16384 * 16384, plen mod 16384)]).

Record t10 := mk10 { t_cur : option (N * N); t_reqs : list (N * N); t_out : list (N * N) }.

Definition requests_of (ms : list msg) : list (N * N * N) :=
  flat_map (fun m => match m with Request i b l => [(i, b, l)] | _ => [] end) ms.

(* what the manager's answer does to the assignment: Some (Some (i, len)) new piece, Some None cleared *)
Definition assign_change (p : policy) (c : ocmd) : option (option (N * N)) :=
  let of_reply (r : reply) :=
    match r with
    | RUnchoke_IntReq i l | RUnchoke_Req i l | RHave_IntReq i l | RPiece_Req i l => Some (Some (i, l))
    | RUnchoke_NotInt | RUnchoke_Ignore | RPiece_NotInt | RPiece_Kill | RPiece_Ignore => Some None
    | _ => None
    end in
  match c with
  | OUnchoke => of_reply (po_unch p)
  | OHave _ => match po_have p with RHave_IntReq i l => Some (Some (i, l)) | _ => None end
  | ODone | ODoneEarly => of_reply (po_done p)
  | OCancel => of_reply (po_cancel p)
  | _ => None
  end.

Definition step10 (t : t10) (s : stim) (p : policy) (o : obs) : option t10 :=
  match msgs_of o with
  | None => None
  | Some ms =>
      let R := requests_of ms in
      let Rb := map (fun r => (snd (fst r), snd r)) R in
      let s := base_of s in
      let acc := match s, t_cur t with
                 | SMsg (Piece i b blk), Some (ci, _) => (i =? ci) && existsb (pair_eqb (b, len blk)) (t_out t)
                 | _, _ => false
                 end in
      let out1 := match s with
                  | SMsg (Piece _ b blk) => if acc then remove_first (b, len blk) (t_out t) else t_out t
                  | _ => t_out t
                  end in
      let plen := match t_cur t with Some (_, l) => l | None => 0 end in
      let all_requested := list_eqb pair_eqb (t_reqs t) (tiling_spec plen) in
      let complete := acc && (match out1 with [] => true | _ => false end) && all_requested in
      let has_done := existsb (fun c => match c with ODone => true | _ => false end) (ob_cmds o) in
      (* completed exactly when the last outstanding block arrives (a hash mismatch ends the task instead) *)
      if has_done && negb complete then None
      else if complete && negb has_done && negb (ob_fin o =? 2) then None
      else
      let change := fold_left (fun acc c => match assign_change p c with Some x => Some x | None => acc end) (ob_cmds o) None in
      match change with
      | Some (Some (i, l)) =>
          if forallb (fun r => fst (fst r) =? i) R && is_prefix_of Rb (tiling_spec l)
          then Some (mk10 (Some (i, l)) Rb Rb) else None
      | Some None => match R with [] => Some (mk10 None [] []) | _ => None end
      | None =>
          let ci := match t_cur t with Some (i, _) => i | None => 0 end in
          let want_one := acc && negb complete && negb all_requested in
          let ok_count := if want_one then (match R with [_] => true | _ => false end)
                          else (match R with [] => true | _ => false end) in
          let reqs' := t_reqs t ++ Rb in
          if ok_count && forallb (fun r => fst (fst r) =? ci) R && is_prefix_of reqs' (tiling_spec plen)
          then Some (if complete then mk10 None [] [] else mk10 (t_cur t) reqs' (out1 ++ Rb)) else None
      end
  end.

Fixpoint o10_run (t : t10) (steps : list (stim * policy * obs)) : bool :=
  match steps with
  | [] => true
  | (s, p, o) :: rest => match step10 t s p o with Some t' => o10_run t' rest | None => false end
  end.
Definition o10 (c : hcase) : bool := o10_run (mk10 None [] []) (hc_steps c).

Definition code10 (c : hcase) : N :=
  (if k_run c true (init_mst c) (hc_steps c) then 0 else 1) + (if o10 c then 0 else 2).
Definition codes10 (cs : list hcase) : list N := map code10 cs.

(* ---- C20: silent peers are dropped, live ones kept and kept alive ---- *)
(* quiet = keep-alive intervals elapsed since the last message other than a keep-alive *)
Definition count_keepalive (ms : list msg) : N :=
  len (filter (fun m => match m with KeepAlive => true | _ => false end) ms).
Fixpoint ticks20 (k : nat) (quiet : N) (ka : N) : N * N * bool :=      (* quiet', keep-alives owed, closed *)
  match k with
  | O => (quiet, ka, false)
  | S k' => if quiet =? 2 then (quiet, ka, true)          (* the third silent interval closes the connection *)
            else ticks20 k' (quiet + 1) (ka + 1)
  end.
Definition step20 (t : N * bool) (s : stim) (p : policy) (o : obs) : option (N * bool) :=
  let '(quiet, closed) := t in
  match msgs_of o with
  | None => None
  | Some ms =>
      if closed then (match ms with [] => Some t | _ => None end) else
      (* any message other than a keep-alive resets the count (it is handled before time passes) *)
      let quiet0 := match base_of s with
                    | SMsg KeepAlive | SBurst KeepAlive _ _ => quiet
                    | SMsg _ | SBurst _ _ _ => 0
                    | _ => quiet
                    end in
      let '(q', ka, cl) := ticks20 (N.to_nat (ticks_of s)) quiet0 0 in
      let ended := negb (ob_fin o =? 0) in
      (* a task that ends without its KillReq reaching the manager leaves its peer state and reservation behind *)
      if ob_fin o =? 3 then None else
      let quiet_stimulus := match base_of s with STicks _ | SMsg KeepAlive | SNop | SStore _ _ => true | _ => false end in
      if negb quiet_stimulus && ended && negb cl then
        (* the stimulus itself ended the connection (bad frame, close, manager's answer): it is handled before any
           time passes, so the timer boundaries crossed while things settled owe no keep-alive *)
        (if count_keepalive ms =? 0 then Some (q', true) else None)
      else if negb (count_keepalive ms =? ka) then None
      else if cl then (if ob_fin o =? 2 then Some (q', true) else None)
      else if quiet_stimulus then (if ended then None else Some (q', false))
      else Some (q', false)
  end.
Fixpoint o20_run (t : N * bool) (steps : list (stim * policy * obs)) : bool :=
  match steps with
  | [] => true
  | (s, p, o) :: rest => match step20 t s p o with Some t' => o20_run t' rest | None => false end
  end.
Definition o20 (c : hcase) : bool := o20_run (0, false) (hc_steps c).

(* ---- C11: never advertise an unverified piece ---- *)
Definition haves_of (ms : list msg) : list N := flat_map (fun m => match m with Wire.Have i => [i] | _ => [] end) ms.
Definition bitfields_of (ms : list msg) : list bytes := flat_map (fun m => match m with Bitfield b => [b] | _ => [] end) ms.
(* state: the peer chokes us; announcements held back, in completion order *)
Definition step11 (t : bool * list N) (s : stim) (p : policy) (o : obs) : option (bool * list N) :=
  let '(choked, pending) := t in
  match msgs_of o with
  | None => None
  | Some ms =>
      let has_init := existsb (fun c => match c with OInit _ => true | _ => false end) (ob_cmds o) in
      (* the bitfield sent after the handshake marks exactly what the manager said is verified and stored *)
      let bf_ok := match bitfields_of ms with
                   | [] => negb has_init || negb (ob_fin o =? 0)
                   | [b] => has_init && bytes_eqb b (from_vec (po_init p))
                   | _ => false
                   end in
      let s := base_of s in
      let choked' := match s with
                     | SMsg Choke | SBurst Choke _ _ => true
                     | SMsg Unchoke | SBurst Unchoke _ _ => false
                     | _ => choked
                     end in
      let pending' := match s with SBHave i => pending ++ [i] | _ => pending end in
      if negb (ob_fin o =? 0) then (if bf_ok then Some (choked', []) else None) else
      let expect := if choked' then [] else pending' in
      if bf_ok && list_eqb N.eqb (haves_of ms) expect
      then Some (choked', if choked' then pending' else []) else None
  end.
Fixpoint o11_run (t : bool * list N) (steps : list (stim * policy * obs)) : bool :=
  match steps with
  | [] => true
  | (s, p, o) :: rest => match step11 t s p o with Some t' => o11_run t' rest | None => false end
  end.
Definition o11 (c : hcase) : bool := o11_run (true, []) (hc_steps c).

(* ---- C08: only peers of the same torrent (and expected identity) are served ---- *)
Definition own_handshake_ok (c : hcase) (ms : list msg) : bool :=
  forallb (fun m => match m with
                    | Handshake ih pid => bytes_eqb ih (c_info_hash (hc_conf c)) && bytes_eqb pid (c_own_id (hc_conf c))
                    | _ => true
                    end) ms.
Definition has_piece (ms : list msg) : bool := existsb (fun m => match m with Piece _ _ _ => true | _ => false end) ms.
Definition only_keepalives (ms : list msg) : bool := forallb (fun m => match m with KeepAlive => true | _ => false end) ms.
(* state: a valid handshake has arrived; an invalid one has arrived (the connection must be dead) *)
Definition step08 (c : hcase) (t : bool * bool) (s : stim) (p : policy) (o : obs) : option (bool * bool) :=
  let '(valid, dead) := t in
  match msgs_of o with
  | None => None
  | Some ms =>
      if dead then (match ms, ob_cmds o with [], [] => if negb (ob_fin o =? 0) then Some t else None | _, _ => None end) else
      let expected := if hc_outgoing c then Some (repeat 80 20) else None in
      let hs_kind := match base_of s with
                     | SMsg (Handshake ih pid) =>
                         if bytes_eqb ih (c_info_hash (hc_conf c)) &&
                            (match expected with Some e => bytes_eqb pid e | None => true end) then 1 else 2
                     | _ => 0
                     end in
      if hs_kind =? 2 then
        (* wrong torrent or wrong identity: nothing more is sent, the peer is forgotten *)
        match ms with
        | [] => if (ob_fin o =? 2) && list_eqb ocmd_eqb (ob_cmds o) [OKill false] then Some (valid, true) else None
        | _ => None
        end
      else
      let valid' := valid || (hs_kind =? 1) in
      if negb (own_handshake_ok c ms) then None
      else if has_piece ms && negb valid' then None
      (* an incoming connection gets no reply before its handshake validated (timer keep-alives are not replies) *)
      else if negb (hc_outgoing c) && negb valid' && negb (only_keepalives ms) then None
      else Some (valid', negb (ob_fin o =? 0))      (* once the task has ended nothing more may happen *)
  end.
Fixpoint o08_run (c : hcase) (t : bool * bool) (steps : list (stim * policy * obs)) : bool :=
  match steps with
  | [] => true
  | (s, p, o) :: rest => match step08 c t s p o with Some t' => o08_run c t' rest | None => false end
  end.
Definition o08 (c : hcase) : bool := o08_run c (false, false) (hc_steps c).

(* ---- C09: uploads return exactly the requested stored bytes, or nothing ---- *)
(* state: whether we have this peer unchoked (the last Choke/Unchoke we wrote), what is stored *)
Definition pieces_of (ms : list msg) : list (N * N * bytes) :=
  flat_map (fun m => match m with Piece i b d => [(i, b, d)] | _ => [] end) ms.
Definition step09 (c : hcase) (t : bool * list (N * bytes)) (s : stim) (p : policy) (o : obs) : option (bool * list (N * bytes)) :=
  let '(unchoked, stored) := t in
  if ob_fin o =? 3 then None else                       (* no request crashes the connection task *)
  match msgs_of o with
  | None => None
  | Some ms =>
      let s := base_of s in
      let stored' := match s with
                     | SStore i bad => match nth_error (hc_data c) (N.to_nat i) with
                                       | Some d => (i, if bad then firstn (length d / 2) d else d) :: stored
                                       | None => stored
                                       end
                     | _ => stored
                     end in
      (* our choke state as this peer sees it, before anything written in this event *)
      let ok_pieces :=
        match pieces_of ms, s with
        | [], _ => true
        | [(i, b, d)], SMsg (Request ri rb rl) =>
            unchoked && (i =? ri) && (b =? rb) && (rl <=? 16384) &&
            match find (fun kv => fst kv =? i) stored' with
            | Some (_, data) => (rb + rl <=? len data) && bytes_eqb d (slice data rb rl)
            | None => false
            end
        | _, _ => false
        end in
      let unchoked' := fold_left (fun u m => match m with Choke => false | Unchoke => true | _ => u end) ms unchoked in
      if ok_pieces then Some (unchoked', stored') else None
  end.
Fixpoint o09_run (c : hcase) (t : bool * list (N * bytes)) (steps : list (stim * policy * obs)) : bool :=
  match steps with
  | [] => true
  | (s, p, o) :: rest => match step09 c t s p o with Some t' => o09_run c t' rest | None => false end
  end.
Definition o09 (c : hcase) : bool := o09_run c (false, []) (hc_steps c).

(* ---- C01 (task side): only hash-verified data is stored / reported ---- *)
Definition step01 (c : hcase) (t : unit) (s : stim) (p : policy) (o : obs) : option unit :=
  (* every file written is named by the SHA-1 of its content and that is a hash the torrent lists;
     a piece is reported done only in an event that stored it *)
  let files_ok := forallb (fun f => let '(name, l, h) := f in
                                    bytes_eqb name h && existsb (bytes_eqb name) (c_hashes (hc_conf c))) (ob_files o) in
  let has_done := existsb (fun x => match x with ODone => true | _ => false end) (ob_cmds o) in
  let early := existsb (fun x => match x with ODoneEarly => true | _ => false end) (ob_cmds o) in
  if early then None else        (* reported done before the verified data was stored *)
  if files_ok && (negb has_done || (match ob_files o with [] => false | _ => true end)) then Some tt else None.
Fixpoint o01_run (c : hcase) (steps : list (stim * policy * obs)) : bool :=
  match steps with
  | [] => true
  | (s, p, o) :: rest => match step01 c tt s p o with Some _ => o01_run c rest | None => false end
  end.
Definition o01 (c : hcase) : bool := o01_run c (hc_steps c).

Definition code_with (ovf : bool) (orc : hcase -> bool) (c : hcase) : N :=
  (if k_run c ovf (init_mst c) (hc_steps c) then 0 else 1) + (if orc c then 0 else 2).
Definition codes20 (cs : list hcase) : list N := map (code_with true o20) cs.
Definition codes11 (cs : list hcase) : list N := map (code_with true o11) cs.
Definition codes08 (cs : list hcase) : list N := map (code_with true o08) cs.
Definition codes09 (cs : list hcase) : list N := map (code_with true o09) cs.
Definition codes09r (cs : list hcase) : list N := map (code_with false o09) cs.
Definition codes01h (cs : list hcase) : list N := map (code_with true o01) cs.
(* C14's measured rates: the task's behaviour and the SyncStats reports it sends agree with the model *)
(* the same reports judged without the model: the bytes that count are read off the wire -- the payloads of the piece
   messages the task wrote (uploaded), the payloads of the blocks that answered an outstanding request of the assigned
   piece as C10's oracle tracks them (downloaded), the other blocks (unexpected) -- and from the second statistics instant
   on every instant must bring one report: the means over the last two intervals, clamped to u32, and the unexpected
   blocks of the current one *)
Definition interval_reports (ops : list sop) (st : option N * option N * N * N * N)
  : list (option N * option N * N) * (option N * option N * N * N * N) :=
  fold_left (fun acc o =>
               let '(reps, (pd, pu, cd, cu, cx)) := acc in
               match o with
               | SDown x => (reps, (pd, pu, cd + x, cu, cx))
               | SUp x => (reps, (pd, pu, cd, cu + x, cx))
               | SUnexpected => (reps, (pd, pu, cd, cu, cx + 1))
               | STick =>
                   let rep := match pd, pu with
                              | Some d, Some u => [(Some (N.min ((d + cd) / 2) 4294967295), Some (N.min ((u + cu) / 2) 4294967295), cx)]
                              | _, _ => []
                              end in
                   (reps ++ rep, (Some cd, Some cu, 0, 0, 0))
               end) ops ([], st).
Fixpoint os_run (t : t10) (st : option N * option N * N * N * N) (steps : list (stim * policy * obs)) : bool :=
  match steps with
  | [] => true
  | (s, p, o) :: rest =>
      if negb (ob_svalid o) || negb (ob_fin o =? 0) then true else
      match msgs_of o, step10 t s p o with
      | Some ms, Some t' =>
          let incoming := match base_of s, t_cur t with
                          | SMsg (Piece i b blk), Some (ci, _) =>
                              if (i =? ci) && existsb (pair_eqb (b, len blk)) (t_out t) then [SDown (len blk)] else [SUnexpected]
                          | SMsg (Piece _ _ _), None => [SUnexpected]
                          | _, _ => []
                          end in
          let ups := flat_map (fun m => match m with Piece _ _ blk => [SUp (len blk)] | _ => [] end) ms in
          let '(reps, st') := interval_reports (incoming ++ ups ++ repeat STick (N.to_nat (ob_sticks o))) st in
          list_eqb report_eqb reps (ob_stats o) && os_run t' st' rest
      | _, _ => true            (* not decodable / C10's oracle already failed: judged there *)
      end
  end.
Definition codes14r (cs : list hcase) : list N :=
  map (fun c => (if k_run c true (init_mst c) (hc_steps c) && s_run c true (init_mst c) stats_new (hc_steps c) then 0 else 1)
                (* os_run stops judging where C10's oracle (which it uses to know the outstanding requests) fails: that
                   failure is reported here too, so that no history goes unjudged silently *)
                + (if os_run (mk10 None [] []) (None, None, 0, 0, 0) (hc_steps c) && o10 c then 0 else 2)) cs.
