(* Correspondence for C05.  Class bits of an oracle failure:
   1 = nested-info-found-first, 2 = duplicate-info-key, 4 = truncated-tail. *)
From Rdest Require Import Base BCodec DeepFinder Metainfo InfoSpec Corr.MetaCase.
Open Scope N_scope.

Definition count_info (doc : bytes) (i : nat) : N :=
  match top_spans (S (length doc)) doc with
  | Some spans => match nth_error spans i with
                  | Some sp => match dict_entries sp with
                               | Some es => len (filter (fun kv => bytes_eqb (fst kv) k_info) es)
                               | None => 0
                               end
                  | None => 0
                  end
  | None => 0
  end.

(* (raw key text, value span) entries of a dictionary span: the scanner compares the key as spelled ("4:info"; a key
   written "04:info" is not recognised) *)
Fixpoint entries_raw (fuel : nat) (s : bytes) : option (list (bytes * bytes)) :=
  match fuel with
  | O => None
  | S f =>
    match s with
    | [] => None
    | c :: r =>
      if c =? ch_e then Some []
      else match skip_value (S (length s)) s with
           | Some (k, rest) =>
               match skip_value (S (length rest)) rest with
               | Some (v, rest') => match entries_raw f rest' with Some l => Some ((k, v) :: l) | None => None end
               | None => None
               end
           | None => None
           end
    end
  end.
Definition dict_entries_raw (span : bytes) : option (list (bytes * bytes)) :=
  match span with
  | b :: body => if b =? ch_d then entries_raw (S (length body)) body else None
  | [] => None
  end.

(* what a depth-first search for the key "info" finds (dictionaries only, entries in document order, a matching
   entry's value is returned unsearched): written with InfoSpec's span splitter, independent of DeepFinder *)
Fixpoint deep_first (fuel : nat) (span : bytes) : option bytes :=
  match fuel with
  | O => None
  | S f =>
      match dict_entries_raw span with
      | Some es =>
          (fix go (es : list (bytes * bytes)) : option bytes :=
             match es with
             | [] => None
             | (k, v) :: r => if bytes_eqb k key_info_raw then Some v
                              else match deep_first f v with Some x => Some x | None => go r end
             end) es
      | None => None
      end
  end.
(* at the top level the scanner walks into lists as if their items were top-level values *)
Fixpoint top_search (fuel : nat) (span : bytes) : option bytes :=
  match fuel with
  | O => None
  | S f =>
      match span with
      | b :: body =>
          if b =? ch_d then deep_first (S (length span)) span
          else if b =? ch_l then
            match top_spans (S (length body)) (removelast body) with
            | Some items => fold_left (fun acc sp => match acc with Some x => Some x | None => top_search f sp end) items None
            | None => None
            end
          else None
      | [] => None
      end
  end.
Definition deep_first_doc (doc : bytes) : option bytes :=
  match top_spans (S (length doc)) doc with
  | Some spans => fold_left (fun acc sp => match acc with Some x => Some x | None => top_search (S (length doc)) sp end) spans None
  | None => None
  end.

Definition code (c : case) : N :=
  match c with
  | CMeta ovf doc impl =>
      let k := k_ok ovf doc impl in
      let '(o, cls) :=
        match impl with
        | Ok ob =>
            let sel := match decode doc with Ok vs => selected_index doc vs 0 | _ => None end in
            match sel with
            | None => (false, 0)              (* accepted by the implementation but not by the model: K says so too *)
            | Some i =>
                match info_span doc i with
                | Some sp => if opt_eqb bytes_eqb (o_ff ob) (Some sp) && o_hash_is_sha1_of_ff ob then (true, 0)
                             else if o_hash_is_sha1_of_ff ob && opt_eqb bytes_eqb (o_ff ob) (deep_first_doc doc)
                             then (* the two known findings: the depth-first search met another `info` first *)
                                  (false, if 1 <? count_info doc i then 2 else 1)
                             else (false, 0)        (* anything else is a new violation *)
                | None => (false, 4)
                end
            end
        | Err => (true, 0)
        | _ => (false, 0)
        end in
      (if k then 0 else 1) + (if o then 0 else 2 + 4 * cls)
  | CCreate _ _ _ _ _ _ => 0
  end.
Definition codes (cs : list case) : list N := map code cs.
