(* C01 — only hash-verified data is ever stored, advertised or assembled. *)
From Rdest Require Import Base Consts Wire Manager MgrProofs Handler HandlerProofs.
Open Scope N_scope.

(* connection task, for every state, event (any frame a peer can send, any broadcast, any timer) and manager
   answer: whatever it writes to the piece store hashes to its file name ... *)
Theorem C01_writes_verified : forall sha1 cf disk ovf s ev r h d,
  In (AWrite h d) (acts_of (hstep sha1 cf disk ovf s ev r)) -> bytes_eqb (sha1 d) h = true.
Proof. exact writes_verified. Qed.

(* ... a piece is reported done only right after such a write ... *)
Theorem C01_done_after_write : forall sha1 cf disk ovf s ev r,
  In (ACmd KPieceDone) (acts_of (hstep sha1 cf disk ovf s ev r)) ->
  exists h d pre post, acts_of (hstep sha1 cf disk ovf s ev r) = pre ++ AWrite h d :: ACmd KPieceDone :: post /\ bytes_eqb (sha1 d) h = true.
Proof. intros. apply done_after_write; [reflexivity | assumption]. Qed.

(* ... and assembled data that fails the hash is discarded: nothing written, nothing reported, the task ends *)
Theorem C01_mismatch_discards : forall sha1 cf disk ovf s rx i b blk reply,
  h_hs_done s = true -> h_rx s = Some rx -> is_requested rx i b blk = true -> rx_left rx = [] ->
  filter (fun bl => negb ((fst bl =? b) && (snd bl =? len blk))) (rx_requested rx) = [] ->
  bytes_eqb (sha1 (put_block (rx_buff rx) b blk)) (rx_hash rx) = false ->
  exists s', hstep sha1 cf disk ovf s (EFrame (Piece i b blk)) reply = HEnd s' [] false.
Proof. exact mismatch_discards. Qed.

(* manager: a piece becomes owned only through PieceDone from the peer it was assigned to, and stays owned *)
Theorem C01_only_done_makes_have : forall m c pick m' r bc sp i, mstep m c pick = Ok (m', r, bc, sp) ->
  ~ have_at (m_status m) i -> have_at (m_status m') i ->
  exists a p, c = CPieceDone a /\ pget (m_peers m) a = Some p /\ p_piece_index p = Some (N.of_nat i).
Proof. exact only_done_makes_have. Qed.
Theorem C01_owned_stays : forall m c pick m' r bc sp i, mstep m c pick = Ok (m', r, bc, sp) ->
  have_at (m_status m) i -> have_at (m_status m') i.
Proof. exact have_absorbing. Qed.

(* serving (C09_manager), advertising (C11_bitfield, C11_broadcast) and counting as done all read Have.
   Not proved in Coq: that the piece the manager marks is the piece the task verified (the task's piece_rx index equals
   the manager's piece_index for that peer) over all interleavings; the end-to-end runs (Corr/Sys.v) check the
   store, the adverts and the statuses on the real system. *)
Print Assumptions C01_writes_verified.
Print Assumptions C01_done_after_write.
Print Assumptions C01_mismatch_discards.
Print Assumptions C01_only_done_makes_have.
Print Assumptions C01_owned_stays.
