(* Handler.v — executable mirror of the per-peer task, src/peer_handler.rs: event_loop and every
   handle_* / trigger_cmd_* / piece transfer function, one event at a time.

   An event is one ready branch of the task's select!: a decoded frame, end of stream, a
   receive error, a keep-alive tick, a broadcast from the manager.  While handling an event the
   task performs at most one request/response exchange with the manager; its answer is the
   `reply` argument.  Everything the task does to the outside is an action, in order. *)
From Rdest Require Export Base Consts Wire Manager.
Open Scope N_scope.

Record rxs := mkrx { rx_index : N; rx_hash : bytes; rx_buff : bytes;
                     rx_requested : list (N * N); rx_left : list (N * N) }.
Record txs := mktx { tx_index : N; tx_buff : bytes }.

Record hst := mkh {
  h_peer_id : option bytes;       (* Some(expected) for outgoing, None until the handshake for incoming *)
  h_tx : option txs;              (* piece loaded for upload *)
  h_rx : option rxs;              (* piece being assembled *)
  h_choked : bool;                (* the peer chokes us *)
  h_interested : bool;
  h_keep_alive : N;
  h_msg_buff : list N;            (* Have announcements held back while the peer chokes us *)
  h_hs_done : bool                (* a valid handshake has been received (field added by the repair for C08) *)
}.
Definition h_init (peer_id : option bytes) : hst := mkh peer_id None None true false 0 [] false.

Record hconf := mkconf {
  c_own_id : bytes; c_info_hash : bytes; c_pieces_num : N;
  c_hashes : list bytes           (* ReqData.piece_hash / LoadAndSendPiece.piece_hash by index *)
}.

(* commands to the manager (PeerCmd without the address) *)
Inductive hcmd :=
| KInit (id : bytes) | KChoke | KUnchoke | KInterested | KNotInterested | KHave (i : N)
| KBitfield (bits : bytes) | KRequest (i : N) | KPieceDone | KPieceCancel.

Inductive action :=
| ASend (m : msg)                       (* written to the connection *)
| ACmd (c : hcmd)                       (* sent to the manager *)
| AWrite (hash data : bytes).           (* "<HEX hash>.piece" written *)

Inductive event :=
| EStart                                (* the task starts: outgoing connections greet first *)
| EFrame (m : msg)
| EClosed                               (* recv_frame = Ok(None) *)
| ERecvErr                              (* recv_frame = Err(_) *)
| ETick                                 (* keep-alive timer *)
| EBroadHave (i : N)
| EBroadOwn (am_choked : option bool).  (* am_choked_map.get(addr) *)

(* outcome of handling one event *)
Inductive outcome :=
| HCont (s : hst) (acts : list action)          (* loop continues *)
| HEnd (s : hst) (acts : list action) (normal : bool)   (* event_loop returned: Ok(()) or Err(_); KillReq follows *)
| HPanic (acts : list action).

(* Repair flags of src/peer_handler.rs / src/messages/request.rs, pinned by the correspondence. *)
Definition Handler_ignore_repeated_unchoke : bool := true.
Definition Handler_drop_rx_on_unassign : bool := true.
Definition Handler_recv_error_terminates : bool := true.
Definition Handler_gate_on_handshake : bool := true.
Definition Handler_drop_tx_on_choke : bool := true.
Definition Request_validate_u64 : bool := true.

(* PieceRx::left *)
Fixpoint left_go (fuel : nat) (begin plen : N) : list (N * N) :=
  match fuel with
  | O => []
  | S f =>
      if plen <=? begin then []
      else (begin, if plen <? begin + PIECE_BLOCK_SIZE then plen mod PIECE_BLOCK_SIZE else PIECE_BLOCK_SIZE)
             :: left_go f (begin + PIECE_BLOCK_SIZE) plen
  end.
Definition left_blocks (plen : N) : list (N * N) :=
  if PIECE_BLOCK_SIZE =? 0 then [] (* step_by(0) panics; the constant is not 0 *)
  else left_go (S (N.to_nat (plen / PIECE_BLOCK_SIZE))) 0 plen.

Definition hash_of (cf : hconf) (i : N) : bytes := match nthN (c_hashes cf) i with Some h => h | None => [] end.

Definition new_rx (cf : hconf) (i plen : N) : rxs :=
  mkrx i (hash_of cf i) (repeat 0 (N.to_nat plen)) [] (left_blocks plen).

(* send_request: move one block from left to requested and ask for it *)
Definition send_request (r : rxs) : rxs * list action :=
  match rx_left r with
  | [] => (r, [])
  | (b, l) :: rest =>
      (mkrx (rx_index r) (rx_hash r) (rx_buff r) (rx_requested r ++ [(b, l)]) rest,
       [ASend (Request (rx_index r) b l)])
  end.

(* new_piece_request *)
Definition new_piece_request (cf : hconf) (interested : bool) (i plen : N) : rxs * list action :=
  let r0 := new_rx cf i plen in
  let '(r1, a1) := send_request r0 in
  let '(r2, a2) := send_request r1 in
  (r2, (if interested then [ASend Interested] else []) ++ a1 ++ a2).

Definition set_rx (s : hst) (r : option rxs) : hst :=
  mkh (h_peer_id s) (h_tx s) r (h_choked s) (h_interested s) (h_keep_alive s) (h_msg_buff s) (h_hs_done s).
Definition set_tx (s : hst) (t : option txs) : hst :=
  mkh (h_peer_id s) t (h_rx s) (h_choked s) (h_interested s) (h_keep_alive s) (h_msg_buff s) (h_hs_done s).
Definition set_hchoked (s : hst) (b : bool) : hst :=
  mkh (h_peer_id s) (h_tx s) (h_rx s) b (h_interested s) (h_keep_alive s) (h_msg_buff s) (h_hs_done s).
Definition set_hinterested (s : hst) (b : bool) : hst :=
  mkh (h_peer_id s) (h_tx s) (h_rx s) (h_choked s) b (h_keep_alive s) (h_msg_buff s) (h_hs_done s).
Definition set_ka (s : hst) (k : N) : hst :=
  mkh (h_peer_id s) (h_tx s) (h_rx s) (h_choked s) (h_interested s) k (h_msg_buff s) (h_hs_done s).
Definition set_buff (s : hst) (b : list N) : hst :=
  mkh (h_peer_id s) (h_tx s) (h_rx s) (h_choked s) (h_interested s) (h_keep_alive s) b (h_hs_done s).
Definition set_hs_done (s : hst) : hst :=
  mkh (h_peer_id s) (h_tx s) (h_rx s) (h_choked s) (h_interested s) (h_keep_alive s) (h_msg_buff s) true.
Definition set_pid (s : hst) (p : option bytes) : hst :=
  mkh p (h_tx s) (h_rx s) (h_choked s) (h_interested s) (h_keep_alive s) (h_msg_buff s) (h_hs_done s).

(* the reply to PieceDone / PieceCancel *)
Definition after_piece_finish (cf : hconf) (s : hst) (pre : list action) (reply : option reply) : outcome :=
  match reply with
  | Some (RPiece_Req i l) =>
      let '(r, a) := new_piece_request cf false i l in HCont (set_rx s (Some r)) (pre ++ a)
  | Some RPiece_NotInt => HCont s (pre ++ [ASend NotInterested])
  | Some RPiece_Kill => HEnd s pre true
  | Some RPiece_Ignore => HCont s pre
  | _ => HEnd s pre false                          (* the manager went away: resp_rx.await? fails *)
  end.

(* init_handshake *)
Definition init_handshake (cf : hconf) (s : hst) (id : bytes) (reply : option reply) : outcome :=
  let pre := [ASend (Handshake (c_info_hash cf) (c_own_id cf)); ACmd (KInit id)] in
  match reply with
  | Some (RBitfield bits) => HCont s (pre ++ [ASend (Bitfield (from_vec bits))])
  | _ => HEnd s pre false
  end.

Section Step.
  Variable sha1 : bytes -> bytes.
  Variable cf : hconf.
  Variable disk : bytes -> option bytes.          (* fs::read("<HEX hash>.piece") *)

  (* copy a block into the assembly buffer *)
  Definition put_block (buff : bytes) (begin : N) (block : bytes) : bytes :=
    firstn (N.to_nat begin) buff ++ block ++ skipn (N.to_nat (begin + len block)) buff.

  Definition is_requested (r : rxs) (i b : N) (block : bytes) : bool :=
    (rx_index r =? i) && existsb (fun bl => (fst bl =? b) && (snd bl =? len block)) (rx_requested r).

  Definition handle_piece (s : hst) (i b : N) (block : bytes) (reply : option reply) : outcome :=
    match h_rx s with
    | None => HCont s []                                          (* unexpected block: counted only *)
    | Some r =>
        if negb (is_requested r i b block) then HCont s [] else
        let requested := filter (fun bl => negb ((fst bl =? b) && (snd bl =? len block))) (rx_requested r) in
        let buff := put_block (rx_buff r) b block in
        let r1 := mkrx (rx_index r) (rx_hash r) buff requested (rx_left r) in
        match rx_left r1, requested with
        | [], [] =>
            (* verify_piece_hash, save_piece_to_file, then tell the manager *)
            if negb (bytes_eqb (sha1 buff) (rx_hash r1)) then HEnd (set_rx s (Some r1)) [] false
            else after_piece_finish cf (set_rx s None) [AWrite (rx_hash r1) buff; ACmd KPieceDone] reply
        | _, _ =>
            let '(r2, a) := send_request r1 in HCont (set_rx s (Some r2)) a
        end
    end.

  (* Request::validate; ovf = overflow checks on (debug) *)
  Definition request_validate (ovf : bool) (ri rb rl : N) (tx_i plen : N) : result unit :=
    if (c_pieces_num cf mod 4294967296 <=? ri) || negb (ri =? tx_i mod 4294967296) then Err
    else if PIECE_BLOCK_SIZE mod 4294967296 <? rl then Err
    else
      let sum := rb + rl in
      if Request_validate_u64 then (if plen <? sum then Err else Ok tt)
      else if 4294967296 <=? sum then (if ovf then Panic else if plen mod 4294967296 <? sum mod 4294967296 then Err else Ok tt)
      else if plen mod 4294967296 <? sum then Err else Ok tt.

  (* the manager is consulted only when no piece or another piece is loaded *)
  Definition need_ask (s : hst) (ri : N) : bool :=
    match h_tx s with Some t => negb (tx_index t =? ri) | None => true end.
  (* trigger_cmd_recv_request: what is loaded afterwards *)
  Definition load_tx (s : hst) (ri : N) (reply : option reply) : result (option txs) :=
    if need_ask s ri then
      match reply with
      | Some (RReq_Load i) =>
          match disk (hash_of cf i) with
          | Some data => Ok (Some (mktx i data))
          | None => Err                                          (* FileNotFound *)
          end
      | Some RReq_Ignore => Ok None
      | _ => Err
      end
    else Ok (h_tx s).

  Definition handle_request (ovf : bool) (s : hst) (ri rb rl : N) (reply : option reply) : outcome :=
    let pre := if need_ask s ri then [ACmd (KRequest ri)] else [] in
    match load_tx s ri reply with
    | Ok (Some t) =>
        let s1 := set_tx s (Some t) in
        match request_validate ovf ri rb rl (tx_index t) (len (tx_buff t)) with
        | Ok _ =>
            (* piece_tx.buff[begin..begin+len]: slice index panic when out of range *)
            if len (tx_buff t) <? rb + rl then HPanic pre
            else HCont s1 (pre ++ [ASend (Piece ri rb (slice (tx_buff t) rb rl))])
        | Err => HEnd s1 pre false
        | _ => HPanic pre
        end
    | Ok None => HCont (set_tx s None) pre
    | _ => HEnd s pre false
    end.

  Definition handle_frame (ovf : bool) (s0 : hst) (m : msg) (reply : option reply) : outcome :=
    (* the peer must introduce itself first *)
    if Handler_gate_on_handshake && negb (h_hs_done s0) && negb (match m with Handshake _ _ => true | _ => false end)
    then HEnd s0 [] false else
    let s := match m with KeepAlive => s0 | _ => set_ka s0 0 end in
    match m with
    | Handshake ih pid =>
        if negb (bytes_eqb ih (c_info_hash cf)) then HEnd s [] false
        else match h_peer_id s with
             | Some expected =>
                 if negb (bytes_eqb pid expected) then HEnd s [] false
                 else HCont (set_hs_done (set_pid s (Some pid))) []
             | None => init_handshake cf (set_hs_done (set_pid s (Some pid))) pid reply
             end
    | KeepAlive => HCont s []
    | Choke =>
        let s1 := set_hchoked s true in
        HCont s1 [ACmd KChoke]
    | Unchoke =>
        if Handler_ignore_repeated_unchoke && negb (h_choked s) then HCont s [] else
        let flush := map (fun i => ASend (Wire.Have i)) (h_msg_buff s) in
        let s1 := set_buff (set_hchoked s false) [] in
        let pre := flush ++ [ACmd KUnchoke] in
        match reply with
        | Some (RUnchoke_IntReq i l) =>
            let '(r, a) := new_piece_request cf true i l in HCont (set_rx s1 (Some r)) (pre ++ a)
        | Some (RUnchoke_Req i l) =>
            let '(r, a) := new_piece_request cf false i l in HCont (set_rx s1 (Some r)) (pre ++ a)
        | Some RUnchoke_NotInt =>
            HCont (if Handler_drop_rx_on_unassign then set_rx s1 None else s1) (pre ++ [ASend NotInterested])
        | Some RUnchoke_Ignore => HCont (if Handler_drop_rx_on_unassign then set_rx s1 None else s1) pre
        | _ => HEnd s1 pre false
        end
    | Interested => HCont (set_hinterested s true) [ACmd KInterested]
    | NotInterested =>
        let s1 := set_hinterested s false in
        match reply with
        | Some RNotInt_Kill => HEnd s1 [ACmd KNotInterested] true
        | Some RNotInt_Ignore => HCont s1 [ACmd KNotInterested]
        | _ => HEnd s1 [ACmd KNotInterested] false
        end
    | Wire.Have i =>
        if c_pieces_num cf <=? i then HEnd s [] false else
        match reply with
        | Some (RHave_IntReq j l) =>
            let '(r, a) := new_piece_request cf true j l in HCont (set_rx s (Some r)) ([ACmd (KHave i)] ++ a)
        | Some RHave_Int => HCont s [ACmd (KHave i); ASend Interested]
        | Some RHave_Ignore => HCont s [ACmd (KHave i)]
        | _ => HEnd s [ACmd (KHave i)] false
        end
    | Bitfield bs =>
        if negb (bitfield_validate bs (c_pieces_num cf)) then HEnd s [] false else
        match reply with
        | Some (RBitfieldState unchoke am_int) =>
            HCont s ([ACmd (KBitfield bs)] ++ (if unchoke then [ASend Unchoke] else [])
                     ++ [ASend (if am_int then Interested else NotInterested)])
        | _ => HEnd s [ACmd (KBitfield bs)] false
        end
    | Request ri rb rl => handle_request ovf s ri rb rl reply
    | Piece i b block => handle_piece s i b block reply
    | Cancel _ _ _ => HCont s []
    end.

  Definition hstep (ovf : bool) (s : hst) (ev : event) (reply : option reply) : outcome :=
    match ev with
    | EStart =>
        match h_peer_id s with
        | Some id => init_handshake cf s id reply
        | None => HCont s []
        end
    | EFrame m => handle_frame ovf s m reply
    | EClosed => HEnd s [] false
    | ERecvErr => if Handler_recv_error_terminates then HEnd s [] false else HCont s []
    | ETick =>
        if h_keep_alive s =? peer_handler_KEEP_ALIVE_LIMIT then HEnd s [] false
        else HCont (set_ka s (h_keep_alive s + 1)) [ASend KeepAlive]
    | EBroadHave i =>
        let announce (s' : hst) : hst * list action :=
          if h_choked s' then (set_buff s' (h_msg_buff s' ++ [i]), []) else (s', [ASend (Wire.Have i)]) in
        match h_rx s with
        | Some r =>
            if rx_index r =? i then
              let cancels := map (fun bl => ASend (Cancel i (fst bl) (snd bl))) (rx_requested r) in
              match after_piece_finish cf (set_rx s None) (cancels ++ [ACmd KPieceCancel]) reply with
              | HCont s1 a | HEnd s1 a true =>
                  (* the Ok(false) of PrepareKill is discarded on this path: the loop continues *)
                  let '(s2, a2) := announce s1 in HCont s2 (a ++ a2)
              | other => other
              end
            else let '(s2, a2) := announce s in HCont s2 a2
        | None => let '(s2, a2) := announce s in HCont s2 a2
        end
    | EBroadOwn (Some true) => HCont (if Handler_drop_tx_on_choke then set_tx s None else s) [ASend Choke]
    | EBroadOwn (Some false) => HCont s [ASend Unchoke]
    | EBroadOwn None => HCont s []
    end.

  (* which request/response exchange (if any) the event triggers: the harness and the composed
     system need to know what to ask the manager before they can supply the reply *)
  Definition rpc_of (s : hst) (ev : event) : option hcmd :=
    match hstep true s ev None with
    | HCont _ a | HEnd _ a _ | HPanic a =>
        match filter (fun x => match x with
                               | ACmd KChoke | ACmd KInterested => false
                               | ACmd _ => true
                               | _ => false
                               end) a with
        | ACmd c :: _ => Some c
        | _ => None
        end
    end.
End Step.
