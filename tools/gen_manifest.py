#!/usr/bin/env python3
"""Writes MANIFEST.json from the table below (kept in one place so it stays valid)."""
import json, os, subprocess
V = os.path.dirname(os.path.dirname(os.path.abspath(__file__)))

CHECKS = {
    "C01": dict(
        text="Coq theorems, for every state, event and manager answer: whatever the connection task writes to the piece store hashes "
             "to its file name (C01_writes_verified); a piece is reported done only right after such a write "
             "(C01_done_after_write); assembled data failing the hash ends the task with nothing written or reported "
             "(C01_mismatch_discards); in the manager a piece becomes owned only through PieceDone from the peer it was assigned "
             "to and stays owned (C01_only_done_makes_have, C01_owned_stays); serving and advertising read that state (C09, C11). "
             "Tie: the components by their own correspondences (C08-C12), plus end-to-end runs of the real Session, real "
             "PeerHandler tasks and real piece files against misbehaving scripted peers (corrupt, wrong offset, duplicates, garbage, "
             "disconnects): every advert a remote receives is checked against the store at that instant, every file re-hashed; plus "
             "a manager-side part (completion histories on the real Session with duplicate completions, kills and joiners: the extractor "
             "is started only when every piece is owned, ownership arises only through the assignee's PieceDone).",
        note="The link between the two (the piece the manager marks is the piece the task verified) is proved over the composition of "
             "task and manager for one peer with arbitrary interleaved manager steps (C01_pair_invariant, C01_marked_is_verified, "
             "C01_env_steps), under the modelling assumption that a task's fire-and-forget commands are handled before its next event. "
             "SHA-1 uninterpreted. Torn file on crash during fs::write not modelled. No axioms.",
        technique="Coq proof (exhaustive case analysis of task and manager step functions) + end-to-end exploration with store oracle",
        design="2/C01"),
    "C02": dict(
        text="Liveness over async schedules. Machine-checked: the complete download for the sequential schedule with one honest "
             "seeder (C02_seeder_download_completes: every iteration -- in-order answers, verification and write, PieceDone, owned + "
             "broadcast, next pick by the code's chooser or any chooser meeting C13's specification, next requests -- decreases the "
             "missing pieces by one and the loop ends with everything owned, for every number of pieces and every piece length), "
             "C02_assigned_piece_completes, C02_idle_announcer_asked, and the ingredients: the number of missing pieces never increases "
             "(C02_missing_nonincreasing); the chooser never returns nothing while the peer offers a wanted piece (C02_pick_exists); "
             "an assignment immediately requests the first blocks of the tiling (C02_assignment_requests); the tracker phase cannot "
             "deadlock the manager for any number of failures and any interleaving (C02_tracker_no_deadlock); extraction of a complete "
             "store equals the described files for every geometry (C02_extraction_identical); no panic in the modelled components "
             "(C06_total, C09_reply). Tie: end-to-end runs of the composed real system under the paused clock (1-4 scripted peers, "
             "random segmentation/delays, late unchokes, disconnecting / corrupting extras, 16 KiB-scale geometries): every run must "
             "complete, extract byte-identical files, start the extractor and not panic. Second part: the per-connection transfer "
             "statistics (Stats.v): C02_stats_exact (no panic, reports = mean of the last two intervals clamped to u32, for every "
             "operation sequence whose interval totals fit u64, with and without overflow checks), tied by operation sequences with "
             "boundary byte counts on the real Stats in debug and (thorough tier) release builds; a genuine defect (u32 sum overflow: "
             "task panic / rate 0) was found and repaired. Third part, manager side: histories on the real Session in which peers unchoke while nothing is wanted and announce pieces later; the manager's record of who chokes us must be each peer's last word and an idle unchoked peer announcing a missing piece must be asked at once.",
        note="Partial: with several peers under arbitrary schedules, termination under weak fairness follows from the variant + enabledness arguments only on paper; the fairness of "
             "tokio's scheduler, TCP, real timers and the terminal UI task are not modelled; the end-to-end runs are exploration, not proof. "
             "Two known findings (known_findings.json: sole-holder-idle-after-reserver-left, sole-holder-have-while-reserved): a sole holder "
             "that is idle when the reservation holder leaves is never re-asked; the check prints KNOWN-FINDING for them and reports any other failure. No axioms.",
        technique="Coq proof of the safety/variant ingredients + end-to-end exploration of the composed system",
        design="2/C02"),
    "C03": dict(
        text="Coq theorems over executable mirrors of Metainfo::piece_length / file_piece_ranges and Extractor::extract_files "
             "(piece store as a partial function from hashes, File::open / read_exact failures and index panics as explicit "
             "outcomes): for every geometry whose piece count matches its total length the per-piece lengths partition the "
             "content exactly (C03_partition), and extraction from a store of those pieces yields, for every listed file in "
             "order, exactly the bytes at its offset, with exactly its declared length, the files together being the whole content (C03_extract, C03_lengths, C03_files_concat) - any number "
             "of files, zero-length files, files inside one piece, any alignment; proved by induction over the file list and "
             "the piece loop with slice-concatenation lemmas. The pinned extractor is refuted (C03_pinned_refuted); the defect "
             "was found by the check and repaired by a fix: commit. Tie: the real Extractor runs on a piece store built from "
             "the content; every output file is read back and compared with the model and with the independent span oracle.",
        note="Not modelled: real file-system errors, concurrent modification, duplicate output paths (later write wins). "
             "Trusted: Coq kernel, correspondence harness, hand-written model. No axioms.",
        technique="Coq proof (induction over files and pieces, slice algebra) + differential correspondence on the real extractor",
        design="2/C03"),
    "C04": dict(
        text="Coq theorems over the lexical path model (PathBuf::join, Path::components, parent chain) and the Metainfo model: "
             "every accepted document has a relative name and relative file paths without '..' components "
             "(C04_accepted_safe), join keeps the components of the directory in front (C04_join_components), so every path "
             "the extractor creates, and every ancestor create_dir_all makes, never climbs above the download directory at "
             "any prefix (C04_inside, C04_ancestors_safe). The pinned code is refuted (C04_pinned_refuted); the defect was "
             "found by the check (files written above cwd) and repaired by a fix: commit. Tie: the real extractor runs five "
             "levels below a canary root with hostile names/paths; everything created is listed; oracle = containment.",
        note="Partial: lexical Unix path model; symlinks already present in the download directory and non-Unix path syntax "
             "are not modelled. No axioms.",
        technique="Coq proof (induction over path components) + differential correspondence with file-system canary oracle",
        design="2/C04"),
    "C05": dict(
        text="Executable Gallina mirrors of DeepFinder::find_first and Metainfo::from_bencode, and an independent "
             "span-splitting specification (InfoSpec.info_span). Proved: what is hashed is exactly find_first's answer "
             "(C05_hash_input); find_first is characterised completely (C05_search_spec): on every document starting with a "
             "well-formed dictionary (any depth, key order, leading-zero lengths, trailing data) it returns exactly what a "
             "four-line specification search returns on the document's entry tree, the exact text of the value it stops at; "
             "every strictly decodable one-dictionary document is such a tree (C05_documents_are_trees); for every accepted "
             "well-formed torrent with no dictionary containing `4:info` before the first top-level info entry, the hashed bytes "
             "are exactly the text of that info value (C05_exact_span). The full statement is refuted by three witness theorems, "
             "one per known-finding class (nested key found first, duplicate info key, truncated tail). Tie: implementation's "
             "find_first bytes = model = independent span, hash = SHA-1 of those bytes, on a torrent grammar with extras.",
        note="Partial only by the three known findings (DeepFinder's tested depth-first behaviour, C16's leniency). SHA-1 "
             "uninterpreted. Unmodelled: scanner state after an ignored error (unreachable for accepted documents). No axioms.",
        technique="Coq proof (mutual induction over the document's entry tree) + refutation theorems + differential correspondence with independent span oracle",
        design="2/C05"),
    "C07": dict(
        text="Machine-checked Coq theorems over an executable Gallina mirror of every Serializer::data, Frame::parse and "
             "Bitfield::{from_vec,to_vec}: layout equals the independently written BEP3 relation, parse(encode m ++ rest) "
             "= (m, |encode m|) for all field values in range (hence the encoding is prefix-free and streams decode uniquely), bit i <-> bit (7 - i mod 8) of byte i/8 in both directions, "
             "for all sizes. Constants are regenerated from the source each run; the hand-written model is tied to the "
             "code by differential execution with the spec oracle applied to the implementation's output.",
        note="Trusted: Coq kernel; gen_consts.py; the correspondence (generators, harness, in-Coq comparison); the model is "
             "hand-written (modelled, not verified Rust). No axioms.",
        technique="Coq proof (induction, finite sweeps by vm_compute) + differential correspondence model vs code",
        design="2/C07"),
    "C06": dict(
        text="Coq theorems over executable mirrors of Frame::parse (Wire.v) and Connection::parse_frame / recv_frame (Conn.v): no "
             "buffer makes the decoder panic (C06_total); whenever it waits fewer than 4 + 65536 bytes are buffered (C06_bounded); "
             "every delivered/skipped message consumes bytes (C06_progress); a receive error ends the peer task "
             "(C06_error_terminates); prefix stability of Frame::parse for all eleven kinds, unknown ids and errors, from which "
             "SEGMENTATION INDEPENDENCE: however a stream is cut into reads, the messages delivered, the outcome and the buffered "
             "remainder are those of the whole stream (C06_segmentation, C06_any_two_cuts_agree, C06_meaning_exists). Tie: the "
             "real Connection is fed every one of the 2^(n-1) segmentations of short streams (and boundary/random cuts of long "
             "ones) over an in-memory pipe; after every prefix exactly that prefix's messages must have been delivered. Four "
             "genuine defects found this way were repaired by fix: commits.",
        note="Proved both for the relational reading (Dec / IncRun) and for the executable recv_frame / drain loop of Conn.v "
             "(C06_exec_segmentation), which is what the correspondence runs against the real Connection. Not modelled: how many bytes "
             "one read_buf call appends (the theorem holds for every segmentation), select! fairness. No axioms.",
        technique="Coq proof (prefix-stability lemma + induction over decoding derivations) + exhaustive-segmentation correspondence",
        design="2/C06"),
    "C08": dict(
        text="Coq theorems over the executable mirror of the per-peer task (Handler.v): a handshake with a different info-hash or "
             "an unexpected peer id ends the connection with nothing sent (C08_wrong_hash, C08_wrong_id); before a valid "
             "handshake any other message ends it with nothing sent (C08_gate); for every event, state and manager answer, each "
             "handshake written carries the torrent's info-hash and the own id and piece data is written only in answer to a "
             "Request after a valid handshake (C08_actions). Tie: the real PeerHandler runs over an in-memory pipe with the "
             "harness as remote peer and manager (paused clock), handshake first / late / twice / never / wrong.",
        note="The 'forgets the peer' half is the manager's kill_peer (C12/C20 correspondence). Genuine defect (frames served before any "
             "handshake) found by the check and repaired. No axioms.",
        technique="Coq proof (exhaustive case analysis of the task's step function) + differential correspondence on the real task",
        design="2/C08"),
    "C09": dict(
        text="Coq theorems: for every request (all of u32^3), loaded state and manager answer the task never panics and sends "
             "nothing or exactly one Piece with the same index/offset carrying exactly the requested range of the loaded file, "
             "inside the piece and at most 16 KiB (C09_reply); the manager lets a piece be loaded only for a peer it has "
             "unchoked and only a piece it owns (C09_manager); the loaded piece is dropped when we choke (C09_choke_drops). "
             "Tie: upload histories with boundary triples (incl. sums wrapping 32 bits) on the real PeerHandler; oracle on the "
             "bytes written. Two genuine defects (u32 overflow panic, served after choke) found and repaired.",
        note="The release-build (wrapping) arithmetic is modelled (ovf=false) but only the debug harness runs in the quick tier. No axioms.",
        technique="Coq proof (case analysis, lia) + differential correspondence on the real task",
        design="2/C09"),
    "C10": dict(
        text="Coq theorems: PieceRx::left tiles every piece length exactly (contiguous from 0, blocks of 1..16384 bytes, all but the "
             "last 16 KiB, sum = length) by induction on the block count (C10_tiling, C10_tiling_sum); a new assignment writes "
             "the first (<= 2) blocks of the tiling for that piece and asked ++ not-yet-asked is the tiling (C10_assignment); "
             "each further request is exactly the next block (C10_next); invariant over the whole answer history (C10_answer). Tie: download histories on the real PeerHandler "
             "(answers in order, reversed, duplicated, withheld, foreign, corrupt); every Request frame is decoded and checked "
             "against the tiling, the progress and completion rules by the oracle.",
        note="The history of one assignment is covered by an invariant (C10_assignment_invariant, C10_answer: every answer either changes "
             "nothing or is followed by exactly the next block; completion exactly at the last outstanding block, the requests then being "
             "the whole tiling). Not modelled: the peer's side. No axioms.",
        technique="Coq proof (induction on blocks) + differential correspondence with a tiling oracle on observed Request frames",
        design="2/C10"),
    "C11": dict(
        text="Coq theorems: the manager's bitfield answer marks exactly the Have pieces (C11_bitfield); a SendHave broadcast for i "
             "happens only on PieceDone for i and i stays Have (C11_broadcast, C11_have_stays); on a connection a Have frame is "
             "written only for a broadcast being processed or one held back, a Bitfield frame is exactly the manager's answer "
             "(C11_actions); announcements are held while the peer chokes us and all flushed in completion order at its unchoke "
             "(C11_held_back, C11_sent_at_once, C11_flush). Tie: broadcast/handshake/choke/unchoke interleavings on the real task. Manager-side part: completion histories on the real Session (completion after a choke, after the other end-game holder left, duplicate completion); a piece that becomes owned is broadcast as Have and only owned pieces are; the bitfield given to a new connection is the owned set.",
        note="Not modelled: broadcast-channel lag (capacity 32) dropping announcements. No axioms.",
        technique="Coq proof (case analysis of manager and task step functions) + differential correspondence",
        design="2/C11"),
    "C12": dict(
        text="Coq theorems over the manager model: the reservation invariant (a piece is Reserved(n) only with 1 <= n <= the number "
             "of connected peers that are not choking us and are assigned it) holds in every state reachable by ANY sequence of "
             "commands the connection tasks can produce, over any number of peers, for every answer of the chooser "
             "(C12_invariant, C12_invariant_step: counting argument over the peer map, 12 command kinds); hence a piece with no such "
             "peer left cannot be Reserved (C12_released); Have is absorbing (C12_have_absorbing); only advertised, lacked pieces "
             "are assigned (C12_asked_advertised_lacked); the task relays an Unchoke only when the peer was choking us "
             "(C12_task_guarantee, the hypothesis `producible`). Tie: event histories (repeated / out-of-order events, several "
             "peers) run one command at a time on the real Session; every state compared with the model applied to the "
             "previous observed state; the stronger 'has actually been asked' form and 'no manager panic' evaluated on the "
             "observed states with the task's piece tracked by the harness. Three genuine defects found and repaired.",
        note="The equality of the task's and the manager's choke flag and assigned piece per peer over all interleavings is proved for the "
             "composition of task and manager (C12_flags_agree, PairProofs.v). 'No manager panic' is proved (C12_no_manager_panic) under the "
             "well-formedness invariant WFm (C12_wf_preserved) for the commands tasks send (C12_task_commands_sendable: discharged for "
             "the first command of an event in every reachable composition). Not modelled: the KillReq window after a task's death; "
             "fire-and-forget commands are taken as handled before the task's next event. No axioms.",
        technique="Coq proof (invariant by induction over reachable states, counting lemmas) + per-step differential correspondence",
        design="2/C12"),
    "C13": dict(
        text="Coq theorem over the chooser with its shuffle made an argument: for EVERY permutation of the desired pieces the piece "
             "returned is advertised by the peer, lacked by the client, not being fetched unless fewer than ten remain, and no "
             "other such piece is advertised by fewer peers; nothing is returned exactly when no such piece exists (C13_pick, "
             "C13_pick_spec; sortedness + permutation of the insertion sort). Tie: random manager states set in the real "
             "Session, choose_piece_index called repeatedly; membership of every pick in the allowed set, which is exactly the set of picks the relation accepts (C13_allowed, C13_allowed_complete).",
        note="The implementation's thread_rng shuffle cannot be replayed, hence membership rather than equality. No axioms.",
        technique="Coq proof (Permutation/StronglySorted) + membership correspondence on the real Session",
        design="2/C13"),
    "C14": dict(
        text="Coq theorems: a newcomer's bitfield never takes the regular unchoked peers above ten (C14_bitfield_bound, counting lemma "
             "over the peer map); after every rotation over all connected peers, for every rate order (ties) and optimistic pick, at "
             "most ten peers plus the new optimistic ones are unchoked (C14_rotation_bound, loop invariant + permutation argument); "
             "every unchoked peer that is not a fresh optimistic pick has declared interest (C14_slots_interested); no peer left "
             "choked although interested has a strictly better rate than a regular slot holder (C14_rate_order: the sort is "
             "descending and the order splits into a slots-free and a slots-used part); the broadcast map holds a peer's new value "
             "exactly when it changed (C14_map_exact, for optimistic picks among choked peers) and each task turns its entry into one "
             "Choke/Unchoke frame (C14_messages_follow_map). "
             "Tie: histories of up to 25 peers "
             "with bitfield arrivals, interest changes and rotations (rate orders with ties, optimistic pick as "
             "new_optimistic_peers) on the real Session; after every command the bound (10 + 1), after every rotation the policy "
             "and the exactness of the broadcast map are evaluated on the observed state. Genuine defect (every bitfield sender "
             "unchoked) found and repaired.",
        note="All clauses are proved for the model; the hypothesis of C14_map_exact (optimistic picks among peers we choke) is what "
             "new_optimistic_peers' filter guarantees and is exercised by the correspondence with the real picker. Not modelled: "
             "broadcast lag; the wrapper's random optimistic pick (harness supplies it). No axioms.",
        technique="Coq proof (counting lemmas, loop invariants, sortedness) + per-step differential correspondence with policy oracle",
        design="2/C14"),
    "C18": dict(
        text="Coq theorems: percent-encoding then form-decoding is the identity on every byte string (C18_hash_roundtrip, 256-value and "
             "16-digit sweeps lifted by forallb_forall + induction) and the encoding never contains '&', '=', '?', '#' "
             "(C18_hash_safe), so create_url is injective in the hash (C18_hash_injective); create_url = announce ++ one separator ++ info_hash=... with '&' iff a query exists (C18_url_shape). "
             "Tie: the real TrackerClient::run against a loopback HTTP listener; the request line is read back and parsed by an "
             "independent oracle (path and original parameters kept; info_hash, peer_id, port, left right). Genuine defect "
             "(second '?') found and repaired.",
        note="Partial: no general Coq theorem about the whole request for all announce URLs. url/reqwest normalisation (dot segments, "
             "fragments, non-ASCII) not modelled. No axioms.",
        technique="Coq proof (finite sweeps + induction) + differential correspondence on the request received by a loopback listener",
        design="2/C18"),
    "C20": dict(
        text="Coq theorems over the task model: on a silent connection the first two ticks each emit one keep-alive and the third "
             "closes it (C20_silent); any other message resets the count so the next tick keeps the connection (C20_live); only "
             "the timer increases the count (C20_only_timer_counts); every non-closing tick emits exactly one keep-alive "
             "(C20_emit). Tie: the real PeerHandler under tokio's paused clock, arrival times around k*120 s (+-1 ms), the number "
             "of boundaries crossed read off the virtual clock. Manager-side part: kill-heavy histories on the real Session (end-game duplicates, choked holders, tracker answers); after every command no reservation outlives its holders (Reserved(n) => n <= peers assigned the piece and not choking us).",
        note="Partial: tokio Interval burst catch-up when the task is blocked > 120 s in a manager exchange, and select! choice when a "
             "tick and a frame are ready together, are not modelled. No axioms.",
        technique="Coq proof (case analysis of the step function) + differential correspondence under a virtual clock",
        design="2/C20"),
    "C15": dict(
        text="Coq theorems: decode(encode vs) = vs for all well-formed values (full i64, binary strings, arbitrary nesting, "
             "prefix keys; hence encode is injective), encode v is in the independent inductive canonical grammar (ascending keys, shortest integers "
             "and length prefixes), and every canonical document decodes and re-encodes to itself byte for byte. Proved "
             "by nested induction over values / mutual induction over the grammar, with the decimal print/parse inverse "
             "lemmas proved from scratch. Tie: differential runs of BEncoder/BDecoder vs the model with an independent "
             "canonical-form recogniser as oracle on the implementation's bytes.",
        note="Not modelled: native stack depth. Trusted: Coq kernel, correspondence harness, hand-written model. No axioms.",
        technique="Coq proof (nested/mutual induction) + differential correspondence",
        design="2/C15"),
    "C16": dict(
        text="Coq theorems over an executable mirror of BDecoder (iterator-on-suffix, fuelled, Panic/OutOfFuel as explicit "
             "outcomes): totality for every byte string, completeness w.r.t. an independent inductive grammar, the strict "
             "decoder is exactly the grammar, and soundness of the code's decoder outside the known-finding class "
             "`unterminated-container` (the full statement is refuted by 'li1e', proved as C16_refuted_unterminated). "
             "Tie: exhaustive comparison over the alphabet '012:-ilde' up to length 5 (quick) / 7 (thorough) plus "
             "mutated documents, oracle = the proved-equivalent strict recogniser applied to the implementation's answer. "
             "Second part: well-formed documents nested up to 400000 levels, decoded one per process: the grammar and the model "
             "accept every depth (C16_every_depth_accepted); the recursive implementation aborts on native stack exhaustion "
             "(known finding stack-exhaustion-on-deep-nesting).",
        note="Partial: soundness only outside the known finding unterminated-container; termination without crash only below the "
             "nesting depth the native stack allows (known finding stack-exhaustion-on-deep-nesting). Trusted: Coq kernel, "
             "correspondence harness, hand-written model. No axioms.",
        technique="Coq proof (mutual induction over grammar / fuel) + exhaustive small-scope and random differential correspondence",
        design="2/C16"),
    "C17": dict(
        text="Coq theorems over the Metainfo model (built on the proved bencode decoder model): parsing never panics for "
             "any byte string; a successful parse yields exactly the fields one top-level dictionary states (FieldsOf); "
             "every accessor (piece, piece_length, total_length, file_piece_ranges) is panic-free for every valid index "
             "with overflow checks on and off. Two genuine defects found by the check were repaired by fix: commits "
             "(piece length 0, overflowing total). create -> parse is a theorem (C17_create_parse, C17_create_file_parse: the "
             "document create_file writes, for any 20-byte hash function over the 256 KiB chunks, is read back as exactly the "
             "fields it was made from, its hash input being the canonical encoding of its info dictionary) and is also tied by "
             "correspondence with SHA-1 of every chunk recomputed by the driver.",
        note="'Never panics' holds for the model at every nesting depth; the implementation aborts on native stack exhaustion from some "
             "tens of thousands of nesting levels on (known finding stack-exhaustion-on-deep-nesting, deep-nesting part, one process "
             "per case). UTF-8 validity and decimal parsing are hand models of std, tied by correspondence. SHA-1 uninterpreted (any "
             "function producing 20 bytes). No axioms.",
        technique="Coq proof (invariants over folds, case analysis) + differential correspondence",
        design="2/C17"),
    "C19": dict(
        text="Reply half: Coq theorems over an executable mirror of TrackerResp::from_bencode / peers(): parsing never panics; a "
             "successful parse yields, in listed order, exactly the well-formed entries of a top-level dictionary without a "
             "failure reason; any string failure reason makes the reply a failure. Fault half: a transition system of the "
             "tracker task (retry loop), the bounded command channel and the manager's handle_tracker_cmd/kill_tracker; for "
             "every number of failures and EVERY interleaving the manager is never blocked before the tracker succeeded "
             "(C19_faults_never_blocked) and the two never deadlock (C19_faults_no_deadlock), by an invariant over reachable "
             "states; the pinned manager is refuted (blocked after 1 failure, deadlocked after 66). Tie: reply grammar + "
             "mutations; fault sequences (0..70 failures under the paused clock) through the real Session's tracker channel, "
             "comparing blocking, contacted peers and remaining candidates. Two genuine defects found and repaired.",
        note="The reply parser aborts on native stack exhaustion for replies nested some tens of thousands of levels deep (known finding "
             "stack-exhaustion-on-deep-nesting, deep-nesting part). HTTP transport/reqwest not modelled; the retry loop of TrackerClient::run is modelled (scripted task in the harness); "
             "tokio mpsc/JoinHandle semantics are a hand model. No axioms.",
        technique="Coq proof (invariant over reachable states, case analysis) + differential correspondence",
        design="2/C19"),
}

NOT_APPLICABLE = {}

ALL = ["C%02d" % i for i in range(1, 21)]
PENDING_REASON = "not claimed yet: model, theorems and correspondence for this property are still being built (see DESIGN.md section 6)"


def main():
    commits = subprocess.run(["git", "-C", "/repo", "log", "--format=%h %s", "--grep=^verif hook"],
                             stdout=subprocess.PIPE).stdout.decode().strip().split("\n")
    m = {
        "version": 1,
        "setup_cmd": "./setup.sh",
        "hooks": {
            "guard": "cargo feature `verif` (Cargo.toml [features] verif = [])",
            "enable": "the harness crate depends on rdest with features = [\"verif\"] (path = /repo); cargo build --features verif",
            "baseline_off_cmd": "cd /repo && cargo test --workspace --no-fail-fast --offline",
            "source_commits": [c for c in commits if c],
            "add_only": False,
        },
        "engines": [{"name": "coq-proof+correspondence", "path": "coq/ tools/ harness/",
                     "serves_properties": sorted(CHECKS),
                     "kind_free_text": "Coq 8.16 development (models, specs, proofs), constants translator, Rust differential harness, in-Coq evaluation of model and oracle"}],
        "checks": [],
        "notes": "See DESIGN.md. Known findings: known_findings.json. Hooks: all add-only except two lines of src/connection.rs "
                 "(the socket type became a cfg-selected alias, TcpStream with the feature off, so that the receive loop under test is "
                 "shared by the TCP and the in-memory transport). 25 fix: commits repair genuine defects the checks found.",
        "not_applicable": [],
    }
    for pid in sorted(CHECKS):
        c = CHECKS[pid]
        m["checks"].append({
            "property_id": pid,
            "quick_cmd": "./check %s --tier quick" % pid,
            "thorough_cmd": "./check %s --tier thorough" % pid,
            "evidence_file": "/verif/evidence/%s.json" % pid,
            "replay_cmd_template": "./check %s --replay {path}" % pid,
            "engine": "coq-proof+correspondence",
            "level_claimed": {"category": "proof", "text": c["text"], "design_ref": c["design"]},
            "level_note": c["note"],
            "technique": c["technique"],
        })
    for pid in ALL:
        if pid not in CHECKS:
            m["not_applicable"].append({"property_id": pid, "reason": NOT_APPLICABLE.get(pid, PENDING_REASON)})
    json.dump(m, open(os.path.join(V, "MANIFEST.json"), "w"), indent=1)
    print("MANIFEST.json: %d checks, %d not claimed" % (len(m["checks"]), len(m["not_applicable"])))


if __name__ == "__main__":
    main()
