"""C19 — tracker replies are read faithfully (reply parsing part)."""
from driver import Case
from vlib import coq_bytes
import bgen


def hexb(h):
    return b"" if h == "-" else bytes.fromhex(h)


def rpeer(rng):
    e = []
    if rng.random() < 0.93:
        e.append((b"ip", ("s", rng.choice([b"127.0.0.1", b"10.0.0.2", b"host", b"\xff\xfe", b""])) if rng.random() < 0.93 else ("i", 1)))
    if rng.random() < 0.93:
        n = 20 if rng.random() < 0.85 else rng.choice([0, 19, 21])
        e.append((b"peer id", ("s", bytes(rng.randrange(256) for _ in range(n)))))
    if rng.random() < 0.93:
        e.append((b"port", ("i", rng.choice([0, 1, 6881, 65535, 65536, 2 ** 63 - 1, -1])) if rng.random() < 0.93 else ("s", b"80")))
    return ("d", e) if rng.random() < 0.93 else ("i", 5)


def reply(rng):
    top = []
    r = rng.random()
    if r < 0.2:
        top.append((b"failure reason", ("s", rng.choice([b"no such torrent", b"", b"\xff bad", b"\xc3"]))
                    if rng.random() < 0.9 else ("i", 1)))
    if rng.random() < 0.9:
        top.append((b"interval", ("i", rng.choice([0, 1, 1800, -1, 2 ** 63 - 1])) if rng.random() < 0.93 else ("s", b"x")))
    if rng.random() < 0.9:
        top.append((b"peers", ("l", [rpeer(rng) for _ in range(rng.choice([0, 1, 2, 3, 5]))])
                    if rng.random() < 0.93 else ("s", b"\x7f\x00\x00\x01\x1a\xe1")))
    for _ in range(rng.choice([0, 0, 1])):
        top.append((rng.choice([b"complete", b"min interval", b"zz"]), bgen.rvalue(rng, 1)))
    return ("d", top)


class C19:
    id = "C19"
    harness_sub = "resp"
    harness_timeout = 600
    coq_timeout = 900
    model_targets = ["Pack.vo", "Corr/C19.vo"]
    proof_target = "Props/C19.vo"
    theorems = ["C19_total", "C19_peers", "C19_failure", "peer_of_spec", "C19_faults_never_blocked", "C19_faults_no_deadlock", "C19_pinned_refuted"]
    allowed_axioms = []
    coq_header = "From Rdest Require Import Base BCodec Metainfo TrackerResp Manager Tracker Corr.C19.\nOpen Scope N_scope.\n"
    corr_name = "TrackerResp::from_bencode / peers vs TrackerResp.v"
    classes = {1: "non-utf8-failure-reason", 2: "manager-blocked-on-tracker-failure"}
    rule = ("reply grammar (failure reason valid/invalid UTF-8/wrong type, interval 0/negative/huge/wrong type, peers list "
            "with well-formed and malformed entries: wrong id length, negative/huge port, non-UTF-8 ip, non-dict entries, "
            "compact string form) in canonical and non-canonical spellings, leading/trailing values, plus byte mutations. "
            "Non-trivial: replies that decode; distinct lines.")
    statement_status = "see Props/C19.v"
    assumptions = []

    def corpus(self):
        docs = [b"d8:intervali1800e5:peersld2:ip9:127.0.0.17:peer id20:AAAAABBBBBCCCCCDDDDD4:porti6881eeee",
                b"d14:failure reason4:nope8:intervali1e5:peerslee",
                b"d14:failure reason2:\xff\xfe8:intervali1e5:peerslee", b"", b"i1e", b"de"]
        return [Case("resp %s" % (d.hex() or "-"), "corpus", {"doc": d[:80].decode("latin1")}) for d in docs]

    def gen(self, rng, tier):
        n = {"quick": 1500, "thorough": 30000, "search": 6000}[tier]
        cases = []
        for _ in range(n):
            v = reply(rng)
            doc = bgen.encode(v) if rng.random() < 0.5 else bgen.encode(v, rng, sort=False, lead0=0.2, shuffle=0.5)
            kind = "reply"
            r = rng.random()
            if r < 0.1:
                doc = bgen.encode(bgen.rvalue(rng, 1)) + doc
                kind = "leading"
            elif r < 0.25:
                doc = bgen.mutate(rng, doc)
                kind = "mutated"
            cases.append(Case("resp %s" % (doc.hex() or "-"), kind, {"doc": doc[:80].decode("latin1")}))
        return cases + self.faults(rng, tier)

    def coq_case(self, c, out):
        if c.line.startswith("trk"):
            t = c.line.split()
            if out.strip() in ("PANIC", "MANAGERPANIC"):
                # the session died while handling tracker commands: it did not come back from the first pump
                out = "BLOCKED | - | - | -"
            pumps, contacted, cands, kill = [x.strip() for x in out.split("|")]
            lst = lambda x: "[%s]" % ("" if x == "-" else ";".join(x.split(",")))
            return "CFaults %s %s %s [%s] %s %s %s" % (t[1], lst(t[2]), t[3],
                                                       ";".join("true" if p == "OK" else "false" for p in pumps.split(",")),
                                                       lst(contacted), lst(cands),
                                                       {"-": "None", "OK": "(Some true)", "BLOCKED": "(Some false)"}[kill])
        doc = hexb(c.line.split()[1])
        out = out.strip()
        if out == "ERR":
            r = "Err"
        elif out == "PANIC":
            r = "Panic"
        else:
            body = out[3:].strip()
            ps = [] if body == "-" else [x.split("/") for x in body.split(",")]
            r = "(Ok [%s])" % "; ".join("(%s, %s)" % (coq_bytes(hexb(a)), coq_bytes(hexb(i))) for a, i in ps)
        return "CResp %s %s" % (coq_bytes(doc), r)

    def model_term(self, c):
        if c.line.startswith("trk"):
            t = c.line.split()
            return "(faults_model %s [%s] %s)" % (t[1], "" if t[2] == "-" else ";".join(t[2].split(",")), t[3])
        return "(tracker_resp_of %s)" % coq_bytes(hexb(c.line.split()[1]))

    def faults(self, rng, tier):
        ns = {"quick": [0, 1, 2, 3, 5, 63, 64, 65, 66, 70], "thorough": list(range(0, 80)) + [200, 500], "search": list(range(0, 70, 3))}.get(tier, [0, 1, 2])
        out = []
        for n in ns:
            k = rng.choice([0, 1, 3, 11, 12, 20])
            peers = rng.sample(range(1, 200), k)
            interested = rng.choice([0, 0, 2, 10, 11, 12])
            r = rng.random()
            kill = " kill" if r < 0.4 else " late" if r < 0.7 and n <= 62 else ""
            c = Case("trk %d %s %d%s" % (n, ",".join(map(str, peers)) or "-", interested, kill), "faults" + {" kill": "+disconnect", " late": "+manager-busy", "": ""}[kill],
                     {"fails": n, "peers": k, "interested": interested})
            out.append(c)
        return out


from deepbase import DeepPart


class C19Real(C19):
    """the real TrackerClient::run loop (reqwest over loopback TCP, real DELAY_MS sleeps) against a tracker that fails in
    scripted ways -- nothing listening, connection closed without an answer, HTTP 500/404, a body that is not bencode, a
    failure reason, an empty body -- any number of times before it answers (nothing-listening outcomes first: the port stays
    reserved by a bound socket that does not listen yet)"""
    harness_sub = "url"
    harness_timeout = 900
    harness_shards = 16
    rule = ""
    OUTCOMES = ["refused", "drop", "500", "404", "garbage", "failure", "empty"]
    BODIES = [b"d8:intervali1800e5:peerslee",
              b"d8:intervali1800e5:peersld2:ip9:127.0.0.17:peer id20:AAAAABBBBBCCCCCDDDDD4:porti6881eeee",
              b"d8:intervali1e5:peersld2:ip8:10.0.0.17:peer id20:AAAAABBBBBCCCCCDDDDD4:porti1eed2:ip3:bad7:peer id3:xyz4:porti2eed2:ip7:1.2.3.47:peer id20:\x00\xff2345678901234567894:porti65535eeee"]

    def error_page(self, rng):
        """an HTTP error status with a page of chosen length and content: ASCII, multi-byte UTF-8 characters straddling
        every offset near the usual truncation points, bytes that are not UTF-8"""
        n = rng.choice([0, 1, 7, 62, 63, 64, 65, 66, 126, 127, 128, 129, 254, 255, 256, 257, 510, 511, 512, 1023, 1024, 4095, 4096, rng.randrange(0, 300)])
        ch = rng.choice(["\u00e9", "\u20ac", "\U0001f600", "\u00e9\u20ac\U0001f600"])
        r = rng.random()
        if r < 0.25:
            body = b"e" * n
        elif r < 0.85:
            k = rng.randrange(0, 5)
            body = b"x" * max(0, n - k) + (ch * 8).encode("utf-8")
        else:
            body = b"y" * max(0, n - 1) + bytes([rng.choice([0x80, 0xff, 0xc3, 0xe2])]) + b"zz"
        if rng.random() < 0.3:
            body = rng.choice([b" ", b"\n", b"\r\n\t"]) + body + rng.choice([b" ", b"\n"])
        return "%s:%s" % (rng.choice(["500", "404", "503", "400", "403"]), body.hex())

    def mkreal(self, script, body, kind):
        return Case("trkreal %s %s" % (",".join(script) or "-", body.hex()), kind, {"script": script, "reply": body[:60].decode("latin1")})

    def corpus(self):
        return [self.mkreal([], self.BODIES[1], "real-tracker"), self.mkreal(["refused", "500", "garbage"], self.BODIES[1], "real-tracker"),
                self.mkreal(["500:" + (b"x" * k + "\u00e9\u20ac\U0001f600".encode("utf-8") * 20).hex() for k in (61, 126)], self.BODIES[1], "real-tracker"),
                self.mkreal(["drop", "failure", "empty", "404"], self.BODIES[2], "real-tracker")]

    def gen(self, rng, tier):
        k = {"quick": 28, "thorough": 300, "search": 80}.get(tier, 28)
        out = []
        for _ in range(k):
            n = rng.choice([0, 1, 1, 2, 2, 3, 4]) if tier != "thorough" else rng.choice([0, 1, 2, 3, 4, 6, 9])
            script = [self.error_page(rng) if rng.random() < 0.45 else rng.choice(self.OUTCOMES) for _ in range(n)]
            script.sort(key=lambda x: x != "refused")       # nothing listens yet: only at the beginning (harness rule)
            out.append(self.mkreal(script, rng.choice(self.BODIES), "real-tracker"))
        return out

    def coq_case(self, c, out):
        t = c.line.split()
        script = [] if t[1] == "-" else t[1].split(",")
        if out.strip() in ("SKIP", "PANIC"):          # the loopback socket could not be set up: no verdict (a case that says nothing)
            c.nontrivial = False
            return "CReal 0 0 [] [true] [] 1 true false"
        f = out.split()
        o = dict(zip(f[0::2], f[1::2]))
        cmds = [] if o["CMDS"] == "-" else o["CMDS"].split(",")
        ps = [] if o["PEERS"] == "-" else [x.split("/") for x in o["PEERS"].split(",")]
        b = lambda x: "true" if x else "false"
        return "CReal %d %d %s [%s] [%s] %s %s %s" % (
            len(script), script.count("refused"), coq_bytes(hexb(t[2])),
            ";".join(["true" if x == "R" else "false" for x in cmds if x in ("R", "F")] + (["false", "false"] if ("NONE" in cmds or "DEAD" in cmds) else [])),
            "; ".join("(%s, %s)" % (coq_bytes(hexb(a)), coq_bytes(hexb(i))) for a, i in ps),
            o["REQS"], b(o["DONE"] == "1"), b(o["EXTRA"] == "1"))

    def model_term(self, c):
        return "(real_model %d)" % (0 if c.line.split()[1] == "-" else len(c.line.split()[1].split(",")))


PROP = C19()
PROP.parts = [PROP, DeepPart("C19", "resp", "resp", b"d8:intervali1e5:peersle3:zzz", b"e", "TrackerResp::from_bencode"), C19Real()]
