(* ConnProofs.v — C06: stream decoding never panics and never needs more than one frame buffered. *)
From Rdest Require Import Base BaseProofs Consts Wire Conn.
From Coq Require Import ZifyBool ZifyN ZifyNat.
Open Scope N_scope.

(* Frame::parse on any buffer: no index panic; a frame never extends past the buffer; while it waits for
   more bytes fewer than 4 + 65536 are buffered *)
Theorem parse_frame_bounds buf :
  match parse_frame buf with
  | PFrame _ n => n <= len buf /\ 0 < n
  | PUnknown _ n => 4 < n <= 4 + 65536
  | PIncomplete => len buf < 4 + 65536
  | PError => True
  | PPanic => False
  end.
Proof.
  unfold parse_frame. unfold_consts.
  destruct (len buf <? 4) eqn:E1; [lia|].
  destruct (rd32 buf 0 =? 0) eqn:E2; [lia|].
  destruct (len buf <? 4 + 1) eqn:E3; [lia|].
  assert (HN : forall i, nthN buf i = None -> len buf <= i).
  { intros i H. unfold nthN in H. apply nth_error_None in H. unfold len. lia. }
  destruct (nthN buf 4) as [id|] eqn:N4; [|specialize (HN 4 N4); lia].
  destruct (nthN buf 0) as [pl|] eqn:N0; [|specialize (HN 0 N0); lia]. clear HN.
  destruct (negb (id =? 84) && (65536 <? rd32 buf 0)) eqn:E4; [exact I|].
  unfold dispatch, wrong_len. unfold_consts. cbn [Wire_wrong_length_is_error].
  set (L := rd32 buf 0) in *.
  repeat match goal with
         | |- context [if ?c then _ else _] => destruct c eqn:?
         end; try exact I; try lia;
    try (apply andb_false_iff in E4; destruct E4 as [E4|E4]; [apply negb_false_iff in E4|]; lia).
Qed.

(* Connection::parse_frame never panics on any buffer ... *)
Theorem conn_parse_total buf : Conn_skip_needs_body = true -> conn_parse buf <> PCrash.
Proof.
  intros F. unfold conn_parse. rewrite F. pose proof (parse_frame_bounds buf) as B.
  destruct (parse_frame buf) as [m n|id n| | |]; try discriminate; try contradiction.
  - destruct (N.ltb_spec (len buf) n); [lia | discriminate].
  - destruct (len buf <? n); discriminate.
Qed.

(* ... and whenever it has to wait for more bytes, fewer than 4 + 65536 bytes (one maximum frame) are buffered *)
Theorem conn_wait_bounded buf : conn_parse buf = PWait -> len buf < 4 + 65536.
Proof.
  unfold conn_parse. pose proof (parse_frame_bounds buf) as B.
  destruct (parse_frame buf) as [m n|id n| | |]; try discriminate.
  - destruct (len buf <? n); discriminate.
  - destruct (N.ltb_spec (len buf) n); [|discriminate]. destruct Conn_skip_needs_body; [intros _; lia | discriminate].
  - intros _. exact B.
Qed.

(* a delivered or skipped message always consumes at least the four length bytes: the loop makes progress *)
Theorem conn_parse_progress buf : match conn_parse buf with
                                  | PDeliver _ rest | PSkip rest => len rest < len buf
                                  | _ => True
                                  end.
Proof.
  unfold conn_parse. pose proof (parse_frame_bounds buf) as B.
  destruct (parse_frame buf) as [m n|id n| | |]; try exact I.
  - destruct (N.ltb_spec (len buf) n); [exact I|]. unfold len in *. rewrite skipn_length. lia.
  - destruct (N.ltb_spec (len buf) n); [destruct Conn_skip_needs_body; exact I|]. unfold len in *. rewrite skipn_length. lia.
Qed.
