"""debug: run a mgr-based property, print the first K-failing case with per-step k_step / oracle values"""
import sys, os, random, importlib
sys.path.insert(0, os.path.join(os.path.dirname(__file__), "props")); sys.path.insert(0, os.path.dirname(__file__))
import vlib, driver
pid = sys.argv[1]; which = pid[1:]
bit = int(sys.argv[2]) if len(sys.argv) > 2 else 1
prop = importlib.import_module(pid.lower()).PROP
prop.known_classes = set()
rng = random.Random(1 * 1000003 + sum(map(ord, pid)))
cases = prop.corpus() + prop.gen(rng, "quick")
ok, out, binp = vlib.build_harness()
r = driver.run_correspondence(prop, binp, cases, "dbg")
bad = [c for c in cases if c.code is not None and c.code & bit]
print(len(bad), "cases with bit", bit, r["error"])
if bad:
    c = min(bad, key=lambda c: len(c.line))
    print(c.line)
    outs = c.out.split(" ; ")
    term = c.term
    hdr = prop.coq_header
    t = ("match (%s) with CMgr prod init steps => (fix go prev prx ss := match ss with [] => [] | s :: r => "
         "(k_step prev s, o12_step prev prx s, o13_step prev s, o14_step prev s) :: go (s_state s) (s_rx s) r end) init [] steps end") % term
    res = vlib.eval_terms(pid, hdr, [t])[0]
    import re
    tup = re.findall(r"\((true|false), (true|false), (true|false), (true|false)\)", res)
    ops = [x.strip() for x in c.line.split(";")][1:]
    for i, tp in enumerate(tup):
        if "false" in tp:
            print("step", i, ops[i][:150] if i < len(ops) else "?", "k/o12/o13/o14 =", tp)
            print("   prev:", outs[i - 1][:700] if i else "-")
            print("   this:", outs[i][:700])
