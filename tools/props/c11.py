"""C11 — the client never advertises a piece it has not verified (connection-task side + manager side)."""
from hndbase import *


def announce_scenario(rng, n, plens, outgoing):
    ev, init = greet(rng, outgoing, n)
    if outgoing and rng.random() < 0.5:
        # pieces completed on other connections while the remote's handshake is still awaited (we dialled: our
        # handshake and bitfield are already out, so these must be announced later, not dropped)
        pre = [ev_bhave(rng.randrange(n)) for _ in range(rng.choice([1, 2, 3]))]
        if rng.random() < 0.3:
            pre.append(ev_bown(rng.choice([True, False])))
        ev = ev[:1] + pre + ev[1:]
    for _ in range(rng.choice([4, 8, 14])):
        r = rng.random()
        if r < 0.4:
            ev.append(ev_bhave(rng.randrange(n), **random_policy(rng, n, plens)))
        elif r < 0.6:
            ev.append(ev_msg(UNCHOKE, **random_policy(rng, n, plens)))
        elif r < 0.75:
            ev.append(ev_msg(CHOKE))
        elif r < 0.8:
            ev.append(ev_bown(rng.choice([True, False])))
        else:
            ev.append(ev_msg(random_peer_msg(rng, n, plens), **random_policy(rng, n, plens)))
    return split_events(rng, ev, 0.08)


class C11(HndBase):
    id = "C11"
    proof_target = "Props/C11.vo"
    theorems = ["C11_bitfield", "C11_broadcast", "C11_owned_is_broadcast", "C11_have_stays", "C11_actions", "C11_held_back", "C11_sent_at_once", "C11_flush", "C11_announcements_complete"]
    coq_header = ("From Rdest Require Import Base Consts Wire Manager Handler Corr.Hnd.\nOpen Scope N_scope.\n"
                  "Definition codes := codes11.\n")
    rule = ("interleavings of SendHave broadcasts (piece completions on other connections) with handshakes, chokes and "
            "unchokes on this one, on the real PeerHandler; the bitfield written after the handshake must be exactly the "
            "manager's verified set, Have frames must be exactly the broadcasts processed, held back while the peer chokes "
            "us and flushed in order at its unchoke. Non-trivial: histories with at least one broadcast; distinct lines.")
    statement_status = "see Props/C11.v"

    def corpus(self):
        import random
        rng = random.Random(3)
        e = greet(rng, False, 3, init_bits="101")[0] + [ev_bhave(1), ev_bhave(2), ev_msg(UNCHOKE), ev_bhave(0), ev_msg(CHOKE), ev_bhave(1), ev_msg(UNCHOKE)]
        return [self.case(Scenario(False, [5, 5, 3], 21, e, "corpus"))]

    def gen(self, rng, tier):
        k = {"quick": 250, "thorough": 5000, "search": 1200}.get(tier, 250)
        cases = []
        for _ in range(k):
            n = rng.choice([1, 3, 9])
            plens = [rng.choice([1, 5, 9]) for _ in range(n)]
            outgoing = rng.random() < 0.5
            cases.append(self.case(Scenario(outgoing, plens, rng.randrange(1, 10 ** 6), announce_scenario(rng, n, plens, outgoing), "announce")))
        return cases


from mgrbase import MgrBase, protocol_scenario


class C11Mgr(MgrBase):
    """manager side of C11: the Have broadcast to the established connections happens exactly when a piece becomes owned
    (or is completed again) -- completions after a choke or after the other end-game holder left included; the bitfield
    given to a new connection is the owned set"""
    id = "C11"
    coq_header = ("From Rdest Require Import Base Consts Wire Manager Corr.Mgr.\nOpen Scope N_scope.\n"
                  "Definition codes := codes11m.\n")
    rule = ""

    def corpus(self):
        # completion after the peer choked us (piece back to Missing meanwhile); completion after the other end-game
        # holder was killed
        a = ["add 1", "init 1", "bf 1 11", "unchoke 1", "choke 1", "done 1"]
        b = ["add 1", "init 1", "bf 1 11", "add 2", "init 2", "bf 2 11", "unchoke 1", "unchoke 2", "done 1", "kill 1", "done 2"]
        return [self.mk("prod", 2, 4, 7, a, "announce-mgr"), self.mk("prod", 2, 4, 7, b, "announce-mgr")]

    def gen(self, rng, tier):
        k = {"quick": 200, "thorough": 5000, "search": 1200}.get(tier, 200)
        w = {"unchoke": 5, "choke": 4, "have": 1, "done": 9, "cancel": 1, "kill": 2, "join": 2, "bf": 1, "nint": 1, "tresp": 2, "accept": 2}
        cases = []
        for _ in range(k):
            n = rng.choice([1, 2, 2, 3, 4])
            pl = 4
            total = pl * n - rng.randrange(0, pl)
            ops = protocol_scenario(rng, rng.choice([2, 2, 3]), n, rng.choice([10, 16, 24]), weights=w)
            cases.append(self.mk("prod", n, pl, total, ops, "announce-mgr"))
        return cases


PROP = C11()
PROP.parts = [PROP, C11Mgr()]
