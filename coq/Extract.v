(* Extract.v — executable mirror of src/extractor.rs::extract_files and of the
   path handling in Metainfo::file_piece_ranges (PathBuf::from / join), plus the
   lexical path notions used by C04.  Models only. *)
From Rdest Require Export Base BCodec Metainfo.
Open Scope N_scope.

(* ---- PathBuf::join (Unix) --------------------------------------------------- *)
Definition slash : N := 47.
Definition is_abs (p : bytes) : bool := match p with c :: _ => c =? slash | [] => false end.
Definition ends_with_slash (p : bytes) : bool :=
  match rev p with c :: _ => c =? slash | [] => false end.
(* dir.join(p): an absolute p replaces dir; a separator is added unless dir is empty or ends with one *)
Definition join (dir p : bytes) : bytes :=
  if is_abs p then p
  else match dir with
       | [] => p
       | _ => if ends_with_slash dir then dir ++ p else dir ++ [slash] ++ p
       end.

Definition dir_of (m : metainfo) : bytes :=
  if 1 <? len (m_files m) then m_name m else [].
Definition out_path (m : metainfo) (f : file) : bytes := join (dir_of m) (f_path f).

(* components: split at '/', as Path::components sees them (empty and "." are skipped by std,
   ".." is ParentDir, a leading '/' is RootDir) *)
Fixpoint split_go (cur : bytes) (p : bytes) : list bytes :=
  match p with
  | [] => [rev cur]
  | c :: r => if c =? slash then rev cur :: split_go [] r else split_go (c :: cur) r
  end.
Definition split_path (p : bytes) : list bytes := split_go [] p.
Definition dotdot : bytes := [46; 46].
Definition dot : bytes := [46].

(* the check added by the repair of src/metainfo.rs: only Normal / CurDir components *)
Definition safe_path (p : bytes) : bool :=
  negb (is_abs p) && negb (existsb (bytes_eqb dotdot) (split_path p)).

(* lexical depth walk: Some final depth if the path never climbs above its start *)
Fixpoint walk (depth : nat) (cs : list bytes) : option nat :=
  match cs with
  | [] => Some depth
  | c :: r =>
      if bytes_eqb c dotdot then match depth with O => None | S d => walk d r end
      else if bytes_eqb c dot || bytes_eqb c [] then walk depth r
      else walk (S depth) r
  end.
(* a relative path that stays inside the directory it is resolved in *)
Definition inside (p : bytes) : bool :=
  negb (is_abs p) && match walk 0 (split_path p) with Some _ => true | None => false end.

(* ---- extract_files ------------------------------------------------------------ *)
(* Repair flag: the "last chunk" read starts at the file's own offset when the file
   begins in that same piece (pinned code: always from byte 0 of the piece). *)
Definition Extractor_tail_from_start : bool := true.

Section Ex.
  Variable tail_fix : bool.
  Variable store : bytes -> option bytes.     (* piece file "<HEX of hash>.piece" *)

  Definition open_piece (m : metainfo) (i : N) : result bytes :=
    do h <- piece m i;                         (* self.metainfo.piece(i): index panic *)
    match store h with Some d => Ok d | None => Err end.

  (* for piece_index in start.file_index..end.file_index *)
  Fixpoint loop_go (m : metainfo) (s : piece_pos) (fuel : nat) (i e : N) : result bytes :=
    if e <=? i then Ok [] else
    match fuel with
    | O => OutOfFuel
    | S fuel' =>
        do d <- open_piece m i;
        let part := if i =? file_index s then skipn (N.to_nat (byte_index s)) d else d in
        do rest <- loop_go m s fuel' (i + 1) e;
        Ok (part ++ rest)
    end.

  Definition tail_chunk (m : metainfo) (s e : piece_pos) : result bytes :=
    if 0 <? byte_index e then
      do d <- open_piece m (file_index e);
      let skip := if tail_fix && (file_index s =? file_index e) then byte_index s else 0 in
      (* skip <= byte_index e always (positions are monotone); usize subtraction otherwise panics *)
      if byte_index e <? skip then Panic else
      let want := byte_index e - skip in
      let avail := skipn (N.to_nat skip) d in
      if len avail <? want then Err            (* read_exact: UnexpectedEof *)
      else Ok (firstn (N.to_nat want) avail)
    else Ok [].

  Definition extract_one (m : metainfo) (s e : piece_pos) : result bytes :=
    do a <- loop_go m s (S (length (m_pieces m))) (file_index s) (file_index e);
    do b <- tail_chunk m s e;
    Ok (a ++ b).

  Fixpoint extract_go (m : metainfo) (rs : list (bytes * piece_pos * piece_pos)) (fs : list file)
    : result (list (bytes * bytes)) :=
    match rs, fs with
    | (_, s, e) :: rs', f :: fs' =>
        do d <- extract_one m s e;
        do rest <- extract_go m rs' fs';
        Ok ((out_path m f, d) :: rest)
    | _, _ => Ok []
    end.

  (* the list of (path, content) writes of a successful extraction, in file order *)
  Definition extract (ovf : bool) (m : metainfo) : result (list (bytes * bytes)) :=
    do rs <- file_piece_ranges ovf m;
    extract_go m rs (m_files m).
End Ex.

(* the piece store the harness builds: piece i holds content[i*pl .. (i+1)*pl) clipped *)
Definition piece_data (content : bytes) (pl i : N) : bytes := slice content (i * pl) pl.
Fixpoint store_find (content : bytes) (pl : N) (hs : list bytes) (i : N) (h : bytes) : option bytes :=
  match hs with
  | [] => None
  | h' :: r => match store_find content pl r (i + 1) h with      (* later pieces overwrite earlier files *)
               | Some d => Some d
               | None => if bytes_eqb h h' then Some (piece_data content pl i) else None
               end
  end.
Definition store_of (m : metainfo) (content : bytes) (pl : N) : bytes -> option bytes :=
  store_find content pl (m_pieces m) 0.
