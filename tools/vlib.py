"""Shared machinery of the checks: build steps, the correspondence run, the
verdict logic of DESIGN.md 1.4, evidence and replay files."""
import fcntl, hashlib, json, os, random, re, shutil, subprocess, sys, time

VERIF = os.path.dirname(os.path.dirname(os.path.abspath(__file__)))
REPO = os.environ.get("VERIF_REPO", "/repo")
BUILD = os.path.join(VERIF, ".build")
COQ = os.path.join(VERIF, "coq")
CARGO_TARGET = os.path.join(BUILD, "cargo")
NPROC = min(16, os.cpu_count() or 4)
# parallel coqc processes contend badly in this VM beyond ~4 (kernel time explodes)
NPROC_COQ = int(os.environ.get("VERIF_COQ_JOBS", "4"))

GATE_RE = re.compile(r"\b(Admitted|admit|Axiom|Axioms|Parameter|Parameters|Conjecture|Conjectures|"
                     r"Unset\s+Guard|bypass_check|Admit\s+Obligations)\b|type-in-type|impredicative-set")

ENV = dict(os.environ, CARGO_NET_OFFLINE="true", CARGO_TARGET_DIR=CARGO_TARGET)


def log(*a):
    print(*a, flush=True)


class Lock:
    def __init__(self, name="lock"):
        os.makedirs(BUILD, exist_ok=True)
        self.path = os.path.join(BUILD, name)

    def __enter__(self):
        self.f = open(self.path, "w")
        fcntl.flock(self.f, fcntl.LOCK_EX)

    def __exit__(self, *a):
        fcntl.flock(self.f, fcntl.LOCK_UN)
        self.f.close()


def big_stack():
    import resource
    try:
        resource.setrlimit(resource.RLIMIT_STACK, (resource.RLIM_INFINITY, resource.RLIM_INFINITY))
    except Exception:
        pass


def run(cmd, timeout, cwd=None, env=None, stdin=None):
    """Run a command; returns (rc, output). rc = 124 on timeout."""
    try:
        p = subprocess.run(cmd, cwd=cwd, env=env or ENV, stdout=subprocess.PIPE, stderr=subprocess.STDOUT,
                           timeout=timeout, input=stdin)
        return p.returncode, p.stdout.decode("utf-8", "replace")
    except subprocess.TimeoutExpired as e:
        out = (e.stdout or b"").decode("utf-8", "replace")
        return 124, out + "\n[timeout after %ss]" % timeout


# ------------------------------------------------------------------ Coq side

def gen_consts():
    rc, out = run([sys.executable, os.path.join(VERIF, "tools", "gen_consts.py"),
                   os.path.join(COQ, "Consts.v"), os.path.join(BUILD, "consts.json")], 60)
    # rc 3: only the function map is out of date; Consts.v / Shape.v were written and the models can still be built
    global CONSTS_USABLE
    CONSTS_USABLE = rc in (0, 3)
    return rc == 0, out.strip()


CONSTS_USABLE = True


def grep_gate():
    bad = []
    for root, _, files in os.walk(COQ):
        for f in files:
            if f.endswith(".v") and f != "Consts.v":
                p = os.path.join(root, f)
                txt = open(p).read()
                txt = re.sub(r"\(\*.*?\*\)", "", txt, flags=re.S)
                for i, line in enumerate(txt.split("\n")):
                    if GATE_RE.search(line):
                        bad.append("%s:%d: %s" % (os.path.relpath(p, VERIF), i + 1, line.strip()))
    return bad


def coq_makefile():
    mk = os.path.join(COQ, "Makefile")
    proj = os.path.join(COQ, "_CoqProject")
    if not os.path.exists(mk) or os.path.getmtime(mk) < os.path.getmtime(proj):
        rc, out = run(["coq_makefile", "-f", "_CoqProject", "-o", "Makefile"], 60, cwd=COQ)
        if rc != 0:
            return False, out
    return True, ""


def coq_make(targets, timeout=1500):
    ok, out = coq_makefile()
    if not ok:
        return False, out
    rc, out = run(["make", "-j%d" % (NPROC_COQ + 2)] + targets, timeout, cwd=COQ)
    return rc == 0, out


def print_assumptions(prop_id, theorems, timeout=300):
    """Returns (ok, {theorem: [axioms]}, raw)."""
    d = os.path.join(BUILD, "pa")
    os.makedirs(d, exist_ok=True)
    f = os.path.join(d, "PA_%s.v" % prop_id)
    with open(f, "w") as fh:
        fh.write("From Rdest Require Import Props.%s.\n" % prop_id)
        for t in theorems:
            fh.write('Goal True. idtac "@@%s". Abort.\nPrint Assumptions %s.\n' % (t, t))
    rc, out = run(["coqc", "-noglob", "-Q", COQ, "Rdest", f], timeout, cwd=d)
    if rc != 0:
        return False, {}, out
    res = {}
    cur = None
    for line in out.split("\n"):
        if line.startswith("@@"):
            cur = line[2:].strip()
            res[cur] = []
        elif cur is not None:
            if "Closed under the global context" in line:
                continue
            m = re.match(r"^([A-Za-z_][\w.']*)\s*:", line)
            if m and m.group(1) != "Axioms":
                res[cur].append(m.group(1))
    return True, res, out


def eval_cases(prop_id, header, case_terms, timeout=900, chunk=None):
    """Evaluate `codes cases` inside Coq for a list of Gallina case terms.
    header: Coq text that imports the Corr module defining `codes : list case -> list N`.
    Returns (ok, [int codes], raw-output-on-failure)."""
    d = os.path.join(BUILD, "cases", prop_id)
    shutil.rmtree(d, ignore_errors=True)
    os.makedirs(d, exist_ok=True)
    n = len(case_terms)
    if n == 0:
        return True, [], ""
    if chunk is None:
        chunk = max(1, min(400, (n + NPROC_COQ - 1) // NPROC_COQ))
    shards = [case_terms[i:i + chunk] for i in range(0, n, chunk)]
    procs = []
    results = [None] * len(shards)
    raw_fail = ""

    def start(k):
        f = os.path.join(d, "cases_%d.v" % k)
        with open(f, "w") as fh:
            fh.write("From Coq Require Import String Uint63.\nFrom Rdest Require Import Pack.\n" + header + "\n")
            fh.write("Definition cases := [\n" + ";\n".join(shards[k]) + "\n].\n")
            fh.write("Eval vm_compute in (codes cases).\n")
        return subprocess.Popen(["coqc", "-noglob", "-Q", COQ, "Rdest", f], cwd=d, preexec_fn=big_stack,
                                stdout=open(f + ".out", "w"), stderr=subprocess.STDOUT)

    pending = list(range(len(shards)))
    running = {}
    t0 = time.time()
    while pending or running:
        while pending and len(running) < NPROC_COQ:
            k = pending.pop(0)
            running[k] = start(k)
        for k, p in list(running.items()):
            if p.poll() is not None:
                out = open(os.path.join(d, "cases_%d.v.out" % k), errors="replace").read()
                del running[k]
                if p.returncode != 0:
                    raw_fail += "shard %d: %s\n" % (k, out[-2000:])
                    results[k] = None
                else:
                    m = re.search(r"=\s*\[(.*?)\]\s*:\s*list N", out, re.S)
                    if not m:
                        raw_fail += "shard %d: unparsable output %s\n" % (k, out[-2000:])
                    else:
                        body = m.group(1).strip()
                        vals = [int(x) for x in re.split(r"[;\s]+", body) if x] if body else []
                        if len(vals) != len(shards[k]):
                            raw_fail += "shard %d: %d codes for %d cases\n" % (k, len(vals), len(shards[k]))
                        else:
                            results[k] = vals
        if time.time() - t0 > timeout:
            for p in running.values():
                p.kill()
            return False, [], raw_fail + "[timeout evaluating cases]"
        time.sleep(0.02)
    if raw_fail:
        return False, [], raw_fail
    codes = []
    for r in results:
        codes.extend(r)
    return True, codes, ""


def eval_terms(prop_id, header, terms, timeout=300):
    """Print the vm_compute value of each Gallina term (for replay files)."""
    d = os.path.join(BUILD, "cases", prop_id)
    os.makedirs(d, exist_ok=True)
    f = os.path.join(d, "show.v")
    with open(f, "w") as fh:
        fh.write("From Coq Require Import String Uint63.\nFrom Rdest Require Import Pack.\n" + header + "\n")
        for i, t in enumerate(terms):
            fh.write('Goal True. idtac "@@%d". Abort.\nEval vm_compute in (%s).\n' % (i, t))
    rc, out = run(["coqc", "-noglob", "-Q", COQ, "Rdest", f], timeout, cwd=d)
    res = {}
    cur = None
    for line in out.split("\n"):
        if line.startswith("@@"):
            cur = int(line[2:])
            res[cur] = ""
        elif cur is not None:
            res[cur] += line + "\n"
    return [re.sub(r"\s+", " ", res.get(i, "?")).strip()[:4000] for i in range(len(terms))]


# ------------------------------------------------------------------ Rust side

def build_harness(release=False, timeout=1500):
    hd = os.path.join(VERIF, "harness")
    lock_src = os.path.join(REPO, "Cargo.lock")
    lock_dst = os.path.join(hd, "Cargo.lock")
    if not os.path.exists(lock_dst) and os.path.exists(lock_src):
        shutil.copy(lock_src, lock_dst)
    cmd = ["cargo", "build", "--offline", "--quiet"] + (["--release"] if release else [])
    env = dict(ENV, RUSTFLAGS="-Awarnings")
    rc, out = run(cmd, timeout, cwd=hd, env=env)
    binp = os.path.join(CARGO_TARGET, "release" if release else "debug", "harness")
    return rc == 0 and os.path.exists(binp), out, binp


def run_harness(binp, sub, lines, timeout=900, shards=None, cwd=None, extra_args=(), isolate=False):
    """Feed case lines to the harness (sharded over processes); returns list of output lines
    (one per input line) or raises RuntimeError.  isolate: one process per line, an abnormal exit
    (stack exhaustion aborts the process; catch_unwind cannot catch that) is reported as the line CRASH."""
    d = os.path.join(BUILD, "hin", sub + ("_iso" if isolate else ""))
    shutil.rmtree(d, ignore_errors=True)
    os.makedirs(d, exist_ok=True)
    n = len(lines)
    if n == 0:
        return []
    if isolate:
        outs = []
        t0 = time.time()
        for base in range(0, n, NPROC):
            procs = []
            for k in range(base, min(n, base + NPROC)):
                f = os.path.join(d, "in_%d.txt" % k)
                with open(f, "w") as fh:
                    fh.write(lines[k] + "\n")
                procs.append(subprocess.Popen([binp, sub, f] + list(extra_args), stdout=subprocess.PIPE,
                                              stderr=subprocess.DEVNULL, cwd=cwd or d, env=ENV))
            for p in procs:
                try:
                    out, _ = p.communicate(timeout=max(1, timeout - (time.time() - t0)))
                except subprocess.TimeoutExpired:
                    for q in procs:
                        q.kill()
                    raise RuntimeError("harness timeout")
                o = out.decode("utf-8", "replace").split("\n")
                outs.append(o[0] if p.returncode == 0 and o and o[0] else "CRASH")
        return outs
    if shards is None:
        shards = min(NPROC, max(1, n // 200))
    size = (n + shards - 1) // shards
    parts = [lines[i:i + size] for i in range(0, n, size)]
    procs = []
    for k, part in enumerate(parts):
        f = os.path.join(d, "in_%d.txt" % k)
        with open(f, "w") as fh:
            fh.write("\n".join(part) + "\n")
        procs.append(subprocess.Popen([binp, sub, f] + list(extra_args), stdout=subprocess.PIPE, stderr=subprocess.PIPE,
                                      cwd=cwd or d, env=ENV))
    out_lines = []
    t0 = time.time()
    for k, p in enumerate(procs):
        try:
            out, err = p.communicate(timeout=max(1, timeout - (time.time() - t0)))
        except subprocess.TimeoutExpired:
            for q in procs:
                q.kill()
            raise RuntimeError("harness timeout")
        o = out.decode("utf-8", "replace").split("\n")
        if o and o[-1] == "":
            o.pop()
        if p.returncode != 0 or len(o) != len(parts[k]):
            raise RuntimeError("harness shard %d: rc=%s, %d lines for %d cases; stderr: %s" %
                               (k, p.returncode, len(o), len(parts[k]), err.decode("utf-8", "replace")[-1500:]))
        out_lines.extend(o)
    return out_lines


# ------------------------------------------------------------------ Gallina literals

def prand(seed, n):
    """Same LCG as Base.prand / harness util::prand."""
    out = bytearray()
    x = seed
    for _ in range(n):
        x = (x * 1103515245 + 12345) % 2147483648
        out.append((x >> 16) & 255)
    return bytes(out)


class Blob:
    """A large payload named by (seed, length)."""
    def __init__(self, seed, n):
        self.seed, self.n = seed, n
        self.data = prand(seed, n)
        self.term = "(prand %d%%uint63 %d)" % (seed, n)
        self.arg = "@%d:%d" % (seed, n)


def coq_bytes(b, blobs=()):
    """bytes -> Gallina term of type list N.  Large known payloads (blobs) occurring in b
    are referred to by their generator, the rest is spelled as a hex string."""
    b = bytes(b)
    for bl in blobs:
        if bl.n >= 16:
            i = b.find(bl.data)
            if i >= 0:
                parts = [coq_bytes(b[:i], blobs), bl.term, coq_bytes(b[i + bl.n:], blobs)]
                parts = [p for p in parts if p != "[]"]
                return "(" + " ++ ".join(parts) + ")" if len(parts) > 1 else parts[0]
    if len(b) == 0:
        return "[]"
    if len(b) <= 6:
        return "[" + "; ".join(str(x) for x in b) + "]"
    ints = [int.from_bytes(b[i:i + 7].ljust(7, b"\0"), "big") for i in range(0, len(b), 7)]
    return "(pk %d [%s]%%uint63)" % (len(b), ";".join(map(str, ints)))


def coq_bools(bits):
    if len(bits) <= 6:
        return "[" + "; ".join("true" if b else "false" for b in bits) + "]"
    by = bytearray((len(bits) + 7) // 8)
    for i, b in enumerate(bits):
        if b:
            by[i // 8] |= 128 >> (i % 8)
    ints = [int.from_bytes(bytes(by[i:i + 7]).ljust(7, b"\0"), "big") for i in range(0, len(by), 7)]
    return "(pkb %d [%s]%%uint63)" % (len(bits), ";".join(map(str, ints)))


def coq_list(xs):
    return "[" + "; ".join(xs) + "]"


def coq_opt(x):
    return "None" if x is None else "(Some %s)" % x


# ------------------------------------------------------------------ findings, evidence

def load_known(prop_id):
    p = os.path.join(VERIF, "known_findings.json")
    if not os.path.exists(p):
        return []
    data = json.load(open(p))
    return [e for e in data.get("findings", []) if e.get("property") == prop_id and e.get("status") == "known"]


def write_replay(prop_id, payload):
    d = os.path.join(VERIF, "replays")
    os.makedirs(d, exist_ok=True)
    h = hashlib.sha1(json.dumps(payload, sort_keys=True, default=str).encode()).hexdigest()[:10]
    p = os.path.join(d, "%s-%s.json" % (prop_id, h))
    with open(p, "w") as f:
        json.dump(payload, f, indent=1, default=str)
    return p


def write_evidence(prop_id, ev):
    d = os.path.join(VERIF, "evidence")
    os.makedirs(d, exist_ok=True)
    with open(os.path.join(d, "%s.json" % prop_id), "w") as f:
        json.dump(ev, f, indent=1, default=str)


TRUSTED_BASE = [
    "Coq 8.16.1 kernel (coqc; vm_compute used in finite sweeps and witness lemmas; no native_compute)",
    "axioms: none (every property theorem is 'Closed under the global context'; checked by Print Assumptions on every run)",
    "tools/gen_consts.py (constant translator, regenerates coq/Consts.v from /repo on every run)",
    "correspondence check: tools/ generators, harness/ (Rust, catch_unwind, canonical printing), in-Coq evaluation of the model and the spec oracle on the implementation's outputs (coq/Corr/*.v)",
    "hooks in /repo behind cargo feature 'verif' (add-only)",
    "modelled rather than verified: rdest's Rust code is mirrored by hand-written Gallina; the tie is constants-by-translation plus differential execution",
]
