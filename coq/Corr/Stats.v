(* Correspondence for the transfer statistics (part of C02's "no surviving connection crashes" and the source of the
   measured rates of C14): operation sequences on the real Stats through the hook PeerHandler::verif_stats_run. *)
From Rdest Require Import Base Consts Stats.
Open Scope N_scope.

Definition report := (option N * option N * N)%type.
Inductive case := CStats (ovf : bool) (ops : list sop) (impl : option (list report)).   (* None: the implementation panicked *)

Definition optN_eqb (a b : option N) : bool :=
  match a, b with Some x, Some y => x =? y | None, None => true | _, _ => false end.
Definition report_eqb (a b : report) : bool :=
  optN_eqb (fst (fst a)) (fst (fst b)) && optN_eqb (snd (fst a)) (snd (fst b)) && (snd a =? snd b).

(* independent oracle: per-interval byte totals in unbounded arithmetic; from the second tick on every tick reports
   the mean of the last two intervals (clamped to u32) and the unexpected blocks of the current interval *)
Fixpoint expected (ops : list sop) (prev_d prev_u : option N) (cur_d cur_u cur_x : N) : list report :=
  match ops with
  | [] => []
  | SDown x :: r => expected r prev_d prev_u (cur_d + x) cur_u cur_x
  | SUp x :: r => expected r prev_d prev_u cur_d (cur_u + x) cur_x
  | SUnexpected :: r => expected r prev_d prev_u cur_d cur_u (cur_x + 1)
  | STick :: r =>
      let rep := match prev_d, prev_u with
                 | Some pd, Some pu => [(Some (N.min ((pd + cur_d) / 2) (two32 - 1)), Some (N.min ((pu + cur_u) / 2) (two32 - 1)), cur_x)]
                 | _, _ => []
                 end in
      rep ++ expected r (Some cur_d) (Some cur_u) 0 0 0
  end.

(* the counters fit u64 in every interval (16 EiB in ten seconds is outside what a connection can deliver: beyond it
   only agreement with the model is asked, not absence of the arithmetic-overflow panic of the counter itself) *)
Fixpoint fitsb (ops : list sop) (cur_d cur_u cur_x : N) : bool :=
  match ops with
  | [] => true
  | SDown x :: r => (cur_d + x <? two64s) && fitsb r (cur_d + x) cur_u cur_x
  | SUp x :: r => (cur_u + x <? two64s) && fitsb r cur_d (cur_u + x) cur_x
  | SUnexpected :: r => (cur_x + 1 <? two64s) && fitsb r cur_d cur_u (cur_x + 1)
  | STick :: r => fitsb r 0 0 0
  end.

Definition code (c : case) : N :=
  match c with
  | CStats ovf ops impl =>
      let k := match srun ovf stats_new ops [], impl with
               | Ok m, Some i => list_eqb report_eqb m i
               | Panic, None => true
               | _, _ => false
               end in
      let o := negb (fitsb ops 0 0 0) ||
               match impl with
               | Some i => list_eqb report_eqb (expected ops None None 0 0 0) i
               | None => false
               end in
      (if k then 0 else 1) + (if o then 0 else 2)
  end.
Definition codes (cs : list case) : list N := map code cs.
