//! Metainfo::from_bencode + accessors, DeepFinder::find_first (C05, C17), create_file.
use crate::util::*;
use rdest::{DeepFinder, Metainfo, RawFinder};

fn acc<T>(f: impl FnOnce() -> T, show: impl FnOnce(T) -> String) -> String {
    match guarded(f) {
        Some(v) => show(v),
        None => "PANIC".to_string(),
    }
}

pub fn meta_line(doc: &[u8]) -> String {
    let r = guarded(|| Metainfo::from_bencode(doc));
    let m = match r {
        None => return "PANIC".to_string(),
        Some(Err(_)) => return "ERR".to_string(),
        Some(Ok(m)) => m,
    };
    let n = m.pieces_num();
    let mut idx: Vec<usize> = vec![];
    for i in [0usize, 1, 2, n.wrapping_sub(2), n.wrapping_sub(1)] {
        if i < n && !idx.contains(&i) {
            idx.push(i);
        }
    }
    let ff = match guarded(|| DeepFinder::find_first("4:info", doc)) {
        None => "PANIC".to_string(),
        Some(None) => "NONE".to_string(),
        Some(Some(v)) => hex(&v),
    };
    let pieces: Vec<String> = idx
        .iter()
        .map(|&i| format!("{}:{}", i, acc(|| *m.piece(i), |h| hex(&h))))
        .collect();
    let plens: Vec<String> = idx
        .iter()
        .map(|&i| format!("{}:{}", i, acc(|| m.piece_length(i), |l| l.to_string())))
        .collect();
    let total = acc(|| m.total_length(), |t| t.to_string());
    let ranges = acc(
        || m.file_piece_ranges(),
        |rs| {
            let v: Vec<String> = rs
                .iter()
                .map(|(p, s, e)| {
                    format!(
                        "{}/{}/{}/{}/{}",
                        hex(p.to_string_lossy().as_bytes()),
                        s.file_index,
                        s.byte_index,
                        e.file_index,
                        e.byte_index
                    )
                })
                .collect();
            if v.is_empty() {
                "-".to_string()
            } else {
                v.join(",")
            }
        },
    );
    // the files as stored are only observable through ranges/total; name and url directly
    format!(
        "OK url={} n={} hash={} ff={} piece={} plen={} total={} ranges={}",
        hex(m.tracker_url().as_bytes()),
        n,
        hex(m.info_hash()),
        ff,
        if pieces.is_empty() { "-".to_string() } else { pieces.join(",") },
        if plens.is_empty() { "-".to_string() } else { plens.join(",") },
        total,
        ranges
    )
}

pub fn run(lines: &[String]) {
    for line in lines {
        let mut t = line.split_whitespace();
        match t.next() {
            Some("meta") => println!("{}", meta_line(&unhex(t.next().unwrap()))),
            Some("find") => {
                let doc = unhex(t.next().unwrap());
                println!(
                    "{}",
                    match guarded(|| DeepFinder::find_first("4:info", &doc)) {
                        None => "PANIC".to_string(),
                        Some(None) => "NONE".to_string(),
                        Some(Some(v)) => format!("SOME {}", hex(&v)),
                    }
                )
            }
            // create <name hex> <tracker hex> <content>: runs create_file in a scratch dir, prints the torrent
            Some("create") => {
                let name = String::from_utf8(unhex(t.next().unwrap())).unwrap();
                let tracker = String::from_utf8(unhex(t.next().unwrap())).unwrap();
                let data = unhex(t.next().unwrap());
                let dir = std::env::temp_dir().join(format!("rdest-verif-create-{}", std::process::id()));
                let _ = std::fs::remove_dir_all(&dir);
                std::fs::create_dir_all(&dir).unwrap();
                let cwd = std::env::current_dir().unwrap();
                std::env::set_current_dir(&dir).unwrap();
                std::fs::write(&name, &data).unwrap();
                let r = guarded(|| Metainfo::create_file(std::path::Path::new(&name), &tracker));
                let out = match r {
                    None => "PANIC".to_string(),
                    Some(Err(_)) => "ERR".to_string(),
                    Some(Ok(())) => match std::fs::read(format!("{}.torrent", name)) {
                        Ok(tor) => format!("TORRENT {} {}", hex(&tor), meta_line(&tor)),
                        Err(_) => "NOFILE".to_string(),
                    },
                };
                std::env::set_current_dir(cwd).unwrap();
                let _ = std::fs::remove_dir_all(&dir);
                println!("{}", out);
            }
            _ => panic!("bad case"),
        }
    }
}

pub fn run_resp(lines: &[String]) {
    use rdest::TrackerResp;
    for line in lines {
        let mut t = line.split_whitespace();
        match t.next() {
            Some("resp") => {
                let body = unhex(t.next().unwrap());
                let r = guarded(|| TrackerResp::from_bencode(&body).map(|r| r.peers()));
                println!(
                    "{}",
                    match r {
                        None => "PANIC".to_string(),
                        Some(Err(_)) => "ERR".to_string(),
                        Some(Ok(ps)) => {
                            let v: Vec<String> = ps.iter().map(|(a, id)| format!("{}/{}", hex(a.as_bytes()), hex(id))).collect();
                            format!("OK {}", if v.is_empty() { "-".to_string() } else { v.join(",") })
                        }
                    }
                )
            }
            Some("trk") => println!("{}", run_trk(line)),
            _ => panic!("bad case"),
        }
    }
}

/// C19 fault sequences: the real Session's tracker-command handling, with a scripted tracker task
/// (n failed announces one second apart, then a good reply) under the paused clock.
///   trk <n fails> <peers in the reply k,k,..|-> <peers already interested count>
/// output: per pumped command OK | BLOCKED, then " | " contacted peers, candidates left, spawns
pub fn run_trk(line: &str) -> String {
    use rdest::verif::TrackerCmd;
    use rdest::{Session, TrackerResp};
    let t: Vec<&str> = line.split_whitespace().collect();
    let n: usize = t[1].parse().unwrap();
    let peers: Vec<usize> = if t[2] == "-" { vec![] } else { t[2].split(',').map(|x| x.parse().unwrap()).collect() };
    let interested: usize = t[3].parse().unwrap();
    let with_kill = t.get(4).map(|x| *x == "kill").unwrap_or(false);
    // 'late': the manager is busy elsewhere and reads the tracker channel only after everything was queued
    let late = t.get(4).map(|x| *x == "late").unwrap_or(false);
    let rt = tokio::runtime::Builder::new_current_thread().enable_all().start_paused(true).build().unwrap();
    let r = guarded(|| {
        rt.block_on(async {
            let mut s = Session::new(crate::mgr::torrent(3, 4, 10), *b"XXXXXXXXXXXXXXXXXXXX");
            s.verif_record_spawns();
            for k in 0..interested {
                let a = format!("10.0.1.{}:6881", k + 1);
                s.verif_add_peer(&a, None);
                s.verif_peer_mut(&a).unwrap().am_interested = true;
            }
            let mut body = b"d8:intervali1800e5:peersl".to_vec();
            for k in &peers {
                let ip = format!("10.0.0.{}", k);
                body.extend_from_slice(format!("d2:ip{}:{}7:peer id20:AAAAAAAAAAAAAAAAAA{:02}4:porti6881ee", ip.len(), ip, k % 100).as_bytes());
            }
            body.extend_from_slice(b"ee");
            let resp = TrackerResp::from_bencode(&body).expect("reply must parse");
            let tx = s.verif_tracker_tx();
            // the tracker task, as TrackerClient::run: report each failure, wait, retry; report the reply, end
            let job = tokio::spawn(async move {
                for _ in 0..n {
                    if tx.send(TrackerCmd::Fail("x".to_string())).await.is_err() {
                        return;
                    }
                    tokio::time::sleep(std::time::Duration::from_millis(1000)).await;
                }
                let _ = tx.send(TrackerCmd::TrackerResp(resp)).await;
            });
            s.verif_set_tracker_job(job);
            let mut out = vec![];
            let mut kill = "-";
            // the manager's event loop, as far as the tracker channel goes: one command at a time; a manager that
            // does not come back within half a (virtual) second while the tracker keeps failing is blocked
            // command k (0-based) is sent at k seconds; a manager that is not blocked has handled it right then
            let t0 = tokio::time::Instant::now();
            if late {
                tokio::time::sleep(std::time::Duration::from_millis(1000 * n as u64 + 500)).await;
            }
            for k in 0..(n + 1) {
                let before = t0.elapsed().as_millis() as i64;
                match tokio::time::timeout(std::time::Duration::from_millis(3000), s.verif_pump_tracker()).await {
                    Ok(true) => {
                        let lateness = if late { t0.elapsed().as_millis() as i64 - before } else { t0.elapsed().as_millis() as i64 - 1000 * k as i64 };
                        out.push(if lateness.abs() < 100 { "OK" } else { "BLOCKED" });
                        if lateness.abs() >= 100 {
                            break;
                        }
                        // meanwhile the session keeps serving: a connection that ends while the tracker is still
                        // failing is handled at once (no candidates yet, so the manager asks for a new announce)
                        if k == 0 && n > 0 && with_kill {
                            use rdest::verif::PeerCmd;
                            s.verif_add_peer("10.0.2.1:6881", None);
                            let r = tokio::time::timeout(
                                std::time::Duration::from_millis(100),
                                s.verif_handle(PeerCmd::KillReq { addr: "10.0.2.1:6881".to_string(), reason: "x".to_string() }),
                            )
                            .await;
                            kill = if r.is_ok() { "OK" } else { "BLOCKED" };
                            if r.is_err() {
                                break;
                            }
                        }
                    }
                    Ok(false) => out.push("CLOSED"),
                    Err(_) => {
                        out.push("BLOCKED");
                        break;
                    }
                }
            }
            let mut contacted: Vec<usize> = s
                .verif_peer_addrs()
                .iter()
                .filter(|a| a.starts_with("10.0.0."))
                .map(|a| a.split(':').next().unwrap().rsplit('.').next().unwrap().parse().unwrap())
                .collect();
            contacted.sort();
            let cands: Vec<String> = s
                .verif_candidates()
                .iter()
                .map(|(a, _)| a.split(':').next().unwrap().rsplit('.').next().unwrap().to_string())
                .collect();
            format!(
                "{} | {} | {} | {}",
                out.join(","),
                if contacted.is_empty() { "-".to_string() } else { contacted.iter().map(|x| x.to_string()).collect::<Vec<_>>().join(",") },
                if cands.is_empty() { "-".to_string() } else { cands.join(",") },
                kill
            )
        })
    });
    r.unwrap_or("PANIC".to_string())
}
