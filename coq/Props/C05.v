(* C05 — the info-hash is the SHA-1 of the exact info value of the file.
   SHA-1 is uninterpreted: the model records the bytes that are hashed
   (m_hash_input); the harness checks hash = SHA-1(those bytes) with hashlib. *)
From Coq Require Import String.
From Rdest Require Import Base BCodec BGrammar BProofs DeepFinder Metainfo InfoSpec MetaProofs FinderProofs.
Open Scope N_scope.

(* FULL STATEMENT (false of the code, see the refutations below):
     forall doc m vs i, metainfo_of doc = Ok m -> decode doc = Ok vs ->
       selected_index doc vs 0 = Some i -> info_span doc i = Some (m_hash_input m).   *)

(* what is hashed is what DeepFinder::find_first("4:info") returns on the whole document *)
Theorem C05_hash_input : forall doc m, metainfo_of doc = Ok m ->
  find_first key_info_raw doc = Some (m_hash_input m).
Proof. intros doc m H. destruct (metainfo_faithful doc m H) as (vs & d & _ & _ & _ & HH). exact HH. Qed.

Definition hashed_span_ok (doc : bytes) : bool :=
  match metainfo_of doc, decode doc with
  | Ok m, Ok vs => match selected_index doc vs 0 with
                   | Some i => match info_span doc i with
                               | Some sp => bytes_eqb sp (m_hash_input m)
                               | None => false
                               end
                   | None => false
                   end
  | _, _ => false
  end.

(* the three known-finding classes, each with its witness (replayed on the
   implementation by the correspondence corpus) *)
Theorem C05_refuted_nested_info : is_ok (metainfo_of (hx "64313a6164343a696e666f69316565383a616e6e6f756e6365333a55524c343a696e666f64343a6e616d65313a6131323a7069656365206c656e677468693465363a70696563657332303a4141414141424242424243434343434444444444363a6c656e6774686935656565")) = true /\ hashed_span_ok (hx "64313a6164343a696e666f69316565383a616e6e6f756e6365333a55524c343a696e666f64343a6e616d65313a6131323a7069656365206c656e677468693465363a70696563657332303a4141414141424242424243434343434444444444363a6c656e6774686935656565") = false.
Proof. split; vm_compute; reflexivity. Qed.
Theorem C05_refuted_duplicate_info : is_ok (metainfo_of (hx "64383a616e6e6f756e6365333a55524c343a696e666f64343a6e616d65313a6131323a7069656365206c656e677468693465363a70696563657332303a4141414141424242424243434343434444444444363a6c656e67746869356565343a696e666f64343a6e616d65313a6231323a7069656365206c656e677468693465363a70696563657332303a4141414141424242424243434343434444444444363a6c656e6774686935656565")) = true /\ hashed_span_ok (hx "64383a616e6e6f756e6365333a55524c343a696e666f64343a6e616d65313a6131323a7069656365206c656e677468693465363a70696563657332303a4141414141424242424243434343434444444444363a6c656e67746869356565343a696e666f64343a6e616d65313a6231323a7069656365206c656e677468693465363a70696563657332303a4141414141424242424243434343434444444444363a6c656e6774686935656565") = false.
Proof. split; vm_compute; reflexivity. Qed.
Theorem C05_refuted_truncated : is_ok (metainfo_of (hx "64383a616e6e6f756e6365333a55524c343a696e666f64343a6e616d65313a6131323a7069656365206c656e677468693465363a70696563657332303a4141414141424242424243434343434444444444363a6c656e677468693565")) = true /\ hashed_span_ok (hx "64383a616e6e6f756e6365333a55524c343a696e666f64343a6e616d65313a6131323a7069656365206c656e677468693465363a70696563657332303a4141414141424242424243434343434444444444363a6c656e677468693565") = false.
Proof. split; vm_compute; reflexivity. Qed.

(* THE SCANNER, COMPLETELY: on every document that starts with a well-formed dictionary (any nesting depth, any
   key order, leading-zero lengths, anything after it) find_first returns exactly what the four-line search tfind_es
   returns on the document's entry tree -- the exact text of the value it stops at, byte for byte. *)
Theorem C05_search_spec : forall key es trailing, wf_es es ->
  match tfind_es key es with
  | Some x => find_first key (text_v (TDict es) ++ trailing) = Some x
  | None => trailing = [] -> find_first key (text_v (TDict es) ++ trailing) = None
  end.
Proof. exact find_first_spec. Qed.

(* OUTSIDE THE NESTED-KEY CLASS: for every document the strict grammar accepts as one dictionary and the client
   accepts as a torrent, if no entry before the first top-level "4:info" holds a dictionary containing that key at
   some depth, then what is hashed is exactly the text of the first top-level info value -- the exact span of the
   file.  (With a repeated top-level info key this is the first one, while the decoder keeps the last: the
   duplicate-info finding; a truncated tail is not a well-formed document: the truncated-tail finding.) *)
Theorem C05_exact_span : forall doc d m, WfSeq doc [BDict d] -> metainfo_of doc = Ok m ->
  exists es, wf_es es /\ doc = text_v (TDict es) /\
    (~ nested_before key_info_raw es -> forall x, shallow key_info_raw es = Some x -> m_hash_input m = x).
Proof.
  intros doc d m Hw Hm. destruct (find_first_exact_value doc d key_info_raw [] Hw) as (es & Hes & E & _).
  exists es. split; [exact Hes|]. split; [exact E|]. intros Hn x Hx.
  pose proof (C05_hash_input doc m Hm) as H1.
  pose proof (find_first_spec key_info_raw es [] Hes) as F. rewrite app_nil_r in F.
  rewrite (tfind_shallow key_info_raw es Hn), Hx in F. rewrite <- E in F. rewrite F in H1. injection H1 as ->. reflexivity.
Qed.
(* every strictly decodable one-dictionary document is such a tree *)
Theorem C05_documents_are_trees : forall doc d, decode_strict doc = Ok [BDict d] ->
  exists es, wf_es es /\ doc = text_v (TDict es).
Proof. intros doc d H. apply decode_strict_iff in H. exact (dict_document_tree doc d H). Qed.

(* non-vacuity: a tree with an entry before info, a nested dictionary without the key, a leading-zero length inside
   info; premises hold and the answer is the info value's text *)
Example C05_tree_instance :
  let es := TCons (hx "313a61") (TDict (TCons (hx "313a78") (TAtom (hx "693165")) TNil))
              (TCons (hx "343a696e666f") (TDict (TCons (hx "30343a6e616d65") (TAtom (hx "313a61")) TNil)) TNil) in
  ~ nested_before key_info_raw es /\ shallow key_info_raw es = Some (hx "6430343a6e616d65313a6165") /\
  find_first key_info_raw (text_v (TDict es)) = Some (hx "6430343a6e616d65313a6165") /\
  exists d, decode_strict (text_v (TDict es)) = Ok [BDict d].
Proof. cbv zeta. split; [vm_compute; tauto|]. split; [vm_compute; reflexivity|]. split; [vm_compute; reflexivity|]. eexists. vm_compute. reflexivity. Qed.

(* Here additionally: one non-trivial instance of the comparison with the independent span splitter (extra keys before and after info,
   non-canonical key order and a leading-zero length inside info, trailing data). *)
Example C05_instance : hashed_span_ok (hx "64373a636f6d6d656e74343a74657874383a616e6e6f756e6365333a55524c343a696e666f64363a6c656e677468693565343a6e616d65313a6131323a7069656365206c656e677468693465363a7069656365733032303a414141414142424242424343434343444444444465333a7a7a7a6c6931656565353a747261696c") = true.
Proof. vm_compute. reflexivity. Qed.

Print Assumptions C05_hash_input.
Print Assumptions C05_refuted_nested_info.
Print Assumptions C05_refuted_duplicate_info.
Print Assumptions C05_refuted_truncated.
Print Assumptions C05_search_spec.
Print Assumptions C05_exact_span.
Print Assumptions C05_documents_are_trees.
