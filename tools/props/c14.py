"""C14 — upload slots are bounded and follow the choking policy."""
from mgrbase import MgrBase, rand_bits


class C14(MgrBase):
    id = "C14"
    proof_target = "Props/C14.vo"
    theorems = ["C14_bitfield_bound", "C14_rotation_bound", "C14_slots_interested", "C14_rate_order", "C14_map_exact", "C14_messages_follow_map", "C14_timer_wrapper"]
    coq_header = ("From Rdest Require Import Base Consts Wire Manager Corr.Mgr.\nOpen Scope N_scope.\n"
                  "Definition codes := codes14.\n")
    rule = ("histories of 0-25 peers: handshakes and bitfield arrivals (each may unchoke the newcomer), interest changes, "
            "rate reports with ties and missing rates, and 1-9 choke rotations with the rate order and optimistic pick "
            "supplied by the harness (the pick drawn from the choked-and-interested peers, as new_optimistic_peers does). "
            "After every command the bound (10 regular + 1 optimistic) is evaluated on the observed state; after every "
            "rotation the policy and the exactness of the broadcast map. Non-trivial: histories with more than 10 peers "
            "or at least one rotation; distinct lines.")
    statement_status = "see Props/C14.v"

    def corpus(self):
        ops = []
        for a in range(1, 14):
            ops += ["add %d" % a, "init %d" % a, "bf %d 101" % a]
        return [self.mk("raw", 3, 4, 10, ops, "corpus")]

    def gen(self, rng, tier):
        k = {"quick": 250, "thorough": 5000, "search": 1500}.get(tier, 250)
        cases = []
        for _ in range(k):
            n = rng.choice([1, 3, 8])
            npeers = rng.choice([0, 1, 3, 9, 10, 11, 12, 15, 25])
            ops = []
            alive = []
            interested = set()
            for a in range(1, npeers + 1):
                ops += ["add %d" % a]
                alive.append(a)
                if rng.random() < 0.9:
                    ops.append("bf %d %s" % (a, rand_bits(rng, n)))
                if rng.random() < 0.6:
                    ops.append("int %d" % a)
                    interested.add(a)
                if rng.random() < 0.15 and len(ops) > 2:
                    ops.append(self.rot(rng, alive, interested))
            for _ in range(rng.choice([1, 2, 3, 9])):
                for _ in range(rng.choice([0, 1, 3])):
                    if alive:
                        a = rng.choice(alive)
                        if rng.random() < 0.5:
                            ops.append("int %d" % a)
                            interested.add(a)
                        else:
                            ops.append("nint %d" % a)
                            interested.discard(a)
                if rng.random() < 0.3:
                    a = npeers + len(ops)
                    ops += ["add %d" % a, "bf %d %s" % (a, rand_bits(rng, n))]
                    alive.append(a)
                ops.append(self.rot(rng, alive, interested))
            cases.append(self.mk("raw", n, 4, 4 * n, ops, "rotation"))
        # the timer's own wrapper: rates as the peers reported them (some not yet), leeching and seeding, three rounds
        for _ in range(k // 3):
            n = rng.choice([1, 3])
            npeers = rng.choice([1, 3, 9, 11, 12, 15])
            ops = []
            for a in range(1, npeers + 1):
                ops += ["add %d" % a, "bf %d %s" % (a, rand_bits(rng, n))]
                if rng.random() < 0.7:
                    ops.append("int %d" % a)
            if rng.random() < 0.4:
                ops.append("setst " + ",".join(["H"] * n))
            late = rng.random() < 0.3
            ties = rng.random() < 0.4
            for a in range(1, npeers + 1):
                if late and a == npeers:
                    continue           # one peer has not reported yet: the tick must not rotate
                v = lambda: rng.choice([0, 5, 5, 9]) if ties else rng.randrange(1000)
                ops.append("stats %d %d %d" % (a, v(), v()))
            for _ in range(rng.choice([1, 3, 4, 7])):
                ops.append("tick")
                if rng.random() < 0.3:
                    a = rng.randrange(1, npeers + 1)
                    ops.append(rng.choice(["int %d", "nint %d"]) % a)
                if late and rng.random() < 0.4:
                    ops.append("stats %d %d %d" % (npeers, rng.randrange(50), rng.randrange(50)))
                    late = False
            cases.append(self.mk("raw", n, 4, 4 * n, ops, "timer"))
        return cases

    def rot(self, rng, alive, interested):
        ties = rng.random() < 0.4
        rates = ["%d:%d" % (a, rng.choice([0, 5, 5, 9]) if ties else rng.randrange(1000)) for a in alive]
        rng.shuffle(rates)
        # the optimistic pick is resolved by the harness among choked+interested peers: encode as '?'
        opt = "?" if rng.random() < 0.4 else "-"
        return "rotate %s %s" % (",".join(rates) or "-", opt)


PROP = C14()
