(* InfoSpec.v — independent statement of "the exact byte span that encodes the
   value of the top-level info key": a span-splitting skipper that never looks
   at DeepFinder. *)
From Rdest Require Export Base BCodec.
Open Scope N_scope.

(* split one value off the front: (its exact text, the rest); strict about
   structure (every container closed, every string complete) *)
Fixpoint skip_value (fuel : nat) (s : bytes) : option (bytes * bytes) :=
  match fuel with
  | O => None
  | S f =>
    match s with
    | [] => None
    | b :: r =>
      if is_digit b then
        let '(ds, after, colon) := take_until ch_colon r in
        if colon && forallb is_digit (b :: ds) then
          let n := digits_val (b :: ds) in
          if n <=? len after
          then Some ((b :: ds) ++ [ch_colon] ++ firstn (N.to_nat n) after, skipn (N.to_nat n) after)
          else None
        else None
      else if b =? ch_i then
        let '(num, after, found) := take_until ch_e r in
        if found then Some (b :: num ++ [ch_e], after) else None
      else if (b =? ch_l) || (b =? ch_d) then
        (fix items (k : nat) (s : bytes) (acc : bytes) : option (bytes * bytes) :=
           match k with
           | O => None
           | S k' =>
             match s with
             | [] => None
             | c :: r' =>
               if c =? ch_e then Some (acc ++ [ch_e], r')
               else match skip_value f s with
                    | Some (sp, rest) => items k' rest (acc ++ sp)
                    | None => None
                    end
             end
           end) (S (length r)) r [b]
      else None
    end
  end.

(* all top-level value spans of a document *)
Fixpoint top_spans (fuel : nat) (s : bytes) : option (list bytes) :=
  match fuel with
  | O => None
  | S f => match s with
           | [] => Some []
           | _ => match skip_value (S (length s)) s with
                  | Some (sp, rest) => match top_spans f rest with Some l => Some (sp :: l) | None => None end
                  | None => None
                  end
           end
  end.

(* (key content, value span) entries of a dictionary span *)
Definition str_content (span : bytes) : bytes :=
  let '(_, after, _) := take_until ch_colon span in after.

Fixpoint entries (fuel : nat) (s : bytes) : option (list (bytes * bytes)) :=
  match fuel with
  | O => None
  | S f =>
    match s with
    | [] => None
    | c :: r =>
      if c =? ch_e then Some []
      else match skip_value (S (length s)) s with
           | Some (k, rest) =>
               match skip_value (S (length rest)) rest with
               | Some (v, rest') => match entries f rest' with
                                    | Some l => Some ((str_content k, v) :: l)
                                    | None => None
                                    end
               | None => None
               end
           | None => None
           end
    end
  end.

Definition dict_entries (span : bytes) : option (list (bytes * bytes)) :=
  match span with
  | b :: body => if b =? ch_d then entries (S (length body)) body else None
  | [] => None
  end.

(* the value span of the last entry with this key (a repeated key keeps its last value) *)
Definition last_value_span (key : bytes) (es : list (bytes * bytes)) : option bytes :=
  fold_left (fun acc kv => if bytes_eqb (fst kv) key then Some (snd kv) else acc) es None.

(* the info span of the i-th top-level value of the document *)
Definition info_span (doc : bytes) (i : nat) : option bytes :=
  match top_spans (S (length doc)) doc with
  | Some spans =>
      match nth_error spans i with
      | Some sp => match dict_entries sp with
                   | Some es => last_value_span [105;110;102;111] es
                   | None => None
                   end
      | None => None
      end
  | None => None
  end.
