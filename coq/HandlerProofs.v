(* HandlerProofs.v — theorems about the per-peer task model (Handler.v). *)
From Rdest Require Import Base BaseProofs Consts Wire Manager Handler.
From Coq Require Import ZifyBool ZifyN ZifyNat.
Ltac Zify.zify_post_hook ::= Z.div_mod_to_equations.
Open Scope N_scope.

(* ---- C10: PieceRx::left tiles the piece ------------------------------------------------------ *)
(* blocks from `b` up to `e`: contiguous, each 1..16384 bytes, all but the last exactly 16 KiB *)
Inductive Tiles : N -> N -> list (N * N) -> Prop :=
| tiles_nil b : Tiles b b []
| tiles_cons b l e r : 0 < l -> l <= 16384 -> Tiles (b + l) e r -> (r <> [] -> l = 16384) -> Tiles b e ((b, l) :: r).

Lemma left_go_tiles : forall fuel k plen, k * 16384 <= plen -> (plen - k * 16384) / 16384 < N.of_nat fuel ->
  Tiles (k * 16384) plen (left_go fuel (k * 16384) plen).
Proof.
  induction fuel as [|f IH]; intros k plen Hle Hf; [lia|].
  cbn [left_go]. unfold PIECE_BLOCK_SIZE.
  destruct (N.leb_spec plen (k * 16384)) as [H1|H1].
  - replace plen with (k * 16384) by lia. constructor.
  - destruct (N.ltb_spec plen (k * 16384 + 16384)) as [H2|H2].
    + (* the remainder block *)
      assert (Hm : plen mod 16384 = plen - k * 16384).
      { symmetry. apply (N.mod_unique _ _ k); lia. }
      rewrite Hm.
      assert (Hrest : left_go f (k * 16384 + 16384) plen = []).
      { destruct f; cbn [left_go]; [reflexivity|]. unfold PIECE_BLOCK_SIZE. replace (plen <=? k * 16384 + 16384) with true by lia. reflexivity. }
      rewrite Hrest. constructor; [lia | lia | | congruence].
      replace (k * 16384 + (plen - k * 16384)) with plen by lia. constructor.
    + (* a full block *)
      replace (k * 16384 + 16384) with ((k + 1) * 16384) by lia.
      constructor; [lia | lia | | reflexivity].
      replace (k * 16384 + 16384) with ((k + 1) * 16384) by lia.
      apply IH; [lia|].
      assert ((plen - k * 16384) / 16384 = (plen - (k + 1) * 16384) / 16384 + 1).
      { replace (plen - k * 16384) with ((plen - (k + 1) * 16384) + 1 * 16384) by lia. rewrite N.div_add by lia. reflexivity. }
      lia.
Qed.

Theorem left_blocks_tiles plen : Tiles 0 plen (left_blocks plen).
Proof.
  unfold left_blocks. unfold PIECE_BLOCK_SIZE at 1. cbn [N.eqb Pos.eqb].
  change 0 with (0 * 16384) at 1 2. apply left_go_tiles; [lia|]. unfold PIECE_BLOCK_SIZE. rewrite N.sub_0_r. lia.
Qed.

(* what Tiles says: exact cover *)
Lemma tiles_sum b e l : Tiles b e l -> b + fold_right (fun bl acc => snd bl + acc) 0 l = e /\ Forall (fun bl => 0 < snd bl <= 16384) l.
Proof.
  induction 1 as [b|b l e r Hl Hu HT [IHs IHf] Hlast]; cbn; [split; [lia | constructor]|].
  split; [lia | constructor; [cbn; lia | exact IHf]].
Qed.

(* Tiles determines the block list: the tiling the code computes is the only one the relation admits *)
Lemma tiles_le b e l : Tiles b e l -> b <= e /\ (l <> [] -> b < e).
Proof.
  intros H. destruct (tiles_sum b e l H) as [S F]. split; [lia|].
  intros Hn. destruct l as [|[b0 l0] r]; [congruence|]. cbn [fold_right snd] in S.
  inversion F as [|? ? Hh _]; subst. cbn [snd] in Hh. lia.
Qed.

Theorem tiles_unique b e l1 : Tiles b e l1 -> forall l2, Tiles b e l2 -> l1 = l2.
Proof.
  induction 1 as [b|b l e r Hl Hle Hr IH Hfull]; intros l2 H2.
  - inversion H2 as [|? l' ? r' Hl' Hle' Hr' Hfull']; subst; [reflexivity|].
    exfalso. destruct (tiles_le _ _ _ Hr'). lia.
  - inversion H2 as [|? l' ? r' Hl' Hle' Hr' Hfull']; subst.
    + exfalso. destruct (tiles_le _ _ _ Hr). lia.
    + assert (l = l').
      { destruct (tiles_le _ _ _ Hr) as [A1 A2]. destruct (tiles_le _ _ _ Hr') as [B1 B2].
        destruct r as [|x r]; destruct r' as [|x' r'].
        - inversion Hr; inversion Hr'; subst; lia.
        - inversion Hr; subst; try lia. specialize (Hfull' ltac:(discriminate)). specialize (B2 ltac:(discriminate)). lia.
        - inversion Hr'; subst; try lia. specialize (Hfull ltac:(discriminate)). specialize (A2 ltac:(discriminate)). lia.
        - rewrite Hfull, Hfull' by discriminate. reflexivity. }
      subst l'. f_equal. apply IH. exact Hr'.
Qed.

Theorem left_blocks_is_the_tiling plen l : Tiles 0 plen l -> l = left_blocks plen.
Proof. intros H. eapply tiles_unique; [exact H | apply left_blocks_tiles]. Qed.

Section H.
  Variable sha1 : bytes -> bytes.
  Variable cf : hconf.
  Variable disk : bytes -> option bytes.

  Notation hstep := (hstep sha1 cf disk).
  Notation handle_frame := (handle_frame sha1 cf disk).

  (* ---- C20: keep-alive timer -------------------------------------------------------------- *)
  Lemma tick_emits ovf s r : h_keep_alive s <> 2 ->
    hstep ovf s ETick r = HCont (set_ka s (h_keep_alive s + 1)) [ASend KeepAlive].
  Proof.
    intros H. cbn [Handler.hstep]. unfold peer_handler_KEEP_ALIVE_LIMIT.
    destruct (N.eqb_spec (h_keep_alive s) 2); [contradiction | reflexivity].
  Qed.

  Lemma tick_closes ovf s r : h_keep_alive s = 2 -> hstep ovf s ETick r = HEnd s [] false.
  Proof. intros H. cbn [Handler.hstep]. unfold peer_handler_KEEP_ALIVE_LIMIT. rewrite H. reflexivity. Qed.

  Lemma keepalive_frame ovf s r : h_hs_done s = true -> hstep ovf s (EFrame KeepAlive) r = HCont s [].
  Proof. intros H. cbn [Handler.hstep]. unfold Handler.handle_frame. rewrite H. reflexivity. Qed.

  (* what an outcome leaves behind *)
  Definition out_state (o : outcome) : option hst :=
    match o with HCont s _ => Some s | HEnd s _ _ => Some s | HPanic _ => None end.
  Definition continues (o : outcome) : option hst := match o with HCont s _ => Some s | _ => None end.

  Lemma ka_set_rx s r : h_keep_alive (set_rx s r) = h_keep_alive s. Proof. reflexivity. Qed.
  Lemma ka_set_tx s r : h_keep_alive (set_tx s r) = h_keep_alive s. Proof. reflexivity. Qed.

  Lemma after_piece_finish_ka s pre reply s' : continues (after_piece_finish cf s pre reply) = Some s' ->
    h_keep_alive s' = h_keep_alive s.
  Proof.
    unfold after_piece_finish. destruct reply as [[]|]; cbn; try discriminate; try (intros [= <-]; reflexivity).
    destruct (new_piece_request cf false i len) as [r a]. cbn. intros [= <-]. reflexivity.
  Qed.

  (* any message other than a keep-alive resets the count of silent intervals *)
  Lemma frame_resets ovf s m r s' : m <> KeepAlive -> continues (handle_frame ovf s m r) = Some s' ->
    h_keep_alive s' = 0.
  Proof.
    intros Hm. unfold Handler.handle_frame.
    destruct (Handler_gate_on_handshake && negb (h_hs_done s) && negb match m with Handshake _ _ => true | _ => false end); [discriminate|].
    destruct m as [ih pid| | | | | |i|bs|ri rb rl|i b blk|i b l]; try congruence.
    - (* handshake *)
      destruct (negb (bytes_eqb ih (c_info_hash cf))); [discriminate|]. cbn [h_peer_id set_ka].
      destruct (h_peer_id s) as [e|].
      + destruct (negb (bytes_eqb pid e)); [discriminate|]. cbn. intros [= <-]. reflexivity.
      + unfold init_handshake. destruct r as [[]|]; cbn; try discriminate. intros [= <-]. reflexivity.
    - cbn. intros [= <-]. reflexivity.
    - (* unchoke *)
      destruct (Handler_ignore_repeated_unchoke && negb (h_choked (set_ka s 0))); [cbn; intros [= <-]; reflexivity|].
      destruct r as [[]|]; cbn; try discriminate; try (intros [= <-]; reflexivity);
        match goal with |- context [new_piece_request ?a ?b ?c ?d] => destruct (new_piece_request a b c d) end; cbn; intros [= <-]; reflexivity.
    - cbn. intros [= <-]. reflexivity.
    - destruct r as [[]|]; cbn; try discriminate. intros [= <-]. reflexivity.
    - (* have *)
      destruct (c_pieces_num cf <=? i); [discriminate|].
      destruct r as [[]|]; cbn; try discriminate; try (intros [= <-]; reflexivity).
      match goal with |- context [new_piece_request ?a ?b ?c ?d] => destruct (new_piece_request a b c d) end; cbn; intros [= <-]; reflexivity.
    - (* bitfield *)
      destruct (negb (bitfield_validate bs (c_pieces_num cf))); [discriminate|].
      destruct r as [[]|]; cbn; try discriminate. intros [= <-]. reflexivity.
    - (* request *)
      unfold handle_request.
      destruct (load_tx cf disk (set_ka s 0) ri r) as [[t|]| | |]; try discriminate.
      + destruct (request_validate cf ovf ri rb rl (tx_index t) (len (tx_buff t))); try discriminate.
        destruct (len (tx_buff t) <? rb + rl); [discriminate|]. cbn. intros [= <-]. reflexivity.
      + cbn. intros [= <-]. reflexivity.
    - (* piece *)
      unfold handle_piece. cbn [h_rx set_ka].
      destruct (h_rx s) as [rx|]; [|cbn; intros [= <-]; reflexivity].
      destruct (negb (is_requested rx i b blk)); [cbn; intros [= <-]; reflexivity|].
      cbn [rx_left].
      destruct (rx_left rx) as [|l0 ls].
      + destruct (filter _ (rx_requested rx)) as [|q0 qs].
        * destruct (negb (bytes_eqb _ _)); [discriminate|].
          intros H. apply after_piece_finish_ka in H. exact H.
        * match goal with |- context [send_request ?x] => destruct (send_request x) end. cbn. intros [= <-]. reflexivity.
      + match goal with |- context [send_request ?x] => destruct (send_request x) end. cbn. intros [= <-]. reflexivity.
    - cbn. intros [= <-]. reflexivity.
  Qed.

  (* events other than the timer never increase the count *)
  Lemma non_tick_ka ovf s ev r s' : ev <> ETick -> h_hs_done s = true -> continues (hstep ovf s ev r) = Some s' ->
    h_keep_alive s' <= h_keep_alive s.
  Proof.
    intros Hev Hd. destruct ev as [|m| | | |i|b]; try congruence; cbn [Handler.hstep].
    - destruct (h_peer_id s); [unfold init_handshake; destruct r as [[]|]; cbn; try discriminate|]; cbn; intros [= <-]; lia.
    - destruct m; try (intros H; apply frame_resets in H; [lia | discriminate]).
      unfold Handler.handle_frame. rewrite Hd. cbn. intros [= <-]. lia.
    - discriminate.
    - destruct Handler_recv_error_terminates; [discriminate | cbn; intros [= <-]; lia].
    - (* SendHave broadcast *)
      assert (A : forall s0 s1 a1, (if h_choked s0 then (set_buff s0 (h_msg_buff s0 ++ [i]), []) else (s0, [ASend (Wire.Have i)])) = (s1, a1) ->
                  h_keep_alive s1 = h_keep_alive s0).
      { intros s0 s1 a1. destruct (h_choked s0); intros [= <- _]; reflexivity. }
      destruct (h_rx s) as [rx|].
      + destruct (rx_index rx =? i).
        * destruct (after_piece_finish cf (set_rx s None) _ r) as [s1 a|s1 a [|]|a] eqn:E; cbn; try discriminate.
          -- destruct (if h_choked s1 then _ else _) as [s2 a2] eqn:E2. cbn. intros [= <-].
             rewrite (A _ _ _ E2). assert (continues (after_piece_finish cf (set_rx s None) (map (fun bl => ASend (Cancel i (fst bl) (snd bl))) (rx_requested rx) ++ [ACmd KPieceCancel]) r) = Some s1) by (rewrite E; reflexivity).
             apply after_piece_finish_ka in H. rewrite H. cbn. lia.
          -- destruct (if h_choked s1 then _ else _) as [s2 a2] eqn:E2. cbn. intros [= <-].
             rewrite (A _ _ _ E2). unfold after_piece_finish in E. destruct r as [[]|]; try discriminate;
               try (match type of E with context [new_piece_request ?a ?b ?c ?d] => destruct (new_piece_request a b c d) end; discriminate).
             injection E as <- _. cbn. lia.
        * destruct (if h_choked s then _ else _) as [s2 a2] eqn:E2. cbn. intros [= <-]. rewrite (A _ _ _ E2). lia.
      + destruct (if h_choked s then _ else _) as [s2 a2] eqn:E2. cbn. intros [= <-]. rewrite (A _ _ _ E2). lia.
    - destruct b as [[|]|]; cbn; intros [= <-]; cbn; lia.
  Qed.

  (* C20, silent peer: whatever keep-alives arrive, the first two timer ticks each emit one keep-alive and
     the third closes the connection *)
  Theorem silent_closes ovf s r : h_keep_alive s = 0 ->
    hstep ovf s ETick r = HCont (set_ka s 1) [ASend KeepAlive] /\
    hstep ovf (set_ka s 1) ETick r = HCont (set_ka s 2) [ASend KeepAlive] /\
    hstep ovf (set_ka s 2) ETick r = HEnd (set_ka s 2) [] false /\
    (forall s', h_hs_done s' = true -> hstep ovf s' (EFrame KeepAlive) r = HCont s' []).
  Proof.
    intros H0. split; [rewrite tick_emits by (rewrite H0; discriminate); rewrite H0; reflexivity|].
    split; [rewrite tick_emits by (cbn; discriminate); reflexivity|].
    split; [apply tick_closes; reflexivity | intros s' Hd; apply keepalive_frame; exact Hd].
  Qed.

  (* C20, live peer: after any other message the next tick keeps the connection and emits a keep-alive *)
  Theorem live_kept ovf s m r s' r2 : m <> KeepAlive -> continues (hstep ovf s (EFrame m) r) = Some s' ->
    hstep ovf s' ETick r2 = HCont (set_ka s' 1) [ASend KeepAlive].
  Proof.
    intros Hm H. cbn [Handler.hstep] in H. apply frame_resets in H; [|exact Hm].
    rewrite tick_emits by (rewrite H; discriminate). rewrite H. reflexivity.
  Qed.

  (* ---- C10: requests ------------------------------------------------------------------------ *)
  Definition sends_of (a : list action) : list msg := flat_map (fun x => match x with ASend m => [m] | _ => [] end) a.
  Definition requests_in (a : list action) : list (N * N * N) :=
    flat_map (fun m => match m with Request i b l => [(i, b, l)] | _ => [] end) (sends_of a).

  (* send_request asks for exactly the first block not yet asked for, of the piece being assembled *)
  Lemma send_request_spec r r' a : send_request r = (r', a) ->
    match rx_left r with
    | [] => r' = r /\ a = []
    | (b, l) :: rest => a = [ASend (Request (rx_index r) b l)] /\ rx_left r' = rest /\
                        rx_requested r' = rx_requested r ++ [(b, l)] /\ rx_index r' = rx_index r /\ rx_hash r' = rx_hash r
                        /\ rx_buff r' = rx_buff r
    end.
  Proof.
    unfold send_request. destruct (rx_left r) as [|[b l] rest]; intros [= <- <-]; cbn; repeat split; reflexivity.
  Qed.

  (* the blocks asked for so far followed by the blocks not yet asked for are the tiling of the piece:
     established by new_piece_request, preserved by send_request *)
  Lemma new_piece_request_spec int i plen r a : new_piece_request cf int i plen = (r, a) ->
    rx_index r = i /\ rx_requested r ++ rx_left r = left_blocks plen /\
    requests_in a = map (fun bl => (i, fst bl, snd bl)) (rx_requested r) /\
    (length (rx_requested r) <= 2)%nat.
  Proof.
    unfold new_piece_request, send_request, new_rx. cbn [rx_left rx_index rx_requested rx_hash rx_buff].
    destruct (left_blocks plen) as [|[b1 l1] [|[b2 l2] rest]]; cbn [rx_left rx_index rx_requested rx_hash rx_buff app];
      intros [= <- <-]; cbn [rx_left rx_index rx_requested app]; destruct int; cbn; repeat split; auto.
  Qed.

  (* ---- C09: uploads ---------------------------------------------------------------------------- *)
  Definition pieces_in (a : list action) : list (N * N * bytes) :=
    flat_map (fun m => match m with Piece i b d => [(i, b, d)] | _ => [] end) (sends_of a).
  Definition acts_of (o : outcome) : list action := match o with HCont _ a | HEnd _ a _ | HPanic a => a end.

  (* for every request, whatever was loaded before and whatever the manager says: no panic; nothing is
     sent, or exactly one piece message with the same index and offset carrying exactly the requested
     range of the loaded piece file, which lies inside the piece and is at most 16 KiB long *)
  Theorem request_answer ovf s ri rb rl reply :
    Request_validate_u64 = true ->
    match handle_request cf disk ovf s ri rb rl reply with
    | HPanic _ => False
    | o => pieces_in (acts_of o) = [] \/
           exists t, load_tx cf disk s ri reply = Ok (Some t) /\ tx_index t mod 4294967296 = ri /\ ri < c_pieces_num cf mod 4294967296 /\
                     rl <= 16384 /\ rb + rl <= len (tx_buff t) /\
                     pieces_in (acts_of o) = [(ri, rb, slice (tx_buff t) rb rl)]
    end.
  Proof.
    intros F. unfold handle_request.
    assert (Hpre : forall (x : list action), x = (if need_ask s ri then [ACmd (KRequest ri)] else []) -> pieces_in x = []).
    { intros x ->. destruct (need_ask s ri); reflexivity. }
    destruct (load_tx cf disk s ri reply) as [[t|]| | |] eqn:EL; cbn [acts_of]; try (left; apply Hpre; reflexivity).
    unfold request_validate. rewrite F.
    destruct ((c_pieces_num cf mod 4294967296 <=? ri) || negb (ri =? tx_index t mod 4294967296)) eqn:E1; cbn [acts_of]; [left; apply Hpre; reflexivity|].
    unfold PIECE_BLOCK_SIZE. change (16384 mod 4294967296) with 16384.
    destruct (16384 <? rl) eqn:E2; cbn [acts_of]; [left; apply Hpre; reflexivity|].
    destruct (len (tx_buff t) <? rb + rl) eqn:E3; cbn [acts_of]; [left; apply Hpre; reflexivity|].
    cbn [acts_of]. right. exists t. split; [reflexivity|].
    apply orb_false_iff in E1. destruct E1 as [E1a E1b]. apply negb_false_iff, N.eqb_eq in E1b.
    unfold pieces_in, sends_of. rewrite !flat_map_app.
    assert (Hp : flat_map (fun m => match m with Piece i b d => [(i, b, d)] | _ => [] end)
                   (flat_map (fun x => match x with ASend m => [m] | _ => [] end) (if need_ask s ri then [ACmd (KRequest ri)] else [])) = [])
      by (destruct (need_ask s ri); reflexivity).
    rewrite Hp. cbn.
    repeat split; try lia; reflexivity.
  Qed.

  (* ---- C08 / C11 / C01: where every action of the task comes from ------------------------------ *)
  Lemma bytes_eqb_refl (x : bytes) : bytes_eqb x x = true.
  Proof. induction x as [|a x IH]; cbn; [reflexivity | rewrite N.eqb_refl, IH; reflexivity]. Qed.

  Definition act_ok (s : hst) (ev : event) (r : option reply) (x : action) : bool :=
    match x with
    | ASend (Handshake a b) => bytes_eqb a (c_info_hash cf) && bytes_eqb b (c_own_id cf)
    | ASend (Piece i b d) =>
        h_hs_done s && match ev with EFrame (Request i' b' _) => (i =? i') && (b =? b') | _ => false end
    | ASend (Wire.Have j) =>
        match ev with
        | EBroadHave k => j =? k
        | EFrame Unchoke => existsb (N.eqb j) (h_msg_buff s)
        | _ => false
        end
    | ASend (Bitfield bs) => match r with Some (RBitfield bits) => bytes_eqb bs (from_vec bits) | _ => false end
    | AWrite h d => bytes_eqb (sha1 d) h
    | _ => true
    end.

  Lemma npr_ok s ev r int i plen rx a : new_piece_request cf int i plen = (rx, a) -> forallb (act_ok s ev r) a = true.
  Proof.
    unfold new_piece_request, send_request, new_rx. cbn [rx_left rx_index rx_requested rx_hash rx_buff].
    destruct (left_blocks plen) as [|[b1 l1] [|[b2 l2] rest]]; cbn [rx_left rx_index rx_requested rx_hash rx_buff app];
      intros [= <- <-]; destruct int; reflexivity.
  Qed.

  Lemma forallb_app' {A} (f : A -> bool) a b : forallb f (a ++ b) = forallb f a && forallb f b.
  Proof. induction a as [|x a IH]; cbn; [reflexivity | rewrite IH, andb_assoc; reflexivity]. Qed.

  Lemma apf_ok s ev r s0 pre reply : forallb (act_ok s ev r) pre = true ->
    forallb (act_ok s ev r) (acts_of (after_piece_finish cf s0 pre reply)) = true.
  Proof.
    intros Hp. unfold after_piece_finish. destruct reply as [[]|]; cbn [acts_of]; try exact Hp.
    - destruct (new_piece_request cf false i len) as [rx a] eqn:E. cbn [acts_of]. rewrite forallb_app', Hp. apply (npr_ok s ev r _ _ _ _ _ E).
    - rewrite forallb_app', Hp. reflexivity.
  Qed.

  Lemma flush_ok s r : forallb (act_ok s (EFrame Unchoke) r) (map (fun i => ASend (Wire.Have i)) (h_msg_buff s)) = true.
  Proof.
    rewrite forallb_forall. intros x Hx. apply in_map_iff in Hx. destruct Hx as (i & <- & Hi). cbn.
    apply existsb_exists. exists i. split; [exact Hi | apply N.eqb_refl].
  Qed.

  Theorem actions_ok ovf s ev r : Handler_gate_on_handshake = true ->
    forallb (act_ok s ev r) (acts_of (hstep ovf s ev r)) = true.
  Proof.
    intros G. destruct ev as [|m| | | |i|b]; cbn [Handler.hstep].
    - (* start *)
      destruct (h_peer_id s); [|reflexivity]. unfold init_handshake. destruct r as [[]|]; cbn; rewrite ?bytes_eqb_refl; reflexivity.
    - (* frame *)
      unfold Handler.handle_frame. rewrite G. cbn [andb].
      destruct (h_hs_done s) eqn:Hd; cbn [negb andb].
      2:{ destruct m; try reflexivity. cbn [negb].
          destruct (negb (bytes_eqb info_hash (c_info_hash cf))); [reflexivity|]. cbn [h_peer_id set_ka].
          destruct (h_peer_id s); [destruct (negb (bytes_eqb peer_id b)); reflexivity|].
          unfold init_handshake. destruct r as [[]|]; cbn; rewrite ?bytes_eqb_refl; reflexivity. }
      destruct m as [ih pid| | | | | |i|bs|ri rb rl|i b blk|i b l]; try reflexivity.
      + destruct (negb (bytes_eqb ih (c_info_hash cf))); [reflexivity|]. cbn [h_peer_id set_ka].
        destruct (h_peer_id s); [destruct (negb (bytes_eqb pid b)); reflexivity|].
        unfold init_handshake. destruct r as [[]|]; cbn; rewrite ?bytes_eqb_refl; reflexivity.
      + (* unchoke *)
        destruct (Handler_ignore_repeated_unchoke && negb (h_choked (set_ka s 0))); [reflexivity|].
        pose proof (flush_ok s r) as HF. cbn [set_ka h_msg_buff].
        destruct r as [[]|]; cbn [acts_of]; rewrite ?forallb_app', ?HF; try reflexivity;
          match goal with |- context [new_piece_request ?a ?b ?c ?d] => destruct (new_piece_request a b c d) as [rx a0] eqn:E end;
          cbn [acts_of]; rewrite !forallb_app', HF, (npr_ok s _ _ _ _ _ _ _ E); reflexivity.
      + destruct r as [[]|]; reflexivity.
      + (* have *)
        destruct (c_pieces_num cf <=? i); [reflexivity|].
        destruct r as [[]|]; cbn [acts_of]; try reflexivity.
        match goal with |- context [new_piece_request ?a ?b ?c ?d] => destruct (new_piece_request a b c d) as [rx a0] eqn:E end.
        cbn [acts_of app]. cbn [forallb act_ok]. apply (npr_ok s _ _ _ _ _ _ _ E).
      + destruct (negb (bitfield_validate bs (c_pieces_num cf))); [reflexivity|].
        destruct r as [[]|]; cbn [acts_of]; try reflexivity. destruct with_unchoke, am_interested; reflexivity.
      + (* request *)
        unfold handle_request.
        assert (Hpre : forallb (act_ok s (EFrame (Request ri rb rl)) r) (if need_ask (set_ka s 0) ri then [ACmd (KRequest ri)] else []) = true)
          by (destruct (need_ask (set_ka s 0) ri); reflexivity).
        destruct (load_tx cf disk (set_ka s 0) ri r) as [[t|]| | |]; cbn [acts_of]; try exact Hpre.
        destruct (request_validate cf ovf ri rb rl (tx_index t) (len (tx_buff t))); cbn [acts_of]; try exact Hpre.
        destruct (len (tx_buff t) <? rb + rl); cbn [acts_of]; [exact Hpre|].
        rewrite forallb_app', Hpre. cbn. rewrite Hd, !N.eqb_refl. reflexivity.
      + (* piece *)
        unfold handle_piece. cbn [h_rx set_ka].
        destruct (h_rx s) as [rx|]; [|reflexivity].
        destruct (negb (is_requested rx i b blk)); [reflexivity|]. cbn [rx_left].
        destruct (rx_left rx) as [|l0 ls].
        * destruct (filter _ (rx_requested rx)) as [|q0 qs].
          -- cbn [rx_hash rx_index rx_buff rx_requested rx_left].
             destruct (bytes_eqb (sha1 (put_block (rx_buff rx) b blk)) (rx_hash rx)) eqn:EH; cbn [negb]; [|reflexivity].
             apply apf_ok. cbn. rewrite EH. reflexivity.
          -- unfold send_request. cbn [rx_left]. reflexivity.
        * unfold send_request. cbn [rx_left]. destruct l0. reflexivity.
    - reflexivity.
    - destruct Handler_recv_error_terminates; reflexivity.
    - destruct (h_keep_alive s =? peer_handler_KEEP_ALIVE_LIMIT); reflexivity.
    - (* SendHave broadcast *)
      assert (A : forall s0, forallb (act_ok s (EBroadHave i) r)
                    (snd (if h_choked s0 then (set_buff s0 (h_msg_buff s0 ++ [i]), []) else (s0, [ASend (Wire.Have i)]))) = true).
      { intros s0. destruct (h_choked s0); cbn; rewrite ?N.eqb_refl; reflexivity. }
      destruct (h_rx s) as [rx|].
      + destruct (rx_index rx =? i).
        * assert (Hpre : forallb (act_ok s (EBroadHave i) r) (map (fun bl => ASend (Cancel i (fst bl) (snd bl))) (rx_requested rx) ++ [ACmd KPieceCancel]) = true).
          { rewrite forallb_app'. cbn. rewrite andb_true_r. apply forallb_forall. intros x Hx. apply in_map_iff in Hx. destruct Hx as (bl & <- & _). reflexivity. }
          pose proof (apf_ok s (EBroadHave i) r (set_rx s None) _ r Hpre) as HA.
          destruct (after_piece_finish cf (set_rx s None) _ r) as [s1 a|s1 a [|]|a]; cbn [acts_of] in *; try exact HA.
          -- specialize (A s1). destruct (if h_choked s1 then _ else _) as [s2 a2]. cbn [acts_of snd] in *. rewrite forallb_app', HA, A. reflexivity.
          -- specialize (A s1). destruct (if h_choked s1 then _ else _) as [s2 a2]. cbn [acts_of snd] in *. rewrite forallb_app', HA, A. reflexivity.
        * specialize (A s). destruct (if h_choked s then _ else _) as [s2 a2]. exact A.
      + specialize (A s). destruct (if h_choked s then _ else _) as [s2 a2]. exact A.
    - destruct b as [[|]|]; reflexivity.
  Qed.

  (* ---- C08: gate and invalid handshakes ----------------------------------------------------------- *)
  Theorem gate_closes ovf s m r : Handler_gate_on_handshake = true -> h_hs_done s = false ->
    (forall a b, m <> Handshake a b) -> hstep ovf s (EFrame m) r = HEnd s [] false.
  Proof.
    intros G Hd Hm. cbn [Handler.hstep]. unfold Handler.handle_frame. rewrite G, Hd.
    destruct m; try reflexivity. exfalso. eapply Hm. reflexivity.
  Qed.

  Theorem wrong_hash_closes ovf s ih pid r : bytes_eqb ih (c_info_hash cf) = false ->
    exists s', hstep ovf s (EFrame (Handshake ih pid)) r = HEnd s' [] false.
  Proof.
    intros H. cbn [Handler.hstep]. unfold Handler.handle_frame. rewrite andb_false_r. cbn [negb]. rewrite H. eexists. reflexivity.
  Qed.

  Theorem wrong_id_closes ovf s ih pid expected r : h_peer_id s = Some expected -> bytes_eqb pid expected = false ->
    exists s', hstep ovf s (EFrame (Handshake ih pid)) r = HEnd s' [] false.
  Proof.
    intros He H. cbn [Handler.hstep]. unfold Handler.handle_frame. rewrite andb_false_r. cbn [negb].
    destruct (negb (bytes_eqb ih (c_info_hash cf))); [eexists; reflexivity|].
    cbn [set_ka h_peer_id]. rewrite He, H. eexists. reflexivity.
  Qed.

  (* once ended nothing more is handled: the run function of the correspondence stops (Corr/Hnd.v model_step) *)

  (* ---- C11: held-back announcements ---------------------------------------------------------------- *)
  Theorem have_buffered_while_choked ovf s i r : h_choked s = true -> h_rx s = None ->
    hstep ovf s (EBroadHave i) r = HCont (set_buff s (h_msg_buff s ++ [i])) [].
  Proof. intros Hc Hr. cbn [Handler.hstep]. rewrite Hr, Hc. reflexivity. Qed.

  Theorem have_sent_when_unchoked ovf s i r : h_choked s = false -> h_rx s = None ->
    hstep ovf s (EBroadHave i) r = HCont s [ASend (Wire.Have i)].
  Proof. intros Hc Hr. cbn [Handler.hstep]. rewrite Hr, Hc. reflexivity. Qed.

  (* at the peer's unchoke every held-back announcement is written, in completion order, before anything
     else, and none stays buffered *)
  Theorem unchoke_flushes ovf s r o : h_hs_done s = true -> h_choked s = true ->
    hstep ovf s (EFrame Unchoke) r = o ->
    exists rest, acts_of o = map (fun i => ASend (Wire.Have i)) (h_msg_buff s) ++ ACmd KUnchoke :: rest /\
                 match out_state o with Some s' => h_msg_buff s' = [] | None => True end.
  Proof.
    intros Hd Hc <-. cbn [Handler.hstep]. unfold Handler.handle_frame. rewrite Hd. cbn [negb andb].
    cbn [set_ka h_choked]. rewrite Hc. rewrite andb_false_r. cbn [h_msg_buff set_ka].
    destruct r as [[]|]; cbn [acts_of out_state];
      try (match goal with |- context [new_piece_request ?a ?b ?c ?d] => destruct (new_piece_request a b c d) as [rx a0] end;
           cbn [acts_of out_state]);
      (eexists; split; [first [rewrite <- app_assoc; reflexivity | reflexivity]
                       | first [reflexivity | destruct Handler_drop_rx_on_unassign; reflexivity]]).
  Qed.

  (* ---- C01 (task side): a piece is reported done only right after it was written, and written only verified *)
  Theorem done_after_write ovf s ev r : Handler_gate_on_handshake = true ->
    In (ACmd KPieceDone) (acts_of (hstep ovf s ev r)) ->
    exists h d pre post, acts_of (hstep ovf s ev r) = pre ++ AWrite h d :: ACmd KPieceDone :: post /\ bytes_eqb (sha1 d) h = true.
  Proof.
    intros G Hin.
    assert (NP : forall int i plen rx a, new_piece_request cf int i plen = (rx, a) -> ~ In (ACmd KPieceDone) a).
    { unfold new_piece_request, send_request, new_rx. cbn [rx_left rx_index rx_requested rx_hash rx_buff]. intros int i plen rx a.
      destruct (left_blocks plen) as [|[b1 l1] [|[b2 l2] rest]]; cbn [rx_left rx_index rx_requested rx_hash rx_buff app];
        intros [= <- <-]; destruct int; cbn; intuition discriminate. }
    assert (APF : forall s0 pre reply, In (ACmd KPieceDone) (acts_of (after_piece_finish cf s0 pre reply)) -> In (ACmd KPieceDone) pre).
    { intros s0 pre reply. unfold after_piece_finish. destruct reply as [[]|]; cbn [acts_of]; auto.
      - destruct (new_piece_request cf false i len) as [rx a] eqn:E. cbn [acts_of]. intros H. apply in_app_or in H. destruct H as [H|H]; [exact H | exfalso; exact (NP _ _ _ _ _ E H)].
      - intros H. apply in_app_or in H. destruct H as [H|[H|[]]]; [exact H | discriminate]. }
    destruct ev as [|m| | | |i|b]; cbn [Handler.hstep] in *.
    - destruct (h_peer_id s); [|destruct Hin]. unfold init_handshake in Hin. destruct r as [[]|]; cbn in Hin; intuition discriminate.
    - unfold Handler.handle_frame in *. rewrite G in *. cbn [andb] in *.
      destruct (negb (h_hs_done s) && negb match m with Handshake _ _ => true | _ => false end); [destruct Hin|].
      destruct m as [ih pid| | | | | |i|bs|ri rb rl|i b blk|i b l]; try (cbn in Hin; intuition discriminate; fail).
      + destruct (negb (bytes_eqb ih (c_info_hash cf))); [destruct Hin|]. cbn [h_peer_id set_ka] in Hin.
        destruct (h_peer_id s); [destruct (negb (bytes_eqb pid b)); destruct Hin|].
        unfold init_handshake in Hin. destruct r as [[]|]; cbn in Hin; intuition discriminate.
      + destruct (Handler_ignore_repeated_unchoke && negb (h_choked (set_ka s 0))); [destruct Hin|].
        exfalso. cbn [set_ka h_msg_buff] in Hin.
        assert (HF : ~ In (ACmd KPieceDone) (map (fun i => ASend (Wire.Have i)) (h_msg_buff s))).
        { intros H. apply in_map_iff in H. destruct H as (x & Hx & _). discriminate. }
        destruct r as [[]|]; cbn [acts_of] in Hin;
          try (match type of Hin with context [new_piece_request ?a ?b ?c ?d] => destruct (new_piece_request a b c d) as [rx a0] eqn:E end; cbn [acts_of] in Hin);
          repeat (apply in_app_or in Hin; destruct Hin as [Hin|Hin]); try (exact (HF Hin)); try (cbn in Hin; intuition discriminate); try (exact (NP _ _ _ _ _ E Hin)).
      + destruct r as [[]|]; cbn in Hin; intuition discriminate.
      + destruct (c_pieces_num cf <=? i); [destruct Hin|]. exfalso.
        destruct r as [[]|]; cbn [acts_of] in Hin; try (cbn in Hin; intuition discriminate).
        match type of Hin with context [new_piece_request ?a ?b ?c ?d] => destruct (new_piece_request a b c d) as [rx a0] eqn:E end.
        cbn [acts_of app] in Hin. destruct Hin as [Hin|Hin]; [discriminate | exact (NP _ _ _ _ _ E Hin)].
      + destruct (negb (bitfield_validate bs (c_pieces_num cf))); [destruct Hin|].
        destruct r as [[]|]; cbn [acts_of] in Hin; try (cbn in Hin; intuition discriminate).
        destruct with_unchoke, am_interested; cbn in Hin; intuition discriminate.
      + exfalso. unfold handle_request in Hin.
        assert (Hpre : ~ In (ACmd KPieceDone) (if need_ask (set_ka s 0) ri then [ACmd (KRequest ri)] else [])).
        { destruct (need_ask (set_ka s 0) ri); cbn; intuition discriminate. }
        destruct (load_tx cf disk (set_ka s 0) ri r) as [[t|]| | |]; cbn [acts_of] in Hin; try exact (Hpre Hin).
        destruct (request_validate cf ovf ri rb rl (tx_index t) (len (tx_buff t))); cbn [acts_of] in Hin; try exact (Hpre Hin).
        destruct (len (tx_buff t) <? rb + rl); cbn [acts_of] in Hin; [exact (Hpre Hin)|].
        apply in_app_or in Hin. destruct Hin as [Hin|[Hin|[]]]; [exact (Hpre Hin) | discriminate].
      + (* piece: the only place *)
        unfold handle_piece in *. cbn [h_rx set_ka] in *.
        destruct (h_rx s) as [rx|]; [|destruct Hin].
        destruct (negb (is_requested rx i b blk)); [destruct Hin|]. cbn [rx_left] in *.
        destruct (rx_left rx) as [|l0 ls].
        * destruct (filter _ (rx_requested rx)) as [|q0 qs].
          -- cbn [rx_hash rx_index rx_buff rx_requested rx_left] in *.
             destruct (bytes_eqb (sha1 (put_block (rx_buff rx) b blk)) (rx_hash rx)) eqn:EH; cbn [negb] in *; [|destruct Hin].
             exists (rx_hash rx), (put_block (rx_buff rx) b blk), [].
             unfold after_piece_finish. destruct r as [[]|]; cbn [acts_of app];
               try (eexists; split; [reflexivity | exact EH]).
             destruct (new_piece_request cf false i0 len) as [rx' a']. cbn [acts_of app]. eexists. split; [reflexivity | exact EH].
          -- exfalso. unfold send_request in Hin. cbn [rx_left] in Hin. destruct Hin.
        * exfalso. unfold send_request in Hin. cbn [rx_left] in Hin. destruct l0. cbn in Hin. intuition discriminate.
    - destruct Hin.
    - destruct Handler_recv_error_terminates; destruct Hin.
    - destruct (h_keep_alive s =? peer_handler_KEEP_ALIVE_LIMIT); cbn in Hin; intuition discriminate.
    - exfalso.
      assert (A : forall s0, ~ In (ACmd KPieceDone) (snd (if h_choked s0 then (set_buff s0 (h_msg_buff s0 ++ [i]), []) else (s0, [ASend (Wire.Have i)])))).
      { intros s0. destruct (h_choked s0); cbn; intuition discriminate. }
      destruct (h_rx s) as [rx|].
      + destruct (rx_index rx =? i).
        * assert (Hpre : ~ In (ACmd KPieceDone) (map (fun bl => ASend (Cancel i (fst bl) (snd bl))) (rx_requested rx) ++ [ACmd KPieceCancel])).
          { intros H. apply in_app_or in H. destruct H as [H|[H|[]]]; [|discriminate]. apply in_map_iff in H. destruct H as (x & Hx & _). discriminate. }
          pose proof (APF (set_rx s None) (map (fun bl => ASend (Cancel i (fst bl) (snd bl))) (rx_requested rx) ++ [ACmd KPieceCancel]) r) as HA.
          destruct (after_piece_finish cf (set_rx s None) _ r) as [s1 a|s1 a [|]|a]; cbn [acts_of] in *.
          -- specialize (A s1). destruct (if h_choked s1 then _ else _) as [s2 a2]. cbn [acts_of snd] in *.
             apply in_app_or in Hin. destruct Hin as [Hin|Hin]; [exact (Hpre (HA Hin)) | exact (A Hin)].
          -- specialize (A s1). destruct (if h_choked s1 then _ else _) as [s2 a2]. cbn [acts_of snd] in *.
             apply in_app_or in Hin. destruct Hin as [Hin|Hin]; [exact (Hpre (HA Hin)) | exact (A Hin)].
          -- exact (Hpre (HA Hin)).
          -- exact (Hpre (HA Hin)).
        * specialize (A s). destruct (if h_choked s then _ else _) as [s2 a2]. exact (A Hin).
      + specialize (A s). destruct (if h_choked s then _ else _) as [s2 a2]. exact (A Hin).
    - destruct b as [[|]|]; cbn in Hin; intuition discriminate.
  Qed.
End H.

(* C01: a completed piece whose data does not hash to the listed value is discarded: the task ends, nothing is
   written, nothing is reported (the manager then releases the piece: kill_peer) *)
Theorem mismatch_discards sha1 cf disk ovf s rx i b blk reply :
  h_hs_done s = true -> h_rx s = Some rx -> is_requested rx i b blk = true -> rx_left rx = [] ->
  filter (fun bl => negb ((fst bl =? b) && (snd bl =? len blk))) (rx_requested rx) = [] ->
  bytes_eqb (sha1 (put_block (rx_buff rx) b blk)) (rx_hash rx) = false ->
  exists s', hstep sha1 cf disk ovf s (EFrame (Piece i b blk)) reply = HEnd s' [] false.
Proof.
  intros Hd Hrx Hreq Hleft Hfil Hh. cbn [hstep]. unfold handle_frame. rewrite Hd. cbn [negb andb].
  unfold handle_piece. cbn [h_rx set_ka]. rewrite Hrx, Hreq. cbn [negb rx_left]. rewrite Hleft, Hfil.
  cbn [rx_hash rx_index rx_buff rx_requested rx_left]. rewrite Hh. cbn [negb]. eexists. reflexivity.
Qed.

(* C01: every write of the task is hash-verified data (corollary of actions_ok) *)
Theorem writes_verified sha1 cf disk ovf s ev r h d :
  In (AWrite h d) (acts_of (hstep sha1 cf disk ovf s ev r)) -> bytes_eqb (sha1 d) h = true.
Proof.
  intros Hin. pose proof (actions_ok sha1 cf disk ovf s ev r eq_refl) as H. rewrite forallb_forall in H.
  exact (H _ Hin).
Qed.

(* C12, what the task guarantees to the manager: an Unchoke is relayed only when the peer was choking us, and the
   task's own flag then says "not choking"; a Choke is relayed for every Choke frame and sets the flag *)
Theorem unchoke_relayed_only_when_choked sha1 cf disk ovf s m r :
  Handler_ignore_repeated_unchoke = true ->
  In (ACmd KUnchoke) (acts_of (hstep sha1 cf disk ovf s (EFrame m) r)) -> m = Unchoke /\ h_choked s = true.
Proof.
  intros F Hin. cbn [hstep] in Hin. unfold handle_frame in Hin.
  destruct (Handler_gate_on_handshake && negb (h_hs_done s) && negb match m with Handshake _ _ => true | _ => false end); [destruct Hin|].
  assert (NP : forall int i plen rx a, new_piece_request cf int i plen = (rx, a) -> ~ In (ACmd KUnchoke) a).
  { unfold new_piece_request, send_request, new_rx. cbn [rx_left rx_index rx_requested rx_hash rx_buff]. intros int i plen rx a.
    destruct (left_blocks plen) as [|[b1 l1] [|[b2 l2] rest]]; cbn [rx_left rx_index rx_requested rx_hash rx_buff app];
      intros [= <- <-]; destruct int; cbn; intuition discriminate. }
  destruct m as [ih pid| | | | | |i|bs|ri rb rl|i b blk|i b l]; try (cbn in Hin; intuition discriminate; fail).
  - exfalso. destruct (negb (bytes_eqb ih (c_info_hash cf))); [destruct Hin|]. cbn [h_peer_id set_ka] in Hin.
    destruct (h_peer_id s); [destruct (negb (bytes_eqb pid b)); destruct Hin|].
    unfold init_handshake in Hin. destruct r as [[]|]; cbn in Hin; intuition discriminate.
  - split; [reflexivity|]. rewrite F in Hin. cbn [set_ka h_choked andb] in Hin.
    destruct (h_choked s); [reflexivity|]. cbn in Hin. destruct Hin.
  - exfalso. destruct r as [[]|]; cbn in Hin; intuition discriminate.
  - exfalso. destruct (c_pieces_num cf <=? i); [destruct Hin|].
    destruct r as [[]|]; cbn [acts_of] in Hin; try (cbn in Hin; intuition discriminate).
    match type of Hin with context [new_piece_request ?a ?b ?c ?d] => destruct (new_piece_request a b c d) as [rx a0] eqn:E end.
    cbn [acts_of app] in Hin. destruct Hin as [Hin|Hin]; [discriminate | exact (NP _ _ _ _ _ E Hin)].
  - exfalso. destruct (negb (bitfield_validate bs (c_pieces_num cf))); [destruct Hin|].
    destruct r as [[]|]; cbn [acts_of] in Hin; try (cbn in Hin; intuition discriminate).
    destruct with_unchoke, am_interested; cbn in Hin; intuition discriminate.
  - exfalso. unfold handle_request in Hin.
    assert (Hpre : ~ In (ACmd KUnchoke) (if need_ask (set_ka s 0) ri then [ACmd (KRequest ri)] else [])).
    { destruct (need_ask (set_ka s 0) ri); cbn; intuition discriminate. }
    destruct (load_tx cf disk (set_ka s 0) ri r) as [[t|]| | |]; cbn [acts_of] in Hin; try exact (Hpre Hin).
    destruct (request_validate cf ovf ri rb rl (tx_index t) (len (tx_buff t))); cbn [acts_of] in Hin; try exact (Hpre Hin).
    destruct (len (tx_buff t) <? rb + rl); cbn [acts_of] in Hin; [exact (Hpre Hin)|].
    apply in_app_or in Hin. destruct Hin as [Hin|[Hin|[]]]; [exact (Hpre Hin) | discriminate].
  - exfalso. unfold handle_piece in Hin. cbn [h_rx set_ka] in Hin.
    destruct (h_rx s) as [rx|]; [|destruct Hin].
    destruct (negb (is_requested rx i b blk)); [destruct Hin|]. cbn [rx_left] in Hin.
    destruct (rx_left rx) as [|l0 ls].
    + destruct (filter _ (rx_requested rx)) as [|q0 qs].
      * cbn [rx_hash rx_index rx_buff rx_requested rx_left] in Hin.
        destruct (negb (bytes_eqb _ _)); [destruct Hin|].
        unfold after_piece_finish in Hin. destruct r as [[]|]; cbn [acts_of] in Hin; try (cbn in Hin; intuition discriminate).
        destruct (new_piece_request cf false i0 len) as [rx' a'] eqn:E. cbn [acts_of app] in Hin.
        destruct Hin as [Hin|[Hin|Hin]]; try discriminate. exact (NP _ _ _ _ _ E Hin).
      * unfold send_request in Hin. cbn [rx_left] in Hin. destruct Hin.
    + unfold send_request in Hin. cbn [rx_left] in Hin. destruct l0. cbn in Hin. intuition discriminate.
Qed.

(* ---- C10: the requests of one assignment, over the whole history of answers ---------------------- *)
(* `sent`: the blocks asked for so far on this assignment, in order.  Invariant: asked ++ not-yet-asked is the tiling of
   the piece, and what is outstanding has been asked. *)
Definition RxI (plen : N) (r : rxs) (sent : list (N * N)) : Prop :=
  sent ++ rx_left r = left_blocks plen /\ (forall bl, In bl (rx_requested r) -> In bl sent).

Definition blocks_of (i : N) (a : list action) : list (N * N) :=
  flat_map (fun x => match x with ASend (Request j b l) => if j =? i then [(b, l)] else [] | _ => [] end) a.

Lemma RxI_new cf int i plen r a : new_piece_request cf int i plen = (r, a) -> RxI plen r (blocks_of i a) /\ rx_index r = i.
Proof.
  unfold new_piece_request, send_request, new_rx. cbn [rx_left rx_index rx_requested rx_hash rx_buff].
  destruct (left_blocks plen) as [|[b1 l1] [|[b2 l2] rest]] eqn:EL; cbn [rx_left rx_index rx_requested rx_hash rx_buff app];
    intros [= <- <-]; unfold RxI; cbn [rx_left rx_requested rx_index]; rewrite EL;
    destruct int; cbn; rewrite ?N.eqb_refl; cbn; (split; [split; [reflexivity | intuition] | reflexivity]).
Qed.

(* one answer from the peer while piece (rx_index r) is being assembled *)
Theorem piece_step sha1 cf s r plen sent i b blk reply :
  h_rx s = Some r -> RxI plen r sent ->
  match handle_piece sha1 cf s i b blk reply with
  | HCont s' a =>
      (* not an outstanding block of this piece: nothing changes, nothing is asked *)
      (is_requested r i b blk = false /\ s' = s /\ a = []) \/
      (* accepted, blocks remain outstanding or unasked: exactly the next unasked block (if any) is asked, and only that *)
      (is_requested r i b blk = true /\
       exists r', h_rx s' = Some r' /\ RxI plen r' (sent ++ blocks_of (rx_index r) a) /\ rx_index r' = rx_index r /\
                  (match rx_left r with [] => a = [] | (b0, l0) :: _ => a = [ASend (Request (rx_index r) b0 l0)] end)) \/
      (* accepted and it was the last outstanding block with nothing left to ask: the piece completed (and what follows
         belongs to the next assignment) *)
      (is_requested r i b blk = true /\ rx_left r = [] /\ sent = left_blocks plen /\ In (ACmd KPieceDone) a)
  | HEnd _ a _ =>
      is_requested r i b blk = true /\ rx_left r = [] /\ sent = left_blocks plen
  | HPanic _ => False
  end.
Proof.
  intros Hrx [HI1 HI2]. unfold handle_piece. rewrite Hrx.
  destruct (is_requested r i b blk) eqn:Ereq; cbn [negb]; [|left; auto].
  cbn [rx_left].
  destruct (rx_left r) as [|[b0 l0] ls] eqn:EL.
  - rewrite app_nil_r in HI1.
    destruct (filter (fun bl => negb ((fst bl =? b) && (snd bl =? len blk))) (rx_requested r)) as [|q0 qs] eqn:EF.
    + cbn [rx_hash rx_index rx_buff rx_requested rx_left].
      destruct (negb (bytes_eqb _ _)); [auto|].
      unfold after_piece_finish. destruct reply as [[]|]; try (destruct (new_piece_request cf false i0 len)); cbn;
        try (right; right; repeat split; auto; cbn; auto; fail); auto.
    + unfold send_request. cbn [rx_left]. right. left. split; [reflexivity|].
      eexists. cbn [h_rx set_rx]. split; [reflexivity|]. cbn [blocks_of flat_map]. rewrite app_nil_r.
      split; [|split; reflexivity]. unfold RxI. cbn [rx_left rx_requested]. split; [rewrite app_nil_r; exact HI1|].
      intros bl Hbl. apply HI2. rewrite <- EF in Hbl. apply filter_In in Hbl. tauto.
  - unfold send_request. cbn [rx_left]. right. left. split; [reflexivity|].
    eexists. cbn [h_rx set_rx]. split; [reflexivity|]. cbn [blocks_of flat_map rx_index]. rewrite N.eqb_refl. cbn [app].
    split; [|split; reflexivity]. unfold RxI. cbn [rx_left rx_requested]. split.
    + rewrite <- app_assoc. exact HI1.
    + intros bl Hbl. apply in_app_or in Hbl. apply in_or_app. destruct Hbl as [Hbl|[<-|[]]]; [|right; left; reflexivity].
      left. apply HI2. apply filter_In in Hbl. tauto.
Qed.
