(* C10 — block requests tile each assigned piece exactly once. *)
From Rdest Require Import Base Consts Wire Manager Handler HandlerProofs.
Open Scope N_scope.

(* PieceRx::left for every piece length: contiguous blocks from 0 to the piece length, each 1..16384 bytes,
   all but the last exactly 16 KiB (the last is the remainder) *)
Theorem C10_tiling : forall plen, Tiles 0 plen (left_blocks plen).
Proof. exact left_blocks_tiles. Qed.
Theorem C10_tiling_sum : forall plen, fold_right (fun bl acc => snd bl + acc) 0 (left_blocks plen) = plen /\
                                      Forall (fun bl => 0 < snd bl <= 16384) (left_blocks plen).
Proof. intros plen. destruct (tiles_sum _ _ _ (left_blocks_tiles plen)) as [A B]. split; [lia | exact B]. Qed.

(* and the relation admits no other block list: "cover the piece exactly once, every block but the last 16 KiB" has
   exactly one solution, the one the client computes *)
Theorem C10_tiling_unique : forall plen l, Tiles 0 plen l -> l = left_blocks plen.
Proof. exact left_blocks_is_the_tiling. Qed.

(* a new assignment: the requests written name that piece and are the first (at most two) blocks of the
   tiling; asked ++ not-yet-asked is the tiling *)
Theorem C10_assignment : forall cf int i plen r a, new_piece_request cf int i plen = (r, a) ->
  rx_index r = i /\ rx_requested r ++ rx_left r = left_blocks plen /\
  requests_in a = map (fun bl => (i, fst bl, snd bl)) (rx_requested r) /\ (length (rx_requested r) <= 2)%nat.
Proof. exact new_piece_request_spec. Qed.

(* every further request is exactly the next block not yet asked for *)
Theorem C10_next : forall r r' a, send_request r = (r', a) ->
  match rx_left r with
  | [] => r' = r /\ a = []
  | (b, l) :: rest => a = [ASend (Request (rx_index r) b l)] /\ rx_left r' = rest /\
                      rx_requested r' = rx_requested r ++ [(b, l)] /\ rx_index r' = rx_index r /\ rx_hash r' = rx_hash r
                      /\ rx_buff r' = rx_buff r
  end.
Proof. exact send_request_spec. Qed.

(* the whole history of one assignment.  RxI plen r sent: the blocks asked for so far (`sent`, in order) followed by the
   blocks not yet asked for are exactly the tiling of the piece, and whatever is outstanding has been asked.
   It holds right after the assignment ... *)
Theorem C10_assignment_invariant : forall cf int i plen r a, new_piece_request cf int i plen = (r, a) ->
  RxI plen r (blocks_of i a) /\ rx_index r = i.
Proof. exact RxI_new. Qed.

(* ... and every answer of the peer (in any order, duplicated, withheld, for other pieces / offsets / sizes) either changes
   nothing and asks nothing, or is accepted and followed by exactly one further request - the next block of the tiling -
   while blocks remain unasked, keeping the invariant; the piece is completed exactly when the last outstanding block arrives
   with nothing left to ask, and then the requests sent are the whole tiling: each block exactly once, no gap, no overlap. *)
Theorem C10_answer : forall sha1 cf s r plen sent i b blk reply, h_rx s = Some r -> RxI plen r sent ->
  match handle_piece sha1 cf s i b blk reply with
  | HCont s' a =>
      (is_requested r i b blk = false /\ s' = s /\ a = []) \/
      (is_requested r i b blk = true /\
       exists r', h_rx s' = Some r' /\ RxI plen r' (sent ++ blocks_of (rx_index r) a) /\ rx_index r' = rx_index r /\
                  (match rx_left r with [] => a = [] | (b0, l0) :: _ => a = [ASend (Request (rx_index r) b0 l0)] end)) \/
      (is_requested r i b blk = true /\ rx_left r = [] /\ sent = left_blocks plen /\ In (ACmd KPieceDone) a)
  | HEnd _ a _ => is_requested r i b blk = true /\ rx_left r = [] /\ sent = left_blocks plen
  | HPanic _ => False
  end.
Proof. exact piece_step. Qed.

Example C10_nonvacuous : left_blocks 40000 = [(0, 16384); (16384, 16384); (32768, 7232)] /\ left_blocks 16384 = [(0, 16384)].
Proof. vm_compute. split; reflexivity. Qed.

(* "each at most 16 KiB": the code's constant, pinned *)
Example C10_block_pinned : PIECE_BLOCK_SIZE = 16384. Proof. reflexivity. Qed.

Print Assumptions C10_tiling.
Print Assumptions C10_tiling_sum.
Print Assumptions C10_assignment.
Print Assumptions C10_next.
Print Assumptions C10_assignment_invariant.
Print Assumptions C10_answer.
Print Assumptions C10_tiling_unique.
