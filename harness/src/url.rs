//! C18: the announce request of the real TrackerClient against a loopback HTTP listener.
//!
//! case line:  url <announce template hex, "@PORT@" replaced by the listener's port> <name hex> <length> <peer id hex>
//! output:     HASH <hex> URL <create_url hex> TARGET <request target hex>   |  NOREQ ...
use crate::util::*;
use rdest::verif::TrackerCmd;
use rdest::{Metainfo, TrackerClient};
use tokio::io::{AsyncReadExt, AsyncWriteExt};

async fn run_case(line: &str) -> String {
    let t: Vec<&str> = line.split_whitespace().collect();
    assert_eq!(t[0], "url");
    let listener = tokio::net::TcpListener::bind("127.0.0.1:0").await.unwrap();
    let port = listener.local_addr().unwrap().port();
    let tmpl = String::from_utf8(unhex(t[1])).unwrap();
    let announce = tmpl.replace("@PORT@", &port.to_string());
    let name = unhex(t[2]);
    let length: u64 = t[3].parse().unwrap();
    let mut id = [0u8; 20];
    id.copy_from_slice(&unhex(t[4]));
    let mut doc = format!("d8:announce{}:{}4:infod6:lengthi{}e4:name{}:", announce.len(), announce, length, name.len()).into_bytes();
    doc.extend_from_slice(&name);
    doc.extend_from_slice(b"12:piece lengthi4e6:pieces20:AAAAAAAAAAAAAAAAAAAAee");
    let m = match Metainfo::from_bencode(&doc) {
        Ok(m) => m,
        Err(_) => return "NOPARSE".to_string(),
    };
    let hash = *m.info_hash();
    let url = TrackerClient::verif_create_url(&m);
    let server = tokio::spawn(async move {
        let (mut sock, _) = listener.accept().await.unwrap();
        let mut buf = vec![];
        let mut tmp = [0u8; 4096];
        loop {
            let k = sock.read(&mut tmp).await.unwrap_or(0);
            if k == 0 {
                break;
            }
            buf.extend_from_slice(&tmp[..k]);
            if buf.windows(4).any(|w| w == b"\r\n\r\n") {
                break;
            }
        }
        let body = b"d8:intervali1e5:peerslee";
        let resp = format!("HTTP/1.1 200 OK\r\nContent-Length: {}\r\nConnection: close\r\n\r\n", body.len());
        let _ = sock.write_all(resp.as_bytes()).await;
        let _ = sock.write_all(body).await;
        let _ = sock.shutdown().await;
        buf
    });
    let (tx, mut rx) = tokio::sync::mpsc::channel::<TrackerCmd>(4);
    let mut client = TrackerClient::new(&id, m, tx);
    let run = tokio::spawn(async move { client.run().await });
    let first = tokio::time::timeout(std::time::Duration::from_secs(30), rx.recv()).await;
    run.abort();
    let req = match tokio::time::timeout(std::time::Duration::from_secs(15), server).await {
        Ok(Ok(buf)) => buf,
        _ => vec![],
    };
    let line0 = req.split(|b| *b == b'\r').next().unwrap_or(&[]).to_vec();
    // "GET <target> HTTP/1.1"
    let parts: Vec<&[u8]> = line0.split(|b| *b == b' ').collect();
    let target = if parts.len() >= 3 { parts[1].to_vec() } else { vec![] };
    let host = req
        .split(|b| *b == b'\n')
        .find(|l| l.to_ascii_lowercase().starts_with(b"host:"))
        .map(|l| l[5..].iter().cloned().filter(|c| *c != b' ' && *c != b'\r').collect::<Vec<u8>>())
        .unwrap_or_default();
    let outcome = match first {
        Ok(Some(TrackerCmd::TrackerResp(_))) => "RESP",
        Ok(Some(TrackerCmd::Fail(_))) => "FAIL",
        _ => "NONE",
    };
    format!("HASH {} URL {} TARGET {} HOST {} PORT {} {}", hex(&hash), hex(url.as_bytes()), hex(&target), hex(&host), port, outcome)
}

pub fn run(lines: &[String]) {
    for k in ["http_proxy", "https_proxy", "HTTP_PROXY", "HTTPS_PROXY", "all_proxy", "ALL_PROXY"] {
        std::env::remove_var(k);
    }
    std::env::set_var("NO_PROXY", "*");
    let rt = tokio::runtime::Builder::new_current_thread().enable_all().build().unwrap();
    for line in lines {
        match guarded(|| rt.block_on(run_case(line))) {
            Some(s) => println!("{}", s),
            None => println!("PANIC"),
        }
    }
}
