(* MetaProofs.v — metainfo parsing: totality, faithful reading, accessor safety. *)
From Rdest Require Import Base BaseProofs BCodec BGrammar BProofs DeepFinder Metainfo.
From Coq Require Import ZifyBool ZifyN ZifyNat.
Ltac Zify.zify_post_hook ::= Z.div_mod_to_equations.
Open Scope N_scope.

Theorem metainfo_total data : metainfo_of data <> Panic /\ metainfo_of data <> OutOfFuel.
Proof.
  unfold metainfo_of. destruct (decode_total true BCodec_lenient_colon data) as [A B]. fold (decode data) in A, B.
  destruct (decode data) as [vs| | |]; try congruence.
  - destruct (first_parsing data vs); split; discriminate.
  - split; discriminate.
Qed.

(* ---- faithful reading ---------------------------------------------------------- *)

(* what the selected dictionary says, written as a relation *)
Definition FieldsOf (d : dict) (m : metainfo) : Prop :=
  find_announce d = Some (m_announce m) /\
  find_name d = Some (m_name m) /\
  find_piece_length d = Some (m_piece_length m) /\
  find_pieces d = Some (m_pieces m) /\
  ((exists l, find_length d = Some l /\ find_files d = None /\ m_files m = [mkfile l (m_name m)]) \/
   (find_length d = None /\ find_files d = Some (m_files m))).

Lemma parse_meta_fields data d m : parse_meta data d = Some m ->
  FieldsOf d m /\ find_first key_info_raw data = Some (m_hash_input m) /\
  (Metainfo_reject_total_overflow = true -> sum_lengths (m_files m) < two64) /\
  (Metainfo_reject_unsafe_paths = true ->
   safe_path (m_name m) = true /\ forallb (fun f => safe_path (f_path f)) (m_files m) = true).
Proof.
  unfold parse_meta.
  destruct (find_length d) as [l|] eqn:EL; destruct (find_files d) as [fs|] eqn:EF; try discriminate;
    destruct (find_name d) as [name|] eqn:EN; try discriminate.
  - destruct (Metainfo_reject_total_overflow && negb (sum_lengths [mkfile l name] <? 18446744073709551616)) eqn:EO; [discriminate|].
    destruct (Metainfo_reject_unsafe_paths && negb (safe_path name && forallb (fun f => safe_path (f_path f)) [mkfile l name])) eqn:EU; [discriminate|].
    destruct (find_announce d) as [a|] eqn:EA; [|discriminate].
    destruct (find_piece_length d) as [pl|] eqn:EP; [|discriminate].
    destruct (find_pieces d) as [ps|] eqn:EPS; [|discriminate].
    destruct (find_first key_info_raw data) as [h|] eqn:EH; [|discriminate].
    intros [= <-]. cbn. unfold FieldsOf. cbn. repeat split; try assumption; try reflexivity.
    + left. exists l. repeat split; (assumption || reflexivity).
    + intros Hflag. rewrite Hflag in EO. unfold two64, sum_lengths in *. cbn [andb fold_left f_length] in EO. lia.
    + match goal with H : Metainfo_reject_unsafe_paths = true |- _ => rewrite H in EU end. cbn [andb] in EU. apply negb_false_iff, andb_true_iff in EU. exact (proj1 EU).
    + match goal with H : Metainfo_reject_unsafe_paths = true |- _ => rewrite H in EU end. cbn [andb] in EU. apply negb_false_iff, andb_true_iff in EU. exact (proj2 EU).
  - destruct (Metainfo_reject_total_overflow && negb (sum_lengths fs <? 18446744073709551616)) eqn:EO; [discriminate|].
    destruct (Metainfo_reject_unsafe_paths && negb (safe_path name && forallb (fun f => safe_path (f_path f)) fs)) eqn:EU; [discriminate|].
    destruct (find_announce d) as [a|] eqn:EA; [|discriminate].
    destruct (find_piece_length d) as [pl|] eqn:EP; [|discriminate].
    destruct (find_pieces d) as [ps|] eqn:EPS; [|discriminate].
    destruct (find_first key_info_raw data) as [h|] eqn:EH; [|discriminate].
    intros [= <-]. cbn. unfold FieldsOf. cbn. repeat split; try assumption; try reflexivity.
    + right. split; assumption.
    + intros Hflag. rewrite Hflag in EO. fold (sum_lengths fs). unfold two64. cbn [andb] in EO. lia.
    + match goal with H : Metainfo_reject_unsafe_paths = true |- _ => rewrite H in EU end. cbn [andb] in EU. apply negb_false_iff, andb_true_iff in EU. exact (proj1 EU).
    + match goal with H : Metainfo_reject_unsafe_paths = true |- _ => rewrite H in EU end. cbn [andb] in EU. apply negb_false_iff, andb_true_iff in EU. exact (proj2 EU).
Qed.

Lemma first_parsing_in data vs m : first_parsing data vs = Some m ->
  exists d, In (BDict d) vs /\ parse_meta data d = Some m.
Proof.
  induction vs as [|v vs IH]; cbn [first_parsing]; [discriminate|].
  destruct v as [z|s|l|d]; try (intros H; destruct (IH H) as (d' & Hin & Hp); exists d'; split; [right; exact Hin | exact Hp]).
  destruct (parse_meta data d) as [m'|] eqn:E.
  - intros [= <-]. exists d. split; [left; reflexivity | exact E].
  - intros H. destruct (IH H) as (d' & Hin & Hp). exists d'. split; [right; exact Hin | exact Hp].
Qed.

Theorem metainfo_faithful data m : metainfo_of data = Ok m ->
  exists vs d, decode data = Ok vs /\ In (BDict d) vs /\ FieldsOf d m /\
               find_first key_info_raw data = Some (m_hash_input m).
Proof.
  unfold metainfo_of. destruct (decode data) as [vs| | |]; try discriminate.
  destruct (first_parsing data vs) as [m'|] eqn:E; [|discriminate]. intros [= <-].
  destruct (first_parsing_in data vs m' E) as (d & Hin & Hp).
  destruct (parse_meta_fields data d m' Hp) as (HF & HH & _).
  exists vs, d. split; [reflexivity|]. split; [exact Hin|]. split; [exact HF | exact HH].
Qed.

(* ---- accessor safety ------------------------------------------------------------- *)

Lemma find_piece_length_pos d pl : Metainfo_reject_zero_piece_length = true ->
  find_piece_length d = Some pl -> pl <> 0.
Proof.
  intros Hflag. unfold find_piece_length. destruct (info_of d) as [i|]; [|discriminate].
  destruct (map_get k_piece_length i) as [[z| | |]|]; try discriminate.
  destruct (u64_of z) as [n|]; [|discriminate]. rewrite Hflag. cbn [andb].
  destruct (N.eqb_spec n 0); [discriminate|]. intros [= <-]. assumption.
Qed.

Definition tl_step (ovf : bool) (acc : result N) (f : file) : result N :=
  do a <- acc; let s := a + f_length f in
  if s <? two64 then Ok s else if ovf then Panic else Ok (s mod two64).

Lemma fold_sum_shift fs : forall a, fold_left (fun acc f => acc + f_length f) fs a = a + sum_lengths fs.
Proof.
  unfold sum_lengths. induction fs as [|f fs IH]; intros a; cbn [fold_left]; [lia|].
  rewrite IH, (IH (0 + f_length f)). lia.
Qed.

Lemma sum_lengths_cons f fs : sum_lengths (f :: fs) = f_length f + sum_lengths fs.
Proof. unfold sum_lengths. cbn [fold_left]. rewrite fold_sum_shift. unfold sum_lengths. lia. Qed.

Lemma total_length_ok ovf fs : forall a, a + sum_lengths fs < two64 ->
  fold_left (tl_step ovf) fs (Ok a) = Ok (a + sum_lengths fs).
Proof.
  induction fs as [|f fs IH]; intros a H.
  - cbn [fold_left]. f_equal. unfold sum_lengths. cbn [fold_left]. lia.
  - rewrite sum_lengths_cons in *. cbn [fold_left]. unfold tl_step at 2. cbn [bind].
    replace (a + f_length f <? two64) with true by lia.
    rewrite IH by lia. f_equal. lia.
Qed.

Lemma ranges_ok (ovf : bool) m : m_piece_length m <> 0 ->
  forall fs pos, pos + sum_lengths fs < two64 -> ranges_go ovf m fs pos <> Panic.
Proof.
  intros Hpl. induction fs as [|f fs IH]; intros pos H; [discriminate|].
  rewrite sum_lengths_cons in H.
  cbn [ranges_go]. cbv zeta. replace (pos + f_length f <? two64) with true by lia. cbn [bind].
  unfold pos_of. replace (m_piece_length m =? 0) with false by lia. cbn [bind].
  specialize (IH (pos + f_length f)).
  match goal with |- bind ?r _ <> Panic => destruct r eqn:E end; cbn [bind]; try discriminate.
  apply IH. lia.
Qed.

Theorem accessors_safe ovf data m :
  Metainfo_reject_zero_piece_length = true -> Metainfo_reject_total_overflow = true ->
  metainfo_of data = Ok m ->
  total_length ovf m <> Panic /\ file_piece_ranges ovf m <> Panic /\
  forall i, i < pieces_num m -> piece m i <> Panic /\ piece_length ovf m i <> Panic.
Proof.
  intros F1 F2 H. unfold metainfo_of in H. destruct (decode data) as [vs| | |]; try discriminate.
  destruct (first_parsing data vs) as [m'|] eqn:E; [|discriminate]. injection H as <-.
  destruct (first_parsing_in data vs m' E) as (d & _ & Hp).
  destruct (parse_meta_fields data d m' Hp) as ((_ & _ & HPL & _) & _ & Hsum & _). specialize (Hsum F2).
  pose proof (find_piece_length_pos d _ F1 HPL) as Hpl.
  assert (HT : total_length ovf m' = Ok (sum_lengths (m_files m'))).
  { unfold total_length. change (fun acc f => _) with (tl_step ovf). rewrite total_length_ok; [f_equal; lia | lia]. }
  split; [rewrite HT; discriminate|]. split.
  - unfold file_piece_ranges. apply ranges_ok; [exact Hpl | lia].
  - intros i Hi. split.
    + unfold piece, nthN. unfold pieces_num, len in Hi.
      destruct (nth_error (m_pieces m') (N.to_nat i)) eqn:En; [discriminate|].
      apply nth_error_None in En. lia.
    + unfold piece_length. replace (pieces_num m' =? 0) with false by lia. cbn [bind].
      destruct (i <? pieces_num m' - 1); [discriminate|]. rewrite HT. cbn [bind].
      replace (m_piece_length m' =? 0) with false by lia.
      destruct (negb _); discriminate.
Qed.

(* C04: an accepted document carries only safe name / paths *)
Theorem accepted_safe data m : Metainfo_reject_unsafe_paths = true -> metainfo_of data = Ok m ->
  safe_path (m_name m) = true /\ forallb (fun f => safe_path (f_path f)) (m_files m) = true.
Proof.
  intros F H. unfold metainfo_of in H. destruct (decode data) as [vs| | |]; try discriminate.
  destruct (first_parsing data vs) as [m'|] eqn:E; [|discriminate]. injection H as <-.
  destruct (first_parsing_in data vs m' E) as (d & _ & Hp).
  destruct (parse_meta_fields data d m' Hp) as (_ & _ & _ & Hs). exact (Hs F).
Qed.
