(* BEncProofs.v — encoder: canonical output, round trips (C15). *)
From Rdest Require Import Base BaseProofs BCodec BGrammar BProofs.
From Coq Require Import ZifyBool ZifyN ZifyNat.
Ltac Zify.zify_post_hook ::= Z.div_mod_to_equations.
Open Scope N_scope.

(* induction principle for the nested inductive *)
Section BvalueInd.
  Variable P : bvalue -> Prop.
  Hypothesis Hi : forall z, P (BInt z).
  Hypothesis Hs : forall s, P (BStr s).
  Hypothesis Hl : forall l, Forall P l -> P (BList l).
  Hypothesis Hd : forall d, Forall (fun kv => P (snd kv)) d -> P (BDict d).
  Fixpoint bvalue_ind' (v : bvalue) : P v :=
    match v with
    | BInt z => Hi z
    | BStr s => Hs s
    | BList l => Hl l ((fix go (l : list bvalue) : Forall P l :=
                          match l with [] => Forall_nil _ | x :: l' => Forall_cons _ (bvalue_ind' x) (go l') end) l)
    | BDict d => Hd d ((fix go (d : list (bytes * bvalue)) : Forall (fun kv => P (snd kv)) d :=
                          match d with
                          | [] => Forall_nil _
                          | (k, x) :: d' => Forall_cons (k, x) (bvalue_ind' x) (go d')
                          end) d)
    end.
End BvalueInd.

(* the local fixpoints of encode are maps *)
Definition enc_entries (d : list (bytes * bvalue)) : list (bytes * bytes) :=
  map (fun kv => (fst kv, encode (snd kv))) d.

Lemma encode_list l : encode (BList l) = [ch_l] ++ concat (map encode l) ++ [ch_e].
Proof.
  cbn [encode].
  match goal with |- context[concat (?f l)] => replace (f l) with (map encode l) end; [reflexivity|].
  induction l as [|v l IH]; [reflexivity|]. cbn [map]. rewrite IH. reflexivity.
Qed.

Lemma encode_dict d :
  encode (BDict d) = [ch_d] ++ concat (map (fun ke => enc_str (fst ke) ++ snd ke) (sort_by_key (enc_entries d))) ++ [ch_e].
Proof.
  cbn [encode].
  match goal with |- context[sort_by_key (?f d)] => replace (f d) with (enc_entries d) end; [reflexivity|].
  unfold enc_entries. induction d as [|[k v] d IH]; [reflexivity|]. cbn [map fst snd]. rewrite IH. reflexivity.
Qed.

(* ---- sorting a sorted list ------------------------------------------------------- *)

Lemma bytes_ltb_irrefl a : bytes_ltb a a = false.
Proof. induction a as [|x a IH]; [reflexivity|]. cbn [bytes_ltb]. rewrite N.ltb_irrefl. exact IH. Qed.

Lemma bytes_ltb_asym a : forall b, bytes_ltb a b = true -> bytes_ltb b a = false.
Proof.
  induction a as [|x a IH]; intros [|y b]; cbn [bytes_ltb]; try congruence.
  destruct (N.ltb_spec x y) as [L|L].
  - intros _. replace (y <? x) with false by lia. replace (x <? y) with true by lia. reflexivity.
  - destruct (N.ltb_spec y x) as [L2|L2]; [discriminate|]. apply IH.
Qed.

Lemma sort_sorted (l : list (bytes * bytes)) : keys_sorted l = true -> sort_by_key l = l.
Proof.
  induction l as [|[k v] l IH]; [reflexivity|]. intros H. unfold sort_by_key in *. cbn [fold_right].
  cbn [keys_sorted] in H. destruct l as [|[k' v'] l'].
  - reflexivity.
  - apply andb_true_iff in H. destruct H as [Hlt Hs]. rewrite (IH Hs). cbn [insert_sorted fst].
    rewrite (bytes_ltb_asym _ _ Hlt). reflexivity.
Qed.

Lemma keys_sorted_map {V W} (f : V -> W) (d : list (bytes * V)) :
  keys_sorted (map (fun kv => (fst kv, f (snd kv))) d) = keys_sorted d.
Proof.
  induction d as [|[k v] d IH]; [reflexivity|]. cbn [map fst snd keys_sorted] in *.
  destruct d as [|[k' v'] d']; [reflexivity|]. cbn [map fst snd] in *. rewrite IH. reflexivity.
Qed.

(* inserting strictly increasing keys one after the other rebuilds the list *)
Lemma map_insert_last {V} (d : list (bytes * V)) k v :
  keys_sorted (d ++ [(k, v)]) = true -> map_insert k v d = d ++ [(k, v)].
Proof.
  induction d as [|[k0 v0] d IH]; [reflexivity|]. intros H. cbn [map_insert app].
  assert (Hk : bytes_ltb k0 k = true /\ keys_sorted (d ++ [(k, v)]) = true).
  { clear IH. revert k0 v0 H. induction d as [|[k1 v1] d IHd]; intros k0 v0 H.
    - cbn in H. apply andb_true_iff in H. destruct H as [H _]. split; [exact H | reflexivity].
    - cbn [app keys_sorted] in H. apply andb_true_iff in H. destruct H as [H01 H1].
      split; [|exact H1]. destruct (IHd k1 v1 H1) as [H1k _].
      (* transitivity *)
      clear -H01 H1k. revert k1 k H01 H1k. induction k0 as [|x a IHa]; intros [|y b] [|z c]; cbn [bytes_ltb]; try congruence.
      destruct (N.ltb_spec x y), (N.ltb_spec y x), (N.ltb_spec y z), (N.ltb_spec z y), (N.ltb_spec x z), (N.ltb_spec z x);
        try congruence; try lia. apply IHa. }
  destruct Hk as [Hlt Hs]. rewrite (bytes_ltb_asym _ _ Hlt), Hlt. rewrite IH by exact Hs. reflexivity.
Qed.

Lemma keys_sorted_prefix {V} (d1 d2 : list (bytes * V)) : keys_sorted (d1 ++ d2) = true -> keys_sorted d1 = true.
Proof.
  induction d1 as [|[k v] d1 IH]; [reflexivity|]. cbn [app keys_sorted].
  destruct d1 as [|[k' v'] d1']; [reflexivity|]. cbn [app]. intros H. apply andb_true_iff in H. destruct H as [A B].
  apply andb_true_iff. split; [exact A | apply IH, B].
Qed.

Lemma map_of_list_sorted {V} (d : list (bytes * V)) : keys_sorted d = true -> map_of_list d = d.
Proof.
  unfold map_of_list. pattern d. apply rev_ind; [reflexivity|].
  intros [k v] l IH H. rewrite fold_left_app. cbn [fold_left fst snd].
  rewrite IH by (apply keys_sorted_prefix in H; exact H). apply map_insert_last, H.
Qed.

(* ---- printing a shortest numeral's value gives the numeral back ------------------- *)

Lemma print_dec_inv : forall ds, Numeral ds -> Shortest ds ->
  forall f, digits_val ds < 10 ^ N.of_nat (S f) -> print_dec (S f) (digits_val ds) = ds.
Proof.
  intros ds. pattern ds. apply rev_ind; clear ds.
  { intros [H _]. congruence. }
  intros d ds' IH [_ Hall] HS f Hlt.
  apply Forall_app in Hall. destruct Hall as [Hall' Hd]. inversion Hd as [|? ? Hd1 _]; subst.
  apply is_digit_spec in Hd1.
  rewrite digits_val_snoc in *. cbn [print_dec].
  destruct ds' as [|a t].
  - (* single digit *)
    unfold digits_val. cbn [fold_left]. replace (0 * 10 + (d - 48) <? 10) with true by lia.
    cbn [app]. f_equal. lia.
  - assert (Ha : is_digit a = true) by (inversion Hall'; assumption).
    assert (Ha0 : a <> ch_0) by (destruct t; exact HS).
    pose proof (digits_val_nonzero a t Ha Ha0) as Hnz.
    replace (digits_val (a :: t) * 10 + (d - 48) <? 10) with false by lia.
    replace ((digits_val (a :: t) * 10 + (d - 48)) / 10) with (digits_val (a :: t)) by lia.
    replace (48 + (digits_val (a :: t) * 10 + (d - 48)) mod 10) with d by lia.
    destruct f as [|f'].
    { change (10 ^ N.of_nat 1) with 10 in Hlt. lia. }
    rewrite IH; [reflexivity | split; [discriminate | exact Hall'] | destruct t; [exact I | exact Ha0] |].
    rewrite Nat2N.inj_succ, N.pow_succ_r' in Hlt. lia.
Qed.

Lemma dec_N_digits ds : Numeral ds -> Shortest ds -> digits_val ds < 18446744073709551616 ->
  dec_N (digits_val ds) = ds.
Proof.
  intros HN HS Hlt. unfold dec_N. apply print_dec_inv; [assumption..|].
  assert (Hpow : 10 ^ N.of_nat 20 = 100000000000000000000) by (vm_compute; reflexivity).
  rewrite Hpow. lia.
Qed.

(* ---- (1) the encoder's output is canonical and denotes the value ------------------ *)

Definition flat_pairs (d : list (bytes * bvalue)) : list bvalue :=
  flat_map (fun kv => [BStr (fst kv); snd kv]) d.

Lemma Pairs_flat d : Pairs (flat_pairs d) d.
Proof. induction d as [|[k v] d IH]; [constructor|]. cbn [flat_pairs flat_map app fst snd]. constructor. exact IH. Qed.

Lemma wf_value_dict d :
  wf_value (BDict d) = keys_sorted d
                       && forallb (fun kv => (len (fst kv) <? 18446744073709551616) && wf_value (snd kv)) d.
Proof.
  cbn [wf_value]. f_equal. induction d as [|[k v] d IH]; [reflexivity|]. cbn [forallb fst snd]. rewrite <- IH. reflexivity.
Qed.

Lemma Canon_str s : len s < 18446744073709551616 -> Canon (enc_str s) (BStr s).
Proof.
  intros H. destruct (dec_N_spec (len s) H) as (A & B & C). unfold enc_str. constructor; assumption.
Qed.

Lemma Canon_int z : in_i64 z -> Canon ([ch_i] ++ dec_Z z ++ [ch_e]) (BInt z).
Proof.
  intros Hz. unfold in_i64 in Hz. unfold dec_Z. destruct (Z.ltb_spec z 0) as [Hneg|Hpos].
  - destruct (dec_N_spec (Z.to_N (- z))) as (A & B & C); [lia|].
    change ([ch_i] ++ (ch_minus :: dec_N (Z.to_N (- z))) ++ [ch_e])
      with ([ch_i; ch_minus] ++ dec_N (Z.to_N (- z)) ++ [ch_e]).
    apply Cn_neg; [exact A | exact B | rewrite C; lia | rewrite C; lia | unfold in_i64; lia].
  - destruct (dec_N_spec (Z.to_N z)) as (A & B & C); [lia|].
    apply Cn_int; [exact A | exact B | rewrite C; lia | unfold in_i64; lia].
Qed.

Theorem encode_canon : forall v, wf_value v = true -> Canon (encode v) v.
Proof.
  induction v as [z|s|l IH|d IH] using bvalue_ind'; intros Hwf.
  - cbn [wf_value] in Hwf. cbn [encode]. apply Canon_int. unfold in_i64. lia.
  - cbn [wf_value encode] in *. apply Canon_str. lia.
  - rewrite encode_list. apply Cn_list. cbn [wf_value] in Hwf.
    induction l as [|v l IHl]; [constructor|]. cbn [forallb] in Hwf. apply andb_true_iff in Hwf. destruct Hwf as [Hv Hl].
    inversion IH as [|? ? IHv IHl']; subst. cbn [map concat]. constructor; [apply IHv, Hv | apply IHl; assumption].
  - rewrite encode_dict. rewrite wf_value_dict in Hwf. apply andb_true_iff in Hwf. destruct Hwf as [Hs Hall].
    rewrite sort_sorted by (unfold enc_entries; rewrite keys_sorted_map; exact Hs).
    apply (Cn_dict _ (flat_pairs d) d); [|apply Pairs_flat|exact Hs].
    clear Hs. unfold enc_entries. rewrite map_map. cbn [fst snd].
    induction d as [|[k v] d IHd]; [constructor|].
    cbn [forallb fst snd] in Hall. apply andb_true_iff in Hall. destruct Hall as [Hkv Hd].
    apply andb_true_iff in Hkv. destruct Hkv as [Hk Hv].
    inversion IH as [|? ? IHv IHd']; subst. cbn [snd] in IHv.
    cbn [map concat flat_pairs flat_map fst snd app]. rewrite <- app_assoc.
    constructor; [apply Canon_str; lia|]. constructor; [apply IHv, Hv|]. apply IHd; assumption.
Qed.

(* ---- (2) canonical documents are well-formed documents ---------------------------- *)

Lemma Canon_WfVal : forall a v, Canon a v -> WfVal a v.
Proof.
  apply (Canon_mut (fun a v _ => WfVal a v) (fun b vs _ => WfSeq b vs)); intros.
  - apply Wf_int; assumption.
  - apply Wf_neg; assumption.
  - apply Wf_str; assumption.
  - apply Wf_list; assumption.
  - rewrite <- (map_of_list_sorted ps) by assumption. eapply Wf_dict; eassumption.
  - constructor.
  - constructor; assumption.
Qed.

Lemma CanonSeq_WfSeq b vs : CanonSeq b vs -> WfSeq b vs.
Proof. induction 1; constructor; [apply Canon_WfVal|]; assumption. Qed.

Lemma CanonSeq_of_values vs : forallb wf_value vs = true -> CanonSeq (concat (map encode vs)) vs.
Proof.
  induction vs as [|v vs IH]; [constructor|]. cbn [forallb]. intros H. apply andb_true_iff in H. destruct H.
  cbn [map concat]. constructor; [apply encode_canon; assumption | apply IH; assumption].
Qed.

Theorem decode_encode vs : forallb wf_value vs = true -> decode (concat (map encode vs)) = Ok vs.
Proof. intros H. apply decode_complete, CanonSeq_WfSeq, CanonSeq_of_values, H. Qed.

(* ---- (3) re-encoding the decoding of a canonical document reproduces it ---------- *)

Lemma Canon_encode : forall a v, Canon a v -> encode v = a.
Proof.
  apply (Canon_mut (fun a v _ => encode v = a) (fun b vs _ => concat (map encode vs) = b)).
  - intros ds z HN HS Hz Hi. subst z. cbn [encode]. unfold dec_Z.
    replace (Z.of_N (digits_val ds) <? 0)%Z with false by lia. rewrite N2Z.id.
    rewrite dec_N_digits; [reflexivity | assumption | assumption | unfold in_i64 in Hi; lia].
  - intros ds z HN HS Hnz Hz Hi. subst z. cbn [encode]. unfold dec_Z.
    replace (- Z.of_N (digits_val ds) <? 0)%Z with true by lia.
    rewrite Z.opp_involutive, N2Z.id.
    rewrite dec_N_digits; [reflexivity | assumption | assumption | unfold in_i64 in Hi; lia].
  - intros ds s HN HS Hv Hl. cbn [encode]. unfold enc_str. rewrite <- Hv.
    rewrite dec_N_digits; [reflexivity | assumption | assumption | lia].
  - intros body vs _ IH. rewrite encode_list, IH. reflexivity.
  - intros body vs ps _ IH HP Hs. rewrite encode_dict.
    rewrite sort_sorted by (unfold enc_entries; rewrite keys_sorted_map; exact Hs).
    do 2 f_equal. rewrite <- IH. clear IH Hs. unfold enc_entries. rewrite map_map. cbn [fst snd].
    induction HP as [|k v r ps HP IHP]; [reflexivity|].
    cbn [map concat fst snd encode]. rewrite IHP, <- app_assoc. reflexivity.
  - reflexivity.
  - intros a v b vs _ IHa _ IHb. cbn [map concat]. rewrite IHa, IHb. reflexivity.
Qed.

Theorem reencode_canonical doc vs : CanonSeq doc vs ->
  decode doc = Ok vs /\ concat (map encode vs) = doc.
Proof.
  intros H. split; [apply decode_complete, CanonSeq_WfSeq, H|].
  induction H as [|a v b vs Ha Hb IH]; [reflexivity|]. cbn [map concat]. rewrite IH, (Canon_encode a v Ha). reflexivity.
Qed.

(* consequences of the round trip: the encoder is injective on what a BValue can hold *)
Theorem encode_seq_injective vs1 vs2 : forallb wf_value vs1 = true -> forallb wf_value vs2 = true ->
  concat (map encode vs1) = concat (map encode vs2) -> vs1 = vs2.
Proof.
  intros H1 H2 E. pose proof (decode_encode vs1 H1) as D1. pose proof (decode_encode vs2 H2) as D2.
  rewrite E in D1. rewrite D1 in D2. injection D2 as ->. reflexivity.
Qed.

Theorem encode_injective v1 v2 : wf_value v1 = true -> wf_value v2 = true -> encode v1 = encode v2 -> v1 = v2.
Proof.
  intros H1 H2 E.
  assert (L : [v1] = [v2]).
  { apply encode_seq_injective; cbn [forallb map concat]; rewrite ?H1, ?H2, ?app_nil_r; try reflexivity. exact E. }
  injection L as ->. reflexivity.
Qed.
