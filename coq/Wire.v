(* Wire.v — executable mirror of src/messages/*.rs (Serializer::data, check,
   from) and src/frame.rs (Frame::parse).  Constants come from the generated
   Consts.v. *)
From Rdest Require Export Base Consts.
From Rdest Require Import ShapeCheck.   (* the vocabulary of the code is the one modelled: see ShapeCheck.v *)
Open Scope N_scope.

Inductive msg : Type :=
| Handshake (info_hash peer_id : bytes)
| KeepAlive
| Choke
| Unchoke
| Interested
| NotInterested
| Have (index : N)
| Bitfield (pieces_bytes : bytes)
| Request (index begin length : N)
| Piece (index begin : N) (block : bytes)
| Cancel (index begin length : N).

(* ---- Serializer::data ------------------------------------------------- *)

Definition encode_msg (m : msg) : bytes :=
  match m with
  | Handshake h p =>
      [len Handshake_PROTOCOL_ID mod 256] ++ Handshake_PROTOCOL_ID
        ++ repeat 0 (N.to_nat Handshake_RESERVED_SIZE) ++ h ++ p
  | KeepAlive => be32 KeepAlive_LEN
  | Choke => be32 Choke_LEN ++ [Choke_ID]
  | Unchoke => be32 Unchoke_LEN ++ [Unchoke_ID]
  | Interested => be32 Interested_LEN ++ [Interested_ID]
  | NotInterested => be32 NotInterested_LEN ++ [NotInterested_ID]
  | Have i => be32 Have_LEN ++ [Have_ID] ++ be32 i
  | Bitfield bs => be32 (Bitfield_ID_SIZE + len bs) ++ [Bitfield_ID] ++ bs
  | Request i b l => be32 Request_LEN ++ [Request_ID] ++ be32 i ++ be32 b ++ be32 l
  | Piece i b blk =>
      be32 (Piece_ID_SIZE + Piece_INDEX_SIZE + Piece_BEGIN_SIZE + len blk)
        ++ [Piece_ID] ++ be32 i ++ be32 b ++ blk
  | Cancel i b l => be32 Cancel_LEN ++ [Cancel_ID] ++ be32 i ++ be32 b ++ be32 l
  end.

(* ---- Frame::parse ------------------------------------------------------ *)

Inductive presult : Type :=
| PFrame (m : msg) (consumed : N)     (* Ok(frame), cursor position *)
| PUnknown (id : N) (consumed : N)    (* Err(UnknownId), cursor position set to skip *)
| PIncomplete                         (* Err(Incomplete) *)
| PError                              (* any other Err *)
| PPanic.                             (* index / slice out of range *)

(* u32::from_be_bytes(buf[o..o+4]); callers have checked availability *)
Definition rd32 (buf : bytes) (o : N) : N :=
  match slice buf o 4 with
  | [a; b; c; d] => unbe32 a b c d
  | _ => 0
  end.

(* Repair flag of the per-message check() functions, pinned by the correspondence: a length prefix that
   cannot belong to the message is an error (pinned code: reported as Incomplete, i.e. wait forever). *)
Definition Wire_wrong_length_is_error : bool := true.
Definition wrong_len : presult := if Wire_wrong_length_is_error then PError else PIncomplete.

(* the per-message part of Frame::parse: check() then from() *)
Definition dispatch (msg_id protocol_id_length length avail : N) (buf : bytes) : presult :=
    if msg_id =? Handshake_ID_FROM_PROTOCOL then
      (* Handshake::check *)
      if protocol_id_length =? len Handshake_PROTOCOL_ID then
        if avail <? Handshake_FULL_SIZE then PIncomplete
        else if bytes_eqb (slice buf 1 (len Handshake_PROTOCOL_ID)) Handshake_PROTOCOL_ID then
          let start := Handshake_LEN_SIZE + len Handshake_PROTOCOL_ID + Handshake_RESERVED_SIZE in
          PFrame (Handshake (slice buf start Handshake_INFO_HASH_SIZE)
                            (slice buf (start + Handshake_INFO_HASH_SIZE) Handshake_PEER_ID_SIZE))
                 Handshake_FULL_SIZE
        else PError
      else PError
    else if msg_id =? Choke_ID then
      if length =? Choke_LEN then PFrame Choke Choke_FULL_SIZE else wrong_len
    else if msg_id =? Unchoke_ID then
      if length =? Unchoke_LEN then PFrame Unchoke Unchoke_FULL_SIZE else wrong_len
    else if msg_id =? Interested_ID then
      if length =? Interested_LEN then PFrame Interested Interested_FULL_SIZE else wrong_len
    else if msg_id =? NotInterested_ID then
      if length =? NotInterested_LEN then PFrame NotInterested NotInterested_FULL_SIZE else wrong_len
    else if msg_id =? Have_ID then
      if (length =? Have_LEN) && (Have_LEN_SIZE + length <=? avail)
      then PFrame (Have (rd32 buf (Have_LEN_SIZE + Have_ID_SIZE))) Have_FULL_SIZE
      else if length =? Have_LEN then PIncomplete else wrong_len
    else if msg_id =? Bitfield_ID then
      if Bitfield_LEN_SIZE + length <=? avail
      then PFrame (Bitfield (slice buf (Bitfield_LEN_SIZE + Bitfield_ID_SIZE)
                                   (Bitfield_LEN_SIZE + length - (Bitfield_LEN_SIZE + Bitfield_ID_SIZE))))
                  (Bitfield_LEN_SIZE + length)
      else PIncomplete
    else if msg_id =? Request_ID then
      if (length =? Request_LEN) && (Request_LEN_SIZE + length <=? avail)
      then let s := Request_LEN_SIZE + Request_ID_SIZE in
           PFrame (Request (rd32 buf s) (rd32 buf (s + Request_INDEX_SIZE))
                           (rd32 buf (s + Request_INDEX_SIZE + Request_BEGIN_SIZE)))
                  Request_FULL_SIZE
      else if length =? Request_LEN then PIncomplete else wrong_len
    else if msg_id =? Piece_ID then
      if (Piece_MIN_LEN <=? length) && (Piece_LEN_SIZE + length <=? avail)
      then let s := Piece_LEN_SIZE + Piece_ID_SIZE in
           let s2 := s + Piece_INDEX_SIZE + Piece_BEGIN_SIZE in
           (* &buf[s2 .. LEN_SIZE+length] panics when the range is inverted *)
           if Piece_LEN_SIZE + length <? s2 then PPanic else
           PFrame (Piece (rd32 buf s) (rd32 buf (s + Piece_INDEX_SIZE))
                         (slice buf s2 (Piece_LEN_SIZE + length - s2)))
                  (Piece_LEN_SIZE + length)
      else if Piece_MIN_LEN <=? length then PIncomplete else wrong_len
    else if msg_id =? Cancel_ID then
      if (length =? Cancel_LEN) && (Cancel_LEN_SIZE + length <=? avail)
      then let s := Cancel_LEN_SIZE + Cancel_ID_SIZE in
           PFrame (Cancel (rd32 buf s) (rd32 buf (s + Cancel_INDEX_SIZE))
                          (rd32 buf (s + Cancel_INDEX_SIZE + Cancel_BEGIN_SIZE)))
                  Cancel_FULL_SIZE
      else if length =? Cancel_LEN then PIncomplete else wrong_len
    else PUnknown msg_id (MSG_LEN_SIZE + length).

(* Repair flag of Frame::parse, pinned by the correspondence: a handshake is recognised by its whole beginning
   ("\x13Bit" at the length position and 'T' at the id position); 'T' under any other length is an ordinary unknown
   id (pinned code: every message with id byte 84 was taken for a handshake, so 00 00 00 01 54 ended the connection). *)
Definition Frame_handshake_by_prefix : bool := true.
Definition handshake_prefix : N := unbe32 19 66 105 116.     (* u32::from_be_bytes([19, b'B', b'i', b't']) *)

Definition parse_frame (buf : bytes) : presult :=
  let avail := len buf in
  (* get_message_length *)
  if avail <? MSG_LEN_SIZE then PIncomplete else
  let length := rd32 buf 0 in
  if length =? KeepAlive_LEN then PFrame KeepAlive KeepAlive_FULL_SIZE else
  (* get_message_id *)
  if avail <? MSG_LEN_SIZE + MSG_ID_SIZE then PIncomplete else
  match nthN buf MSG_ID_POS, nthN buf 0 with
  | Some msg_id, Some protocol_id_length =>
    let hs := (msg_id =? Handshake_ID_FROM_PROTOCOL) &&
              (negb Frame_handshake_by_prefix || (length =? handshake_prefix)) in
    if negb hs && (MAX_FRAME_SIZE <? length) then PError else
    if (msg_id =? Handshake_ID_FROM_PROTOCOL) && negb hs then PUnknown msg_id (MSG_LEN_SIZE + length) else
    dispatch msg_id protocol_id_length length avail buf
  | _, _ => PIncomplete
  end.

(* ---- Bitfield::from_vec / to_vec -------------------------------------- *)

Fixpoint pack_byte (bits : list bool) (mask : N) : N :=
  match bits with
  | [] => 0
  | b :: r => N.lor (if b then mask else 0) (pack_byte r (mask / 2))
  end.

Definition from_vec (pieces : list bool) : bytes :=
  map (fun c => pack_byte c Bitfield_BYTE_MASK) (chunks (N.to_nat Bitfield_BITS_IN_BYTE) pieces).

Fixpoint unpack_byte (k : nat) (byte : N) : list bool :=
  match k with
  | O => []
  | S k' => negb (N.land byte Bitfield_BYTE_MASK =? 0) :: unpack_byte k' ((byte * 2) mod 256)
  end.

Definition bytes_num (pieces_num : N) : N :=
  if pieces_num mod Bitfield_BITS_IN_BYTE =? 0 then pieces_num / Bitfield_BITS_IN_BYTE
  else pieces_num / Bitfield_BITS_IN_BYTE + 1.

(* to_vec: Err(InvalidLength) on a byte-count mismatch, otherwise the first
   pieces_num bits, most significant bit first. *)
Definition to_vec (pieces_bytes : bytes) (pieces_num : N) : option (list bool) :=
  if len pieces_bytes =? bytes_num pieces_num
  then Some (firstn (N.to_nat pieces_num)
                    (flat_map (unpack_byte (N.to_nat Bitfield_BITS_IN_BYTE)) pieces_bytes))
  else None.

Definition bitfield_validate (pieces_bytes : bytes) (pieces_num : N) : bool :=
  len pieces_bytes =? bytes_num pieces_num.

(* decidable equality on messages, for the correspondence files *)
Definition msg_eqb (a b : msg) : bool :=
  match a, b with
  | Handshake h p, Handshake h' p' => bytes_eqb h h' && bytes_eqb p p'
  | KeepAlive, KeepAlive | Choke, Choke | Unchoke, Unchoke
  | Interested, Interested | NotInterested, NotInterested => true
  | Have i, Have i' => i =? i'
  | Bitfield b, Bitfield b' => bytes_eqb b b'
  | Request i b l, Request i' b' l' => (i =? i') && (b =? b') && (l =? l')
  | Piece i b k, Piece i' b' k' => (i =? i') && (b =? b') && bytes_eqb k k'
  | Cancel i b l, Cancel i' b' l' => (i =? i') && (b =? b') && (l =? l')
  | _, _ => false
  end.

Definition presult_eqb (a b : presult) : bool :=
  match a, b with
  | PFrame m n, PFrame m' n' => msg_eqb m m' && (n =? n')
  | PUnknown i n, PUnknown i' n' => (i =? i') && (n =? n')
  | PIncomplete, PIncomplete | PError, PError | PPanic, PPanic => true
  | _, _ => false
  end.
