"""C02 — an honest swarm always leads to a complete, identical download."""
from sysbase import SysBase, geometry


class C02(SysBase):
    id = "C02"
    proof_target = "Props/C02.vo"
    theorems = ["C02_missing_nonincreasing", "C02_pick_exists", "C02_assignment_requests", "C02_tracker_no_deadlock", "C02_extraction_identical", "C02_seeder_download_completes", "C02_seeder_any_chooser", "C02_seeder_from_connection", "C02_assigned_piece_completes", "C02_idle_announcer_asked", "C02_refuted_sole_holder_left_idle", "C02_stats_exact", "C02_stats_model_repaired", "C02_stats_pinned_refuted"]
    coq_header = "From Rdest Require Import Base Corr.Sys.\nOpen Scope N_scope.\nDefinition codes := codes02.\n"
    rule = ("end-to-end runs in one process under the paused clock: the real Session, real PeerHandler tasks over in-memory "
            "pipes, 1-4 scripted remote peers following the protocol (each holding a subset of the pieces, every piece held by "
            "at least one honest peer that stays), traffic cut into random segments with random delays, slow peers, peers that "
            "unchoke late, and extra peers that disconnect after n messages, send garbage or corrupt blocks; geometries with "
            "16 KiB-scale pieces, several files, zero-length files, short last piece; the real Extractor at the end. Oracle: "
            "all pieces obtained, output files byte-identical to the content, extractor started, no panic, completion within "
            "20 virtual minutes of inactivity. Non-trivial: runs with at least two peers or two pieces; distinct lines.")
    statement_status = "partial: see Props/C02.v (liveness under scheduler fairness is not machine-checked)"
    classes = {1: "sole-holder-idle-after-reserver-left", 2: "sole-holder-have-while-reserved"}

    def corpus(self):
        return [self.mk(5, 16384, [40000, 5, 0, 30000], [("11111", "honest")], "corpus", True),
                # a seeder that chokes just before the final block of every piece (still delivered) and unchokes 200 ms later
                self.mk(8, 16384, [40000], [("111", "chokelast")], "corpus", True),
                self.mk(9, 20000, [20000, 7], [("11", "chokelast"), ("01", "honest")], "corpus", True),
                self.mk(6, 20000, [50000], [("101", "honest"), ("011", "slow"), ("111", "corrupt 3")], "corpus", True),
                self.mk(7, 16384, [20000, 20000], [("111", "dropafter 4"), ("111", "honest")], "corpus", True),
                # the witnesses of the two known findings
                self.mk(290586, 16384, [195888], [("1" * 12, "holdleave 5000"), ("000000001000", "honest"), ("111111110111", "honest")],
                        "sole-holder-big", True, sole=(8, 0)),
                self.mk(909863, 16384, [40467], [("001", "holdleave 2000"), ("001", "havewait 500"), ("110", "honest")],
                        "sole-holder", True, sole=(2, 1))]

    def gen(self, rng, tier):
        k = {"quick": 40, "thorough": 800, "search": 150}.get(tier, 40)
        cases = []
        for _ in range(k):
            pl, flens, n = geometry(rng)
            npeers = rng.choice([1, 2, 2, 3, 4])
            honest = rng.randrange(1, npeers + 1)
            # distribute: every piece to at least one honest peer
            have = [[rng.random() < 0.5 for _ in range(n)] for _ in range(npeers)]
            for i in range(n):
                if not any(have[p][i] for p in range(honest)):
                    have[rng.randrange(honest)][i] = True
            peers = []
            for p in range(npeers):
                bits = "".join("1" if x else "0" for x in have[p])
                if p < honest:
                    beh = rng.choice(["honest", "honest", "slow", "lateunchoke", "havelater %d" % rng.choice([0, 300, 3000]), "chokelast"])
                else:
                    beh = rng.choice(["dropafter %d" % rng.randrange(1, 9), "garbage %d" % rng.randrange(1, 6),
                                      "corrupt %d" % rng.randrange(1, 4), "dup", "honest"])
                peers.append((bits, beh))
            rng.shuffle(peers)
            cases.append(self.mk(rng.randrange(1, 10 ** 6), pl, flens, peers, "swarm", True))
        # sole holders: one honest peer offers only piece p, another honest peer everything else, and a peer that
        # has everything takes reservations, answers nothing and leaves after a few seconds
        for j in range(k // 2):
            big = (j % 2 == 0)
            pl = rng.choice([16384, 20000])
            n = rng.choice([11, 12, 14]) if big else rng.choice([2, 3, 5, 8])
            flens = [pl * n - rng.randrange(0, pl)]
            p = rng.randrange(n)
            only_p = "".join("1" if i == p else "0" for i in range(n))
            rest = "".join("0" if i == p else "1" for i in range(n))
            # the sole holder either advertises p in its bitfield or announces it by Have while p is reserved elsewhere
            # (havelater: unchokes unasked 30 s later; havewait: only when asked -- known finding 2)
            r = rng.random()
            sole_beh = "honest" if r < 0.4 else ("havelater %d" if r < 0.8 else "havewait %d") % rng.choice([500, 1500])
            holder_bits = "1" * n if rng.random() < 0.5 else only_p      # the latter is certain to sit on p
            peers = [(holder_bits, "holdleave %d" % rng.choice([2000, 5000, 20000])), (only_p, sole_beh), (rest, "honest")]
            if rng.random() < 0.3:
                peers.insert(0, ("1" * n, "holdleave %d" % rng.choice([3000, 9000])))
            cases.append(self.mk(rng.randrange(1, 10 ** 6), pl, flens, peers, "sole-holder" + ("-big" if big else ""), True,
                                 sole=(p, 1 if sole_beh.startswith("havewait") else 0)))
        return cases


from driver import Case


class C02Stats:
    """the per-connection transfer statistics (Stats, timeout_sync_stats): no byte count a peer can deliver makes the
    connection task panic, and the rates reported to the manager are the means of the last two intervals"""
    id = "C02"
    harness_sub = "stats"
    harness_timeout = 300
    harness_shards = 4
    coq_timeout = 300
    allowed_axioms = []
    model_targets = ["Pack.vo", "Corr/Stats.vo"]
    corr_name = "Stats::{update_*, shift, *_rate} / timeout_sync_stats vs Stats.v"
    coq_header = "From Rdest Require Import Base Consts Stats Corr.Stats.\nOpen Scope N_scope.\nDefinition codes := codes.\n"
    rule = ""
    classes = {}
    assumptions = []
    release = False
    ovf = "true"

    def mk(self, ops, kind):
        c = Case("stats " + " ".join(ops), kind, {"ops": len(ops)})
        return c

    def coq_case(self, c, out):
        out = out.strip()
        ops = []
        for o in c.line.split()[1:]:
            if o[0] == "d":
                ops.append("SDown %s" % o[1:])
            elif o[0] == "u":
                ops.append("SUp %s" % o[1:])
            elif o[0] == "x":
                ops.append("SUnexpected")
            else:
                ops.append("STick")
        if out == "PANIC":
            impl = "None"
        elif out == "NONE":
            impl = "(Some [])"
        else:
            reps = []
            for r in out.split():
                d, u, x = r.split("/")
                f = lambda v: "None" if v == "-" else "(Some %s)" % v
                reps.append("(%s, %s, %s)" % (f(d), f(u), x))
            impl = "(Some [%s])" % "; ".join(reps)
        return "CStats %s [%s] %s" % (self.ovf, "; ".join(ops), impl)

    def model_term(self, c):
        return "(%s)" % c.term

    def corpus(self):
        G = 2 ** 31
        return [self.mk(["d100", "u7", "t", "d50", "x", "t", "d10", "t", "t"], "stats-corpus"),
                self.mk(["d%d" % G, "t", "d%d" % G, "t"], "stats-corpus"),                 # two intervals of 2 GiB
                self.mk(["u%d" % (2 ** 32 - 1), "t", "u1", "t"], "stats-corpus"),
                self.mk(["d%d" % (2 ** 32 + 5), "t", "d3", "t"], "stats-corpus")]

    def gen(self, rng, tier):
        k = {"quick": 300, "thorough": 6000, "search": 1500}.get(tier, 300)
        big = [0, 1, 16384, 2 ** 31 - 1, 2 ** 31, 2 ** 32 - 1, 2 ** 32, 2 ** 32 + 1, 2 ** 33, 2 ** 40, 2 ** 62]
        cases = []
        for _ in range(k):
            ops = []
            heavy = rng.random() < 0.4
            for _ in range(rng.choice([3, 6, 12, 20])):
                r = rng.random()
                amount = rng.choice(big) if heavy and rng.random() < 0.5 else rng.choice([0, 1, 9, 16384, rng.randrange(1, 10 ** 6)])
                if r < 0.35:
                    ops.append("d%d" % amount)
                elif r < 0.55:
                    ops.append("u%d" % amount)
                elif r < 0.65:
                    ops.append("x")
                else:
                    ops.append("t")
            cases.append(self.mk(ops, "stats-heavy" if heavy else "stats"))
        return cases


class C02StatsRelease(C02Stats):
    release = True
    ovf = "false"

    def corpus(self):
        return [self._retag(c) for c in C02Stats.corpus(self)]

    def gen(self, rng, tier):
        return [self._retag(c) for c in C02Stats.gen(self, rng, "quick")]

    def _retag(self, c):
        c.kind = "release-" + c.kind
        return c


from mgrbase import MgrBase, protocol_scenario


class C02Mgr(MgrBase):
    """manager side of C02: who chokes us is each peer's last word; an idle unchoked peer announcing a missing piece is
    asked at once (no wait for an Unchoke that never comes)"""
    id = "C02"
    coq_header = ("From Rdest Require Import Base Consts Wire Manager Corr.Mgr.\nOpen Scope N_scope.\n"
                  "Definition codes := codes02m.\n")
    rule = ""

    def corpus(self):
        # a fellow downloader with nothing to offer unchokes us, later announces a piece
        a = ["add 1", "init 1", "bf 1 00", "unchoke 1", "have 1 0", "done 1", "have 1 1"]
        return [self.mk("prod", 2, 4, 7, a, "liveness-mgr")]

    def gen(self, rng, tier):
        k = {"quick": 200, "thorough": 5000, "search": 1200}.get(tier, 200)
        w = {"unchoke": 6, "choke": 3, "have": 8, "done": 5, "cancel": 1, "kill": 1, "join": 2, "bfsparse": 3, "nint": 1, "tresp": 1}
        cases = []
        for _ in range(k):
            n = rng.choice([1, 2, 3, 4, 11])
            pl = 4
            total = pl * n - rng.randrange(0, pl)
            ops = protocol_scenario(rng, rng.choice([1, 2, 3]), n, rng.choice([10, 16, 24]), weights=w)
            cases.append(self.mk("prod", n, pl, total, ops, "liveness-mgr"))
        return cases


PROP = C02()
PROP.parts = [PROP, C02Stats(), C02Mgr()]
PROP.release_parts = [C02StatsRelease()]
