"""C04 — extraction never writes outside the download directory."""
from driver import Case
from extbase import ExtBase, geometry_case, torrent_doc, content_bytes, PATHS

# Safety of the check itself: the extractor runs in <scratch>/canary/l1/l2/l3/l4/l5/cwd, generated
# '..' chains climb at most 5 levels (they cannot leave canary), absolute paths are only generated
# under /tmp/rdvabs/<token>/ which the harness lists and removes.
HOSTILE_REL = [b"../x", b"../../x", b"a/../../x", b"a/../../../b/x", b"..", b"./../x", b"a//../..//x",
               b"../../../../../x", b"d/../../e/x", b"..x", b"x..", b"a/..b/c", b"...", b"./x", b"a/./b", b"a//b",
               b"", b".", b"a/", b"/", b"a\x00b", b"n/../m",
               # strings that only become separators / parent components after some later transformation
               b"..\\..\\x", b"..\\x", b"\\abs", b"a\\..\\..\\x", b"d\\e", b"%2e%2e/x", b"..%2fx", b"%2e%2e%2fx",
               b".. /x", b" ../x", b"../x ", b"..;/x", b"a/..\\../x", b"~/x", b"$HOME/x", b"x:y", b"C:\\x"]


# benign-looking prefixes a later normalisation might strip or collapse, composed with hostile payloads
PREFIXES = [b"./", b".//", b"././", b"././/", b"//", b"a/../", b"a/..//", b"./a/../", b".\\", b" ", b"./ "]
PAYLOADS = [b"@ABS@/a", b"@ABS@/d/a", b"../x", b"../../x", b"..", b"/", b"x/../../y"]


def composed(rng):
    s = b"".join(rng.choice(PREFIXES) for _ in range(rng.choice([1, 1, 2]))) + rng.choice(PAYLOADS)
    return s


class C04(ExtBase):
    id = "C04"
    proof_target = "Props/C04.vo"
    theorems = ["C04_accepted_safe", "C04_join_components", "C04_inside", "C04_ancestors_safe", "C04_pinned_refuted"]
    coq_header = ("From Rdest Require Import Base BCodec Metainfo Extract Corr.MetaCase Corr.C03.\n"
                  "Open Scope N_scope.\nDefinition codes := codes04.\n")
    rule = ("hostile and benign name/path strings ('..' components in every position, leading '/', nested combinations, "
            "empty and '.' components, NUL, look-alikes such as '..x' and '...') as torrent name and as file paths, single- "
            "and multi-file; the real extractor runs five directory levels below a canary root, everything created under "
            "the canary root (and under the per-case absolute scratch root) is listed. Oracle: every created entry lies "
            "inside cwd (inside cwd/<name> for multi-file torrents). Non-trivial: cases with at least one hostile "
            "component; distinct lines.")
    statement_status = ("full for the lexical model: accepted documents carry only safe names/paths (C04_accepted_safe) and safe "
                        "paths stay inside (C04_inside, C04_join_components, C04_ancestors_safe); symlinks already present in the "
                        "download directory are not modelled")
    assumptions = ["lexical Unix path model; no pre-existing symlinks in the download directory"]

    def mk(self, name, lens, paths, single=False, kind="hostile", pl=4):
        tok = self.tok()
        # @ABS@: an absolute path under the observed scratch root; @ABSREL@: the same without the leading '/', which is
        # harmless as it stands and lands under the observed root if something turns it absolute
        paths = [p.replace(b"@ABS@", b"/tmp/rdvabs/" + tok.encode()).replace(b"@ABSREL@", b"tmp/rdvabs/" + tok.encode()) for p in paths]
        name = name.replace(b"@ABS@", b"/tmp/rdvabs/" + tok.encode()).replace(b"@ABSREL@", b"tmp/rdvabs/" + tok.encode())
        total = sum(lens)
        n = -(-total // pl)
        doc = torrent_doc(name, pl, list(zip(lens, paths)), n, single)
        content = content_bytes(total, 3)
        line = "ext %s %s %d %s" % (tok, doc.hex(), pl, content.hex() or "-")
        c = Case(line, kind, {"name": name.decode("latin1"), "paths": [p.decode("latin1") for p in paths], "single": single})
        c.nontrivial = kind != "benign"
        return c

    def corpus(self):
        return [self.mk(b"n", [1, 2, 7], [b"f1", b"f2", b"../../f3"], kind="corpus"),
                self.mk(b"n", [3, 3], [b"a", b"@ABS@/abs"], kind="corpus"),
                self.mk(b"..", [3, 3], [b"a", b"b"], kind="corpus"),
                self.mk(b"../solo", [5], [b"../solo"], single=True, kind="corpus"),
                self.mk(b"@ABS@/solo", [5], [b"x"], single=True, kind="corpus"),
                self.mk(b"n", [3, 3], [b"a", b"./@ABS@/abs2"], kind="corpus"),
                self.mk(b"./@ABS@/solo2", [5], [b"x"], single=True, kind="corpus"),
                self.mk(b"n", [3, 3], [b"././/@ABS@/abs3", b"b"], kind="corpus"),
                self.mk(b"", [3, 3], [b"@ABSREL@/e1", b"@ABSREL@/e2"], kind="corpus"),      # empty name, multi-file
                self.mk(b".", [3, 3], [b"@ABSREL@/e3", b"b"], kind="corpus"),
                self.mk(b"@ABSREL@/solo3", [5], [b"x"], single=True, kind="corpus"),
                self.mk(b"ok", [2, 2], [b"a", b"d/b"], kind="benign")]

    def gen(self, rng, tier):
        n = {"quick": 500, "thorough": 8000, "search": 2000}.get(tier, 500)
        cases = []
        for _ in range(n):
            r = rng.random()
            k = rng.choice([1, 2, 2, 3])
            lens = [rng.randrange(0, 6) for _ in range(k)]
            paths = [PATHS[i] for i in range(k)]
            name = rng.choice([b"top", b"n", b"d"])
            kind = "benign"
            if r < 0.45:      # hostile path in one position
                i = rng.randrange(k)
                paths[i] = composed(rng) if rng.random() < 0.3 else rng.choice(HOSTILE_REL + [b"@ABS@/a", b"@ABS@/d/a"])
                kind = "hostile-path"
            elif r < 0.7:     # hostile name
                name = composed(rng) if rng.random() < 0.3 else rng.choice(HOSTILE_REL + [b"@ABS@/nm", b"@ABS@"])
                kind = "hostile-name"
            elif r < 0.76:    # degenerate name with paths that become hostile only if the join is done by hand
                name = rng.choice([b"", b".", b"./", b"a/..", b"//"]) if rng.random() < 0.7 else b"n"
                paths[rng.randrange(k)] = rng.choice([b"@ABSREL@/q", b"@ABSREL@/d/q", b"./@ABSREL@/q"])
                kind = "hostile-join"
            elif r < 0.8:     # both
                name = rng.choice(HOSTILE_REL)
                paths[rng.randrange(k)] = rng.choice(HOSTILE_REL)
                kind = "hostile-both"
            single = (k == 1 and rng.random() < 0.6)
            if single:
                paths = [name]
            cases.append(self.mk(name, lens, paths, single=single, kind=kind))
        return cases


PROP = C04()
