"""Shared by C12 / C13 / C14: scenarios against the real Session, one command at a time."""
from driver import Case
from vlib import coq_bytes, coq_bools


def optn(t):
    return "None" if t == "-" else "(Some %s)" % t


def coq_status(t):
    return "Missing" if t == "M" else "Have" if t == "H" else "(Reserved %s)" % t[1:]


def bits(t):
    return [] if t == "-" else [c == "1" for c in t]


def coq_boollist(bs):
    return "[" + ";".join("true" if b else "false" for b in bs) + "]"


def parse_snapshot(snap, plens):
    f = dict(x.split("=", 1) for x in snap.split())
    sts = [] if f["st"] == "-" else f["st"].split(",")
    peers, rx = [], []
    if f["p"] != "-":
        for e in f["p"].split(","):
            k, hasid, pieces, idx, fl, dr, ur, r = e.split(":")
            peers.append("(%s, mkpeer %s %s %s %s %s %s %s %s %s %s)" % (
                k, "(Some [])" if hasid == "1" else "None", coq_boollist(bits(pieces)), optn(idx),
                *["true" if c == "1" else "false" for c in fl], optn(dr), optn(ur)))
            rx.append("(%s, %s)" % (k, optn(r)))
    cands = [] if f["c"] == "-" else f["c"].split(",")
    state = "(mkmgr [%s] [%s] [%s] %s %s %s)" % (
        ";".join(coq_status(s) for s in sts), ";".join(peers), ";".join("(%s, [])" % c for c in cands),
        f["r"], "true" if f["x"] == "1" else "false", plens)
    # "peer:K" / "peer:K:BAD": a connection task spawned for address K; BAD = it was not configured with the session's own
    # id, the candidate's peer id, the torrent's info hash and piece count
    sp, args_ok = [], True
    for x in ([] if f["sp"] == "-" else f["sp"].split(",")):
        if x.startswith("peer:"):
            t = x.split(":")
            sp.append("(SpPeer %s)" % t[1])
            args_ok = args_ok and len(t) == 2
        else:
            sp.append({"tracker": "SpTracker", "extractor": "SpExtractor"}[x])
    bc = []
    if f["bc"] != "-":
        for b in f["bc"].split(","):
            if b[0] == "H":
                bc.append("(BHave %s)" % b[1:])
            else:
                m = [] if len(b) == 1 else [x.split("=") for x in b[1:].split("+")]
                bc.append("(BOwnState [%s])" % ";".join("(%s, %s)" % (a, "true" if c == "1" else "false") for a, c in m))
    return state, "[%s]" % ";".join(rx), "[%s]" % ";".join(bc), "[%s]" % ";".join(sp), ("true" if args_ok else "false")


def rq(t):
    i, l, h = t.split("/")
    return None if h != i else "%s %s" % (i, l)


def coq_result(res):
    t = res.split()
    k = t[0]
    if k == "PANIC":
        return "XPanic"
    if k == "ERR":
        return "XErr"
    if k in ("ok", "SKIP", "PICKS", "NOREPLY"):
        return "XPlain" if k != "ok" else "(XOk RNone)"
    if k == "BF":
        raw = b"" if t[1] == "-" else bytes.fromhex(t[1])
        return ("BF", raw)
    simple = {"U_NOTINT": "RUnchoke_NotInt", "U_IGNORE": "RUnchoke_Ignore", "N_KILL": "RNotInt_Kill", "N_IGNORE": "RNotInt_Ignore",
              "H_INT": "RHave_Int", "H_IGNORE": "RHave_Ignore", "Q_IGNORE": "RReq_Ignore", "P_NOTINT": "RPiece_NotInt",
              "P_KILL": "RPiece_Kill", "P_IGNORE": "RPiece_Ignore"}
    if k in simple:
        return "(XOk %s)" % simple[k]
    withreq = {"U_INTREQ": "RUnchoke_IntReq", "U_REQ": "RUnchoke_Req", "H_INTREQ": "RHave_IntReq", "P_REQ": "RPiece_Req"}
    if k in withreq:      # XBadHash: the reply's piece_hash is not the hash of the reply's piece_index
        return "XBadHash" if rq(t[1]) is None else "(XOk (%s %s))" % (withreq[k], rq(t[1]))
    if k == "B_STATE":
        return "(XOk (RBitfieldState %s %s))" % ("true" if t[1][0] == "1" else "false", "true" if t[1][1] == "1" else "false")
    if k == "Q_LOAD":
        return "XBadHash" if t[2] != t[1] else "(XOk (RReq_Load %s))" % t[1]
    if k == "ROT":
        m = [] if t[1] == "-" else [x.split("=") for x in t[1].split("+")]
        return "(XRot [%s])" % ";".join("(%s, %s)" % (a, "true" if c == "1" else "false") for a, c in m)
    raise ValueError("bad result " + res)


def coq_op(op, res, n):
    t = op.split()
    k = t[0]
    if res.split()[0] == "SKIP":
        return "OSkip"
    if k == "accept":
        return "(OAccept %s)" % t[1]
    if k in ("add", "addid"):
        return "(OAdd %s %s)" % (t[1], "true" if k == "addid" else "false")
    cmds = {"init": "CInit %s []", "choke": "CChoke %s", "unchoke": "CUnchoke %s", "int": "CInterested %s",
            "nint": "CNotInterested %s", "done": "CPieceDone %s", "cancel": "CPieceCancel %s", "kill": "CKill %s"}
    if k in cmds:
        return "(OCmd (%s))" % (cmds[k] % t[1])
    if k in ("have", "req"):
        return "(OCmd (%s %s %s))" % ("CHave" if k == "have" else "CRequest", t[1], t[2])
    if k == "bf":
        bs = bits(t[2])
        by = bytearray((len(bs) + 7) // 8)
        for i, b in enumerate(bs):
            if b:
                by[i // 8] |= 128 >> (i % 8)
        return "(OCmd (CBitfield %s %s))" % (t[1], coq_bytes(bytes(by)))
    if k == "bfraw":
        return "(OCmd (CBitfield %s %s))" % (t[1], coq_bytes(b"" if t[2] == "-" else bytes.fromhex(t[2])))
    if k == "stats":
        return "(OCmd (CSyncStats %s %s %s))" % (t[1], optn(t[2]), optn(t[3]))
    if k == "rotate":
        rates = [] if t[1] == "-" else [x.split(":") for x in t[1].split(",")]
        rt = res.split()
        optt = rt[2] if len(rt) > 2 else t[2]      # the harness reports the optimistic pick it resolved
        opt = [] if optt in ("-", "?") else optt.split(",")
        return "(ORotate [%s] [%s])" % (";".join("(%s, %s)" % (a, r) for a, r in rates), ";".join(opt))
    if k == "tick":
        return "OTick"
    if k == "choose":
        picks = res.split()[1].split(",")
        return "(OChoose %s [%s])" % (t[1], ";".join(optn(p) for p in picks))
    if k in ("setst", "setp"):
        return "OSet"
    if k == "tresp":
        return "(OTresp [%s])" % ("" if t[1] == "-" else ";".join(x.rstrip("x") for x in t[1].split(",")))
    raise ValueError("bad op " + op)


def plens_of(n, pl, total):
    out = []
    for i in range(n):
        if i < n - 1:
            out.append(pl)
        else:
            last = total % pl
            out.append(last if last != 0 else pl)
    return out


class MgrBase:
    harness_sub = "mgr"
    harness_timeout = 900
    coq_timeout = 1200
    allowed_axioms = []
    model_targets = ["Pack.vo", "Corr/Mgr.vo"]
    corr_name = "Session::handle_peer_cmd / change_conn_state / choose_piece_index vs Manager.v"
    classes = {}
    assumptions = []
    coq_chunk = 60

    def mk(self, mode, n, pl, total, ops, kind):
        line = "mgr %s %d %d %d ; %s" % (mode, n, pl, total, " ; ".join(ops))
        return Case(line, kind, {"mode": mode, "pieces": n, "ops": ops[:40]})

    def coq_case(self, c, out):
        parts = [p.strip() for p in c.line.split(";")]
        head = parts[0].split()
        mode, n, pl, total = head[1], int(head[2]), int(head[3]), int(head[4])
        ops = parts[1:]
        plens = "[%s]" % ";".join(map(str, plens_of(n, pl, total)))
        steps = []
        outs = [p.strip() for p in out.split(" ; ")]
        for i, o in enumerate(outs):
            res, snap = [x.strip() for x in o.split("|")]
            if res == "PANIC":
                # the op that panicked is the one after the last completed step
                op = ops[i] if i < len(ops) else "tick"
                steps.append("(mkstep %s XPanic %s [] [] [] true)" % (coq_op(op, "ok", n), "(mkmgr [] [] [] 0 false [])"))
                break
            state, rx, bc, sp, args_ok = parse_snapshot(snap, plens)
            r = coq_result(res)
            if isinstance(r, tuple):   # bitfield reply: decode the bits for n pieces
                raw = r[1]
                bs = [(raw[j // 8] >> (7 - j % 8)) & 1 == 1 for j in range(n)] if len(raw) * 8 >= n else []
                r = "(XOk (RBitfield %s))" % coq_boollist(bs)
            steps.append("(mkstep %s %s %s %s %s %s %s)" % (coq_op(ops[i], res, n), r, state, rx, bc, sp, args_ok))
        init = "(mkmgr [%s] [] [] 0 false %s)" % (";".join(["Missing"] * n), plens)
        return "CMgr %s %s [%s]" % ("true" if mode == "prod" else "false", init, ";\n ".join(steps))

    def model_term(self, c):
        return "(code 12 (%s), code 13 (%s), code 14 (%s))" % (c.term, c.term, c.term)


# ---- scenario generators --------------------------------------------------------------------
def rand_bits(rng, n, p=0.6):
    return "".join("1" if rng.random() < p else "0" for _ in range(n)) or "-"


def protocol_scenario(rng, npeers, n, steps, weights=None):
    """event sequences connection tasks can produce (prod mode): repeated and out-of-order events included"""
    ops = []
    alive = []
    nxt = 1
    for _ in range(npeers):
        ops += ["add %d" % nxt, "init %d" % nxt]
        if rng.random() < 0.8:
            ops.append("bf %d %s" % (nxt, rand_bits(rng, n)))
        alive.append(nxt)
        nxt += 1
    w = weights or {"unchoke": 5, "choke": 3, "have": 5, "done": 6, "cancel": 3, "int": 1, "nint": 1, "req": 1,
                    "kill": 1, "bf": 1, "bfsparse": 2, "stats": 1, "join": 1, "tresp": 1, "accept": 2}
    names = list(w)
    for _ in range(steps):
        if not alive:
            break
        k = rng.choices(names, [w[x] for x in names])[0]
        a = rng.choice(alive)
        if k in ("unchoke", "choke", "done", "cancel", "int", "nint"):
            ops.append("%s %d" % (k, a))
            if k in ("unchoke", "choke") and rng.random() < 0.25:   # repeated event
                ops.append("%s %d" % (k, a))
        elif k == "have":
            ops.append("have %d %d" % (a, rng.randrange(n)))
        elif k == "req":
            ops.append("req %d %d" % (a, rng.randrange(n + 1)))
        elif k == "bf":
            ops.append("bf %d %s" % (a, rand_bits(rng, n)))
        elif k == "bfsparse":
            # a peer re-sending a bitfield that offers (almost) nothing, in the middle of a download
            ops.append("bf %d %s" % (a, rand_bits(rng, n, rng.choice([0.0, 0.1]))))
            r2 = rng.random()
            if r2 < 0.55:
                ops.append("have %d %d" % (a, rng.randrange(n)))
            elif r2 < 0.85:
                # ... and then its connection dies (a corrupt piece ends the task): whatever it was fetching must become
                # downloadable again although we had just lost interest in this peer
                ops.append("kill %d" % a)
                alive.remove(a)
        elif k == "stats":
            ops.append("stats %d %s %s" % (a, rng.choice(["-", "0", "5", "100"]), rng.choice(["-", "0", "7", "100"])))
        elif k == "kill":
            ops.append("kill %d" % a)
            alive.remove(a)
        elif k == "join":
            ops += ["add %d" % nxt, "init %d" % nxt, "bf %d %s" % (nxt, rand_bits(rng, n))]
            alive.append(nxt)
            nxt += 1
        elif k == "accept":
            # an incoming connection through the real listener path: from a new address (then it speaks like any other
            # peer; the listener may turn it away) or -- a reconnect before the old connection is known to be dead, or a
            # hostile peer -- from the address of a peer that came in this way and is still connected
            mine = [x for x in alive if x >= 100]
            if mine and rng.random() < 0.45:
                ops.append("accept %d" % rng.choice(mine))
            else:
                kk = 100 + nxt
                ops += ["accept %d" % kk, "init %d" % kk, "bf %d %s" % (kk, rand_bits(rng, n))]
                if rng.random() < 0.6:
                    ops.append("unchoke %d" % kk)
                alive.append(kk)
                nxt += 1
        elif k == "tresp":
            # a tracker answer listing connected peers, new addresses and the same address more than once
            pool = [x for x in alive if x < 100] + [nxt + 20, nxt + 21, nxt + 22]      # (loopback peers have other addresses)
            lst = [rng.choice(pool) for _ in range(rng.choice([0, 1, 2, 4]))]
            if lst and rng.random() < 0.5:
                lst.append(lst[0])
            # ("Kx": the address of K under another peer id -- trackers list stale ids; the peer map is keyed by address)
            ops.append("tresp %s" % (",".join("%dx" % x if rng.random() < 0.3 else str(x) for x in lst) or "-"))
    return ops
