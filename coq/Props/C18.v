(* C18 — the tracker announce names the right torrent and client. *)
From Coq Require Import String.
From Rdest Require Import Base BCodec Consts Url UrlProofs.
Open Scope N_scope.

(* the info_hash parameter percent-decodes to exactly the hash, for every byte value (NUL, '&', '%', '+', non-UTF-8) *)
Theorem C18_hash_roundtrip : forall bs, Forall (fun b => b < 256) bs -> form_decode (byte_serialize bs) = bs.
Proof. exact decode_serialize. Qed.

(* hence two different hashes never produce the same parameter, nor the same announce URL: the request names one torrent *)
Theorem C18_hash_injective : forall announce h1 h2, Forall (fun x => x < 256) h1 -> Forall (fun x => x < 256) h2 ->
  create_url announce h1 = create_url announce h2 -> h1 = h2.
Proof. exact create_url_injective. Qed.

(* and its encoding contains no '&', '=', '?' or '#', so it cannot be cut short or merged with another parameter *)
Theorem C18_hash_safe : forall bs, Forall (fun b => b < 256) bs ->
  forallb (fun c => negb (c =? ch_amp) && negb (c =? ch_eq) && negb (c =? ch_q) && negb (c =? 35)) (byte_serialize bs) = true.
Proof. exact serialize_safe. Qed.

(* create_url keeps the announce URL as a prefix and appends exactly one separator: '&' when a query exists *)
Theorem C18_url_shape : forall announce hash,
  create_url announce hash = announce ++ [if existsb (N.eqb ch_q) announce then ch_amp else ch_q] ++ s_info_hash ++ [ch_eq] ++ byte_serialize hash.
Proof. reflexivity. Qed.

(* in the query of the request - behind whatever parameters the announce URL already had (none of them an info_hash), in
   front of the client's own parameters - the info_hash parameter is found and decodes to exactly the hash, for every hash *)
Theorem C18_info_hash_found : forall q0 hash rest, Forall (fun b => b < 256) hash -> lookup s_info_hash (query_pairs q0) = None ->
  lookup s_info_hash (query_pairs (q0 ++ ch_amp :: (s_info_hash ++ ch_eq :: byte_serialize hash) ++ ch_amp :: rest)) = Some hash.
Proof. exact info_hash_found. Qed.

(* and the parameters in front of it are kept as written *)
Theorem C18_existing_kept : forall q0 k v rest, no_sep ch_amp k = true -> no_sep ch_eq k = true -> k <> [] -> no_sep ch_amp v = true ->
  query_pairs (q0 ++ ch_amp :: (k ++ ch_eq :: v) ++ ch_amp :: rest) = query_pairs q0 ++ (k, v) :: query_pairs rest.
Proof. exact pairs_middle. Qed.

(* the statement about host and path, and about an announce URL without a query (the parameter then comes first), is decided
   on the request line the real client sends, by Corr/C18.v's oracle *)
Example C18_nonvacuous :
  let target := request_target (hx "687474703a2f2f683a312f613f6b3d76") [0; 38; 37; 43; 255] (hx "4141414141414141414141414141414141414141") 7 in
  let ps := query_pairs (snd (path_query target)) in
  lookup s_info_hash ps = Some [0; 38; 37; 43; 255] /\ lookup (hx "6b") ps = Some (hx "76") /\ lookup s_left ps = Some [55].
Proof. vm_compute. repeat split. Qed.

Print Assumptions C18_hash_roundtrip.
Print Assumptions C18_hash_safe.
Print Assumptions C18_url_shape.
Print Assumptions C18_info_hash_found.
Print Assumptions C18_existing_kept.
Print Assumptions C18_hash_injective.
