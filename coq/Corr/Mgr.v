(* Correspondence for the session manager (C12, C13, C14): every step of a scenario is checked
   on its own: the model applied to the implementation's OBSERVED previous state must give the
   implementation's observed reply, broadcasts, spawns and next state; the oracles are evaluated
   on the observed states only. *)
From Rdest Require Import Base Consts Wire Manager.
Open Scope N_scope.

Inductive op :=
| OAdd (a : addr) (with_id : bool)
| OCmd (c : cmd)
| ORotate (rates : list (addr * N)) (new_opt : list addr)
| OTick
| OChoose (a : addr) (picks : list (option N))
| OSet                                    (* state set directly by the harness: adopted *)
| OTresp (peers : list addr)
| OAccept (a : addr)                      (* an incoming connection from address a reaches spawn_peer_listener *)
| OSkip.

(* XBadHash: a reply that names a piece carried a piece_hash that is not the hash of that piece in the torrent *)
Inductive oresult := XPanic | XErr | XOk (r : reply) | XRot (m : list (addr * bool)) | XPlain | XBadHash.
Definition bad_hash (r : oresult) : bool := match r with XBadHash => true | _ => false end.

Record ostep := mkstep {
  s_op : op; s_res : oresult; s_state : mgr; s_rx : list (addr * option N);
  s_bc : list broadcast; s_sp : list spawn;
  (* every connection task spawned in this step was configured with the session's own id, the candidate's peer id, the
     torrent's info hash and its piece count (compared by the harness against what it put into the scenario) *)
  s_args_ok : bool
}.
Inductive case := CMgr (prod : bool) (init : mgr) (steps : list ostep).

(* ---- equality of observations ------------------------------------------------------------ *)
Definition optN_eqb (a b : option N) : bool :=
  match a, b with Some x, Some y => x =? y | None, None => true | _, _ => false end.
Definition is_some {A} (o : option A) : bool := match o with Some _ => true | None => false end.
Definition peer_eqb (p q : peer) : bool :=
  Bool.eqb (is_some (p_id p)) (is_some (p_id q)) && list_eqb Bool.eqb (p_pieces p) (p_pieces q)
  && optN_eqb (p_piece_index p) (p_piece_index q)
  && Bool.eqb (p_am_interested p) (p_am_interested q) && Bool.eqb (p_am_choked p) (p_am_choked q)
  && Bool.eqb (p_interested p) (p_interested q) && Bool.eqb (p_choked p) (p_choked q)
  && Bool.eqb (p_optimistic p) (p_optimistic q)
  && optN_eqb (p_drate p) (p_drate q) && optN_eqb (p_urate p) (p_urate q).
Definition peers_eqb (a b : list (addr * peer)) : bool :=
  (len a =? len b) &&
  forallb (fun kp => match pget b (fst kp) with Some q => peer_eqb (snd kp) q | None => false end) a.
Definition mgr_eqb (a b : mgr) : bool :=
  list_eqb status_eqb (m_status a) (m_status b) && peers_eqb (m_peers a) (m_peers b)
  && list_eqb N.eqb (map fst (m_candidates a)) (map fst (m_candidates b))
  && (m_round a =? m_round b) && Bool.eqb (m_extracted a) (m_extracted b).

Definition reply_eqb (a b : reply) : bool :=
  match a, b with
  | RNone, RNone | RUnchoke_NotInt, RUnchoke_NotInt | RUnchoke_Ignore, RUnchoke_Ignore
  | RNotInt_Kill, RNotInt_Kill | RNotInt_Ignore, RNotInt_Ignore | RHave_Int, RHave_Int | RHave_Ignore, RHave_Ignore
  | RReq_Ignore, RReq_Ignore | RPiece_NotInt, RPiece_NotInt | RPiece_Kill, RPiece_Kill | RPiece_Ignore, RPiece_Ignore => true
  | RBitfield x, RBitfield y => list_eqb Bool.eqb x y
  | RUnchoke_IntReq i l, RUnchoke_IntReq j k | RUnchoke_Req i l, RUnchoke_Req j k
  | RHave_IntReq i l, RHave_IntReq j k | RPiece_Req i l, RPiece_Req j k => (i =? j) && (l =? k)
  | RBitfieldState a1 a2, RBitfieldState b1 b2 => Bool.eqb a1 b1 && Bool.eqb a2 b2
  | RReq_Load i, RReq_Load j => i =? j
  | _, _ => false
  end.
Definition flip_eqb (a b : addr * bool) : bool := (fst a =? fst b) && Bool.eqb (snd a) (snd b).
Fixpoint map_sorted_insert (x : addr * bool) (l : list (addr * bool)) : list (addr * bool) :=
  match l with [] => [x] | y :: r => if fst x <? fst y then x :: l else y :: map_sorted_insert x r end.
Definition map_sort (l : list (addr * bool)) := fold_right map_sorted_insert [] l.
Definition bc_eqb (a b : broadcast) : bool :=
  match a, b with
  | BHave i, BHave j => i =? j
  | BOwnState x, BOwnState y => list_eqb flip_eqb (map_sort x) (map_sort y)
  | _, _ => false
  end.
Definition sp_eqb (a b : spawn) : bool :=
  match a, b with
  | SpExtractor, SpExtractor | SpTracker, SpTracker => true
  | SpPeer x, SpPeer y => x =? y
  | _, _ => false
  end.

(* the pick the implementation made, read off its next state / derived where it is not observable *)
Definition pick_of_r (prev next : mgr) (c : cmd) (res : oresult) : option N :=
  let idx a := match pget (m_peers next) a with Some p => p_piece_index p | None => None end in
  let derived := match pick_context prev c with
                 | Some (m', p) => hd None (allowed_picks m' p)
                 | None => None
                 end in
  match c with
  | CUnchoke a => idx a
  | CPieceDone a | CPieceCancel a =>
      (* a choked peer gets no assignment: the pick shows only as "Ignore" *)
      match res with XOk RPiece_Ignore => match idx a with Some i => Some i | None => derived end | _ => idx a end
  | CNotInterested a | CBitfield a _ => derived
  | _ => None
  end.

(* spawned peer handlers are observed as new keys of the peer map and, with their addresses and in order, in the spawn log *)
Definition no_peer_spawns (sp : list spawn) : list spawn :=
  filter (fun s => match s with SpPeer _ => false | _ => true end) sp.
Definition peer_spawns (sp : list spawn) : N :=
  len (filter (fun s => match s with SpPeer _ => true | _ => false end) sp).
Definition spawns_agree (model observed : list spawn) : bool := list_eqb sp_eqb model observed.

Fixpoint no_dup_N (l : list N) : bool :=
  match l with [] => true | x :: r => negb (existsb (N.eqb x) r) && no_dup_N r end.

Definition k_step (prev : mgr) (s : ostep) : bool :=
  let n := length (m_plens prev) in
  match s_op s with
  | OAdd a wid =>
      mgr_eqb (with_peer prev a (new_peer (if wid then Some [] else None) n)) (s_state s)
  | OCmd c =>
      match mstep prev c (pick_of_r prev (s_state s) c (s_res s)), s_res s with
      | Ok (m', r, bc, sp), XOk r' =>
          reply_eqb r r' && mgr_eqb m' (s_state s) && list_eqb bc_eqb bc (s_bc s)
          && spawns_agree sp (s_sp s)
      | Err, XErr => mgr_eqb prev (s_state s)
      | Panic, XPanic => true
      | _, _ => false
      end
  | ORotate rates new_opt =>
      match change_conn_state prev rates new_opt, s_res s with
      | Ok (m', fl), XRot fl' => mgr_eqb m' (s_state s) && list_eqb flip_eqb (map_sort fl) (map_sort fl')
      | Err, XErr => true          (* peers may have been partly updated before the error *)
      | _, _ => false
      end
  | OAccept a =>
      let '(m', sp) := accept_peer prev a in
      mgr_eqb m' (s_state s) && spawns_agree sp (s_sp s)
  | OTresp ps =>
      let '(m', sp) := handle_tracker_resp prev (map (fun a => (a, [])) ps) in
      mgr_eqb m' (s_state s) && spawns_agree sp (s_sp s)
  | OChoose _ _ | OSkip => mgr_eqb prev (s_state s)
  | OTick =>
      (* the timer's wrapper is compared with the model where the code's HashMap iteration order cannot matter: no two
         peers with the same rate (stable descending sort: one result for every order).  The optimistic pick is read off
         the observed state (there is one exactly when some peer is choked by us and interested; round 0 only) *)
      match timer_rates prev with
      | None =>
          match timer_tick prev [] [] with
          | Ok (m', _) => mgr_eqb m' (s_state s) && match s_bc s with [] => true | _ => false end
          | _ => false
          end
      | Some rates =>
          if negb (no_dup_N (map snd rates)) then true else
          let cands := filter (fun kp => p_am_choked (snd kp) && p_interested (snd kp)) (m_peers prev) in
          let pick := match cands with
                      | [] => []
                      | _ => map fst (filter (fun kp => p_optimistic (snd kp)) (m_peers (s_state s)))
                      end in
          match timer_tick prev rates pick, s_bc s with
          | Ok (m', Some fl), [BOwnState fl'] => mgr_eqb m' (s_state s) && list_eqb flip_eqb (map_sort fl) (map_sort fl')
          | Err, _ => match s_res s with XErr => true | _ => false end
          | _, _ => false
          end
      end
  | OSet => true
  end.

(* ---- oracles --------------------------------------------------------------------------------- *)
Definition rx_of (rx : list (addr * option N)) (a : addr) : option N :=
  match find (fun kv => fst kv =? a) rx with Some (_, v) => v | None => None end.

(* C13: the pick is a minimal-count piece among those the peer advertises and the client wants *)
Definition o13_step (prev : mgr) (s : ostep) : bool :=
  match s_op s with
  | OCmd c =>
      match s_res s, pick_context prev c with
      | XOk r, Some (m', p) =>
          match c with
          | CUnchoke _ | CPieceDone _ | CPieceCancel _ => pick_ok m' p (pick_of_r prev (s_state s) c (s_res s))
          | CBitfield _ _ =>
              match r with
              | RBitfieldState _ am => Bool.eqb am (negb (forallb (fun j => negb (eligible m' p j)) (indices m')))
              | _ => false
              end
          | _ => true
          end
      | XOk (RHave_IntReq j _), None =>
          (* a piece taken straight from a Have announcement is a pick too: the announced piece, lacked, and not being
             fetched from another peer unless fewer than ten remain *)
          match c with
          | CHave _ i => (j =? i) && match nthN (m_status prev) i with
                                     | Some st => is_missing st || (negb (is_have st) && end_game prev)
                                     | None => false
                                     end
          | _ => true
          end
      | _, _ => true
      end
  | OChoose a picks =>
      match pget (m_peers prev) a with
      | Some p => forallb (pick_ok prev p) picks
      | None => true
      end
  | _ => true
  end.

(* the counting form of C12's invariant on the observed state: Reserved(n) => 1 <= n <= number of peers that are
   assigned the piece and do not choke us *)
Definition holders (m : mgr) (i : N) : N :=
  len (filter (fun kp => negb (p_choked (snd kp)) && optN_eqb (p_piece_index (snd kp)) (Some i)) (m_peers m)).
Definition inv_count (m : mgr) : bool :=
  forallb (fun i => match nth_error (m_status m) i with
                    | Some (Reserved n) => (1 <=? n) && (n <=? holders m (N.of_nat i))
                    | _ => true
                    end) (indices m).

(* C12 *)
Definition reserved_backed (m : mgr) (rx : list (addr * option N)) : bool :=
  forallb (fun i => match nth_error (m_status m) i with
                    | Some (Reserved n) =>
                        (1 <=? n) && existsb (fun kp => negb (p_choked (snd kp)) &&
                                                        optN_eqb (rx_of rx (fst kp)) (Some (N.of_nat i))) (m_peers m)
                    | _ => true
                    end) (indices m).
Definition have_absorbing (prev next : mgr) : bool :=
  forallb (fun i => match nth_error (m_status prev) i, nth_error (m_status next) i with
                    | Some Have, Some s => is_have s
                    | _, _ => true
                    end) (indices prev).
(* a newly asked piece is advertised by that peer and still lacked by the client *)
Definition asked_ok (prev_rx : list (addr * option N)) (next : mgr) (rx : list (addr * option N)) : bool :=
  forallb (fun kv => match snd kv with
                     | Some i =>
                         if optN_eqb (rx_of prev_rx (fst kv)) (Some i) then true else
                         match pget (m_peers next) (fst kv), nthN (m_status next) i with
                         | Some p, Some st => nth (N.to_nat i) (p_pieces p) false && negb (is_have st)
                         | _, _ => false
                         end
                     | None => true
                     end) rx.
Definition o12_step (prev : mgr) (prev_rx : list (addr * option N)) (s : ostep) : bool :=
  match s_op s with
  | OSet => true
  | _ => match s_res s with
         | XPanic | XErr => false
         | _ => reserved_backed (s_state s) (s_rx s) && have_absorbing prev (s_state s)
                && asked_ok prev_rx (s_state s) (s_rx s) && inv_count (s_state s)
         end
  end.

(* C14 *)
Definition unchoked_regular (m : mgr) : N :=
  len (filter (fun kp => negb (p_am_choked (snd kp)) && negb (p_optimistic (snd kp))) (m_peers m)).
Definition unchoked_optimistic (m : mgr) : N :=
  len (filter (fun kp => negb (p_am_choked (snd kp)) && p_optimistic (snd kp)) (m_peers m)).
Definition bound14 (m : mgr) : bool := (unchoked_regular m <=? 10) && (unchoked_optimistic m <=? 1).
Definition rate_of (rates : list (addr * N)) (a : addr) : N :=
  match find (fun kv => fst kv =? a) rates with Some (_, r) => r | None => 0 end.
Definition flip_of (fl : list (addr * bool)) (a : addr) : option bool :=
  match find (fun kv => fst kv =? a) fl with Some (_, b) => Some b | None => None end.
Definition policy14 (prev next : mgr) (rates : list (addr * N)) (fl : list (addr * bool)) : bool :=
  let ps := m_peers next in
  (* regular slots belong to interested peers *)
  forallb (fun kp => p_am_choked (snd kp) || p_optimistic (snd kp) || p_interested (snd kp)) ps
  (* no interested peer with a strictly better rate than a regular slot holder is left choked *)
  && forallb (fun kp => negb (p_am_choked (snd kp) && p_interested (snd kp)) ||
                        forallb (fun kq => p_am_choked (snd kq) || p_optimistic (snd kq) ||
                                           (rate_of rates (fst kp) <=? rate_of rates (fst kq))) ps) ps
  (* the broadcast map is exactly the set of changes, with the new value *)
  && forallb (fun kp => match pget (m_peers prev) (fst kp), flip_of fl (fst kp) with
                        | Some q, Some b => Bool.eqb b (p_am_choked (snd kp)) && negb (Bool.eqb (p_am_choked q) b)
                        | Some q, None => Bool.eqb (p_am_choked q) (p_am_choked (snd kp))
                        | None, _ => false
                        end) ps
  && forallb (fun kv => is_some (pget ps (fst kv))) fl.
Definition o14_step (prev : mgr) (s : ostep) : bool :=
  match s_op s with
  | OSet => true
  | ORotate rates _ =>
      match s_res s with
      | XRot fl => bound14 (s_state s) && policy14 prev (s_state s) rates fl
      | _ => false
      end
  | OTick =>
      (* the timer's own wrapper (timeout_change_conn_state): the round advances; while some peer has not reported
         both rates nothing else happens; otherwise the rotation is run on the rates the peers reported (download
         rates once everything is owned, upload rates before) and its result is broadcast: the same policy, with
         whatever order the implementation breaks ties in *)
      let next := s_state s in
      let all_rates := forallb (fun kp => is_some (p_drate (snd kp)) && is_some (p_urate (snd kp))) (m_peers prev) in
      let seeder := forallb is_have (m_status prev) in
      let rates := map (fun kp => (fst kp, match (if seeder then p_drate (snd kp) else p_urate (snd kp)) with Some r => r | None => 0 end))
                       (m_peers prev) in
      (m_round next =? (m_round prev + 1) mod MAX_OPTIMISTIC_ROUNDS) &&
      (* the optimistic unchoke: drawn in round 0 only, one peer among those we choked that are interested (none if there
         is none); in the other rounds, and when nothing rotates, the marks stay as they were *)
      (let opt_of (m : mgr) := map fst (filter (fun kp => p_optimistic (snd kp)) (m_peers m)) in
       if all_rates && ((m_round prev + 1) mod MAX_OPTIMISTIC_ROUNDS =? 0) then
         match optimistic_candidates prev with
         | [] => list_eqb N.eqb (opt_of next) (opt_of prev)
         | _ => optimistic_pick_ok prev (opt_of next)
         end
       else list_eqb N.eqb (opt_of next) (opt_of prev)) &&
      (if all_rates then
         match s_bc s with
         | [BOwnState fl] => bound14 next && policy14 prev next rates fl
         | _ => false
         end
       else peers_eqb (m_peers prev) (m_peers next) && match s_bc s with [] => true | _ => false end)
  | _ => match s_res s with XPanic => true | _ => bound14 (s_state s) end
  end.

(* C09, manager side: a piece is released for upload only to a peer we have unchoked and only if we own it *)
Definition o09_step (prev : mgr) (s : ostep) : bool :=
  match s_op s, s_res s with
  | OCmd (CRequest a i), XOk (RReq_Load j) =>
      (j =? i) && (i <? pieces_n prev) &&
      match pget (m_peers prev) a, nthN (m_status prev) i with
      | Some p, Some st => negb (p_am_choked p) && is_have st
      | _, _ => false
      end
  | _, XPanic => false
  | _, _ => true
  end.

(* C01, manager side: a piece becomes owned only through the PieceDone of the peer it is assigned to, it is broadcast
   as Have only then, the bitfield given to a new connection is exactly the owned set, and the extractor is started
   only when every piece is owned *)
Definition o01_step (prev : mgr) (s : ostep) : bool :=
  match s_op s with
  | OSet => true
  | _ =>
    let next := s_state s in
    let all_have := forallb is_have (m_status next) in
    let done_idx := match s_op s with
                    | OCmd (CPieceDone a) => match pget (m_peers prev) a with Some p => p_piece_index p | None => None end
                    | _ => None
                    end in
    (negb (existsb (fun x => match x with SpExtractor => true | _ => false end) (s_sp s)) || all_have)
    && forallb (fun i => match nth_error (m_status prev) i, nth_error (m_status next) i with
                         | Some st, Some st' => negb (is_have st') || is_have st || optN_eqb done_idx (Some (N.of_nat i))
                         | _, _ => true
                         end) (indices prev)
    && forallb (fun b => match b with
                         | BHave i => optN_eqb done_idx (Some i) && match nthN (m_status next) i with Some st => is_have st | None => false end
                         | _ => true
                         end) (s_bc s)
    && match s_res s with
       | XOk (RBitfield bits) => list_eqb Bool.eqb bits (map is_have (m_status prev))
       | XPanic => false
       | _ => true
       end
    (* one connection task per address (what ties a task's reports to the manager's entry for it): a tracker answer
       opens at most one connection per listed address that is not connected yet *)
    && match s_op s with
       (* (candidates left over from earlier answers are contacted by later ones too: they count) *)
       | OTresp ps => peer_spawns (s_sp s) <=? len (nodup N.eq_dec (filter (fun a => negb (is_some (pget (m_peers prev) a)))
                                                                           (map fst (m_candidates prev) ++ ps)))
       (* ... and an incoming connection from an address that is still connected gets no second task, nor may it touch
          the entry of the live connection *)
       | OAccept a => if is_some (pget (m_peers prev) a) then (peer_spawns (s_sp s) =? 0) && mgr_eqb prev (s_state s)
                      else peer_spawns (s_sp s) <=? 1
       (* a piece whose connection ended (its data failed the hash, or anything else) becomes downloadable again: no
          reservation outlives its holders *)
       | OCmd (CKill _) => inv_count next
       | _ => true
       end
  end.

(* C11, manager side: a piece is announced to the established connections exactly when it becomes owned or is
   completed again -- never otherwise, and never is a newly owned piece left unannounced *)
Definition o11m_step (prev : mgr) (s : ostep) : bool :=
  match s_op s with
  | OSet => true
  | _ =>
    let next := s_state s in
    forallb (fun i => match nth_error (m_status prev) i, nth_error (m_status next) i with
                      | Some st, Some st' =>
                          negb (is_have st' && negb (is_have st))
                          || existsb (fun b => match b with BHave j => j =? N.of_nat i | _ => false end) (s_bc s)
                      | _, _ => true
                      end) (indices prev)
    && forallb (fun b => match b with
                         | BHave i => match nthN (m_status next) i with Some st => is_have st | None => false end
                         | _ => true
                         end) (s_bc s)
    && match s_res s with
       | XOk (RBitfield bits) => list_eqb Bool.eqb bits (map is_have (m_status prev))
       | _ => true
       end
  end.

(* C20, manager side: when a connection is gone (KillReq) its peer state is forgotten and no reservation outlives
   its holders *)
Definition o20m_step (prev : mgr) (s : ostep) : bool :=
  match s_op s, s_res s with
  | OSet, _ => true
  | _, XPanic => false
  | _, _ => inv_count (s_state s)
  end.

(* ---- the run -------------------------------------------------------------------------------- *)
Fixpoint run (which : N) (prod : bool) (prev : mgr) (prev_rx : list (addr * option N)) (steps : list ostep)
             (k o : bool) : bool * bool :=
  match steps with
  | [] => (k, o)
  | s :: rest =>
      let k' := k && k_step prev s in
      let o' := o && negb (bad_hash (s_res s)) && s_args_ok s &&
                     (if which =? 12 then (negb prod || o12_step prev prev_rx s)
                      else if which =? 13 then o13_step prev s
                      else if which =? 9 then o09_step prev s
                      else if which =? 1 then o01_step prev s
                      else if which =? 11 then o11m_step prev s
                      else if which =? 20 then (negb prod || o20m_step prev s)
                      else o14_step prev s) in
      match s_res s with
      | XPanic => (k', o')
      | _ => run which prod (s_state s) (s_rx s) rest k' o'
      end
  end.

(* C02, manager side: the manager's record of who chokes us is each peer's last word (Choke / Unchoke frames, a new
   connection starts choked), and an idle peer that does not choke us and announces a piece we miss is asked for it at
   once -- otherwise that piece would wait for an Unchoke that never comes *)
Definition tc_get (tc : list (addr * bool)) (a : addr) : bool :=
  match find (fun kv => fst kv =? a) tc with Some kv => snd kv | None => true end.
Definition tc_put (tc : list (addr * bool)) (a : addr) (b : bool) : list (addr * bool) :=
  (a, b) :: filter (fun kv => negb (fst kv =? a)) tc.
Definition o02m_step (prev : mgr) (tc : list (addr * bool)) (s : ostep) : bool :=
  match s_op s with
  | OSet => true
  | _ =>
    forallb (fun kp => Bool.eqb (p_choked (snd kp)) (tc_get tc (fst kp))) (m_peers (s_state s))
    && match s_op s, s_res s with
       | OCmd (CHave a i), XOk r =>
           match pget (m_peers prev) a, nthN (m_status prev) i with
           | Some p, Some st =>
               negb (is_missing st && negb (tc_get tc a) && negb (is_some (p_piece_index p)) && negb (p_am_interested p))
               || match r with RHave_IntReq j _ => j =? i | _ => false end
           | _, _ => true
           end
       | _, XPanic => false
       | _, _ => true
       end
  end.
Fixpoint run02 (prev : mgr) (tc : list (addr * bool)) (steps : list ostep) (k o : bool) : bool * bool :=
  match steps with
  | [] => (k, o)
  | s :: rest =>
      let k' := k && k_step prev s in
      let tc' := match s_op s with
                 | OCmd (CChoke a) => tc_put tc a true
                 | OCmd (CUnchoke a) => tc_put tc a false
                 | OCmd (CKill a) => tc_put tc a true
                 | OAdd a _ => tc_put tc a true
                 | OAccept a => if is_some (pget (m_peers prev) a) then tc else
                                if is_some (pget (m_peers (s_state s)) a) then tc_put tc a true else tc
                 | OSet => map (fun kp => (fst kp, p_choked (snd kp))) (m_peers (s_state s))
                 | _ => tc
                 end in
      let o' := o && negb (bad_hash (s_res s)) && s_args_ok s && o02m_step prev tc' s in
      match s_res s with
      | XPanic => (k', o')
      | _ => run02 (s_state s) tc' rest k' o'
      end
  end.
Definition code02m (c : case) : N :=
  match c with
  | CMgr prod init steps =>
      let '(k, o) := run02 init (map (fun kp => (fst kp, p_choked (snd kp))) (m_peers init)) steps true true in
      (if k then 0 else 1) + (if o then 0 else 2)
  end.
Definition codes02m (cs : list case) : list N := map code02m cs.

Definition code (which : N) (c : case) : N :=
  match c with
  | CMgr prod init steps =>
      let '(k, o) := run which prod init [] steps true true in
      (if k then 0 else 1) + (if o then 0 else 2)
  end.
Definition codes12 (cs : list case) : list N := map (code 12) cs.
Definition codes13 (cs : list case) : list N := map (code 13) cs.
Definition codes14 (cs : list case) : list N := map (code 14) cs.
Definition codes09m (cs : list case) : list N := map (code 9) cs.
Definition codes01m (cs : list case) : list N := map (code 1) cs.
Definition codes11m (cs : list case) : list N := map (code 11) cs.
Definition codes20m (cs : list case) : list N := map (code 20) cs.
