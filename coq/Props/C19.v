(* C19 — tracker replies are read faithfully (reply parsing); the
   fault-sequence half of the property is in Props/C19faults.v once built. *)
From Rdest Require Import Base BCodec BProofs Metainfo TrackerResp.
Open Scope N_scope.

Lemma first_resp_in vs t : first_resp vs = Some t -> exists d, In (BDict d) vs /\ parse_resp d = Some t.
Proof.
  induction vs as [|v vs IH]; cbn [first_resp]; [discriminate|].
  destruct v as [z|s|l|d]; try (intros H; destruct (IH H) as (d' & Hin & Hp); exists d'; split; [right; exact Hin | exact Hp]).
  destruct (parse_resp d) as [t'|] eqn:E.
  - intros [= <-]. exists d. split; [left; reflexivity | exact E].
  - intros H. destruct (IH H) as (d' & Hin & Hp). exists d'. split; [right; exact Hin | exact Hp].
Qed.

Lemma peer_of_spec v p : peer_of v = Some p <->
  exists e port, v = BDict e /\ map_get k_ip e = Some (BStr (p_ip p)) /\ map_get k_peer_id e = Some (BStr (p_id p)) /\
    map_get k_port e = Some (BInt port) /\ (0 <= port)%Z /\ p_port p = Z.to_N port /\
    utf8_valid (p_ip p) = true /\ len (p_id p) = 20.
Proof.
  split.
  - destruct v as [z|s|l|e]; cbn [peer_of]; try discriminate.
    destruct (map_get k_ip e) as [[|ip| |]|] eqn:E1; try discriminate.
    destruct (map_get k_peer_id e) as [[|id| |]|] eqn:E2; try discriminate.
    destruct (map_get k_port e) as [[port| | |]|] eqn:E3; try discriminate.
    unfold u64_of. destruct (Z.ltb_spec port 0); [discriminate|].
    destruct (utf8_valid ip) eqn:U; [|discriminate]. cbn [andb].
    destruct (N.eqb_spec (len id) HASH_SIZE) as [L|]; [|discriminate]. intros [= <-]. cbn [p_ip p_id p_port].
    exists e, port. repeat split; try assumption; try reflexivity.
  - intros (e & port & -> & E1 & E2 & E3 & Hp & Hport & U & L). destruct p as [ip id pt]. cbn [p_ip p_id p_port] in *.
    cbn [peer_of]. rewrite E1, E2, E3. unfold u64_of. destruct (Z.ltb_spec port 0); [lia|].
    rewrite U. cbn [andb]. replace (len id =? HASH_SIZE) with true by (symmetry; apply N.eqb_eq; exact L). subst pt. reflexivity.
Qed.

(* parsing any reply terminates without panicking *)
Theorem C19_total : forall body, tracker_resp_of body <> Panic /\ tracker_resp_of body <> OutOfFuel.
Proof.
  intros body. unfold tracker_resp_of.
  destruct (decode_total true BCodec_lenient_colon body) as [A B]. fold (decode body) in A, B.
  destruct (decode body) as [vs| | |]; try congruence.
  - destruct (first_resp vs); split; discriminate.
  - split; discriminate.
Qed.

(* a successful parse yields, in the listed order, exactly the well-formed
   entries ({ip: utf-8, peer id: 20 bytes, port: int >= 0}) of the peers list of
   a top-level dictionary that carries no failure reason *)
Theorem C19_peers : forall body t, tracker_resp_of body = Ok t ->
  exists vs d i l, decode body = Ok vs /\ In (BDict d) vs /\
    (forall s, map_get k_failure d <> Some (BStr s)) /\
    map_get k_interval d = Some (BInt i) /\ (0 <= i)%Z /\ map_get k_peers d = Some (BList l) /\
    r_peers t = filter_map peer_of l /\
    peers_out t = map (fun p => (p_ip p ++ [58] ++ dec_N (p_port p), p_id p)) (filter_map peer_of l).
Proof.
  intros body t H. unfold tracker_resp_of in H. destruct (decode body) as [vs| | |]; try discriminate.
  destruct (first_resp vs) as [t'|] eqn:E; [|discriminate]. injection H as <-.
  destruct (first_resp_in vs t' E) as (d & Hin & Hp). unfold parse_resp in Hp.
  destruct (has_failure d) eqn:Hf; [discriminate|].
  destruct (map_get k_interval d) as [[i| | |]|] eqn:Ei; try discriminate.
  destruct (map_get k_peers d) as [[| |l|]|] eqn:El; try discriminate.
  destruct (u64_of i) eqn:Eu; [|discriminate]. injection Hp as <-.
  assert (Hi : (0 <= i)%Z) by (unfold u64_of in Eu; destruct (Z.ltb_spec i 0); [discriminate | assumption]).
  assert (Hs : forall s, map_get k_failure d <> Some (BStr s)).
  { intros s Hs. unfold has_failure in Hf. rewrite Hs in Hf. discriminate. }
  exists vs, d, i, l. unfold peers_out. cbn [r_peers].
  split; [reflexivity|]. split; [exact Hin|]. split; [exact Hs|]. split; [exact Ei|]. split; [exact Hi|].
  split; [exact El|]. split; reflexivity.
Qed.

(* a reply carrying a failure reason (any string, valid UTF-8 or not) is reported as a failure *)
Theorem C19_failure : forall d s, map_get k_failure d = Some (BStr s) -> parse_resp d = None.
Proof. intros d s H. unfold parse_resp, has_failure. rewrite H. reflexivity. Qed.

Check C19_total : forall body, tracker_resp_of body <> Panic /\ tracker_resp_of body <> OutOfFuel.
Check C19_failure : forall d s, map_get k_failure d = Some (BStr s) -> parse_resp d = None.

Example C19_failure_nonvacuous :
  tracker_resp_of [100;49;52;58;102;97;105;108;117;114;101;32;114;101;97;115;111;110;49;58;255;101] = Err.
Proof. vm_compute. reflexivity. Qed.

Print Assumptions C19_total.
Print Assumptions C19_peers.
Print Assumptions C19_failure.
Print Assumptions peer_of_spec.

(* ---- fault sequences: tracker task / command channel / manager, all interleavings ------------- *)
From Rdest Require Import Tracker TrackerProofs.

(* For every number of failed announces before the good one and every interleaving of the tracker task
   with the manager: the manager is never blocked while the tracker has not succeeded (it can always
   take another event of its select! loop) ... *)
Theorem C19_faults_never_blocked : forall fails s,
  reachable Session_join_tracker_only_on_resp fails s -> succeeded s = false ->
  exists s', tnext Session_join_tracker_only_on_resp s StMgrOther = Some s'.
Proof. exact never_blocked_before_success. Qed.

(* ... and the two never wait for each other: every state that is not final (reply handled, task ended,
   channel empty) can move without help from outside. *)
Theorem C19_faults_no_deadlock : forall fails s,
  reachable Session_join_tracker_only_on_resp fails s -> final s = false ->
  exists st s', st <> StMgrOther /\ tnext Session_join_tracker_only_on_resp s st = Some s'.
Proof. exact no_deadlock. Qed.

(* The pinned manager (it awaited the tracker task after every command) is refuted: after one failure
   it is blocked while the tracker is still failing; after 66 failures the two are deadlocked. *)
Theorem C19_pinned_refuted :
  (exists s, reachable false 1 s /\ succeeded s = false /\ tnext false s StMgrOther = None) /\
  (let s := run_sched false 1000 (t_init 66) in stuck false s = true /\ final s = false).
Proof.
  split.
  - exists (mksys (TSleeping 0) [] MAwaitJob false false 0). split; [|split; reflexivity].
    apply (r_step false 1 (mksys (TSleeping 0) [TFail] MIdle true false 0) StMgrRecv); [|reflexivity].
    apply (r_step false 1 (t_init 1) StTracker); [apply r_init | reflexivity].
  - vm_compute. split; reflexivity.
Qed.

(* non-vacuity: with the repaired manager 70 failures end in a final state *)
Example C19_faults_nonvacuous : final (run_sched true 1000 (t_init 70)) = true.
Proof. vm_compute. reflexivity. Qed.

Print Assumptions C19_faults_never_blocked.
Print Assumptions C19_faults_no_deadlock.
Print Assumptions C19_pinned_refuted.
