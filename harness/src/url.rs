//! C18: the announce request of the real TrackerClient against a loopback HTTP listener.
//!
//! case line:  url <announce template hex, "@PORT@" replaced by the listener's port> <name hex> <length> <peer id hex>
//! output:     HASH <hex> URL <create_url hex> TARGET <request target hex>   |  NOREQ ...
use crate::util::*;
use rdest::verif::TrackerCmd;
use rdest::{Metainfo, TrackerClient};
use tokio::io::{AsyncReadExt, AsyncWriteExt};

async fn run_case(line: &str) -> String {
    let t: Vec<&str> = line.split_whitespace().collect();
    assert_eq!(t[0], "url");
    let listener = tokio::net::TcpListener::bind("127.0.0.1:0").await.unwrap();
    let port = listener.local_addr().unwrap().port();
    let tmpl = String::from_utf8(unhex(t[1])).unwrap();
    let announce = tmpl.replace("@PORT@", &port.to_string());
    let name = unhex(t[2]);
    let length: u64 = t[3].parse().unwrap();
    let mut id = [0u8; 20];
    id.copy_from_slice(&unhex(t[4]));
    let mut doc = format!("d8:announce{}:{}4:infod6:lengthi{}e4:name{}:", announce.len(), announce, length, name.len()).into_bytes();
    doc.extend_from_slice(&name);
    doc.extend_from_slice(b"12:piece lengthi4e6:pieces20:AAAAAAAAAAAAAAAAAAAAee");
    let m = match Metainfo::from_bencode(&doc) {
        Ok(m) => m,
        Err(_) => return "NOPARSE".to_string(),
    };
    let hash = *m.info_hash();
    let url = TrackerClient::verif_create_url(&m);
    let server = tokio::spawn(async move {
        let (mut sock, _) = listener.accept().await.unwrap();
        let mut buf = vec![];
        let mut tmp = [0u8; 4096];
        loop {
            let k = sock.read(&mut tmp).await.unwrap_or(0);
            if k == 0 {
                break;
            }
            buf.extend_from_slice(&tmp[..k]);
            if buf.windows(4).any(|w| w == b"\r\n\r\n") {
                break;
            }
        }
        let body = b"d8:intervali1e5:peerslee";
        let resp = format!("HTTP/1.1 200 OK\r\nContent-Length: {}\r\nConnection: close\r\n\r\n", body.len());
        let _ = sock.write_all(resp.as_bytes()).await;
        let _ = sock.write_all(body).await;
        let _ = sock.shutdown().await;
        buf
    });
    let (tx, mut rx) = tokio::sync::mpsc::channel::<TrackerCmd>(4);
    let mut client = TrackerClient::new(&id, m, tx);
    let run = tokio::spawn(async move { client.run().await });
    let first = tokio::time::timeout(std::time::Duration::from_secs(30), rx.recv()).await;
    run.abort();
    let req = match tokio::time::timeout(std::time::Duration::from_secs(15), server).await {
        Ok(Ok(buf)) => buf,
        _ => vec![],
    };
    let line0 = req.split(|b| *b == b'\r').next().unwrap_or(&[]).to_vec();
    // "GET <target> HTTP/1.1"
    let parts: Vec<&[u8]> = line0.split(|b| *b == b' ').collect();
    let target = if parts.len() >= 3 { parts[1].to_vec() } else { vec![] };
    let host = req
        .split(|b| *b == b'\n')
        .find(|l| l.to_ascii_lowercase().starts_with(b"host:"))
        .map(|l| l[5..].iter().cloned().filter(|c| *c != b' ' && *c != b'\r').collect::<Vec<u8>>())
        .unwrap_or_default();
    let outcome = match first {
        Ok(Some(TrackerCmd::TrackerResp(_))) => "RESP",
        Ok(Some(TrackerCmd::Fail(_))) => "FAIL",
        _ => "NONE",
    };
    format!("HASH {} URL {} TARGET {} HOST {} PORT {} {}", hex(&hash), hex(url.as_bytes()), hex(&target), hex(&host), port, outcome)
}

/// C19: the real `TrackerClient::run` loop against a loopback tracker that fails in scripted ways before it answers.
///
/// case line:  trkreal <outcome,outcome,...|-> <good reply body hex>
///             outcomes: refused (nothing listens), drop (accepted, closed without an answer), 500 / 404 (HTTP error),
///             garbage (200 with a body that is not bencode), failure (200 with a failure reason), empty (200, no body)
/// output:     CMDS <F|R,...> PEERS <addr/id,...|-> REQS <requests the listener saw> DONE <0|1> EXTRA <0|1>
async fn run_real(line: &str) -> String {
    use std::time::Duration;
    let t: Vec<&str> = line.split_whitespace().collect();
    let script: Vec<&str> = if t[1] == "-" { vec![] } else { t[1].split(',').collect() };
    let good = unhex(t[2]);
    // a bound socket that does not listen yet refuses connections while keeping the port ours; "refused" outcomes are
    // therefore a prefix of the script (the generator's rule)
    // (a socket that cannot be set up is no verdict on the client: SKIP)
    let sock = match tokio::net::TcpSocket::new_v4() {
        Ok(s) => s,
        Err(_) => return "SKIP".to_string(),
    };
    if sock.bind("127.0.0.1:0".parse().unwrap()).is_err() {
        return "SKIP".to_string();
    }
    let port = match sock.local_addr() {
        Ok(a) => a.port(),
        Err(_) => return "SKIP".to_string(),
    };
    let mut sock = Some(sock);
    let mut dead = false;
    let targets: std::cell::RefCell<Vec<Vec<u8>>> = std::cell::RefCell::new(vec![]);
    let announce = format!("http://127.0.0.1:{}/announce", port);
    let doc = format!("d8:announce{}:{}4:infod6:lengthi7e4:name1:f12:piece lengthi4e6:pieces40:AAAAAAAAAAAAAAAAAAAABBBBBBBBBBBBBBBBBBBBee", announce.len(), announce).into_bytes();
    let m = Metainfo::from_bencode(&doc).expect("harness torrent must parse");
    let (tx, mut rx) = tokio::sync::mpsc::channel::<TrackerCmd>(4);
    let mut client = TrackerClient::new(b"-RD0001-000000000001", m, tx);
    let mut run = tokio::spawn(async move { client.run().await });
    let mut cmds: Vec<&str> = vec![];
    let mut peers = "-".to_string();
    let mut reqs = 0usize;
    let mut phases: Vec<&str> = script.clone();
    phases.push("ok");
    let mut i = 0;
    let mut listener: Option<tokio::net::TcpListener> = None;
    while i < phases.len() {
        let ph = phases[i];
        if ph != "refused" && listener.is_none() {
            listener = match sock.take().map(|s| s.listen(16)) {
                Some(Ok(l)) => Some(l),
                _ => {
                    run.abort();
                    return "SKIP".to_string();
                }
            };
        }
        // serve one request (if something listens) and wait for the client's verdict on this attempt
        let serve = async {
            if let Some(l) = listener.as_ref() {
                if let Ok((mut sock, _)) = l.accept().await {
                    if ph == "drop" {
                        drop(sock);
                        return 1usize;
                    }
                    let mut buf = vec![];
                    let mut tmp = [0u8; 4096];
                    loop {
                        let k = sock.read(&mut tmp).await.unwrap_or(0);
                        if k == 0 {
                            break;
                        }
                        buf.extend_from_slice(&tmp[..k]);
                        if buf.windows(4).any(|w| w == b"\r\n\r\n") {
                            break;
                        }
                    }
                    // the request target of this announce ("GET <target> HTTP/1.1")
                    let line0 = buf.split(|b| *b == b'\r').next().unwrap_or(&[]).to_vec();
                    let parts: Vec<&[u8]> = line0.split(|b| *b == b' ').collect();
                    if parts.len() >= 3 && buf.windows(4).any(|w| w == b"\r\n\r\n") {
                        targets.borrow_mut().push(parts[1].to_vec());     // (a request that was not read whole says nothing)
                    }
                    // "<status>:<body hex>": that HTTP status with that body (error pages of any length and content)
                    let custom = ph.split_once(':').map(|(st, hx)| (format!("{} Status", st), unhex(hx)));
                    let (status, body): (&str, Vec<u8>) = match ph {
                        _ if custom.is_some() => {
                            let (st, b) = custom.as_ref().unwrap();
                            (st.as_str(), b.clone())
                        }
                        "500" => ("500 Internal Server Error", b"oops".to_vec()),
                        "404" => ("404 Not Found", b"".to_vec()),
                        "garbage" => ("200 OK", b"<html>not bencode</html>".to_vec()),
                        "failure" => ("200 OK", b"d14:failure reason9:try latere".to_vec()),
                        "empty" => ("200 OK", b"".to_vec()),
                        _ => ("200 OK", good.clone()),
                    };
                    let head = format!("HTTP/1.1 {}\r\nContent-Length: {}\r\nConnection: close\r\n\r\n", status, body.len());
                    let _ = sock.write_all(head.as_bytes()).await;
                    let _ = sock.write_all(&body).await;
                    let _ = sock.shutdown().await;
                    return 1usize;
                }
            }
            std::future::pending::<usize>().await
        };
        tokio::pin!(serve);
        let mut served = 0usize;
        let verdict = loop {
            tokio::select! {
                k = &mut serve, if served == 0 => served = k,
                c = tokio::time::timeout(Duration::from_secs(20), rx.recv()) => break c,
                _ = &mut run, if !dead => dead = true,          // the tracker task ended (or panicked) without a word
            }
            if dead {
                // give a command already sent a moment to arrive, then give up
                break tokio::time::timeout(Duration::from_millis(300), rx.recv()).await;
            }
        };
        reqs += served;
        match verdict {
            Ok(Some(TrackerCmd::Fail(_))) => cmds.push("F"),
            Ok(Some(TrackerCmd::TrackerResp(r))) => {
                cmds.push("R");
                let v: Vec<String> = r.peers().iter().map(|(a, id)| format!("{}/{}", hex(a.as_bytes()), hex(id))).collect();
                if !v.is_empty() {
                    peers = v.join(",");
                }
                break;
            }
            _ => {
                cmds.push(if dead { "DEAD" } else { "NONE" });
                break;
            }
        }
        i += 1;
    }
    // after the answer the task is over: it ends by itself and asks nothing more
    let done = if run.is_finished() { true } else { tokio::time::timeout(Duration::from_secs(3), &mut run).await.is_ok() };
    let extra = match listener.as_ref() {
        Some(l) => tokio::time::timeout(Duration::from_millis(1500), l.accept()).await.is_ok(),
        None => false,
    };
    run.abort();
    // every announce, the retries included, must name the torrent and the client the same way
    let tg = targets.borrow();
    let same = tg.windows(2).all(|w| w[0] == w[1]) && tg.iter().all(|t| t.windows(10).any(|w| w == b"info_hash="));
    format!(
        "CMDS {} PEERS {} REQS {} DONE {} EXTRA {} SAME {} SEEN {}",
        if cmds.is_empty() { "-".to_string() } else { cmds.join(",") },
        peers,
        reqs,
        if done { 1 } else { 0 },
        if extra { 1 } else { 0 },
        if same { 1 } else { 0 },
        tg.len()
    )
}

pub fn run(lines: &[String]) {
    for k in ["http_proxy", "https_proxy", "HTTP_PROXY", "HTTPS_PROXY", "all_proxy", "ALL_PROXY"] {
        std::env::remove_var(k);
    }
    std::env::set_var("NO_PROXY", "*");
    let rt = tokio::runtime::Builder::new_current_thread().enable_all().build().unwrap();
    for line in lines {
        let real = line.starts_with("trkreal");
        match guarded(|| if real { rt.block_on(run_real(line)) } else { rt.block_on(run_case(line)) }) {
            Some(s) => println!("{}", s),
            None => println!("PANIC"),
        }
    }
}
