(* C16 — the bencode decoder accepts exactly well-formed input, and never panics.
   `decode` is the model of BDecoder::from_array (BCodec.v); WfSeq is the
   independent grammar (BGrammar.v); decode_strict is its executable recogniser. *)
From Coq Require Import String.
From Rdest Require Import Base BCodec BGrammar BProofs DeepProofs.
Open Scope N_scope.

(* FULL STATEMENT (false of the code, see C16_refuted_unterminated):
     forall doc vs, decode doc = Ok vs <-> WfSeq doc vs.                      *)

(* for every byte string the decoder terminates without panicking *)
Theorem C16_total : forall doc, decode doc <> Panic /\ decode doc <> OutOfFuel.
Proof. exact (decode_total true BCodec_lenient_colon). Qed.

(* it accepts every sequence of well-formed values and returns those values *)
Theorem C16_complete : forall doc vs, WfSeq doc vs -> decode doc = Ok vs.
Proof. exact (decode_complete true BCodec_lenient_colon). Qed.

(* the strict decoder is exactly the grammar (this is the oracle the
   correspondence check applies to the implementation's answers) *)
(* "returning those values" is well defined: the grammar is unambiguous, a byte string is a sequence
   of well-formed values in at most one way *)
Theorem C16_grammar_unambiguous : forall doc vs1 vs2, WfSeq doc vs1 -> WfSeq doc vs2 -> vs1 = vs2.
Proof.
  intros doc vs1 vs2 H1 H2. apply C16_complete in H1. apply C16_complete in H2.
  rewrite H1 in H2. injection H2 as ->. reflexivity.
Qed.

Theorem C16_strict_iff : forall doc vs, decode_strict doc = Ok vs <-> WfSeq doc vs.
Proof. exact decode_strict_iff. Qed.

(* PARTIAL soundness: what the code accepts is well-formed and denotes the
   returned values, unless the document is in the known-finding class
   `unterminated-container` (= rejected by the strict decoder).  Missing: the
   class itself, where the full statement is false. *)
Theorem C16_sound_partial : forall doc vs,
  decode doc = Ok vs -> is_ok (decode_strict doc) = true -> WfSeq doc vs.
Proof. exact decode_sound_partial. Qed.

(* the full statement is refuted by "li1e" (replayed on the implementation by
   the correspondence corpus) *)
Theorem C16_refuted_unterminated :
  decode [ch_l; ch_i; 49; ch_e] = Ok [BList [BInt 1]] /\ ~ exists vs, WfSeq [ch_l; ch_i; 49; ch_e] vs.
Proof. exact decode_refuted_unterminated. Qed.

(* after the repair of the missing-colon defect the only leniency left is the
   end-of-input one *)
Example C16_colon_repaired : BCodec_lenient_colon = false.
Proof. reflexivity. Qed.

Check C16_total : forall doc, decode doc <> Panic /\ decode doc <> OutOfFuel.
Check C16_complete : forall doc vs, WfSeq doc vs -> decode doc = Ok vs.
Check C16_sound_partial : forall doc vs, decode doc = Ok vs -> is_ok (decode_strict doc) = true -> WfSeq doc vs.

(* non-vacuity *)
Example C16_wf_example : exists vs, WfSeq (hx "64313a616c6931656932656565") vs /\ decode (hx "64313a616c6931656932656565") = Ok vs.
Proof.
  eexists. split; [apply C16_strict_iff; vm_compute; reflexivity | vm_compute; reflexivity].
Qed.

Print Assumptions C16_total.
Print Assumptions C16_complete.
Print Assumptions C16_strict_iff.
Print Assumptions C16_sound_partial.
Print Assumptions C16_refuted_unterminated.

(* nesting depth: the grammar and the model decoder accept well-formed nesting of EVERY depth (the model is fuelled by
   the input length, it has no stack) -- which is what the property demands of the implementation; the recursive
   implementation exhausts the native stack instead (known finding stack-exhaustion-on-deep-nesting, Corr/Deep.v) *)
Theorem C16_every_depth_accepted : forall n, decode (nested_text n) = Ok [nested n].
Proof. exact nested_accepted. Qed.
Print Assumptions C16_every_depth_accepted.
Print Assumptions C16_grammar_unambiguous.
