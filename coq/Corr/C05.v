(* Correspondence for C05.  Class bits of an oracle failure:
   1 = nested-info-found-first, 2 = duplicate-info-key, 4 = truncated-tail. *)
From Rdest Require Import Base BCodec DeepFinder Metainfo InfoSpec Corr.MetaCase.
Open Scope N_scope.

Definition count_info (doc : bytes) (i : nat) : N :=
  match top_spans (S (length doc)) doc with
  | Some spans => match nth_error spans i with
                  | Some sp => match dict_entries sp with
                               | Some es => len (filter (fun kv => bytes_eqb (fst kv) k_info) es)
                               | None => 0
                               end
                  | None => 0
                  end
  | None => 0
  end.

Definition code (c : case) : N :=
  match c with
  | CMeta ovf doc impl =>
      let k := k_ok ovf doc impl in
      let '(o, cls) :=
        match impl with
        | Ok ob =>
            let sel := match decode doc with Ok vs => selected_index doc vs 0 | _ => None end in
            match sel with
            | None => (false, 0)              (* accepted by the implementation but not by the model: K says so too *)
            | Some i =>
                match info_span doc i with
                | Some sp => if opt_eqb bytes_eqb (o_ff ob) (Some sp) && o_hash_is_sha1_of_ff ob then (true, 0)
                             else (false, if 1 <? count_info doc i then 2 else 1)
                | None => (false, 4)
                end
            end
        | Err => (true, 0)
        | _ => (false, 0)
        end in
      (if k then 0 else 1) + (if o then 0 else 2 + 4 * cls)
  | CCreate _ _ _ _ _ _ => 0
  end.
Definition codes (cs : list case) : list N := map code cs.
