(* ExtractProofs.v — C03: geometry partitions the content, extraction reproduces the files. *)
From Rdest Require Import Base BaseProofs BCodec Metainfo MetaProofs Extract.
From Coq Require Import ZifyBool ZifyN ZifyNat.
Ltac Zify.zify_post_hook ::= Z.div_mod_to_equations.
Open Scope N_scope.

(* ---- slices ------------------------------------------------------------------ *)
Lemma firstn_plus {A} (a b : nat) (l : list A) : firstn (a + b) l = firstn a l ++ firstn b (skipn a l).
Proof.
  revert l. induction a as [|a IH]; intros l; [reflexivity|].
  destruct l as [|x l]; cbn [Nat.add firstn skipn app].
  - rewrite firstn_nil. reflexivity.
  - rewrite IH. reflexivity.
Qed.

Lemma skipn_skipn {A} (a b : nat) (l : list A) : skipn a (skipn b l) = skipn (b + a) l.
Proof.
  revert l. induction b as [|b IH]; intros l; [reflexivity|].
  destruct l as [|x l]; cbn [Nat.add skipn]; [apply skipn_nil | apply IH].
Qed.

Lemma slice_slice_app {A} (l : list A) x k1 k2 : slice l x k1 ++ slice l (x + k1) k2 = slice l x (k1 + k2).
Proof.
  unfold slice. rewrite !N2Nat.inj_add, firstn_plus, skipn_skipn. reflexivity.
Qed.

Lemma slice_zero {A} (l : list A) x : slice l x 0 = [].
Proof. reflexivity. Qed.

Lemma len_slice {A} (l : list A) x k : len (slice l x k) = N.min k (len l - x).
Proof. unfold slice, len. rewrite firstn_length, skipn_length. lia. Qed.

Lemma slice_all {A} (l : list A) k : len l <= k -> slice l 0 k = l.
Proof. intros H. unfold slice. cbn [N.to_nat skipn]. apply firstn_all2. unfold len in H. lia. Qed.

Lemma skipn_slice {A} (l : list A) x k o : skipn (N.to_nat o) (slice l x k) = slice l (x + o) (k - o).
Proof.
  unfold slice. rewrite skipn_firstn_comm, skipn_skipn. f_equal; [lia|]. f_equal. lia.
Qed.

Lemma firstn_slice {A} (l : list A) x k w : w <= k -> firstn (N.to_nat w) (slice l x k) = slice l x w.
Proof. intros H. unfold slice. rewrite firstn_firstn. f_equal. lia. Qed.

(* ---- geometry ---------------------------------------------------------------- *)
Lemma concat_pieces (content : bytes) pl : forall k : nat,
  concat (map (fun i => piece_data content pl (N.of_nat i)) (seq 0 k)) = slice content 0 (N.of_nat k * pl).
Proof.
  induction k as [|k IH]; [reflexivity|].
  rewrite seq_S, map_app, concat_app, IH. cbn [map concat Nat.add]. rewrite app_nil_r.
  unfold piece_data.
  replace (N.of_nat k * pl) with (0 + N.of_nat k * pl) at 2 by lia.
  rewrite slice_slice_app. f_equal. lia.
Qed.

Lemma total_length_geometry ovf m content : Geometry m content -> total_length ovf m = Ok (len content).
Proof.
  intros (_ & Hlen & Hlt & _). unfold total_length.
  change (fold_left (tl_step ovf) (m_files m) (Ok 0) = Ok (len content)).
  rewrite (total_length_ok ovf (m_files m) 0) by (rewrite <- Hlen; lia). f_equal. lia.
Qed.

Theorem partition_ok ovf m content : Geometry m content ->
  concat (map (fun i => piece_data content (pl_of m) (N.of_nat i)) (seq 0 (N.to_nat (pieces_num m)))) = content /\
  forall i, i < pieces_num m ->
    piece_length ovf m i = Ok (len (piece_data content (pl_of m) i)) /\
    0 < len (piece_data content (pl_of m) i) <= pl_of m.
Proof.
  intros G. pose proof (total_length_geometry ovf m content G) as HT.
  destruct G as (Hpl & Hlen & Hlt & Hup & Hlow). split.
  - rewrite concat_pieces. apply slice_all. lia.
  - intros i Hi. unfold piece_data. rewrite len_slice.
    destruct Hlow as [H0|Hlow]; [lia|].
    unfold piece_length. fold (pl_of m).
    destruct (pieces_num m =? 0) eqn:E0; [lia|]. cbn [bind].
    destruct (i <? pieces_num m - 1) eqn:Ei.
    + assert (i * pl_of m + pl_of m <= (pieces_num m - 1) * pl_of m) by nia.
      split; [f_equal; lia | lia].
    + rewrite HT. cbn [bind]. destruct (pl_of m =? 0) eqn:Ep; [lia|].
      assert (i = pieces_num m - 1) by lia. subst i.
      set (r := len content - (pieces_num m - 1) * pl_of m) in *.
      assert (Hr : 0 < r <= pl_of m) by (unfold r; nia).
      replace (N.min (pl_of m) r) with r by lia.
      destruct (N.eq_dec r (pl_of m)) as [Heq|Hne].
      * assert (Hm : len content mod pl_of m = 0).
        { symmetry. apply (N.mod_unique _ _ (pieces_num m)); [lia|]. unfold r in Heq. nia. }
        rewrite Hm. cbn [N.eqb negb]. split; [f_equal; lia | lia].
      * assert (Hm : len content mod pl_of m = r).
        { symmetry. apply (N.mod_unique _ _ (pieces_num m - 1)); [lia|]. unfold r. nia. }
        rewrite Hm. destruct (r =? 0) eqn:Er; [lia|]. cbn [negb]. split; [reflexivity | lia].
Qed.

(* ---- extraction --------------------------------------------------------------- *)
Section Extraction.
  Variables (m : metainfo) (content : bytes) (store : bytes -> option bytes).
  Hypothesis Hpl : 0 < pl_of m.
  Hypothesis Hup : len content <= pieces_num m * pl_of m.
  Hypothesis Hstore : StoreOk m content store.

  Lemma open_piece_ok i : i < pieces_num m -> open_piece store m i = Ok (piece_data content (pl_of m) i).
  Proof.
    intros Hi. destruct (Hstore i Hi) as (h & Hn & Hs). unfold open_piece, piece. rewrite Hn. cbn [bind]. rewrite Hs. reflexivity.
  Qed.

  (* whole pieces strictly after the first one *)
  Lemma loop_full s : forall (fuel : nat) i k, (N.to_nat k <= fuel)%nat -> file_index s < i -> i + k <= pieces_num m ->
    loop_go store m s fuel i (i + k) = Ok (slice content (i * pl_of m) (k * pl_of m)).
  Proof.
    induction fuel as [|fuel IH]; intros i k Hf Hs Hn.
    - assert (k = 0) by lia. subst k. cbn [loop_go]. replace (i + 0 <=? i) with true by lia. reflexivity.
    - cbn [loop_go]. destruct (i + k <=? i) eqn:E.
      + assert (k = 0) by lia. subst k. reflexivity.
      + rewrite open_piece_ok by lia. cbn [bind]. replace (i =? file_index s) with false by lia.
        replace (i + k) with ((i + 1) + (k - 1)) by lia.
        rewrite IH by lia. cbn [bind]. unfold piece_data. f_equal.
        replace ((i + 1) * pl_of m) with (i * pl_of m + pl_of m) by lia.
        rewrite slice_slice_app. f_equal. nia.
  Qed.

  (* one file occupying [a, b) of the content *)
  Lemma extract_one_ok a b : a <= b -> b <= len content ->
    extract_one true store m (mkpos (a / pl_of m) (a mod pl_of m)) (mkpos (b / pl_of m) (b mod pl_of m))
    = Ok (slice content a (b - a)).
  Proof.
    intros Hab Hb. set (p := pl_of m) in *.
    assert (Ha : a = p * (a / p) + a mod p) by (apply N.div_mod; lia).
    assert (Hb' : b = p * (b / p) + b mod p) by (apply N.div_mod; lia).
    assert (Hma : a mod p < p) by (apply N.mod_lt; lia).
    assert (Hmb : b mod p < p) by (apply N.mod_lt; lia).
    assert (Hq : a / p <= b / p) by (apply N.div_le_mono; lia).
    unfold extract_one. cbn [file_index byte_index].
    destruct (N.eq_dec (a / p) (b / p)) as [Heq|Hne].
    - (* the file lies inside one piece *)
      assert (Hl : loop_go store m (mkpos (a / p) (a mod p)) (S (length (m_pieces m))) (a / p) (b / p) = Ok []).
      { cbn [loop_go]. replace (b / p <=? a / p) with true by lia. reflexivity. }
      rewrite Hl. cbn [bind app]. unfold tail_chunk. cbn [file_index byte_index andb].
      assert (Hba : b - a = b mod p - a mod p) by nia.
      destruct (0 <? b mod p) eqn:E0.
      + assert (Hi : b / p < pieces_num m) by nia.
        rewrite open_piece_ok by exact Hi. cbn [bind].
        replace (a / p =? b / p) with true by lia.
        replace (b mod p <? a mod p) with false by nia.
        unfold piece_data. fold p. rewrite skipn_slice, len_slice.
        replace (b / p * p + a mod p) with a by nia.
        replace (N.min (p - a mod p) (len content - a) <? b mod p - a mod p) with false by lia.
        cbn [bind]. rewrite firstn_slice by lia. rewrite Hba. reflexivity.
      + assert (b = a) by nia. subst b. cbn [bind]. rewrite N.sub_diag. reflexivity.
    - (* first (possibly partial) piece, whole pieces, tail *)
      assert (Hlt : a / p < b / p) by lia.
      assert (Hbn : b / p <= pieces_num m) by nia.
      assert (Hl : loop_go store m (mkpos (a / p) (a mod p)) (S (length (m_pieces m))) (a / p) (b / p)
                   = Ok (slice content a (b / p * p - a))).
      { cbn [loop_go]. replace (b / p <=? a / p) with false by lia.
        rewrite open_piece_ok by lia. cbn [bind file_index byte_index]. rewrite N.eqb_refl.
        replace (b / p) with ((a / p + 1) + (b / p - a / p - 1)) at 1 by lia.
        assert (Hfuel : (N.to_nat (b / p - a / p - 1) <= length (m_pieces m))%nat).
        { unfold pieces_num, len in Hbn. clear - Hbn. revert Hbn. generalize (b / p) (a / p). intros; lia. }
        rewrite loop_full; [| exact Hfuel | cbn [file_index]; clear; generalize (a / p); intros; lia
                            | clear - Hbn Hlt; revert Hbn Hlt; generalize (b / p) (a / p); intros; lia].
        cbn [bind]. unfold piece_data. fold p. rewrite skipn_slice.
        replace (a / p * p + a mod p) with a by nia.
        replace ((a / p + 1) * p) with (a + (p - a mod p)) by nia.
        rewrite slice_slice_app. f_equal. f_equal. nia. }
      rewrite Hl. cbn [bind]. unfold tail_chunk. cbn [file_index byte_index].
      replace (a / p =? b / p) with false by lia. rewrite andb_false_r.
      destruct (0 <? b mod p) eqn:E0.
      + assert (Hi : b / p < pieces_num m) by nia.
        rewrite open_piece_ok by exact Hi. cbn [bind]. replace (b mod p <? 0) with false by lia.
        cbn [N.to_nat skipn]. unfold piece_data. fold p. rewrite len_slice, N.sub_0_r.
        replace (N.min p (len content - b / p * p) <? b mod p) with false by nia.
        cbn [bind]. rewrite firstn_slice by lia.
        replace (b / p * p) with (a + (b / p * p - a)) at 2 by nia.
        rewrite slice_slice_app. f_equal. f_equal. nia.
      + cbn [bind]. rewrite app_nil_r. f_equal. f_equal. nia.
  Qed.

  Lemma extract_files_ok ovf : forall fs pos, pos + sum_lengths fs <= len content -> len content < two64 ->
    exists rs, ranges_go ovf m fs pos = Ok rs /\
               extract_go true store m rs fs = Ok (spec_go m content fs pos).
  Proof.
    induction fs as [|f fs IH]; intros pos Hsum Hlt.
    - exists []. split; reflexivity.
    - rewrite sum_lengths_cons in Hsum.
      destruct (IH (pos + f_length f)) as (rs & Hr & He); [lia | exact Hlt |].
      cbn [ranges_go]. replace (pos + f_length f <? two64) with true by lia. cbn [bind].
      unfold pos_of. fold (pl_of m). replace (pl_of m =? 0) with false by lia. cbn [bind].
      rewrite Hr. cbn [bind]. eexists. split; [reflexivity|].
      cbn [extract_go]. rewrite extract_one_ok by lia. cbn [bind]. rewrite He. cbn [bind spec_go].
      f_equal. f_equal. f_equal. f_equal. lia.
  Qed.
End Extraction.

Theorem extract_ok ovf m content store : Geometry m content -> StoreOk m content store ->
  extract true store ovf m = Ok (spec_files m content).
Proof.
  intros (Hpl & Hlen & Hlt & Hup & _) Hs.
  destruct (extract_files_ok m content store Hpl Hup Hs ovf (m_files m) 0) as (rs & Hr & He); [lia | exact Hlt |].
  unfold extract, file_piece_ranges. rewrite Hr. cbn [bind]. exact He.
Qed.

(* the declared lengths: every extracted file has exactly its length *)
Lemma spec_go_lengths m content : forall fs off, off + sum_lengths fs <= len content ->
  map (fun pd => len (snd pd)) (spec_go m content fs off) = map f_length fs.
Proof.
  induction fs as [|f fs IH]; intros off H; [reflexivity|].
  rewrite sum_lengths_cons in H. cbn [spec_go map snd]. rewrite len_slice, IH by lia. f_equal. lia.
Qed.

Lemma spec_go_concat m content : forall fs off,
  concat (map snd (spec_go m content fs off)) = slice content off (sum_lengths fs).
Proof.
  induction fs as [|f fs IH]; intros off.
  - cbn [spec_go map concat sum_lengths]. symmetry. first [apply slice_zero | unfold sum_lengths; cbn; apply slice_zero].
  - rewrite sum_lengths_cons. cbn [spec_go map snd concat]. rewrite IH. apply slice_slice_app.
Qed.

(* the files written, concatenated in order, are the content: nothing lost, duplicated or reordered *)
Theorem spec_files_concat m content : Geometry m content ->
  concat (map snd (spec_files m content)) = content.
Proof.
  intros (_ & Hlen & _). unfold spec_files. rewrite spec_go_concat, <- Hlen. apply slice_all. apply N.le_refl.
Qed.

(* ---- C04: lexical paths ------------------------------------------------------------ *)
Lemma split_go_app cur a b : split_go cur (a ++ slash :: b) = split_go cur a ++ split_go [] b.
Proof.
  revert cur. induction a as [|c a IH]; intros cur.
  - cbn [app split_go]. rewrite N.eqb_refl. reflexivity.
  - cbn [app split_go]. destruct (c =? slash); [rewrite IH; reflexivity | apply IH].
Qed.

Lemma split_path_app a b : split_path (a ++ [slash] ++ b) = split_path a ++ split_path b.
Proof. unfold split_path. cbn [app]. apply split_go_app. Qed.

Lemma ends_with_slash_inv d : ends_with_slash d = true -> exists d', d = d' ++ [slash].
Proof.
  unfold ends_with_slash. destruct (rev d) as [|c r] eqn:E; [discriminate|].
  intros H. apply N.eqb_eq in H. subst c. exists (rev r).
  rewrite <- (rev_involutive d), E. reflexivity.
Qed.

Lemma split_path_trailing d : split_path (d ++ [slash]) = split_path d ++ [[]].
Proof. unfold split_path. rewrite split_go_app. reflexivity. Qed.

Lemma is_abs_app d x : d <> [] -> is_abs (d ++ x) = is_abs d.
Proof. destruct d; [congruence | reflexivity]. Qed.

(* join never leaves its left operand lexically: the components of dir.join(p) are those of dir
   followed by those of p (for a relative p) *)
Theorem join_components d p : is_abs p = false -> comps (join d p) = comps d ++ comps p.
Proof.
  intros Hp. unfold join. rewrite Hp. destruct d as [|c d]; [reflexivity|].
  destruct (ends_with_slash (c :: d)) eqn:E.
  - destruct (ends_with_slash_inv _ E) as (d' & ->). unfold comps.
    rewrite <- app_assoc, split_path_app, split_path_trailing, !filter_app. cbn [filter nontrivial bytes_eqb list_eqb negb andb].
    rewrite app_nil_r. reflexivity.
  - unfold comps. rewrite split_path_app, filter_app. reflexivity.
Qed.

Lemma walk_no_dotdot cs : existsb (bytes_eqb dotdot) cs = false -> forall d, exists d', walk d cs = Some d'.
Proof.
  induction cs as [|c cs IH]; intros H d; [exists d; reflexivity|].
  cbn [existsb] in H. apply orb_false_iff in H. destruct H as [Hc Hr].
  cbn [walk]. rewrite Hc. destruct (bytes_eqb dot c || bytes_eqb [] c); apply IH; exact Hr.
Qed.

Lemma safe_inside p : safe_path p = true -> inside p = true.
Proof.
  unfold safe_path, inside. intros H. apply andb_true_iff in H. destruct H as [Ha Hd].
  rewrite Ha. apply negb_true_iff in Hd. destruct (walk_no_dotdot _ Hd 0%nat) as (d' & ->). reflexivity.
Qed.

Lemma safe_join d p : safe_path d = true -> safe_path p = true -> safe_path (join d p) = true.
Proof.
  unfold safe_path. intros Hd Hp. apply andb_true_iff in Hd, Hp. destruct Hd as [Hda Hdd], Hp as [Hpa Hpd].
  apply negb_true_iff in Hda, Hpa, Hdd, Hpd.
  unfold join. rewrite Hpa. destruct d as [|c d]; [rewrite Hpa; cbn [negb andb]; apply negb_true_iff; exact Hpd|].
  destruct (ends_with_slash (c :: d)) eqn:E.
  - destruct (ends_with_slash_inv _ E) as (d' & Heq). rewrite Heq in *.
    rewrite <- app_assoc, split_path_app. rewrite split_path_trailing, existsb_app in Hdd. apply orb_false_iff in Hdd.
    rewrite existsb_app, (proj1 Hdd).
    assert (Ha : is_abs (d' ++ [slash] ++ p) = false).
    { destruct d' as [|x d'']; [cbn in Hda; discriminate | exact Hda]. }
    rewrite Ha. cbn [negb andb orb]. apply negb_true_iff. exact Hpd.
  - rewrite split_path_app, existsb_app. apply andb_true_iff. split.
    + cbn [app is_abs] in *. rewrite Hda. reflexivity.
    + apply negb_true_iff, orb_false_iff. split; [exact Hdd | exact Hpd].
Qed.

(* every ancestor (a byte prefix ending at a separator) of a safe path is safe: what
   create_dir_all(parent) touches *)
Lemma safe_ancestor q r : safe_path (q ++ [slash] ++ r) = true -> safe_path q = true.
Proof.
  unfold safe_path. intros H. apply andb_true_iff in H. destruct H as [Ha Hd].
  rewrite split_path_app, existsb_app in Hd. apply negb_true_iff, orb_false_iff in Hd.
  apply andb_true_iff. split.
  - destruct q as [|x q]; [reflexivity|]. cbn [app is_abs] in *. exact Ha.
  - apply negb_true_iff. exact (proj1 Hd).
Qed.
