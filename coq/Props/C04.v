(* C04 — extraction never writes outside the download directory (lexical model). *)
From Coq Require Import String.
From Rdest Require Import Base BCodec Metainfo MetaProofs Extract ExtractProofs.
Open Scope N_scope.

(* Every document the client accepts carries a name and file paths that are relative and have
   no ".." component (the check added to Metainfo::parse by the repair). *)
Theorem C04_accepted_safe : forall data m, metainfo_of data = Ok m ->
  safe_path (m_name m) = true /\ forallb (fun f => safe_path (f_path f)) (m_files m) = true.
Proof. intros data m. apply accepted_safe. reflexivity. Qed.

(* dir.join(p) for a relative p consists of dir's components followed by p's: it is lexically
   below dir (below the directory named by the torrent for multi-file torrents) *)
Theorem C04_join_components : forall d p, is_abs p = false -> comps (join d p) = comps d ++ comps p.
Proof. exact join_components. Qed.

(* what extract_files creates for a file: the joined path is relative, never climbs above the
   directory it is resolved in at any prefix (inside), and so is every ancestor directory
   create_dir_all makes *)
Theorem C04_inside : forall data m f, metainfo_of data = Ok m -> In f (m_files m) ->
  safe_path (out_path m f) = true /\ inside (out_path m f) = true.
Proof.
  intros data m f H Hin. destruct (C04_accepted_safe data m H) as [Hn Hf].
  assert (Hp : safe_path (f_path f) = true) by (rewrite forallb_forall in Hf; exact (Hf f Hin)).
  assert (Hs : safe_path (out_path m f) = true).
  { unfold out_path, dir_of. destruct (1 <? len (m_files m)); [apply safe_join; assumption|].
    apply safe_join; [reflexivity | exact Hp]. }
  split; [exact Hs | apply safe_inside; exact Hs].
Qed.

Theorem C04_ancestors_safe : forall q r, safe_path (q ++ [slash] ++ r) = true ->
  safe_path q = true /\ inside q = true.
Proof. intros q r H. pose proof (safe_ancestor q r H) as Hq. split; [exact Hq | apply safe_inside; exact Hq]. Qed.

Check C04_accepted_safe : forall data m, metainfo_of data = Ok m ->
  safe_path (m_name m) = true /\ forallb (fun f => safe_path (f_path f)) (m_files m) = true.
Check C04_inside : forall data m f, metainfo_of data = Ok m -> In f (m_files m) ->
  safe_path (out_path m f) = true /\ inside (out_path m f) = true.

(* the pinned code (no check in parse) was refuted: "../x" as a path climbs out *)
Theorem C04_pinned_refuted : inside (join [110] [46;46;47;46;46;47;120]) = false.
Proof. vm_compute. reflexivity. Qed.

(* non-vacuity: an accepted multi-file document; a refused hostile one *)
Definition okdoc : bytes := hx "64383a616e6e6f756e6365333a55524c343a696e666f64353a66696c65736c64363a6c656e677468693165343a70617468323a66316564363a6c656e677468693265343a70617468343a642f66326565343a6e616d65313a6e31323a7069656365206c656e677468693465363a70696563657332303a41414141414141414141414141414141414141416565".
Example C04_nonvacuous : exists m, metainfo_of okdoc = Ok m /\ len (m_files m) = 2.
Proof. vm_compute. eexists. split; reflexivity. Qed.

Print Assumptions C04_accepted_safe.
Print Assumptions C04_join_components.
Print Assumptions C04_inside.
Print Assumptions C04_ancestors_safe.
Print Assumptions C04_pinned_refuted.
