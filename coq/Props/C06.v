(* C06 — peer stream decoding is total, segmentation-independent and bounded. *)
From Rdest Require Import Base Consts Wire Conn ConnProofs Manager Handler HandlerProofs.
Open Scope N_scope.

(* no byte sequence makes the decoder panic (Frame::parse and Connection::parse_frame) *)
Theorem C06_total : forall buf, conn_parse buf <> PCrash /\ parse_frame buf <> PPanic.
Proof.
  intros buf. split; [apply conn_parse_total; reflexivity|].
  pose proof (parse_frame_bounds buf). destruct (parse_frame buf); try discriminate. contradiction.
Qed.

(* a peer can never make the client wait with one maximum-size frame (4 + 65536 bytes) or more buffered;
   what a single read adds on top is a run-time quantity and is not claimed *)
Theorem C06_bounded : forall buf, conn_parse buf = PWait -> len buf < 4 + 65536.
Proof. exact conn_wait_bounded. Qed.

(* every delivered or skipped message consumes bytes: recv_frame's loop always makes progress *)
Theorem C06_progress : forall buf, match conn_parse buf with
                                   | PDeliver _ rest | PSkip rest => len rest < len buf
                                   | _ => True
                                   end.
Proof. exact conn_parse_progress. Qed.

(* a receive error (malformed length, oversized frame, truncated stream) ends the peer task *)
Theorem C06_error_terminates : forall sha1 cf disk ovf s r, hstep sha1 cf disk ovf s ERecvErr r = HEnd s [] false.
Proof. reflexivity. Qed.

(* segmentation independence.  Dec s ms r tl: decoding the byte string s with Connection::parse_frame's decisions
   delivers the messages ms and ends needing more bytes (SMore) with tl buffered, or in an error (SBad).
   IncRun cs ms r buf: the receive side after the reads cs, each read appended to the buffered remainder.
   However the stream is cut into reads, the messages delivered, the outcome and the buffered remainder are those of the
   whole stream: every complete message already received is delivered, unknown ids are skipped, nothing waits for
   further bytes that is not genuinely incomplete. *)
Theorem C06_segmentation : forall cs ms r buf, IncRun cs ms r buf -> Dec (concat cs) ms r buf.
Proof. intros. apply segmentation_independent; [reflexivity | assumption]. Qed.

Theorem C06_any_two_cuts_agree : forall cs1 cs2 ms1 r1 b1 ms2 r2 b2, concat cs1 = concat cs2 ->
  IncRun cs1 ms1 r1 b1 -> IncRun cs2 ms2 r2 b2 -> ms1 = ms2 /\ r1 = r2 /\ b1 = b2.
Proof. intros. eapply any_two_segmentations_agree; eauto. Qed.

(* every byte string has exactly one meaning (totality of the decoder as a relation) *)
Theorem C06_meaning_exists : forall s, exists ms r tl, Dec s ms r tl.
Proof. intros. apply dec_total. reflexivity. Qed.

(* the same for the EXECUTABLE loop of Conn.v (`exec`: one read at a time, recv_frame called until pending, exactly what
   the correspondence runs against the real Connection): for all non-empty reads it delivers the messages of the whole stream
   and ends pending with exactly the undecoded remainder buffered, or with an error where the stream is malformed *)
Theorem C06_exec_segmentation : forall chunks, Forall (fun c => c <> []) chunks ->
  exists ms r tl, Dec (concat chunks) ms r tl /\
                  exec [] chunks [] = (ms, st_of r, match r with SMore => tl | SBad => snd (exec [] chunks []) end).
Proof.
  intros chunks H.
  destruct (exec_segmentation_independent eq_refl eq_refl chunks [] [] [] [] H (dec_wait [] eq_refl)) as (ms & r & tl & D & E).
  exists ms, r, tl. split; assumption.
Qed.

(* "messages with unknown ids are skipped", stated against the byte layout and not against the decoder's own decisions:
   a complete message whose id is none of the nine BEP3 ids and whose length prefix is within the frame bound is skipped
   whole, whatever follows it -- id 84 ('T') included, which the pinned Frame::parse took for a handshake *)
Theorem C06_unknown_id_skipped : forall a b c d id body x,
  let L := unbe32 a b c d in
  1 <= L <= 65536 -> 8 < id -> 1 + len body = L ->
  parse_frame (a :: b :: c :: d :: id :: body ++ x) = PUnknown id (4 + L) /\
  conn_parse (a :: b :: c :: d :: id :: body ++ x) = PSkip x.
Proof. intros a b c d id body x. exact (unknown_id_is_skipped a b c d id body x eq_refl). Qed.
Example C06_unknown_84 : run_conn [[0;0;0;1;84; 0;0;0;1;0]] = ([Choke], RPending, []).
Proof. vm_compute. reflexivity. Qed.

(* The meaning of a well-formed stream from the SENDER's side, independent of the decoder's own decisions: whatever a peer
   sends as a sequence of items -- messages in their BEP3 layout (C07_layout: encode_msg m is that layout) and frames
   with ids that are none of the nine -- decodes to exactly its messages, in order, with nothing left buffered; every
   complete message is delivered whatever follows it.  With C06_segmentation / C06_any_two_cuts_agree this holds
   however the stream is cut into reads. *)
Theorem C06_complete_message_delivered : forall m x, WireSpec.FieldsOk m -> conn_parse (encode_msg m ++ x) = PDeliver m x.
Proof. exact complete_message_delivered. Qed.
Theorem C06_items_decode : forall l, Forall item_ok l -> Dec (concat (map encode_item l)) (msgs_of_items l) SMore [].
Proof. exact items_decode. Qed.
Corollary C06_items_any_cut : forall l cs ms r buf, Forall item_ok l -> concat cs = concat (map encode_item l) ->
  IncRun cs ms r buf -> ms = msgs_of_items l /\ r = SMore /\ buf = [].
Proof.
  intros l cs ms r buf Hl Hc HR. pose proof (C06_segmentation cs ms r buf HR) as D1. rewrite Hc in D1.
  pose proof (C06_items_decode l Hl) as D2. eapply dec_functional; eassumption.
Qed.

(* the pinned decoder is refuted: an unknown id whose body has not arrived crashed the connection *)
Example C06_nonvacuous : parse_frame [0;0;0;5;9;0] = PUnknown 9 9 /\ conn_parse [0;0;0;5;9;0] = PWait
                         /\ run_conn [[0;0;0;5;9;0]; [1;2;3;0;0;0;1;0]] = ([Choke], RPending, []).
Proof. vm_compute. repeat split. Qed.

(* "more than one maximum-size frame": the code's constant, pinned *)
Example C06_frame_pinned : MAX_FRAME_SIZE = 65536. Proof. reflexivity. Qed.

Print Assumptions C06_total.
Print Assumptions C06_bounded.
Print Assumptions C06_progress.
Print Assumptions C06_error_terminates.
Print Assumptions C06_segmentation.
Print Assumptions C06_any_two_cuts_agree.
Print Assumptions C06_meaning_exists.
Print Assumptions C06_exec_segmentation.
Print Assumptions C06_unknown_id_skipped.
Print Assumptions C06_complete_message_delivered.
Print Assumptions C06_items_decode.
Print Assumptions C06_items_any_cut.
