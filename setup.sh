#!/bin/sh
# Build the framework from files on disk only (offline): Coq development + Rust harness.
set -e
cd "$(dirname "$0")"
export CARGO_NET_OFFLINE=true
mkdir -p .build evidence replays
python3 tools/gen_consts.py coq/Consts.v .build/consts.json
(cd coq && coq_makefile -f _CoqProject -o Makefile >/dev/null && timeout 3000 make -j6 >/dev/null 2>.make.err || { tail -30 .make.err; echo "setup: coq build failed (checks will report it)"; })
[ -f harness/Cargo.lock ] || cp /repo/Cargo.lock harness/Cargo.lock
(cd harness && CARGO_TARGET_DIR=../.build/cargo RUSTFLAGS=-Awarnings timeout 3000 cargo build --offline --quiet) || echo "setup: harness build failed (checks will report it)"
echo "setup done"
