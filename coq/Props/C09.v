(* C09 placeholder *)
From Rdest Require Import Base Consts Wire Manager Handler.
