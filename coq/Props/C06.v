(* C06 placeholder *)
From Rdest Require Import Base Consts Wire Conn.
