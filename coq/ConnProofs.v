(* ConnProofs.v — C06: stream decoding never panics and never needs more than one frame buffered. *)
From Rdest Require Import Base BaseProofs Consts Wire Conn WireSpec WireProofs.
From Coq Require Import ZifyBool ZifyN ZifyNat.
Open Scope N_scope.

(* Frame::parse on any buffer: no index panic; a frame never extends past the buffer; while it waits for
   more bytes fewer than 4 + 65536 are buffered *)
Theorem parse_frame_bounds buf :
  match parse_frame buf with
  | PFrame _ n => n <= len buf /\ 0 < n
  | PUnknown _ n => 4 < n <= 4 + 65536
  | PIncomplete => len buf < 4 + 65536
  | PError => True
  | PPanic => False
  end.
Proof.
  unfold parse_frame. unfold_consts.
  destruct (len buf <? 4) eqn:E1; [lia|].
  destruct (rd32 buf 0 =? 0) eqn:E2; [lia|].
  destruct (len buf <? 4 + 1) eqn:E3; [lia|].
  assert (HN : forall i, nthN buf i = None -> len buf <= i).
  { intros i H. unfold nthN in H. apply nth_error_None in H. unfold len. lia. }
  destruct (nthN buf 4) as [id|] eqn:N4; [|specialize (HN 4 N4); lia].
  destruct (nthN buf 0) as [pl|] eqn:N0; [|specialize (HN 0 N0); lia]. clear HN.
  change Frame_handshake_by_prefix with true. change handshake_prefix with 323119476. cbn [negb orb].
  unfold dispatch, wrong_len. unfold_consts. cbn [Wire_wrong_length_is_error].
  set (L := rd32 buf 0) in *.
  repeat match goal with
         | |- context [if ?c then _ else _] => destruct c eqn:?
         end; try exact I; try lia.
Qed.

(* Connection::parse_frame never panics on any buffer ... *)
Theorem conn_parse_total buf : Conn_skip_needs_body = true -> conn_parse buf <> PCrash.
Proof.
  intros F. unfold conn_parse. rewrite F. pose proof (parse_frame_bounds buf) as B.
  destruct (parse_frame buf) as [m n|id n| | |]; try discriminate; try contradiction.
  - destruct (N.ltb_spec (len buf) n); [lia | discriminate].
  - destruct (len buf <? n); discriminate.
Qed.

(* ... and whenever it has to wait for more bytes, fewer than 4 + 65536 bytes (one maximum frame) are buffered *)
Theorem conn_wait_bounded buf : conn_parse buf = PWait -> len buf < 4 + 65536.
Proof.
  unfold conn_parse. pose proof (parse_frame_bounds buf) as B.
  destruct (parse_frame buf) as [m n|id n| | |]; try discriminate.
  - destruct (len buf <? n); discriminate.
  - destruct (N.ltb_spec (len buf) n); [|discriminate]. destruct Conn_skip_needs_body; [intros _; lia | discriminate].
  - intros _. exact B.
Qed.

(* a delivered or skipped message always consumes at least the four length bytes: the loop makes progress *)
Theorem conn_parse_progress buf : match conn_parse buf with
                                  | PDeliver _ rest | PSkip rest => len rest < len buf
                                  | _ => True
                                  end.
Proof.
  unfold conn_parse. pose proof (parse_frame_bounds buf) as B.
  destruct (parse_frame buf) as [m n|id n| | |]; try exact I.
  - destruct (N.ltb_spec (len buf) n); [exact I|]. unfold len in *. rewrite skipn_length. lia.
  - destruct (N.ltb_spec (len buf) n); [destruct Conn_skip_needs_body; exact I|]. unfold len in *. rewrite skipn_length. lia.
Qed.

(* ---- prefix stability: what was decided on a buffer is decided the same way when more bytes follow ---- *)
Lemma len_app_N {A} (a b : list A) : len (a ++ b) = len a + len b.
Proof. unfold len. rewrite app_length. lia. Qed.

Lemma nthN_app_l (buf x : bytes) i : i < len buf -> nthN (buf ++ x) i = nthN buf i.
Proof. intros H. unfold nthN. apply nth_error_app1. unfold len in H. lia. Qed.

Lemma slice_app_l (buf x : bytes) o k : o + k <= len buf -> slice (buf ++ x) o k = slice buf o k.
Proof.
  intros H. unfold slice, len in *. rewrite skipn_app, firstn_app.
  replace (N.to_nat k - length (skipn (N.to_nat o) buf))%nat with 0%nat by (rewrite skipn_length; lia).
  cbn [firstn]. apply app_nil_r.
Qed.

Lemma rd32_app_l (buf x : bytes) o : o + 4 <= len buf -> rd32 (buf ++ x) o = rd32 buf o.
Proof. intros H. unfold rd32. rewrite slice_app_l by exact H. reflexivity. Qed.

Ltac fin := cbv beta iota; first [exact I | reflexivity].
Ltac split_ifs := repeat match goal with
                         | |- context [if ?c then _ else _] => destruct c eqn:?
                         end.

Theorem parse_frame_stable buf x :
  match parse_frame buf with
  | PFrame m n => parse_frame (buf ++ x) = PFrame m n
  | PUnknown id n => parse_frame (buf ++ x) = PUnknown id n
  | PError => parse_frame (buf ++ x) = PError
  | PIncomplete => True
  | PPanic => True
  end.
Proof.
  pose proof (parse_frame_bounds buf) as B.
  unfold parse_frame in *. rewrite len_app_N. unfold_consts.
  destruct (len buf <? 4) eqn:E1; [fin|].
  replace (len buf + len x <? 4) with false by lia.
  rewrite rd32_app_l by lia. set (L := rd32 buf 0) in *.
  destruct (L =? 0) eqn:E2; [fin|].
  destruct (len buf <? 4 + 1) eqn:E3; [fin|].
  replace (len buf + len x <? 4 + 1) with false by lia.
  rewrite (nthN_app_l buf x 4) by lia. rewrite (nthN_app_l buf x 0) by lia.
  destruct (nthN buf 4) as [id|]; [|fin]. destruct (nthN buf 0) as [pl|]; [|fin].
  change Frame_handshake_by_prefix with true in *. change handshake_prefix with 323119476 in *. cbn [negb orb] in *.
  unfold dispatch, wrong_len in *. unfold_consts. cbn [Wire_wrong_length_is_error] in *.
  change (len Handshake_PROTOCOL_ID) with 19 in *.
  set (A := len buf) in *. set (A' := A + len x).
  assert (HA : A <= A') by (unfold A'; lia).
  destruct (id =? 84); cbn [andb negb].
  { destruct (L =? 323119476); cbn [andb negb]; [|destruct (65536 <? L); fin].
    destruct (pl =? 19); [|fin]. destruct (A <? 68) eqn:EA; [fin|].
    replace (A' <? 68) with false by lia. rewrite !slice_app_l by (unfold A in *; lia).
    destruct (bytes_eqb (slice buf 1 19) _) ; fin. }
  destruct (65536 <? L) eqn:E4; [fin|].
  destruct (id =? 0). { destruct (L =? 1) ; fin. }
  destruct (id =? 1). { destruct (L =? 1) ; fin. }
  destruct (id =? 2). { destruct (L =? 1) ; fin. }
  destruct (id =? 3). { destruct (L =? 1) ; fin. }
  destruct (id =? 4).
  { destruct (L =? 5) eqn:EL; cbn [andb].
    - destruct (4 + L <=? A) eqn:EA; [|fin]. replace (4 + L <=? A') with true by lia.
      rewrite rd32_app_l by (unfold A in *; lia). reflexivity.
    - fin. }
  destruct (id =? 5).
  { destruct (4 + L <=? A) eqn:EA; [|fin]. replace (4 + L <=? A') with true by lia.
    rewrite slice_app_l by (unfold A in *; lia). fin. }
  destruct (id =? 6).
  { destruct (L =? 13) eqn:EL; cbn [andb].
    - destruct (4 + L <=? A) eqn:EA; [|fin]. replace (4 + L <=? A') with true by lia.
      rewrite !rd32_app_l by (unfold A in *; lia). reflexivity.
    - fin. }
  destruct (id =? 7).
  { destruct (9 <=? L) eqn:EL; cbn [andb].
    - destruct (4 + L <=? A) eqn:EA; [|fin]. replace (4 + L <=? A') with true by lia.
      destruct (4 + L <? 4 + 1 + 4 + 4); [fin|].
      rewrite !rd32_app_l by (unfold A in *; lia). rewrite slice_app_l by (unfold A in *; lia). reflexivity.
    - fin. }
  destruct (id =? 8).
  { destruct (L =? 13) eqn:EL; cbn [andb].
    - destruct (4 + L <=? A) eqn:EA; [|fin]. replace (4 + L <=? A') with true by lia.
      rewrite !rd32_app_l by (unfold A in *; lia). reflexivity.
    - fin. }
  fin.
Qed.

(* ---- segmentation independence ------------------------------------------------------------------ *)
Lemma skipn_app_l (buf x : bytes) n : n <= len buf -> skipn (N.to_nat n) (buf ++ x) = skipn (N.to_nat n) buf ++ x.
Proof.
  intros H. unfold len in H. rewrite skipn_app. replace (N.to_nat n - length buf)%nat with 0%nat by lia. reflexivity.
Qed.

Lemma conn_parse_stable buf x : Conn_skip_needs_body = true ->
  match conn_parse buf with
  | PDeliver m rest => conn_parse (buf ++ x) = PDeliver m (rest ++ x)
  | PSkip rest => conn_parse (buf ++ x) = PSkip (rest ++ x)
  | PFail => conn_parse (buf ++ x) = PFail
  | _ => True
  end.
Proof.
  intros F. pose proof (parse_frame_stable buf x) as S. pose proof (parse_frame_bounds buf) as B.
  unfold conn_parse. rewrite F. destruct (parse_frame buf) as [m n|id n| | |]; try exact I.
  - rewrite S. destruct (N.ltb_spec (len buf) n); [lia|]. rewrite len_app_N.
    replace (len buf + len x <? n) with false by lia. rewrite skipn_app_l by lia. reflexivity.
  - destruct (N.ltb_spec (len buf) n); [exact I|]. rewrite S, len_app_N.
    replace (len buf + len x <? n) with false by lia. rewrite skipn_app_l by lia. reflexivity.
  - rewrite S. reflexivity.
Qed.

(* what a byte string means, as a big-step relation over the decisions of Connection::parse_frame:
   the messages, whether it ends in "need more bytes" or in an error, and the undecoded remainder *)
Inductive Dec : bytes -> list msg -> sres -> bytes -> Prop :=
| dec_wait s : conn_parse s = PWait -> Dec s [] SMore s
| dec_fail s : conn_parse s = PFail -> Dec s [] SBad s
| dec_deliver s m rest ms r tl : conn_parse s = PDeliver m rest -> Dec rest ms r tl -> Dec s (m :: ms) r tl
| dec_skip s rest ms r tl : conn_parse s = PSkip rest -> Dec rest ms r tl -> Dec s ms r tl.

(* decoding the first part of a stream and then the rest is decoding the whole *)
Lemma dec_app s ms rest c : Conn_skip_needs_body = true -> Dec s ms SMore rest ->
  forall ms2 r2 rest2, Dec (rest ++ c) ms2 r2 rest2 -> Dec (s ++ c) (ms ++ ms2) r2 rest2.
Proof.
  intros F D. remember SMore as r eqn:Er. induction D as [s H|s H|s m rst ms r tl H D IH|s rst ms r tl H D IH]; intros ms2 r2 rest2 D2.
  - exact D2.
  - discriminate.
  - pose proof (conn_parse_stable s c F) as S. rewrite H in S. cbn [app]. eapply dec_deliver; [exact S | apply IH; assumption].
  - pose proof (conn_parse_stable s c F) as S. rewrite H in S. eapply dec_skip; [exact S | apply IH; assumption].
Qed.

(* the receive side, one read at a time: after the reads `cs` the messages `ms` have been delivered and `buf`
   is buffered (status SMore), or a decoding error ended it (SBad) *)
Inductive IncRun : list bytes -> list msg -> sres -> bytes -> Prop :=
| inc_nil : IncRun [] [] SMore []
| inc_read cs ms buf c ms2 r2 buf2 : IncRun cs ms SMore buf -> Dec (buf ++ c) ms2 r2 buf2 ->
    IncRun (cs ++ [c]) (ms ++ ms2) r2 buf2.

(* however the stream is cut into reads, the messages delivered, the outcome and the buffered remainder are
   those of the whole stream *)
Theorem segmentation_independent cs ms r buf : Conn_skip_needs_body = true ->
  IncRun cs ms r buf -> Dec (concat cs) ms r buf.
Proof.
  intros F. induction 1 as [|cs ms buf c ms2 r2 buf2 _ IH D].
  - cbn. apply dec_wait. reflexivity.
  - rewrite concat_app. cbn [concat]. rewrite app_nil_r. eapply dec_app; eauto.
Qed.

(* Dec is a function of the byte string: two runs over the same bytes agree *)
Lemma dec_functional s ms r tl : Dec s ms r tl -> forall ms' r' tl', Dec s ms' r' tl' -> ms = ms' /\ r = r' /\ tl = tl'.
Proof.
  induction 1 as [s H|s H|s m rst ms r tl H D IH|s rst ms r tl H D IH]; intros ms' r' tl' D'; inversion D'; subst; try congruence; auto.
  - match goal with H1 : conn_parse s = PDeliver _ _, H2 : conn_parse s = PDeliver _ _ |- _ => rewrite H1 in H2; injection H2 as <- <- end.
    destruct (IH _ _ _ ltac:(eassumption)) as (-> & -> & ->). auto.
  - match goal with H1 : conn_parse s = PSkip _, H2 : conn_parse s = PSkip _ |- _ => rewrite H1 in H2; injection H2 as <- end.
    apply IH. assumption.
Qed.

Corollary any_two_segmentations_agree cs1 cs2 ms1 r1 b1 ms2 r2 b2 : Conn_skip_needs_body = true ->
  concat cs1 = concat cs2 -> IncRun cs1 ms1 r1 b1 -> IncRun cs2 ms2 r2 b2 -> ms1 = ms2 /\ r1 = r2 /\ b1 = b2.
Proof.
  intros F E R1 R2. apply (segmentation_independent _ _ _ _ F) in R1. apply (segmentation_independent _ _ _ _ F) in R2.
  rewrite E in R1. exact (dec_functional _ _ _ _ R1 _ _ _ R2).
Qed.

(* every byte string has a meaning (the relation is total): strong induction on the length, since every delivered
   or skipped message consumes bytes *)
Theorem dec_total s : Conn_skip_needs_body = true -> exists ms r tl, Dec s ms r tl.
Proof.
  intros F. remember (length s) as k eqn:Ek. revert s Ek. induction k as [k IH] using lt_wf_ind. intros s Ek.
  pose proof (conn_parse_progress s) as P. pose proof (conn_parse_total s F) as T.
  destruct (conn_parse s) as [m rest|rest| | |] eqn:E.
  - destruct (IH (length rest)) with (s := rest) as (ms & r & tl & D); [unfold len in P; lia | reflexivity|].
    exists (m :: ms), r, tl. eapply dec_deliver; eauto.
  - destruct (IH (length rest)) with (s := rest) as (ms & r & tl & D); [unfold len in P; lia | reflexivity|].
    exists ms, r, tl. eapply dec_skip; eauto.
  - exists [], SMore, s. apply dec_wait. exact E.
  - exists [], SBad, s. apply dec_fail. exact E.
  - contradiction.
Qed.

(* ---- the executable loop follows the relation ------------------------------------------------------ *)
Definition st_of (r : sres) : rres := match r with SMore => RPending | SBad => RErr end.

(* with no read available, recv_frame's answer does not depend on its fuel once it exceeds the buffer length *)
Lemma recv_frame_nil_fuel : Conn_continue_after_skip = true -> forall n (s : bytes), (length s < n)%nat ->
  forall k1 k2, (length s < k1)%nat -> (length s < k2)%nat -> recv_frame k1 s [] = recv_frame k2 s [].
Proof.
  intros F. induction n as [|n IH]; intros s Hn k1 k2 H1 H2; [lia|].
  destruct k1 as [|k1]; [lia|]. destruct k2 as [|k2]; [lia|]. cbn [recv_frame]. rewrite F.
  pose proof (conn_parse_progress s) as P.
  destruct (conn_parse s) as [m rest|rest| | |]; try reflexivity.
  unfold len in P. apply IH; lia.
Qed.

Lemma recv_frame_dec : Conn_continue_after_skip = true -> forall s ms r tl, Dec s ms r tl ->
  forall k, (length s < k)%nat ->
  match ms with
  | [] => recv_frame k s [] = (st_of r, tl, [])
  | m :: ms' => exists rest, recv_frame k s [] = (RFrame m, rest, []) /\ Dec rest ms' r tl
  end.
Proof.
  intros F. induction 1 as [s H|s H|s m rst ms r tl H D IH|s rst ms r tl H D IH]; intros k Hk;
    (destruct k as [|k]; [lia|]); cbn [recv_frame]; rewrite H.
  - reflexivity.
  - reflexivity.
  - exists rst. split; [reflexivity | exact D].
  - rewrite F. pose proof (conn_parse_progress s) as P. rewrite H in P. unfold len in P. apply IH. lia.
Qed.

(* drain = the relation: calling recv_frame until it is pending or fails delivers exactly the messages of Dec *)
Theorem drain_dec : Conn_continue_after_skip = true -> forall s ms r tl, Dec s ms r tl ->
  forall fuel acc, (length ms < fuel)%nat -> drain fuel s [] acc = (acc ++ ms, st_of r, tl).
Proof.
  intros F s ms. revert s. induction ms as [|m ms IH]; intros s r tl D fuel acc Hf; (destruct fuel as [|fuel]; [cbn in Hf; lia|]); cbn [drain].
  - pose proof (recv_frame_dec F s [] r tl D (S (length s + length (concat (@nil bytes)) + length (@nil bytes))) ltac:(cbn; lia)) as R.
    cbn [concat length] in *. rewrite R. rewrite app_nil_r. destruct r; reflexivity.
  - destruct (recv_frame_dec F s (m :: ms) r tl D (S (length s + length (concat (@nil bytes)) + length (@nil bytes))) ltac:(cbn; lia)) as (rest & R & D').
    cbn [concat length] in *. rewrite R. rewrite (IH rest r tl D' fuel (acc ++ [m])) by (cbn in Hf; lia). rewrite <- app_assoc. reflexivity.
Qed.

(* one read arriving while the decoder waits: the loop continues on the extended buffer *)
Lemma recv_frame_read : forall s c k, conn_parse s = PWait -> c <> [] -> recv_frame (S k) s [c] = recv_frame k (s ++ c) [].
Proof. intros s c k H Hc. cbn [recv_frame]. rewrite H. destruct c; [congruence | reflexivity]. Qed.

Theorem drain_read : Conn_continue_after_skip = true -> forall s c ms r tl, conn_parse s = PWait -> c <> [] -> Dec (s ++ c) ms r tl ->
  forall fuel acc, (length ms < fuel)%nat -> drain fuel s [c] acc = (acc ++ ms, st_of r, tl).
Proof.
  intros F s c ms r tl Hw Hc D fuel acc Hf. destruct fuel as [|fuel]; [lia|]. cbn [drain].
  rewrite recv_frame_read by assumption. cbn [concat length]. rewrite app_nil_r.
  assert (Hk : (length (s ++ c) < length s + length c + 1)%nat) by (rewrite app_length; lia).
  pose proof (recv_frame_dec F (s ++ c) ms r tl D (length s + length c + 1)%nat Hk) as R.
  destruct ms as [|m ms].
  - rewrite R. rewrite app_nil_r. destruct r; reflexivity.
  - destruct R as (rest & R & D'). rewrite R. rewrite (drain_dec F rest ms r tl D' fuel (acc ++ [m])) by (cbn in Hf; lia).
    rewrite <- app_assoc. reflexivity.
Qed.

Lemma dec_tail_waits s ms tl : Dec s ms SMore tl -> conn_parse tl = PWait.
Proof. remember SMore as r. induction 1; try discriminate; auto. Qed.

Lemma dec_length s ms r tl : Dec s ms r tl -> (length ms <= length s)%nat.
Proof.
  induction 1 as [s H|s H|s m rst ms r tl H D IH|s rst ms r tl H D IH]; cbn [length]; try lia.
  - pose proof (conn_parse_progress s) as P. rewrite H in P. unfold len in P. lia.
  - pose proof (conn_parse_progress s) as P. rewrite H in P. unfold len in P. lia.
Qed.

Lemma dec_app_bad s ms rest c : Conn_skip_needs_body = true -> Dec s ms SBad rest -> Dec (s ++ c) ms SBad (rest ++ c).
Proof.
  intros F D. remember SBad as r eqn:Er. induction D as [s H|s H|s m rst ms r tl H D IH|s rst ms r tl H D IH].
  - discriminate.
  - pose proof (conn_parse_stable s c F) as S. rewrite H in S. apply dec_fail. exact S.
  - pose proof (conn_parse_stable s c F) as S. rewrite H in S. eapply dec_deliver; [exact S | apply IH; assumption].
  - pose proof (conn_parse_stable s c F) as S. rewrite H in S. eapply dec_skip; [exact S | apply IH; assumption].
Qed.

(* the receive loop as the peer task runs it: one read at a time, recv_frame called until pending; it stops at an error *)
Fixpoint exec (buf : bytes) (chunks : list bytes) (acc : list msg) : list msg * rres * bytes :=
  match chunks with
  | [] => (acc, RPending, buf)
  | c :: cs =>
      match drain (S (length buf + length c + 2)) buf [c] [] with
      | (ms, RPending, buf') => exec buf' cs (acc ++ ms)
      | (ms, r, buf') => (acc ++ ms, r, buf')
      end
  end.

(* THE EXECUTABLE LOOP IS SEGMENTATION INDEPENDENT: whatever the (non-empty) reads, it delivers the messages of the whole
   stream; it ends pending with exactly the undecoded remainder buffered, or with an error where the stream is malformed *)
Theorem exec_segmentation_independent : Conn_skip_needs_body = true -> Conn_continue_after_skip = true ->
  forall chunks buf acc s0 ms0, Forall (fun c => c <> []) chunks -> Dec s0 ms0 SMore buf ->
  exists ms r tl, Dec (s0 ++ concat chunks) (ms0 ++ ms) r tl /\
                  exec buf chunks acc = (acc ++ ms, st_of r, match r with SMore => tl | SBad => snd (exec buf chunks acc) end).
Proof.
  intros F1 F2. induction chunks as [|c cs IH]; intros buf acc s0 ms0 Hne D0.
  - exists [], SMore, buf. cbn [concat exec]. rewrite !app_nil_r. split; [exact D0 | reflexivity].
  - inversion Hne as [|? ? Hc Hne']; subst. cbn [exec concat].
    destruct (dec_total (buf ++ c) F1) as (ms1 & r1 & tl1 & D1).
    pose proof (dec_length _ _ _ _ D1) as HL. rewrite app_length in HL.
    rewrite (drain_read F2 buf c ms1 r1 tl1 (dec_tail_waits _ _ _ D0) Hc D1) by lia. cbn [app].
    pose proof (dec_app s0 ms0 buf c F1 D0 ms1 r1 tl1 D1) as D01.
    destruct r1; cbn [st_of].
    + destruct (IH tl1 (acc ++ ms1) (s0 ++ c) (ms0 ++ ms1) Hne' D01) as (ms & r & tl & D & E).
      exists (ms1 ++ ms), r, tl. split.
      * rewrite <- !app_assoc in D. exact D.
      * rewrite <- !app_assoc in E. exact E.
    + exists ms1, SBad, (tl1 ++ concat cs). split.
      * rewrite app_assoc. apply dec_app_bad; assumption.
      * reflexivity.
Qed.

(* ---- unknown ids, stated without reference to the decoder's own decisions ------------------------- *)
(* a complete message whose id is none of the nine BEP3 ids (0..8) and whose length prefix is within the frame bound
   is skipped whole: the decoder continues at the first byte after it.  This includes id 84 ('T'), the byte by which
   the pinned Frame::parse recognised a handshake. *)
Theorem unknown_id_is_skipped a b c d id body x :
  Frame_handshake_by_prefix = true ->
  let L := unbe32 a b c d in
  1 <= L <= 65536 -> 8 < id -> 1 + len body = L ->
  parse_frame (a :: b :: c :: d :: id :: body ++ x) = PUnknown id (4 + L) /\
  conn_parse (a :: b :: c :: d :: id :: body ++ x) = PSkip x.
Proof.
  intros _ L HL Hid Hb.
  assert (P : parse_frame (a :: b :: c :: d :: id :: body ++ x) = PUnknown id (4 + L)).
  { rewrite parse_frame_cons5. cbv zeta. fold L.
    replace (L =? 0) with false by lia.
    destruct (id =? 84) eqn:E84; cbn [andb negb].
    - replace (L =? 323119476) with false by lia. cbn [negb]. replace (65536 <? L) with false by lia. reflexivity.
    - replace (65536 <? L) with false by lia.
      unfold dispatch. unfold_consts. rewrite E84.
      replace (id =? 0) with false by lia. replace (id =? 1) with false by lia. replace (id =? 2) with false by lia.
      replace (id =? 3) with false by lia. replace (id =? 4) with false by lia. replace (id =? 5) with false by lia.
      replace (id =? 6) with false by lia. replace (id =? 7) with false by lia. replace (id =? 8) with false by lia.
      reflexivity. }
  split; [exact P|].
  unfold conn_parse. rewrite P.
  assert (Hlen : len (a :: b :: c :: d :: id :: body ++ x) = 4 + L + len x).
  { unfold len in *. cbn [length]. rewrite app_length. lia. }
  rewrite Hlen. replace (4 + L + len x <? 4 + L) with false by lia.
  f_equal. replace (N.to_nat (4 + L)) with (5 + length body)%nat by (unfold len in Hb; lia).
  cbn [skipn Nat.add]. rewrite skipn_app, skipn_all, Nat.sub_diag. reflexivity.
Qed.

(* ---- the meaning of a well-formed stream, stated from the sender's side ------------------------------ *)
(* what a peer may put on the wire: a message (encoded by the BEP3 layout, C07_layout) or a frame with an id that is
   none of the nine, of any admissible length *)
Inductive item := IMsg (m : msg) | IUnknown (id : N) (body : bytes).
Definition item_ok (it : item) : Prop :=
  match it with
  | IMsg m => FieldsOk m
  | IUnknown id body => 8 < id /\ 1 + len body <= 65536
  end.
Definition encode_item (it : item) : bytes :=
  match it with
  | IMsg m => encode_msg m
  | IUnknown id body => be32 (1 + len body) ++ id :: body
  end.
Definition msgs_of_items (l : list item) : list msg :=
  flat_map (fun it => match it with IMsg m => [m] | IUnknown _ _ => [] end) l.

(* every complete message is delivered, whatever follows it in the buffer *)
Theorem complete_message_delivered m x : FieldsOk m -> conn_parse (encode_msg m ++ x) = PDeliver m x.
Proof.
  intros H. unfold conn_parse. rewrite (roundtrip m x H). rewrite len_app_N.
  replace (len (encode_msg m) + len x <? len (encode_msg m)) with false by lia.
  f_equal. unfold len. rewrite Nat2N.id. rewrite skipn_app, skipn_all, Nat.sub_diag. reflexivity.
Qed.

Lemma be32_unbe32 n : n < 2^32 -> exists a b c d, be32 n = [a; b; c; d] /\ unbe32 a b c d = n.
Proof.
  intros H. unfold be32. eexists _, _, _, _. split; [reflexivity|]. unfold unbe32.
  change (2^32) with 4294967296 in H. lia.
Qed.

Theorem complete_unknown_skipped id body x : 8 < id -> 1 + len body <= 65536 ->
  conn_parse (encode_item (IUnknown id body) ++ x) = PSkip x.
Proof.
  intros Hid Hl. cbn [encode_item].
  destruct (be32_unbe32 (1 + len body)) as (a & b & c & d & E & U); [change (2^32) with 4294967296; lia|].
  rewrite E. cbn [app].
  pose proof (unknown_id_is_skipped a b c d id body x eq_refl) as K. cbv zeta in K. rewrite U in K.
  apply K; lia.
Qed.

(* a stream made of such items decodes to exactly its messages, in order, with nothing left over -- and by
   segmentation_independent it does so however it is cut into reads *)
Theorem items_decode l : Forall item_ok l -> Dec (concat (map encode_item l)) (msgs_of_items l) SMore [].
Proof.
  induction 1 as [|it l Hit _ IH]; cbn [map concat msgs_of_items flat_map].
  - apply dec_wait. reflexivity.
  - destruct it as [m|id body]; cbn [item_ok] in Hit.
    + cbn [encode_item app]. eapply dec_deliver; [apply complete_message_delivered; exact Hit | exact IH].
    + destruct Hit as [Hid Hl]. eapply dec_skip; [apply complete_unknown_skipped; assumption | exact IH].
Qed.
