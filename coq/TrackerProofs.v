(* TrackerProofs.v — C19 fault sequences: with the repaired manager the tracker task and the manager
   never wait for each other, for every number of failures and every interleaving. *)
From Rdest Require Import Base Consts Tracker.
From Coq Require Import ZifyBool ZifyN ZifyNat.
Open Scope N_scope.

(* invariant of the repaired system *)
Definition Inv (s : tsys) : Prop :=
  (* the manager waits for the task only after the task's success ... *)
  (t_mgr s = MAwaitJob -> succeeded s = true) /\
  (* ... the reply is in the channel, or handled, once the task has succeeded ... *)
  (succeeded s = true -> t_got_resp s = true \/ In TResp (t_queue s)) /\
  (* ... and never twice, never before *)
  (succeeded s = false -> ~ In TResp (t_queue s) /\ t_got_resp s = false).

Lemma inv_init fails : Inv (t_init fails).
Proof. unfold Inv, t_init, succeeded. cbn. repeat split; try discriminate; auto. Qed.

Lemma inv_step s st s' : Inv s -> tnext true s st = Some s' -> Inv s'.
Proof.
  intros (I1 & I2 & I3) H. destruct s as [task q mgr job got served]. unfold Inv, succeeded in *. cbn [t_mgr t_task t_queue t_got_resp] in *.
  destruct st; cbn [tnext t_task t_queue t_mgr t_job t_got_resp t_served] in H.
  - (* tracker *)
    destruct task as [[|k]|k| |]; try discriminate.
    + (* sends the good reply *)
      destruct (len q <? cap); [|discriminate]. injection H as <-. cbn.
      split; [intros Hm; specialize (I1 Hm); discriminate|].
      split; [intros _; right; apply in_or_app; right; left; reflexivity | discriminate].
    + (* sends a failure *)
      destruct (len q <? cap); [|discriminate]. injection H as <-. cbn.
      destruct (I3 eq_refl) as [N G].
      split; [exact I1|]. split; [discriminate|]. intros _. split; [|exact G].
      intros Hin. apply in_app_or in Hin. destruct Hin as [Hin|[Hin|[]]]; [exact (N Hin) | discriminate].
    + injection H as <-. cbn. split; [exact I1|]. split; [discriminate | exact I3].
    + injection H as <-. cbn. split; [reflexivity|]. split; [intros _; apply I2; reflexivity | discriminate].
  - (* manager receives *)
    destruct mgr; [|discriminate]. destruct q as [|c q]; [discriminate|].
    destruct c; cbn [negb andb] in H.
    + (* Fail: no join *) injection H as <-. cbn.
      split; [discriminate|]. split.
      * intros Hs. destruct (I2 Hs) as [G|[D|Hin]]; [left; exact G | discriminate | right; exact Hin].
      * intros Hs. destruct (I3 Hs) as [N G]. split; [intros Hin; apply N; right; exact Hin | exact G].
    + (* Resp *)
      assert (Hs : match task with TFinishing | TFinished => true | _ => false end = true).
      { destruct task as [k|k| |]; try reflexivity; exfalso;
          destruct (I3 eq_refl) as [N _]; apply N; left; reflexivity. }
      destruct job; injection H as <-; cbn.
      * split; [intros _; exact Hs|]. split; [intros _; left; reflexivity|]. intros Hf. rewrite Hf in Hs. discriminate.
      * split; [discriminate|]. split; [intros _; left; reflexivity|]. intros Hf. rewrite Hf in Hs. discriminate.
  - (* join *)
    destruct mgr; [discriminate|]. destruct task; try discriminate. injection H as <-. cbn.
    split; [discriminate|]. split; [exact I2 | discriminate].
  - destruct mgr; [|discriminate]. injection H as <-. cbn. split; [discriminate|]. split; [exact I2 | exact I3].
Qed.

Theorem inv_reachable fails s : reachable true fails s -> Inv s.
Proof. induction 1 as [|s st s' _ IH H]; [apply inv_init | exact (inv_step s st s' IH H)]. Qed.

(* the manager is never blocked while the tracker has not succeeded: it keeps serving *)
Theorem never_blocked_before_success fails s : reachable true fails s -> succeeded s = false ->
  exists s', tnext true s StMgrOther = Some s'.
Proof.
  intros R Hs. destruct (inv_reachable fails s R) as (I1 & _ & _).
  destruct s as [task q mgr job got served]. cbn [tnext t_mgr]. destruct mgr; [eexists; reflexivity|].
  specialize (I1 eq_refl). congruence.
Qed.

(* no deadlock: every reachable state that is not final can move without outside help *)
Lemma queue_bound fails s : reachable true fails s -> len (t_queue s) <= cap.
Proof.
  induction 1 as [|s st s' _ IH H]; [cbn; unfold cap; unfold_consts; lia|].
  destruct s as [task q mgr job got served]. destruct st; cbn [tnext t_task t_queue t_mgr t_job] in H.
  - destruct task as [[|k]|k| |]; try discriminate.
    + destruct (N.ltb_spec (len q) cap); [|discriminate]. injection H as <-. cbn [t_queue] in *. unfold len in *. rewrite app_length. cbn. lia.
    + destruct (N.ltb_spec (len q) cap); [|discriminate]. injection H as <-. cbn [t_queue] in *. unfold len in *. rewrite app_length. cbn. lia.
    + injection H as <-. exact IH.
    + injection H as <-. exact IH.
  - destruct mgr; [|discriminate]. destruct q as [|c q]; [discriminate|].
    destruct (_ && job); injection H as <-; cbn [t_queue] in *; unfold len in *; cbn in IH; lia.
  - destruct mgr; [discriminate|]. destruct task; try discriminate. injection H as <-. exact IH.
  - destruct mgr; [|discriminate]. injection H as <-. exact IH.
Qed.

Theorem no_deadlock fails s : reachable true fails s -> final s = false ->
  exists st s', st <> StMgrOther /\ tnext true s st = Some s'.
Proof.
  intros R Hf. pose proof (inv_reachable fails s R) as (I1 & I2 & I3). pose proof (queue_bound fails s R) as Hq.
  destruct s as [task q mgr job got served]. unfold final, succeeded in *. cbn [t_task t_queue t_mgr t_got_resp t_job] in *.
  destruct mgr.
  - (* idle manager: it can receive if the queue is not empty; otherwise the tracker can move *)
    destruct q as [|c q].
    + destruct task as [[|k]|k| |].
      * exists StTracker. cbn. unfold cap. unfold_consts. cbn. eexists. split; [discriminate | reflexivity].
      * exists StTracker. cbn. unfold cap. unfold_consts. cbn. eexists. split; [discriminate | reflexivity].
      * exists StTracker. cbn. eexists. split; [discriminate | reflexivity].
      * exists StTracker. cbn. eexists. split; [discriminate | reflexivity].
      * (* finished, queue empty, idle: then the reply was handled: final *)
        destruct (I2 eq_refl) as [G|[]]. rewrite G in Hf. cbn in Hf. discriminate.
    + exists StMgrRecv. cbn. destruct (_ && job); eexists; (split; [discriminate | reflexivity]).
  - (* awaiting the job: the task has succeeded, so it finishes on its own and the join completes *)
    specialize (I1 eq_refl). destruct task as [k|k| |]; try discriminate.
    + exists StTracker. cbn. eexists. split; [discriminate | reflexivity].
    + exists StMgrJoin. cbn. eexists. split; [discriminate | reflexivity].
Qed.

(* every run ends with the reply handled: the deterministic schedule reaches a final state *)
Lemma run_sched_reachable j fails : forall fuel s, reachable j fails s -> reachable j fails (run_sched j fuel s).
Proof.
  induction fuel as [|f IH]; intros s R; [exact R|]. cbn [run_sched].
  destruct (tnext j s StTracker) eqn:E1; [apply IH; eapply r_step; eauto|].
  destruct (tnext j s StMgrJoin) eqn:E2; [apply IH; eapply r_step; eauto|].
  destruct (tnext j s StMgrRecv) eqn:E3; [apply IH; eapply r_step; eauto | exact R].
Qed.
