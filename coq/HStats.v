(* HStats.v — where the connection task updates its transfer statistics (src/peer_handler.rs: the call sites of
   Stats::update_downloaded / update_uploaded / increment_unexpected_piece and the statistics timer), as a projection of
   the task's steps (Handler.v) onto the operations of Stats.v.

     handle_piece:  a block that is not one of the outstanding requests of the piece being assembled
                    -> increment_unexpected_piece, nothing else;  an accepted block -> update_downloaded(block length)
                    (before the hash check of a completed piece)
     send_piece:    update_uploaded(request length) for every Piece message written
     timer:         every STATS_INTERVAL_SEC: report (when the two-interval window is full), shift                      *)
From Rdest Require Import Base Consts Wire Manager Handler Stats.
Open Scope N_scope.

(* Frame::Piece reaches handle_piece only past the handshake gate of handle_frame *)
Definition piece_reaches_handler (s : hst) : bool := negb (Handler_gate_on_handshake && negb (h_hs_done s)).

Definition stats_ops (s : hst) (ev : event) (acts : list action) : list sop :=
  (match ev with
   | EFrame (Piece i b blk) =>
       if piece_reaches_handler s then
         match h_rx s with
         | Some r => if is_requested r i b blk then [SDown (len blk)] else [SUnexpected]
         | None => [SUnexpected]
         end
       else []
   | _ => []
   end)
  ++ flat_map (fun a => match a with ASend (Piece _ _ blk) => [SUp (len blk)] | _ => [] end) acts.

(* a connection's life as the task sees it: events (with the manager's answer) and statistics ticks *)
Inductive titem := TEvent (ev : event) (r : option reply) | TStat.

Section Run.
  Variable sha1 : bytes -> bytes.
  Variable cf : hconf.
  Variable disk : bytes -> option bytes.
  Variable ovf : bool.

  Fixpoint trace_ops (s : hst) (tr : list titem) : list sop :=
    match tr with
    | [] => []
    | TStat :: r => STick :: trace_ops s r
    | TEvent ev rep :: r =>
        match hstep sha1 cf disk ovf s ev rep with
        | HCont s' a => stats_ops s ev a ++ trace_ops s' r
        | HEnd _ a _ => stats_ops s ev a              (* the task ends: no further reports *)
        | HPanic _ => []
        end
    end.
End Run.
