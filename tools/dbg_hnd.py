"""debug: run a handler-based property, print for the shortest failing case the first step at which the oracle (arg) fails"""
import sys, os, random, importlib, re
sys.path.insert(0, os.path.join(os.path.dirname(__file__), "props")); sys.path.insert(0, os.path.dirname(__file__))
import vlib, driver
pid, stepfn, init = sys.argv[1], sys.argv[2], sys.argv[3]
bit = int(sys.argv[4]) if len(sys.argv) > 4 else 2
prop = importlib.import_module(pid.lower()).PROP
prop.known_classes = set()
rng = random.Random(1 * 1000003 + sum(map(ord, pid)))
cases = prop.corpus() + prop.gen(rng, "quick")
ok, out, binp = vlib.build_harness()
r = driver.run_correspondence(prop, binp, cases, "dbg")
bad = [c for c in cases if c.code is not None and c.code & bit]
print(len(bad), "failing", r["error"])
if bad:
    c = min(bad, key=lambda c: len(c.line))
    t = ("(fix go t ss n := match ss with [] => 999 | (s, p, o) :: r => match %s t s p o with Some t' => go t' r (n + 1) | None => n end end) (%s) (hc_steps (%s)) 0" % (stepfn, init, c.term))
    print("first failing step:", vlib.eval_terms(pid, prop.coq_header, [t])[0][:200])
    sc = prop._scen[c.line]
    outs = c.out.split(" ; ")
    for i, (e, o) in enumerate(zip(sc.events, outs)):
        print(i, e.stim[:70], e.pol, "=>", o[:150])
