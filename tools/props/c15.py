"""C15 — bencode encode/decode mutually inverse and canonical."""
import re
from driver import Case
from vlib import coq_bytes
import bgen


class C15:
    id = "C15"
    harness_sub = "bc"
    harness_timeout = 600
    coq_timeout = 900
    model_targets = ["Pack.vo", "Corr/C15.vo"]
    proof_target = "Props/C15.vo"
    theorems = ["C15_decode_encode", "C15_encode_canonical", "C15_reencode", "C15_encode_injective", "C15_encode_seq_injective"]
    allowed_axioms = []
    coq_header = "From Rdest Require Import Base BCodec BGrammar Corr.C15.\nOpen Scope N_scope.\n"
    corr_name = "BEncoder / BDecoder vs BCodec.encode / decode"
    classes = {}
    rule = ("encdec: random well-formed values (full i64 range incl. MIN/MAX/0/-1, binary strings containing ':' 'e' digits, "
            "nesting depth <= 4, empty containers, keys that are prefixes of each other) built in the harness as BValue, "
            "encoded by BEncoder and decoded again; reenc: canonical and non-canonical documents produced by an independent "
            "Python encoder, decoded and re-encoded. Oracle: independent canonical-form recogniser on the implementation's "
            "bytes, equality with the input value / document. Non-trivial: containers or multi-digit numbers; distinct lines.")
    statement_status = "full"
    assumptions = ["native stack depth of the recursive encoder is not modelled"]

    def corpus(self):
        vs = [("i", 0), ("i", -1), ("i", 2 ** 63 - 1), ("i", -2 ** 63), ("s", b""), ("l", []), ("d", []),
              ("d", [(b"b", ("i", 1)), (b"a", ("i", 2)), (b"ab", ("s", b"x")), (b"", ("l", []))])]
        return [Case("encdec " + bgen.to_tokens(v), "corpus", {"value": bgen.to_tokens(v)}) for v in vs]

    def shaped(self, rng):
        """documents whose SHAPE is the point: many container-valued siblings in one list or dictionary, deep nesting
        (well below the depths of the known stack-exhaustion finding), a files-like list of many small dictionaries"""
        r = rng.random()
        k = rng.choice([2, 31, 63, 64, 65, 66, 100, 129, 300])
        if r < 0.25:
            doc = b"l" + rng.choice([b"le", b"de", b"lee", b"li1ee"]) * k + b"e"
        elif r < 0.5:
            keys = sorted(b"k%03d" % i for i in range(k))
            doc = b"d" + b"".join(b"%d:%s" % (len(x), x) + rng.choice([b"le", b"de", b"li0ee"]) for x in keys) + b"e"
        elif r < 0.75:
            d = rng.choice([2, 31, 63, 64, 65, 66, 100, 129, 300])
            doc = rng.choice([b"l", b"d1:a"]) * d + b"i7e" + b"e" * d
        else:
            doc = b"d5:filesl" + b"".join(b"d6:lengthi%de4:path2:%02dee" % (i, i % 100) for i in range(k)) + b"e4:name1:ne"
        return doc

    def gen(self, rng, tier):
        n = {"quick": 1500, "thorough": 30000, "search": 6000}[tier]
        cases = []
        for _ in range({"quick": 40, "thorough": 400, "search": 100}[tier]):
            doc = self.shaped(rng)
            cases.append(Case("reenc %s" % doc.hex(), "reenc-shaped", {"doc": doc[:60].decode("latin1"), "bytes": len(doc)}))
        for _ in range(n):
            if rng.random() < 0.6:
                v = bgen.rvalue(rng, depth=rng.choice([1, 2, 3, 4]))
                c = Case("encdec " + bgen.to_tokens(v), "encdec", {"value": bgen.to_tokens(v)[:120]},
                         v[0] in "ld" or (v[0] == "i" and abs(v[1]) > 9))
                self._vals[c.line] = v
            else:
                vs = [bgen.rvalue(rng) for _ in range(rng.choice([1, 1, 2, 3]))]
                if rng.random() < 0.7:
                    doc = b"".join(bgen.encode(x) for x in vs)
                    kind = "reenc-canonical"
                else:
                    doc = b"".join(bgen.encode(x, rng, sort=False, lead0=0.3, shuffle=0.5) for x in vs)
                    kind = "reenc-noncanonical"
                c = Case("reenc %s" % (doc.hex() or "-"), kind, {"doc": doc[:60].decode("latin1")})
            cases.append(c)
        return cases

    _vals = {}

    def coq_case(self, c, out):
        t = c.line.split()
        if t[0] == "encdec":
            v = self._vals.get(c.line)
            if v is None:
                v = self.parse_tokens(iter(t[1:]))
            m = re.match(r"ENC (\S+) DEC (.*)$", out, re.S)
            enc = bytes.fromhex(m.group(1)) if m.group(1) != "-" else b""
            return "CEncDec %s %s %s" % (bgen.to_coq(v), coq_bytes(enc), bgen.impl_result_to_coq(m.group(2)))
        doc = bytes.fromhex(t[1]) if t[1] != "-" else b""
        if out.strip() in ("ERR", "PANIC"):
            return "CReenc %s %s []" % (coq_bytes(doc), bgen.impl_result_to_coq(out))
        m = re.match(r"(OK .*) REENC (\S+)$", out, re.S)
        r = bytes.fromhex(m.group(2)) if m.group(2) != "-" else b""
        return "CReenc %s %s %s" % (coq_bytes(doc), bgen.impl_result_to_coq(m.group(1)), coq_bytes(r))

    def parse_tokens(self, it):
        t = next(it)
        if t == "i":
            return ("i", int(next(it)))
        if t == "s":
            h = next(it)
            return ("s", b"" if h == "-" else bytes.fromhex(h))
        if t == "l":
            return ("l", [self.parse_tokens(it) for _ in range(int(next(it)))])
        n = int(next(it))
        out = []
        for _ in range(n):
            h = next(it)
            out.append((b"" if h == "-" else bytes.fromhex(h), self.parse_tokens(it)))
        return ("d", out)

    def model_term(self, c):
        return "code (%s)" % c.term[:3000]


PROP = C15()
