"""C07 — peer-wire message layout / round trip / bitfield mapping."""
import re, random
from driver import Case
from vlib import coq_bytes, coq_bools, Blob


def debug_bytes(s):
    s = s.strip()[1:-1].strip()
    return bytes(int(x) for x in s.split(",")) if s else b""


def frame_to_coq(dbg, blobs=()):
    m = re.match(r"(\w+)\((.*)\)\s*$", dbg, re.S)
    kind, body = m.group(1), m.group(2)
    f = dict(re.findall(r"(\w+): (\[[^\]]*\]|\d+)", body))
    if kind == "Handshake":
        return "(Handshake %s %s)" % (coq_bytes(debug_bytes(f["info_hash"])), coq_bytes(debug_bytes(f["peer_id"])))
    if kind in ("KeepAlive", "Choke", "Unchoke", "Interested", "NotInterested"):
        return kind
    if kind == "Have":
        return "(Have %s)" % f["piece_index"]
    if kind == "Bitfield":
        return "(Bitfield %s)" % coq_bytes(debug_bytes(f["pieces_bytes"]), blobs)
    if kind in ("Request", "Cancel"):
        return "(%s %s %s %s)" % (kind, f["piece_index"], f["block_begin"], f["block_length"])
    if kind == "Piece":
        return "(Piece %s %s %s)" % (f["piece_index"], f["block_begin"], coq_bytes(debug_bytes(f["block"]), blobs))
    raise ValueError("unknown frame " + dbg[:80])


def presult_to_coq(s, blobs=()):
    s = s.strip()
    if s == "INCOMPLETE":
        return "PIncomplete"
    if s == "ERROR":
        return "PError"
    if s == "PANIC":
        return "PPanic"
    if s.startswith("UNKNOWN"):
        _, i, pos = s.split()
        return "(PUnknown %s %s)" % (i, pos)
    m = re.match(r"OK (\d+) (.*)$", s, re.S)
    return "(PFrame %s %s)" % (frame_to_coq(m.group(2), blobs), m.group(1))


U32 = [0, 1, 2, 255, 256, 65535, 65536, 16777215, 16777216, 2 ** 31 - 1, 2 ** 31, 2 ** 32 - 2, 2 ** 32 - 1]


def u32(rng):
    r = rng.random()
    if r < 0.45:
        return rng.choice(U32)
    if r < 0.7:
        return rng.randrange(0, 70000)
    return rng.randrange(0, 2 ** 32)


def rbytes(rng, n):
    return bytes(rng.randrange(256) for _ in range(n))


def payload(rng, n):
    """small payloads are literal, large ones are (seed, length) blobs"""
    return rbytes(rng, n) if n <= 40 else Blob(rng.randrange(1, 2 ** 31), n)


def raw(x):
    return x.data if isinstance(x, Blob) else x


def hexs(b):
    if isinstance(b, Blob):
        return b.arg
    return b.hex() if b else "-"


def segs(parts):
    """harness argument for a concatenation of bytes / blobs"""
    out = [hexs(p) for p in parts if len(raw(p)) > 0]
    return "+".join(out) if out else "-"


def be32(n):
    return (n % 2 ** 32).to_bytes(4, "big")


def py_encode(m):
    k = m[0]
    if k == "handshake":
        return bytes([19]) + b"BitTorrent protocol" + bytes(8) + m[1] + m[2]
    if k == "keepalive":
        return bytes(4)
    ids = {"choke": 0, "unchoke": 1, "interested": 2, "notinterested": 3}
    if k in ids:
        return be32(1) + bytes([ids[k]])
    if k == "have":
        return be32(5) + b"\x04" + be32(m[1])
    if k == "bitfieldraw":
        return be32(1 + len(raw(m[1]))) + b"\x05" + raw(m[1])
    if k == "request":
        return be32(13) + b"\x06" + be32(m[1]) + be32(m[2]) + be32(m[3])
    if k == "cancel":
        return be32(13) + b"\x08" + be32(m[1]) + be32(m[2]) + be32(m[3])
    if k == "piece":
        return be32(9 + len(raw(m[3]))) + b"\x07" + be32(m[1]) + be32(m[2]) + raw(m[3])
    raise ValueError(k)


def rand_msg(rng, big=False):
    k = rng.choice(["handshake", "keepalive", "choke", "unchoke", "interested", "notinterested",
                    "have", "request", "cancel", "piece", "piece", "bitfieldraw"])
    if k == "handshake":
        return (k, rbytes(rng, 20), rbytes(rng, 20))
    if k == "have":
        return (k, u32(rng))
    if k in ("request", "cancel"):
        return (k, u32(rng), u32(rng), u32(rng))
    if k == "piece":
        sizes = [0, 1, 2, 255, 256, 1000] + ([16384, 65527] if big else [])
        n = rng.choice(sizes) if rng.random() < 0.6 else rng.randrange(0, 3000 if not big else 65528)
        return (k, u32(rng), u32(rng), payload(rng, n))
    if k == "bitfieldraw":
        n = rng.choice([0, 1, 2, 8, 9, 100]) if rng.random() < 0.6 else rng.randrange(0, 400 if not big else 65536)
        return (k, payload(rng, n))
    return (k,)


def msg_term(m):
    k = m[0]
    if k == "handshake":
        return "(Handshake %s %s)" % (coq_bytes(m[1]), coq_bytes(m[2]))
    if k == "have":
        return "(Have %d)" % m[1]
    if k in ("request", "cancel"):
        return "(%s %d %d %d)" % (k.capitalize(), m[1], m[2], m[3])
    if k == "piece":
        return "(Piece %d %d %s)" % (m[1], m[2], m[3].term if isinstance(m[3], Blob) else coq_bytes(m[3]))
    return {"keepalive": "KeepAlive", "choke": "Choke", "unchoke": "Unchoke", "interested": "Interested",
            "notinterested": "NotInterested"}[k]


def enc_line(m, junk):
    k = m[0]
    if k == "handshake":
        args = "%s %s" % (m[1].hex(), m[2].hex())
    elif k == "piece":
        args = "%d %d %s" % (m[1], m[2], hexs(m[3]))
    else:
        args = " ".join(str(x) for x in m[1:])
    return ("enc %s %s %s" % (hexs(junk), k, args)).strip()


def blobs_of(m):
    return [x for x in m if isinstance(x, Blob)]


class C07:
    id = "C07"
    harness_sub = "c07"
    harness_timeout = 600
    coq_timeout = 900
    model_targets = ["Pack.vo", "Corr/C07.vo"]
    proof_target = "Props/C07.vo"
    theorems = ["C07_layout", "C07_roundtrip", "C07_bitfield_pack", "C07_bitfield_unpack", "C07_bitfield_roundtrip", "C07_bitfield_injective", "C07_prefix_free", "C07_stream_injective"]
    allowed_axioms = []
    coq_header = "From Rdest Require Import Base Wire Corr.C07.\nOpen Scope N_scope.\n"
    corr_name = "Serializer::data / Frame::parse / Bitfield::{from_vec,to_vec} vs Wire.v"
    classes = {}
    rule = ("enc: each message kind built with ::new from boundary/random u32 fields and payload sizes, data() compared "
            "with the model and checked by the BEP3 oracle, then Frame::parse(data ++ junk); parse: raw buffers (valid "
            "frames, truncations, wrong length prefixes, unknown ids, oversize) model-vs-impl; tovec/fromvec: bit vectors "
            "of length 0..70 and random up to 2000 with right and wrong byte counts. A case is non-trivial unless it is a "
            "fixed-size message without junk; distinct = distinct harness input lines.")
    statement_status = "full"
    assumptions = ["u32 fields, 20-byte hash/id, payloads with length prefix <= 65536 (FieldsOk)"]

    def corpus(self):
        # every single-byte deviation of a handshake's fixed beginning must be refused
        out = []
        for k in range(20):
            h = bytearray(py_encode(("handshake", bytes(range(20)), bytes(range(20, 40)))))
            h[k] ^= 0x20
            c = Case("parse %s" % segs([bytes(h)]), "parse-handshake-deviation", {"byte": k}, True, [])
            self._bufs[c.line] = bytes(h)
            out.append(c)
        return out

    def gen(self, rng, tier):
        n = {"quick": 2500, "thorough": 40000, "search": 8000}[tier]
        cases = []
        for i in range(n):
            big = rng.random() < 0.02
            r = rng.random()
            if r < 0.45:
                m = rand_msg(rng, big)
                while m[0] == "bitfieldraw":
                    m = rand_msg(rng, big)
                junk = b"" if rng.random() < 0.3 else (rbytes(rng, rng.randrange(1, 7)) if rng.random() < 0.5
                                                      else py_encode(rand_msg(rng))[:rng.randrange(1, 12)])
                nontriv = not (len(m) == 1 and not junk)
                cases.append(Case(enc_line(m, junk), "enc-" + m[0], {"msg": repr(m)[:200], "junk": junk.hex()}, nontriv,
                                  blobs_of(m)))
                cases[-1].info["m"] = None
                cases[-1].blobs = blobs_of(m)
                cases[-1].info = {"msg": [x if isinstance(x, (int, str)) else hexs(x)[:80] for x in m], "junk": junk.hex()}
                cases[-1].term = None
                self._msgs[cases[-1].line] = (m, junk)
            elif r < 0.55:
                nb = rng.randrange(0, 71) if rng.random() < 0.7 else rng.randrange(0, 600)
                bits = [rng.random() < rng.choice([0.1, 0.5, 0.9]) for _ in range(nb)]
                s = "".join("1" if b else "0" for b in bits) or "-"
                cases.append(Case("enc - bitfield %s" % s, "fromvec", {"bits": s[:100]}))
            elif r < 0.7:
                nb = rng.randrange(0, 71) if rng.random() < 0.7 else rng.randrange(0, 600)
                good = (nb + 7) // 8
                ln = good if rng.random() < 0.7 else max(0, good + rng.choice([-1, 1, 2]))
                data = bytearray(rbytes(rng, ln))
                # structured payloads: sparse bytes (0x00, 0xff, a single bit) anywhere, the last byte in particular
                if data and rng.random() < 0.5:
                    for j in range(len(data)):
                        if rng.random() < 0.5:
                            data[j] = rng.choice([0, 0, 0xff, 0x80, 0x01, 1 << rng.randrange(8)])
                    if rng.random() < 0.6:
                        data[-1] = rng.choice([0, 0, 0x80, 0xff])
                cases.append(Case("tovec %d %s" % (nb, hexs(bytes(data))), "tovec", {"n": nb, "bytes": ln}))
            else:
                parts = self.raw_buffer(rng, big)
                c = Case("parse %s" % segs(parts), "parse", {"len": sum(len(raw(p)) for p in parts)},
                         True, [p for p in parts if isinstance(p, Blob)])
                self._bufs[c.line] = b"".join(raw(p) for p in parts)
                cases.append(c)
        return cases

    _msgs = {}
    _bufs = {}

    def raw_buffer(self, rng, big):
        """returns a list of parts (bytes or Blob) whose concatenation is the buffer"""
        r = rng.random()
        m = rand_msg(rng, big)
        enc = py_encode(m)
        bl = blobs_of(m)
        def split(b):
            # keep blob payloads symbolic where they occur
            for x in bl:
                i = b.find(x.data)
                if i >= 0:
                    return [b[:i], x, b[i + x.n:]]
            return [b]
        if r < 0.25:
            return split(enc) + [py_encode(rand_msg(rng))[:rng.randrange(0, 10)]]
        if r < 0.45:
            return split(enc[:rng.randrange(0, len(enc) + 1)])
        if r < 0.65:  # wrong length prefix
            ln = rng.choice([0, 1, 2, 4, 5, 6, 8, 9, 12, 13, 14, 65535, 65536, 65537, 2 ** 32 - 1, len(enc), len(enc) - 3])
            return split(be32(ln) + enc[4:])
        if r < 0.85:  # unknown / arbitrary id
            mid = rng.choice([9, 10, 20, 83, 84, 85, 255, rng.randrange(256)])
            ln = rng.choice([1, 2, 5, 30, 65536, 65537]) if rng.random() < 0.5 else rng.randrange(1, 40)
            body = rbytes(rng, rng.choice([0, ln - 1 if ln < 100 else 3, max(0, ln - 2) if ln < 100 else 7, rng.randrange(0, 50)]))
            return [be32(ln) + bytes([mid]) + body]
        if r < 0.89:  # a handshake with exactly one byte of its fixed beginning (length byte + protocol name) off
            h = bytearray(py_encode(("handshake", rbytes(rng, 20), rbytes(rng, 20))))
            h[rng.randrange(20)] ^= rng.choice([1, 0x20, 0x80, 0xff])
            return [bytes(h)]
        b = bytearray(enc[:200])
        for _ in range(rng.randrange(1, 4)):
            if b:
                b[rng.randrange(len(b))] = rng.randrange(256)
        return [bytes(b)]

    def coq_case(self, c, out):
        t = c.line.split()
        bl = c.blobs
        if t[0] == "enc":
            m = re.match(r"DATA (\S+) (.*)$", out, re.S)
            data = bytes.fromhex(m.group(1)) if m.group(1) != "-" else b""
            if t[2] == "bitfield":
                bits = [] if t[3] == "-" else [ch == "1" for ch in t[3]]
                return "CFromVec %s %s" % (coq_bools(bits), coq_bytes(data))
            mm, junk = self._msgs[c.line]
            return "CEnc %s %s %s %s" % (msg_term(mm), coq_bytes(junk), coq_bytes(data, bl),
                                         presult_to_coq(m.group(2), bl))
        if t[0] == "parse":
            return "CParse %s %s" % (coq_bytes(self._bufs[c.line], bl), presult_to_coq(out, bl))
        if t[0] == "tovec":
            bs = bytes.fromhex(t[2]) if t[2] != "-" else b""
            o = out.split()
            if o[0] == "BITS":
                bits = [] if o[1] == "-" else [ch == "1" for ch in o[1]]
                return "CToVec %s %s (Some %s) %s" % (t[1], coq_bytes(bs), coq_bools(bits), o[2])
            if o[0] == "ERR":
                return "CToVec %s %s None %s" % (t[1], coq_bytes(bs), o[1])
            raise ValueError(out)
        raise ValueError(c.line)

    def model_term(self, c):
        return "code (%s)" % c.term


PROP = C07()
