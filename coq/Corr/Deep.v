(* Deeply nested documents (part of C16): the specification accepts well-formed nesting of every depth
   (BProofs.decode_complete; DeepProofs.nested_accepted); the implementation's recursive decoder is run on them in a
   process of its own, because exhausting the native stack aborts the process. *)
From Rdest Require Import Base.
Open Scope N_scope.

(* outcome: 0 = accepted, 1 = rejected, 2 = the process died *)
Inductive case := CDeep (depth : N) (outcome : N).

(* known-finding class 2 of C16 (stack-exhaustion-on-deep-nesting): the process died on a document nested at least
   400 levels deep; a death at a smaller depth, or a rejection of a well-formed document, is a new violation *)
Definition code (c : case) : N :=
  match c with
  | CDeep depth outcome =>
      if outcome =? 0 then 0
      else if (outcome =? 2) && (400 <=? depth) then 2 + 4 * 2
      else 2
  end.
Definition codes (cs : list case) : list N := map code cs.
