(* PairProofs.v — the connection task and the manager agree on what the task is assembling.

   Composition of the two step functions for one peer address a: the commands an event makes the task send are
   handled by the manager in order (the channel is FIFO per sender), the one request/response exchange gets the
   manager's actual answer; steps of the manager for other addresses, choke rotations and tracker answers interleave
   freely.  Invariant (Pair): the manager's piece_index for a is the index of the task's PieceRx (None when there
   is none), and the manager's "peer chokes us" flag is the task's.  Consequence: the piece the manager marks Have
   at PieceDone is the piece the task has just verified and written (C01), and the flag the manager consults when
   reserving is the task's (C12). *)
From Rdest Require Import Base BaseProofs Consts Wire Manager Handler MgrProofs HandlerProofs.
From Coq Require Import ZifyBool ZifyN ZifyNat.
Open Scope N_scope.

Definition to_cmd (a : addr) (k : hcmd) : cmd :=
  match k with
  | KInit id => CInit a id | KChoke => CChoke a | KUnchoke => CUnchoke a | KInterested => CInterested a
  | KNotInterested => CNotInterested a | KHave i => CHave a i | KBitfield b => CBitfield a b
  | KRequest i => CRequest a i | KPieceDone => CPieceDone a | KPieceCancel => CPieceCancel a
  end.
(* commands sent without waiting for an answer *)
Definition is_async (k : hcmd) : bool := match k with KChoke | KInterested => true | _ => false end.

Definition cmds_of (acts : list action) : list hcmd :=
  flat_map (fun x => match x with ACmd k => [k] | _ => [] end) acts.

(* what a command does to (assigned piece, peer-chokes-us), given the manager's answer *)
Definition effect (k : hcmd) (r : option reply) (st : option N * bool) : option N * bool :=
  match k with
  | KChoke => (fst st, true)
  | KUnchoke =>
      (match r with Some (RUnchoke_IntReq i _) | Some (RUnchoke_Req i _) => Some i | _ => None end, false)
  | KHave _ => (match r with Some (RHave_IntReq i _) => Some i | _ => fst st end, snd st)
  | KPieceDone | KPieceCancel => (match r with Some (RPiece_Req i _) => Some i | _ => None end, snd st)
  | _ => st
  end.

(* ---- manager side ---------------------------------------------------------------------------------- *)
Definition pview (p : peer) : option N * bool := (p_piece_index p, p_choked p).

Lemma pget_with_peer m a p : pget (m_peers (with_peer m a p)) a = Some p.
Proof. unfold with_peer. cbn [m_peers]. apply pget_pset_same. Qed.

Lemma mstep_effect m a k pk m' rep bc sp :
  mstep m (to_cmd a k) pk = Ok (m', rep, bc, sp) ->
  exists p p', pget (m_peers m) a = Some p /\ pget (m_peers m') a = Some p' /\
               pview p' = effect k (Some rep) (pview p).
Proof.
  unfold pview. destruct k; cbn [to_cmd mstep]; intros H.
  - (* Init *) destruct (pget (m_peers m) a) as [p|] eqn:Ep; [|discriminate]. unfold out in H. injection H as <- <- <- <-.
    exists p, (set_id p id). rewrite pget_with_peer. repeat split.
  - (* Choke *) destruct (pget (m_peers m) a) as [p|] eqn:Ep; [|discriminate].
    destruct (match p_piece_index p with Some i => upd_status (m_status m) i decr | None => Ok (m_status m) end) as [st| | |];
      cbn [bind] in H; try discriminate. unfold out in H. injection H as <- <- <- <-.
    exists p, (set_choked p true). rewrite pget_with_peer. cbn [with_status m_peers]. repeat split.
  - (* Unchoke *) destruct (pget (m_peers m) a) as [p|] eqn:Ep; [|discriminate].
    destruct pk as [c|].
    + destruct (upd_status (m_status m) c incr) as [st| | |]; cbn [bind] in H; try discriminate.
      destruct (plen_of m c) as [l| | |]; cbn [bind] in H; try discriminate. unfold out in H. injection H as <- <- <- <-.
      eexists p, _. rewrite pget_with_peer. cbn [with_status m_peers]. split; [reflexivity|]. split; [reflexivity|].
      destruct (p_am_interested p); reflexivity.
    + unfold out in H. injection H as <- <- <- <-. eexists p, _. rewrite pget_with_peer. split; [reflexivity|]. split; [reflexivity|].
      destruct (p_am_interested p); reflexivity.
  - (* Interested *) destruct (pget (m_peers m) a) as [p|] eqn:Ep; [|discriminate]. unfold out in H. injection H as <- <- <- <-.
    eexists p, _. rewrite pget_with_peer. repeat split.
  - (* NotInterested *) destruct (pget (m_peers m) a) as [p|] eqn:Ep; [|discriminate]. unfold out in H. injection H as <- <- <- <-.
    eexists p, _. rewrite pget_with_peer. repeat split.
  - (* Have *) destruct (pget (m_peers m) a) as [p|] eqn:Ep; [|discriminate].
    destruct (len (p_pieces p) <=? i); [discriminate|].
    destruct (nthN (m_status m) i) as [s|]; [|discriminate].
    destruct (is_missing s && negb (p_am_interested p)).
    + destruct (negb (p_choked p) && match p_piece_index p with None => true | Some _ => false end).
      * destruct (plen_of m i) as [l| | |]; cbn [bind] in H; try discriminate. unfold out in H. injection H as <- <- <- <-.
        eexists p, _. rewrite pget_with_peer. cbn [with_status m_peers]. repeat split.
      * unfold out in H. injection H as <- <- <- <-. eexists p, _. rewrite pget_with_peer. repeat split.
    + unfold out in H. injection H as <- <- <- <-. eexists p, _. rewrite pget_with_peer. repeat split.
  - (* Bitfield *) destruct (pget (m_peers m) a) as [p|] eqn:Ep; [|discriminate].
    destruct (to_vec bits (pieces_n m)) as [v|]; [|discriminate].
    destruct (negb (len v =? len (p_pieces p))); [discriminate|]. unfold out in H. injection H as <- <- <- <-.
    eexists p, _. rewrite pget_with_peer. repeat split.
  - (* Request *) destruct (pget (m_peers m) a) as [p|] eqn:Ep; [|discriminate].
    assert (G : forall r0, out m r0 = Ok (m', rep, bc, sp) -> exists p0 p', Some p = Some p0 /\ pget (m_peers m') a = Some p' /\
                 (p_piece_index p', p_choked p') = effect (KRequest i) (Some rep) (p_piece_index p0, p_choked p0)).
    { intros r0 H0. unfold out in H0. injection H0 as <- <- <- <-. exists p, p. repeat split. exact Ep. }
    destruct (p_am_choked p); [exact (G _ H)|]. destruct (pieces_n m <=? i); [exact (G _ H)|].
    destruct (nthN (m_status m) i) as [s|]; [|discriminate]. destruct (is_have s); exact (G _ H).
  - (* PieceDone *) destruct (pget (m_peers m) a) as [p|] eqn:Ep; [|discriminate].
    destruct (p_piece_index p) as [i|] eqn:Ei; [|discriminate].
    destruct (nthN (m_status m) i) as [s|]; [|discriminate].
    set (m1 := with_status m (sset (m_status m) i Have)) in *.
    destruct (peer_handle_piece m1 a p pk) as [[[[m2 rep2] bc2] sp2]| | |] eqn:E; cbn [bind] in H; try discriminate.
    injection H as <- <- <- <-. exists p. unfold peer_handle_piece in E. destruct pk as [c|].
    + change (Peer_no_reserve_when_choked && p_choked p) with (p_choked p) in E. destruct (p_choked p) eqn:Ec.
      * unfold out in E. injection E as <- <- _ _. eexists. rewrite pget_with_peer. split; [reflexivity|]. split; [reflexivity|]. cbn [set_assign p_piece_index p_choked effect fst snd]. rewrite ?Ec. reflexivity.
      * destruct (upd_status (m_status m1) c incr) as [st| | |]; cbn [bind] in E; try discriminate.
        destruct (plen_of m1 c) as [l| | |]; cbn [bind] in E; try discriminate. unfold out in E. injection E as <- <- _ _.
        eexists. rewrite pget_with_peer. split; [reflexivity|]. split; [reflexivity|]. cbn [set_assign p_piece_index p_choked effect fst snd]. rewrite ?Ec. reflexivity.
    + unfold out in E. injection E as <- <- _ _. eexists. rewrite pget_with_peer. split; [reflexivity|]. split; [reflexivity|].
      destruct (p_interested p); reflexivity.
  - (* PieceCancel *) destruct (pget (m_peers m) a) as [p|] eqn:Ep; [|discriminate].
    destruct (p_piece_index p) as [i|] eqn:Ei; [|discriminate].
    destruct (upd_status (m_status m) i decr) as [st0| | |]; cbn [bind] in H; try discriminate.
    set (m1 := with_status m st0) in *.
    exists p. unfold peer_handle_piece in H. destruct pk as [c|].
    + change (Peer_no_reserve_when_choked && p_choked p) with (p_choked p) in H. destruct (p_choked p) eqn:Ec.
      * unfold out in H. injection H as <- <- _ _. eexists. rewrite pget_with_peer. split; [reflexivity|]. split; [reflexivity|]. cbn [set_assign p_piece_index p_choked effect fst snd]. rewrite ?Ec. reflexivity.
      * destruct (upd_status (m_status m1) c incr) as [st| | |]; cbn [bind] in H; try discriminate.
        destruct (plen_of m1 c) as [l| | |]; cbn [bind] in H; try discriminate. unfold out in H. injection H as <- <- _ _.
        eexists. rewrite pget_with_peer. split; [reflexivity|]. split; [reflexivity|]. cbn [set_assign p_piece_index p_choked effect fst snd]. rewrite ?Ec. reflexivity.
    + unfold out in H. injection H as <- <- _ _. eexists. rewrite pget_with_peer. split; [reflexivity|]. split; [reflexivity|].
      destruct (p_interested p); reflexivity.
Qed.

(* ---- task side -------------------------------------------------------------------------------------- *)
Definition hview (s : hst) : option N * bool := (option_map rx_index (h_rx s), h_choked s).

Lemma cmds_of_app a b : cmds_of (a ++ b) = cmds_of a ++ cmds_of b.
Proof. unfold cmds_of. apply flat_map_app. Qed.
Lemma cmds_of_sends {A} (f : A -> msg) l : cmds_of (map (fun x => ASend (f x)) l) = [].
Proof. induction l as [|x l IH]; [reflexivity|]. cbn [map cmds_of flat_map app] in *. exact IH. Qed.

Lemma send_request_view r r2 a : send_request r = (r2, a) -> rx_index r2 = rx_index r /\ cmds_of a = [].
Proof.
  unfold send_request. destruct (rx_left r) as [|[b l] rest]; intros [= <- <-]; split; reflexivity.
Qed.

Lemma npr_view cf b i l r a : new_piece_request cf b i l = (r, a) -> rx_index r = i /\ cmds_of a = [].
Proof.
  unfold new_piece_request. destruct (send_request (new_rx cf i l)) as [r1 a1] eqn:E1.
  destruct (send_request r1) as [r2 a2] eqn:E2. intros [= <- <-].
  apply send_request_view in E1. apply send_request_view in E2. destruct E1 as [I1 C1]. destruct E2 as [I2 C2].
  split; [rewrite I2, I1; reflexivity|]. rewrite !cmds_of_app, C1, C2. destruct b; reflexivity.
Qed.

Definition piece_reply_idx (r : option reply) : option N :=
  match r with Some (RPiece_Req i _) => Some i | _ => None end.

Lemma apf_view cf s0 pre r s' acts : h_rx s0 = None ->
  (after_piece_finish cf s0 pre r = HCont s' acts \/ after_piece_finish cf s0 pre r = HEnd s' acts true) ->
  cmds_of acts = cmds_of pre /\ hview s' = (piece_reply_idx r, h_choked s0).
Proof.
  intros H0 H. unfold after_piece_finish in H. unfold hview.
  destruct r as [[]|]; try (destruct H as [H|H]; discriminate).
  - destruct (new_piece_request cf false i len) as [r0 a0] eqn:E. apply npr_view in E. destruct E as [I C].
    destruct H as [H|H]; [|discriminate]. injection H as <- <-. rewrite cmds_of_app, C, app_nil_r. cbn. rewrite I. split; reflexivity.
  - destruct H as [H|H]; [|discriminate]. injection H as <- <-. rewrite cmds_of_app. cbn. rewrite app_nil_r, H0. split; reflexivity.
  - destruct H as [H|H]; [discriminate|]. injection H as <- <-. rewrite H0. split; reflexivity.
  - destruct H as [H|H]; [|discriminate]. injection H as <- <-. rewrite H0. split; reflexivity.
Qed.

Definition run_effects (ks : list hcmd) (r : option reply) (st : option N * bool) : option N * bool :=
  fold_left (fun st k => effect k r st) ks st.

Section Task.
  Variable sha1 : bytes -> bytes.
  Variable cf : hconf.
  Variable disk : bytes -> option bytes.
  Variable ovf : bool.

  Lemma handle_piece_view s i b block r s' acts :
    handle_piece sha1 cf s i b block r = HCont s' acts -> hview s' = run_effects (cmds_of acts) r (hview s).
  Proof.
    unfold handle_piece. destruct (h_rx s) as [rx|] eqn:Erx.
    2:{ intros [= <- <-]. reflexivity. }
    destruct (negb (is_requested rx i b block)); [intros [= <- <-]; reflexivity|].
    set (requested := filter _ (rx_requested rx)). set (buff := put_block (rx_buff rx) b block).
    cbn [rx_left rx_hash].
    assert (Gen : forall r2 a, send_request (mkrx (rx_index rx) (rx_hash rx) buff requested (rx_left rx)) = (r2, a) ->
                  HCont (set_rx s (Some r2)) a = HCont s' acts -> hview s' = run_effects (cmds_of acts) r (hview s)).
    { intros r2 a E [= <- <-]. apply send_request_view in E. destruct E as [I C]. rewrite C. unfold hview. cbn. rewrite Erx, I. reflexivity. }
    destruct (rx_left rx) as [|l0 lr] eqn:El.
    - destruct requested as [|q0 qr] eqn:Eq.
      + destruct (negb (bytes_eqb (sha1 buff) (rx_hash rx))); [discriminate|]. intros H.
        destruct (apf_view cf (set_rx s None) _ r s' acts eq_refl (or_introl H)) as [C V]. rewrite C, V.
        cbn [cmds_of flat_map app run_effects fold_left effect]. unfold piece_reply_idx. destruct r as [[]|]; reflexivity.
      + destruct (send_request _) as [r2 a] eqn:E. apply (Gen r2 a); first [reflexivity | exact E | rewrite El; exact E | rewrite <- El; exact E].
    - destruct requested; destruct (send_request _) as [r2 a] eqn:E; apply (Gen r2 a); first [reflexivity | exact E | rewrite El; exact E | rewrite <- El; exact E].
  Qed.

  Lemma handle_request_view s ri rb rl r s' acts :
    handle_request cf disk ovf s ri rb rl r = HCont s' acts -> hview s' = run_effects (cmds_of acts) r (hview s).
  Proof.
    unfold handle_request. set (pre := if need_ask s ri then [ACmd (KRequest ri)] else []).
    assert (P : forall st, run_effects (cmds_of pre) r st = st) by (intros st; unfold pre; destruct (need_ask s ri); reflexivity).
    destruct (load_tx cf disk s ri r) as [[t|]| | |]; try discriminate.
    - destruct (request_validate cf ovf ri rb rl (tx_index t) (len (tx_buff t))) as [u| | |]; try discriminate.
      destruct (len (tx_buff t) <? rb + rl); [discriminate|]. intros [= <- <-].
      rewrite cmds_of_app. cbn [cmds_of flat_map app]. rewrite app_nil_r. rewrite P. reflexivity.
    - intros [= <- <-]. rewrite P. reflexivity.
  Qed.

  Lemma init_handshake_view s id r s' acts :
    init_handshake cf s id r = HCont s' acts -> hview s' = run_effects (cmds_of acts) r (hview s).
  Proof. unfold init_handshake. destruct r as [[]|]; try discriminate. intros [= <- <-]. reflexivity. Qed.

  Theorem hstep_effect s ev r s' acts :
    hstep sha1 cf disk ovf s ev r = HCont s' acts -> hview s' = run_effects (cmds_of acts) r (hview s).
  Proof.
    destruct ev as [|m| | | |i|[[|]|]]; cbn [hstep].
    - destruct (h_peer_id s); [apply init_handshake_view | intros [= <- <-]; reflexivity].
    - unfold handle_frame.
      destruct (Handler_gate_on_handshake && negb (h_hs_done s) && negb match m with Handshake _ _ => true | _ => false end); [discriminate|].
      destruct m as [ih pid| | | | | |idx|bs|ri rb rl|pi pb blk|ci cb cl].
      + (* Handshake *)
        destruct (negb (bytes_eqb ih (c_info_hash cf))); [discriminate|].
        destruct (h_peer_id (set_ka s 0)).
        * destruct (negb (bytes_eqb pid b)); [discriminate|]. intros [= <- <-]. reflexivity.
        * intros H. apply init_handshake_view in H. exact H.
      + intros [= <- <-]. reflexivity.
      + intros [= <- <-]. reflexivity.
      + (* Unchoke *)
        destruct (Handler_ignore_repeated_unchoke && negb (h_choked (set_ka s 0))); [intros [= <- <-]; reflexivity|].
        assert (F : forall x, cmds_of (map (fun i => ASend (Wire.Have i)) (h_msg_buff (set_ka s 0)) ++ [ACmd KUnchoke] ++ x) = KUnchoke :: cmds_of x).
        { intros x. rewrite cmds_of_app, cmds_of_sends. reflexivity. }
        destruct r as [[]|]; try discriminate.
        * destruct (new_piece_request cf true i len) as [r0 a0] eqn:E. apply npr_view in E. destruct E as [I C].
          intros [= <- <-]. rewrite <- app_assoc, F, C. unfold hview. cbn. rewrite I. reflexivity.
        * destruct (new_piece_request cf false i len) as [r0 a0] eqn:E. apply npr_view in E. destruct E as [I C].
          intros [= <- <-]. rewrite <- app_assoc, F, C. unfold hview. cbn. rewrite I. reflexivity.
        * intros [= <- <-]. rewrite <- app_assoc, F. reflexivity.
        * intros [= <- <-]. rewrite <- (app_nil_r (_ ++ [ACmd KUnchoke])), <- app_assoc, F. reflexivity.
      + intros [= <- <-]. reflexivity.
      + destruct r as [[]|]; try discriminate. intros [= <- <-]. reflexivity.
      + (* Have *)
        destruct (c_pieces_num cf <=? idx); [discriminate|].
        destruct r as [[]|]; try discriminate.
        * destruct (new_piece_request cf true i len) as [r0 a0] eqn:E. apply npr_view in E. destruct E as [I C].
          intros [= <- <-]. rewrite ?cmds_of_app. unfold cmds_of at 1. cbn [flat_map app]. fold (cmds_of a0). rewrite C.
          unfold hview. cbn. rewrite I. reflexivity.
        * intros [= <- <-]. reflexivity.
        * intros [= <- <-]. reflexivity.
      + (* Bitfield *)
        destruct (negb (bitfield_validate bs (c_pieces_num cf))); [discriminate|].
        destruct r as [[]|]; try discriminate. intros [= <- <-].
        destruct with_unchoke; destruct am_interested; reflexivity.
      + intros H. apply handle_request_view in H. exact H.
      + intros H. apply handle_piece_view in H. exact H.
      + intros [= <- <-]. reflexivity.
    - discriminate.
    - change Handler_recv_error_terminates with true. cbv iota. discriminate.
    - destruct (h_keep_alive s =? peer_handler_KEEP_ALIVE_LIMIT); [discriminate|]. intros [= <- <-]. reflexivity.
    - (* a piece completed elsewhere *)
      assert (Ann : forall s0 s2 a2, (if h_choked s0 then (set_buff s0 (h_msg_buff s0 ++ [i]), []) else (s0, [ASend (Wire.Have i)])) = (s2, a2) ->
                    hview s2 = hview s0 /\ cmds_of a2 = []).
      { intros s0 s2 a2. destruct (h_choked s0); intros [= <- <-]; split; reflexivity. }
      destruct (h_rx s) as [rx|] eqn:Erx.
      + destruct (rx_index rx =? i).
        * set (pre := map _ (rx_requested rx) ++ [ACmd KPieceCancel]).
          destruct (after_piece_finish cf (set_rx s None) pre r) as [s1 a1|s1 a1 [|]|] eqn:E; try discriminate.
          -- destruct (apf_view cf (set_rx s None) pre r s1 a1 eq_refl (or_introl E)) as [C V].
             destruct (if h_choked s1 then _ else _) as [s2 a2] eqn:E2. destruct (Ann s1 s2 a2 E2) as [V2 C2].
             intros [= <- <-]. rewrite cmds_of_app, C, C2, app_nil_r, V2, V. unfold pre. rewrite cmds_of_app, cmds_of_sends.
             cbn. unfold piece_reply_idx. destruct r as [[]|]; reflexivity.
          -- destruct (apf_view cf (set_rx s None) pre r s1 a1 eq_refl (or_intror E)) as [C V].
             destruct (if h_choked s1 then _ else _) as [s2 a2] eqn:E2. destruct (Ann s1 s2 a2 E2) as [V2 C2].
             intros [= <- <-]. rewrite cmds_of_app, C, C2, app_nil_r, V2, V. unfold pre. rewrite cmds_of_app, cmds_of_sends.
             cbn. unfold piece_reply_idx. destruct r as [[]|]; reflexivity.
        * destruct (if h_choked s then _ else _) as [s2 a2] eqn:E2. destruct (Ann s s2 a2 E2) as [V2 C2].
          intros [= <- <-]. rewrite C2, V2. reflexivity.
      + destruct (if h_choked s then _ else _) as [s2 a2] eqn:E2. destruct (Ann s s2 a2 E2) as [V2 C2].
        intros [= <- <-]. rewrite C2, V2. reflexivity.
    - intros [= <- <-]. reflexivity.
    - intros [= <- <-]. reflexivity.
    - intros [= <- <-]. reflexivity.
  Qed.
End Task.

(* ---- steps of the manager that are not this peer's ------------------------------------------------------ *)
Definition cmd_addr (c : cmd) : addr :=
  match c with
  | CInit a _ | CChoke a | CUnchoke a | CInterested a | CNotInterested a | CHave a _ | CBitfield a _
  | CRequest a _ | CPieceDone a | CPieceCancel a | CSyncStats a _ _ | CKill a => a
  end.

Lemma peers_with_peer_other m b q a : b <> a -> pget (m_peers (with_peer m b q)) a = pget (m_peers m) a.
Proof. intros H. unfold with_peer. cbn [m_peers]. apply pget_pset_other. exact H. Qed.

Lemma pget_premove_other ps b a : b <> a -> pget (premove ps b) a = pget ps a.
Proof.
  intros Hn. induction ps as [|[k q] ps IH]; [reflexivity|]. cbn [premove pget].
  destruct (N.eqb_spec k b) as [->|Nk].
  - replace (b =? a) with false by (symmetry; apply N.eqb_neq; exact Hn). reflexivity.
  - cbn [pget]. rewrite IH. reflexivity.
Qed.

Lemma php_other m b p pk m' rep bc sp a : b <> a ->
  peer_handle_piece m b p pk = Ok (m', rep, bc, sp) -> pget (m_peers m') a = pget (m_peers m) a.
Proof.
  intros Hn H. unfold peer_handle_piece in H. destruct pk as [c|].
  - destruct (Peer_no_reserve_when_choked && p_choked p).
    + unfold out in H. injection H as <- _ _ _. apply peers_with_peer_other, Hn.
    + destruct (upd_status (m_status m) c incr) as [st| | |]; cbn [bind] in H; try discriminate.
      destruct (p_choked p).
      * unfold out in H. injection H as <- _ _ _. rewrite peers_with_peer_other by exact Hn. reflexivity.
      * destruct (plen_of m c) as [l| | |]; cbn [bind] in H; try discriminate. unfold out in H. injection H as <- _ _ _.
        rewrite peers_with_peer_other by exact Hn. reflexivity.
  - unfold out in H. injection H as <- _ _ _. apply peers_with_peer_other, Hn.
Qed.

(* what the rest of the manager may do to this peer's entry: keep it with its view, or (if absent) create it fresh *)
Definition EnvKeeps (a : addr) (m m' : mgr) : Prop :=
  match pget (m_peers m) a with
  | Some p => exists p', pget (m_peers m') a = Some p' /\ pview p' = pview p
  | None => forall p', pget (m_peers m') a = Some p' -> pview p' = (None, true)
  end.

Lemma keeps_same_peers a m m' : pget (m_peers m') a = pget (m_peers m) a -> EnvKeeps a m m'.
Proof.
  intros E. unfold EnvKeeps. destruct (pget (m_peers m) a) as [p|] eqn:Ep.
  - exists p. split; [exact E | reflexivity].
  - intros p' H. congruence.
Qed.

Lemma keeps_trans a m1 m2 m3 : EnvKeeps a m1 m2 -> EnvKeeps a m2 m3 -> EnvKeeps a m1 m3.
Proof.
  unfold EnvKeeps. intros H12 H23. destruct (pget (m_peers m1) a) as [p1|].
  - destruct H12 as (p2 & E2 & V2). rewrite E2 in H23. destruct H23 as (p3 & E3 & V3). exists p3. split; [exact E3 | congruence].
  - destruct (pget (m_peers m2) a) as [p2|] eqn:E2.
    + destruct H23 as (p3 & E3 & V3). intros p' H. rewrite E3 in H. injection H as <-. rewrite V3. apply H12. reflexivity.
    + exact H23.
Qed.

Lemma spawn_peer_keeps a m : EnvKeeps a m (fst (spawn_peer m)).
Proof.
  unfold spawn_peer. destruct (rev (m_candidates m)) as [|[a0 id] rest]; [apply keeps_same_peers; reflexivity|].
  destruct (pget (m_peers m) a0) eqn:E0; cbn [fst]; [apply keeps_same_peers; reflexivity|].
  destruct (N.eq_dec a0 a) as [->|Hn].
  - unfold EnvKeeps. rewrite E0. cbn [m_peers]. intros p' H. rewrite pget_pset_same in H. injection H as <-. reflexivity.
  - apply keeps_same_peers. cbn [m_peers]. apply pget_pset_other. exact Hn.
Qed.

(* an accepted incoming connection (repaired listener) leaves every connected peer's entry alone *)
Lemma accept_keeps a m b : EnvKeeps a m (fst (accept_peer_with true m b)).
Proof.
  unfold accept_peer_with. destruct (MAX_NOT_INTERESTED <=? _); [apply keeps_same_peers; reflexivity|].
  destruct (pget (m_peers m) b) eqn:Eb; cbn [andb fst]; [apply keeps_same_peers; reflexivity|].
  destruct (N.eq_dec b a) as [->|Hn].
  - unfold EnvKeeps. rewrite Eb. cbn [with_peer m_peers]. intros p' H. rewrite pget_pset_same in H. injection H as <-. reflexivity.
  - apply keeps_same_peers. cbn [with_peer m_peers]. apply pget_pset_other. exact Hn.
Qed.

Lemma mstep_other_keeps m c pk m' rep bc sp a : cmd_addr c <> a ->
  mstep m c pk = Ok (m', rep, bc, sp) -> EnvKeeps a m m'.
Proof.
  intros Hn H. destruct c as [b id|b|b|b|b|b i|b bits|b i|b|b|b d u|b]; cbn [cmd_addr] in Hn; cbn [mstep] in H.
  - destruct (pget (m_peers m) b) as [p|]; [|discriminate]. unfold out in H. injection H as <- _ _ _.
    apply keeps_same_peers, peers_with_peer_other, Hn.
  - destruct (pget (m_peers m) b) as [p|]; [|discriminate].
    destruct (match p_piece_index p with Some i => upd_status (m_status m) i decr | None => Ok (m_status m) end) as [st| | |];
      cbn [bind] in H; try discriminate. unfold out in H. injection H as <- _ _ _.
    apply keeps_same_peers. rewrite peers_with_peer_other by exact Hn. reflexivity.
  - destruct (pget (m_peers m) b) as [p|]; [|discriminate]. destruct pk as [c|].
    + destruct (upd_status (m_status m) c incr) as [st| | |]; cbn [bind] in H; try discriminate.
      destruct (plen_of m c) as [l| | |]; cbn [bind] in H; try discriminate. unfold out in H. injection H as <- _ _ _.
      apply keeps_same_peers. rewrite peers_with_peer_other by exact Hn. reflexivity.
    + unfold out in H. injection H as <- _ _ _. apply keeps_same_peers, peers_with_peer_other, Hn.
  - destruct (pget (m_peers m) b) as [p|]; [|discriminate]. unfold out in H. injection H as <- _ _ _.
    apply keeps_same_peers, peers_with_peer_other, Hn.
  - destruct (pget (m_peers m) b) as [p|]; [|discriminate]. unfold out in H. injection H as <- _ _ _.
    apply keeps_same_peers, peers_with_peer_other, Hn.
  - destruct (pget (m_peers m) b) as [p|]; [|discriminate].
    destruct (len (p_pieces p) <=? i); [discriminate|].
    destruct (nthN (m_status m) i) as [s0|]; [|discriminate].
    destruct (is_missing s0 && negb (p_am_interested p)).
    + destruct (negb (p_choked p) && match p_piece_index p with None => true | Some _ => false end).
      * destruct (plen_of m i) as [l| | |]; cbn [bind] in H; try discriminate. unfold out in H. injection H as <- _ _ _.
        apply keeps_same_peers. rewrite peers_with_peer_other by exact Hn. reflexivity.
      * unfold out in H. injection H as <- _ _ _. apply keeps_same_peers, peers_with_peer_other, Hn.
    + unfold out in H. injection H as <- _ _ _. apply keeps_same_peers, peers_with_peer_other, Hn.
  - destruct (pget (m_peers m) b) as [p|]; [|discriminate].
    destruct (to_vec bits (pieces_n m)) as [v|]; [|discriminate].
    destruct (negb (len v =? len (p_pieces p))); [discriminate|]. unfold out in H. injection H as <- _ _ _.
    apply keeps_same_peers, peers_with_peer_other, Hn.
  - destruct (pget (m_peers m) b) as [p|]; [|discriminate].
    assert (G : forall r0, out m r0 = Ok (m', rep, bc, sp) -> EnvKeeps a m m').
    { intros r0 H0. unfold out in H0. injection H0 as <- _ _ _. apply keeps_same_peers. reflexivity. }
    destruct (p_am_choked p); [exact (G _ H)|]. destruct (pieces_n m <=? i); [exact (G _ H)|].
    destruct (nthN (m_status m) i) as [s0|]; [|discriminate]. destruct (is_have s0); exact (G _ H).
  - destruct (pget (m_peers m) b) as [p|]; [|discriminate].
    destruct (p_piece_index p) as [i|]; [|discriminate].
    destruct (nthN (m_status m) i) as [s0|]; [|discriminate].
    destruct (peer_handle_piece _ b p pk) as [[[[m2 rep2] bc2] sp2]| | |] eqn:E; cbn [bind] in H; try discriminate.
    injection H as <- _ _ _. apply keeps_same_peers. rewrite (php_other _ b p pk m2 rep2 bc2 sp2 a Hn E). reflexivity.
  - destruct (pget (m_peers m) b) as [p|]; [|discriminate].
    destruct (p_piece_index p) as [i|]; [|discriminate].
    destruct (upd_status (m_status m) i decr) as [st0| | |]; cbn [bind] in H; try discriminate.
    apply keeps_same_peers. rewrite (php_other _ b p pk m' rep bc sp a Hn H). reflexivity.
  - destruct (pget (m_peers m) b) as [p|]; [|discriminate]. unfold out in H. injection H as <- _ _ _.
    apply keeps_same_peers, peers_with_peer_other, Hn.
  - (* another peer goes away: its entry is removed, a candidate may be connected *)
    destruct (kill_peer m b) as [m1| | |] eqn:Ek; cbn [bind] in H; try discriminate.
    assert (K1 : EnvKeeps a m m1).
    { apply keeps_same_peers. unfold kill_peer in Ek. destruct (pget (m_peers m) b) as [p|]; [|injection Ek as <-; reflexivity].
      destruct (match p_piece_index p with Some i => _ | None => Ok (m_status m) end) as [st| | |]; cbn [bind] in Ek; try discriminate.
      injection Ek as <-. cbn [m_peers]. apply pget_premove_other, Hn. }
    destruct (all_have (m_status m1)).
    + injection H as <- _ _ _. eapply keeps_trans; [exact K1|]. apply keeps_same_peers. reflexivity.
    + destruct (m_candidates m1) eqn:Ec.
      * injection H as <- _ _ _. exact K1.
      * destruct (spawn_peer m1) as [m2 sp2] eqn:Es. injection H as <- _ _ _.
        eapply keeps_trans; [exact K1|]. pose proof (spawn_peer_keeps a m1) as K2. rewrite Es in K2. exact K2.
Qed.

(* a connection is opened only to an address that has no entry yet: one task per address *)
Lemma spawn_only_absent m m' a : spawn_peer m = (m', [SpPeer a]) -> pget (m_peers m) a = None.
Proof.
  unfold spawn_peer. destruct (rev (m_candidates m)) as [|[a0 id] rest]; [discriminate|].
  destruct (pget (m_peers m) a0) eqn:E; [discriminate|]. intros [= _ <-]. exact E.
Qed.
Lemma spawn_at_most_one m : let sp := snd (spawn_peer m) in sp = [] \/ exists a, sp = [SpPeer a].
Proof.
  unfold spawn_peer. destruct (rev (m_candidates m)) as [|[a0 id] rest]; [left; reflexivity|].
  destruct (pget (m_peers m) a0); [left; reflexivity | right; eexists; reflexivity].
Qed.

(* choke rotations and tracker answers never touch the view *)
Definition PK (ps ps' : list (addr * peer)) : Prop :=
  forall a, match pget ps a with
            | Some p => exists p', pget ps' a = Some p' /\ pview p' = pview p
            | None => pget ps' a = None
            end.
Lemma PK_refl ps : PK ps ps.
Proof. intros a. destruct (pget ps a) as [p|]; [exists p; split; reflexivity | reflexivity]. Qed.
Lemma PK_trans p1 p2 p3 : PK p1 p2 -> PK p2 p3 -> PK p1 p3.
Proof.
  intros H12 H23 a. specialize (H12 a). specialize (H23 a). destruct (pget p1 a) as [x|].
  - destruct H12 as (y & E & V). rewrite E in H23. destruct H23 as (z & E3 & V3). exists z. split; [exact E3 | congruence].
  - rewrite H12 in H23. exact H23.
Qed.
Lemma PK_pset ps a0 p q : pget ps a0 = Some p -> pview q = pview p -> PK ps (pset ps a0 q).
Proof.
  intros E V a. destruct (N.eq_dec a0 a) as [->|Hn].
  - rewrite E, pget_pset_same. exists q. split; [reflexivity | exact V].
  - rewrite pget_pset_other by exact Hn. destruct (pget ps a) as [x|]; [exists x; split; reflexivity | reflexivity].
Qed.

Lemma rotate_go_PK new_opt : forall order ps count flips ps' fl,
  rotate_go ps order new_opt count flips = Ok (ps', fl) -> PK ps ps'.
Proof.
  induction order as [|a rest IH]; intros ps count flips ps' fl H; cbn [rotate_go] in H.
  - injection H as <- _. apply PK_refl.
  - destruct (pget ps a) as [p|] eqn:Ep; [|discriminate].
    destruct (if count <? MAX_UNCHOKED then _ else _) as [[am cnt] fl0].
    eapply PK_trans; [|eapply IH; exact H]. apply (PK_pset ps a p); [exact Ep | reflexivity].
Qed.

Lemma set_optimistic_PK : forall new_opt ps flips ps' fl,
  set_optimistic ps new_opt flips = Ok (ps', fl) -> PK ps ps'.
Proof.
  induction new_opt as [|a rest IH]; intros ps flips ps' fl H; cbn [set_optimistic] in H.
  - injection H as <- _. apply PK_refl.
  - destruct (pget ps a) as [p|] eqn:Ep; [|discriminate].
    eapply PK_trans; [|eapply IH; exact H]. apply (PK_pset ps a p); [exact Ep | reflexivity].
Qed.

Lemma PK_keeps a m m' : PK (m_peers m) (m_peers m') -> EnvKeeps a m m'.
Proof.
  intros H. specialize (H a). unfold EnvKeeps. destruct (pget (m_peers m) a) as [p|]; [exact H|].
  intros p' E. congruence.
Qed.

Lemma rotation_keeps a m rates new_opt m' fl : change_conn_state m rates new_opt = Ok (m', fl) -> EnvKeeps a m m'.
Proof.
  unfold change_conn_state. intros H.
  destruct (rotate_go (m_peers m) (map fst (sort_rates rates)) new_opt 0 []) as [[ps1 fl1]| | |] eqn:E1; cbn [bind] in H; try discriminate.
  cbn [fst snd] in H. destruct (set_optimistic ps1 new_opt fl1) as [[ps2 fl2]| | |] eqn:E2; cbn [bind] in H; try discriminate.
  injection H as <- _. apply PK_keeps. cbn [m_peers fst].
  eapply PK_trans; [eapply rotate_go_PK; exact E1 | eapply set_optimistic_PK; exact E2].
Qed.

Lemma spawn_n_keeps a : forall k m acc, EnvKeeps a m (fst (spawn_n k m acc)).
Proof.
  induction k as [|k IH]; intros m acc; cbn [spawn_n]; [apply keeps_same_peers; reflexivity|].
  destruct (spawn_peer m) as [m1 sp] eqn:E. eapply keeps_trans; [|apply IH].
  pose proof (spawn_peer_keeps a m) as K. rewrite E in K. exact K.
Qed.

Lemma tracker_resp_keeps a m peers : EnvKeeps a m (fst (handle_tracker_resp m peers)).
Proof.
  unfold handle_tracker_resp. eapply keeps_trans; [|apply spawn_n_keeps]. apply keeps_same_peers. reflexivity.
Qed.

(* ---- the composition ------------------------------------------------------------------------------- *)
Section Compose.
  Variable sha1 : bytes -> bytes.
  Variable cf : hconf.
  Variable disk : bytes -> option bytes.
  Variable ovf : bool.
  Variable a : addr.

  (* the manager's entry for a and the task agree *)
  Definition Pair (m : mgr) (s : hst) : Prop := forall p, pget (m_peers m) a = Some p -> pview p = hview s.

  (* the manager handles the task's commands in order; the exchange that has an answer gets r *)
  Fixpoint Deliver (m : mgr) (ks : list hcmd) (r : option reply) (m' : mgr) : Prop :=
    match ks with
    | [] => m' = m
    | k :: rest => exists pk m1 rep bc sp, mstep m (to_cmd a k) pk = Ok (m1, rep, bc, sp) /\
                                           (is_async k = false -> r = Some rep) /\ Deliver m1 rest r m'
    end.

  Lemma deliver_view r : forall ks m m' st,
    (forall p, pget (m_peers m) a = Some p -> pview p = st) -> Deliver m ks r m' ->
    forall p', pget (m_peers m') a = Some p' -> pview p' = run_effects ks r st.
  Proof.
    induction ks as [|k rest IH]; intros m m' st Hst HD p' Hp'; cbn [Deliver] in HD.
    - subst m'. cbn. apply Hst, Hp'.
    - destruct HD as (pk & m1 & rep & bc & sp & Hm & Hr & HD).
      destruct (mstep_effect m a k pk m1 rep bc sp Hm) as (p & p1 & Ep & Ep1 & V).
      cbn [run_effects fold_left]. apply (IH m1 m' (effect k r st)); [|exact HD|exact Hp'].
      intros q Hq. rewrite Ep1 in Hq. injection Hq as <-. rewrite V, (Hst p Ep).
      destruct k; cbn [is_async] in Hr; try (rewrite Hr by reflexivity; reflexivity); reflexivity.
  Qed.

  (* an event of this peer's task, with the manager's handling of what it sends *)
  Theorem pair_own m s ev r s' acts m' :
    Pair m s -> hstep sha1 cf disk ovf s ev r = HCont s' acts -> Deliver m (cmds_of acts) r m' -> Pair m' s'.
  Proof.
    intros HP HS HD p' Hp'. rewrite (hstep_effect sha1 cf disk ovf s ev r s' acts HS).
    apply (deliver_view r (cmds_of acts) m m'); [exact HP | exact HD | exact Hp'].
  Qed.

  (* anything else the manager does *)
  Theorem pair_env m s m' : Pair m s -> (exists p, pget (m_peers m) a = Some p) -> EnvKeeps a m m' -> Pair m' s.
  Proof.
    intros HP [p Ep] HK p' Hp'. unfold EnvKeeps in HK. rewrite Ep in HK. destruct HK as (q & Eq & V).
    rewrite Eq in Hp'. injection Hp' as <-. rewrite V. apply HP, Ep.
  Qed.

  (* a connection starts: the manager's fresh entry and the task's initial state agree *)
  Theorem pair_init m m' pid : pget (m_peers m) a = None -> EnvKeeps a m m' -> Pair m' (h_init pid).
  Proof. intros En HK p' Hp'. unfold EnvKeeps in HK. rewrite En in HK. rewrite (HK p' Hp'). reflexivity. Qed.

  (* ---- reachable compositions ---- *)
  Inductive creach : mgr -> hst -> Prop :=
  | cr_start m m' pid : pget (m_peers m) a = None -> EnvKeeps a m m' -> pget (m_peers m') a <> None -> creach m' (h_init pid)
  | cr_own m s ev r s' acts m' : creach m s -> hstep sha1 cf disk ovf s ev r = HCont s' acts ->
      Deliver m (cmds_of acts) r m' -> creach m' s'
  | cr_env m s m' : creach m s -> EnvKeeps a m m' -> creach m' s.

  Theorem pair_reachable m s : creach m s -> Pair m s /\ exists p, pget (m_peers m) a = Some p.
  Proof.
    induction 1 as [m m' pid En HK Hex|m s ev r s' acts m' _ [IH [p Ep]] HS HD|m s m' _ [IH [p Ep]] HK].
    - split; [apply (pair_init m m' pid En HK)|]. destruct (pget (m_peers m') a) as [p|]; [exists p; reflexivity | contradiction].
    - split; [apply (pair_own m s ev r s' acts m' IH HS HD)|].
      clear - HD Ep. revert m p Ep HD. induction (cmds_of acts) as [|k rest IHk]; intros m p Ep HD; cbn [Deliver] in HD.
      + subst m'. exists p. exact Ep.
      + destruct HD as (pk & m1 & rep & bc & sp & Hm & _ & HD).
        destruct (mstep_effect m a k pk m1 rep bc sp Hm) as (_ & p1 & _ & Ep1 & _). exact (IHk m1 p1 Ep1 HD).
    - split; [apply (pair_env m s m' IH (ex_intro _ p Ep) HK)|].
      unfold EnvKeeps in HK. rewrite Ep in HK. destruct HK as (q & Eq & _). exists q. exact Eq.
  Qed.

  (* C01: in every reachable composition, when the task completes a piece -- it has verified and written the piece
     with index rx_index rx -- and reports PieceDone, the piece the manager marks owned and broadcasts is that one *)
  Theorem done_marks_verified m s rx pk m' rep bc sp :
    creach m s -> h_rx s = Some rx -> mstep m (CPieceDone a) pk = Ok (m', rep, bc, sp) ->
    nthN (m_status m') (rx_index rx) = Some Manager.Have /\ bc = [BHave (rx_index rx)].
  Proof.
    intros HR Hrx Hm. destruct (pair_reachable m s HR) as [HP [p Ep]].
    pose proof (HP p Ep) as V. unfold pview, hview in V. rewrite Hrx in V. cbn [option_map] in V. injection V as Vi _.
    cbn [mstep] in Hm. rewrite Ep, Vi in Hm.
    destruct (nthN (m_status m) (rx_index rx)) as [s0|] eqn:Es; [|discriminate].
    remember (with_status m (sset (m_status m) (rx_index rx) Manager.Have)) as m1 eqn:Em1.
    destruct (peer_handle_piece m1 a p pk) as [[[[m2 rep2] bc2] sp2]| | |] eqn:E; cbn [bind] in Hm; try discriminate.
    injection Hm as <- _ <- _. split; [|reflexivity].
    assert (S1 : nthN (m_status m1) (rx_index rx) = Some Manager.Have).
    { rewrite Em1. cbn [with_status m_status]. rewrite nthN_sset, N.eqb_refl, Es. reflexivity. }
    clear Em1.
    (* the re-assignment that follows never turns an owned piece into something else *)
    unfold peer_handle_piece in E. destruct pk as [c|].
    - change (Peer_no_reserve_when_choked && p_choked p) with (p_choked p) in E. destruct (p_choked p).
      + unfold out in E. injection E as <- _ _ _. exact S1.
      + unfold upd_status in E. destruct (nthN (m_status m1) c) as [sc|] eqn:Ec; cbn [bind] in E; [|discriminate].
        destruct (plen_of m1 c) as [l| | |]; cbn [bind] in E; try discriminate. unfold out in E. injection E as <- _ _ _.
        cbn [with_peer with_status m_status]. rewrite nthN_sset. destruct (N.eqb_spec c (rx_index rx)) as [->|_]; [|exact S1].
        rewrite Ec. rewrite S1 in Ec. injection Ec as <-. reflexivity.
    - unfold out in E. injection E as <- _ _ _. exact S1.
  Qed.

  (* C12: the flag the manager consults before reserving is the task's own "peer chokes us" *)
  Theorem choked_flags_agree m s p : creach m s -> pget (m_peers m) a = Some p -> p_choked p = h_choked s.
  Proof. intros HR Ep. destruct (pair_reachable m s HR) as [HP _]. pose proof (HP p Ep) as V. injection V as _ Vc. exact Vc. Qed.
End Compose.

(* ---- non-vacuity: a reachable composition in which the task is assembling piece 0 and can complete it ---- *)
Definition ex_cf : hconf := mkconf [] [] 1 [[]].
Definition ex_sha1 (_ : bytes) : bytes := [].
Definition ex_disk (_ : bytes) : option bytes := None.
Definition ex_m0 : mgr := mkmgr [Missing] [] [] 0 false [1].
Definition ex_m1 : mgr := with_peer ex_m0 1 (new_peer None 1).
Definition st_of (o : outcome) : hst := match o with HCont s _ => s | HEnd s _ _ => s | HPanic _ => h_init None end.
Definition mg_of (r : result step_out) : mgr := match r with Ok (m, _, _, _) => m | _ => ex_m0 end.
Definition ex_hs := hstep ex_sha1 ex_cf ex_disk true.
Definition ex_s1 := st_of (ex_hs (h_init None) (EFrame (Handshake [] [7])) (Some (RBitfield [false]))).
Definition ex_m2 := mg_of (mstep ex_m1 (CInit 1 [7]) None).
Definition ex_s2 := st_of (ex_hs ex_s1 (EFrame (Wire.Have 0)) (Some RHave_Int)).
Definition ex_m3 := mg_of (mstep ex_m2 (CHave 1 0) None).
Definition ex_s3 := st_of (ex_hs ex_s2 (EFrame Unchoke) (Some (RUnchoke_Req 0 1))).
Definition ex_m4 := mg_of (mstep ex_m3 (CUnchoke 1) (Some 0)).

Ltac own_step R ev r pk :=
  eapply (cr_own ex_sha1 ex_cf ex_disk true 1 _ _ ev r);
  [ exact R | vm_compute; reflexivity
  | cbn [cmds_of flat_map app Deliver]; exists pk; eexists _, _, _, _; split; [vm_compute; reflexivity|];
    split; [intros _; reflexivity | reflexivity] ].

Example composition_reaches_a_download :
  creach ex_sha1 ex_cf ex_disk true 1 ex_m4 ex_s3 /\
  (exists rx, h_rx ex_s3 = Some rx /\ rx_index rx = 0) /\
  exists m' rep sp, mstep ex_m4 (CPieceDone 1) None = Ok (m', rep, [BHave 0], sp).
Proof.
  split.
  - assert (R0 : creach ex_sha1 ex_cf ex_disk true 1 ex_m1 (h_init None)).
    { apply (cr_start ex_sha1 ex_cf ex_disk true 1 ex_m0 ex_m1 None); [reflexivity| |discriminate].
      unfold EnvKeeps. cbn. intros p' [= <-]. reflexivity. }
    assert (R1 : creach ex_sha1 ex_cf ex_disk true 1 ex_m2 ex_s1).
    { own_step R0 (EFrame (Handshake [] [7])) (Some (RBitfield [false])) (@None N). }
    assert (R2 : creach ex_sha1 ex_cf ex_disk true 1 ex_m3 ex_s2).
    { own_step R1 (EFrame (Wire.Have 0)) (Some RHave_Int) (@None N). }
    own_step R2 (EFrame Unchoke) (Some (RUnchoke_Req 0 1)) (Some 0).
  - split; [eexists; split; vm_compute; reflexivity|]. eexists _, _, _. vm_compute. reflexivity.
Qed.

(* ---- a tracker answer opens one connection per address, to addresses without an entry only ------------------ *)
Definition spawned_addrs (sp : list spawn) : list addr := flat_map (fun x => match x with SpPeer a => [a] | _ => [] end) sp.

Lemma spawn_peer_cases m :
  (snd (spawn_peer m) = [] /\ m_peers (fst (spawn_peer m)) = m_peers m) \/
  (exists a, snd (spawn_peer m) = [SpPeer a] /\ pget (m_peers m) a = None /\
             m_peers (fst (spawn_peer m)) = pset (m_peers m) a (new_peer (match rev (m_candidates m) with (_, id) :: _ => Some id | [] => None end)
                                                                        (length (m_plens m)))).
Proof.
  unfold spawn_peer. destruct (rev (m_candidates m)) as [|[a id] rest]; [left; split; reflexivity|].
  destruct (pget (m_peers m) a) eqn:E; cbn [fst snd m_peers]; [left; split; reflexivity|].
  right. exists a. repeat split. exact E.
Qed.

Lemma spawn_n_distinct : forall k m acc,
  exists new, spawned_addrs (snd (spawn_n k m acc)) = spawned_addrs acc ++ new /\ NoDup new /\
              (forall a, In a new -> pget (m_peers m) a = None) /\
              (forall a, pget (m_peers m) a <> None -> pget (m_peers (fst (spawn_n k m acc))) a <> None).
Proof.
  induction k as [|k IH]; intros m acc; cbn [spawn_n].
  - exists []. rewrite app_nil_r. repeat split; [constructor | intros a [] | auto].
  - destruct (spawn_peer m) as [m1 sp] eqn:E.
    pose proof (spawn_peer_cases m) as C. rewrite E in C. cbn [fst snd] in C.
    destruct (IH m1 (acc ++ sp)) as (new & Hs & Hnd & Habs & Hkeep).
    destruct C as [[-> Hp]|(a & -> & Ha & Hp)].
    + exists new. rewrite app_nil_r in *. split; [exact Hs|]. split; [exact Hnd|]. rewrite Hp in *. split; assumption.
    + exists (a :: new). unfold spawned_addrs in Hs |- *. rewrite flat_map_app in Hs. cbn [flat_map app] in Hs. rewrite <- app_assoc in Hs.
      split; [exact Hs|]. rewrite Hp in *.
      assert (Hin : ~ In a new).
      { intros Hi. specialize (Habs a Hi). rewrite pget_pset_same in Habs. discriminate. }
      split; [constructor; assumption|]. split.
      * intros b [<-|Hb]; [exact Ha|]. specialize (Habs b Hb).
        destruct (N.eq_dec a b) as [->|Hn]; [exact Ha | rewrite pget_pset_other in Habs by exact Hn; exact Habs].
      * intros b Hb. apply Hkeep. destruct (N.eq_dec a b) as [->|Hn]; [rewrite pget_pset_same; discriminate | rewrite pget_pset_other by exact Hn; exact Hb].
Qed.

(* the addresses a tracker answer connects to are pairwise distinct and had no entry: one task per address *)
Theorem tracker_resp_one_task_per_address m peers :
  let sp := spawned_addrs (snd (handle_tracker_resp m peers)) in
  NoDup sp /\ forall a, In a sp -> pget (m_peers m) a = None.
Proof.
  cbv zeta. unfold handle_tracker_resp.
  destruct (spawn_n_distinct (N.to_nat (MAX_UNCHOKED + MAX_OPTIMISTIC - len (filter (fun kp => p_am_interested (snd kp)) (m_peers m))))
                             (mkmgr (m_status m) (m_peers m) (m_candidates m ++ peers) (m_round m) (m_extracted m) (m_plens m)) [])
    as (new & Hs & Hnd & Habs & _).
  cbn [spawned_addrs flat_map app] in Hs. rewrite Hs. split; [exact Hnd | exact Habs].
Qed.
