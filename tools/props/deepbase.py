"""Deeply nested well-formed documents, decoded one per process (native stack exhaustion aborts the process)."""
from driver import Case


class DeepPart:
    harness_isolate = True
    harness_timeout = 600
    coq_timeout = 300
    allowed_axioms = []
    model_targets = ["Pack.vo", "Corr/Deep.vo"]
    coq_header = "From Rdest Require Import Base Corr.Deep.\nOpen Scope N_scope.\nDefinition codes := codes.\n"
    classes = {2: "stack-exhaustion-on-deep-nesting"}
    rule = ""
    assumptions = []
    DEPTHS = [1, 2, 17, 100, 300, 500, 999, 2000, 5000, 20000, 100000]      # below 400 the process must survive

    def __init__(self, pid, sub, cmd, prefix, suffix, what):
        self.id, self.harness_sub, self.cmd, self.prefix, self.suffix = pid, sub, cmd, prefix, suffix
        self.corr_name = what + " on deeply nested documents (one process per case)"

    @staticmethod
    def nest(depth, shape):
        if shape == "list":
            return b"l" * depth + b"e" * depth
        if shape == "dict":
            return b"d1:a" * depth + b"le" + b"e" * depth
        return b"ld1:a" * (depth // 2) + b"le" + b"ee" * (depth // 2)

    def mk(self, depth, shape):
        doc = self.prefix + self.nest(depth, shape) + self.suffix
        return Case("%s %s" % (self.cmd, doc.hex()), "deep-%s" % shape, {"depth": depth, "shape": shape})

    def coq_case(self, c, out):
        out = out.strip()
        outcome = 2 if out == "CRASH" else (0 if out.startswith("OK") else 1)
        return "CDeep %d %d" % (c.info["depth"], outcome)

    def model_term(self, c):
        return "(%s)" % c.term

    def corpus(self):
        # 400000 levels: the witness of the known finding (the process dies: native stack exhausted)
        return [self.mk(10, "list"), self.mk(300, "dict"), self.mk(350, "list"), self.mk(400000, "list")]

    def gen(self, rng, tier):
        k = {"quick": 12, "thorough": 60, "search": 30}.get(tier, 12)
        return [self.mk(rng.choice(self.DEPTHS), rng.choice(["list", "dict", "alt"])) for _ in range(k)]
