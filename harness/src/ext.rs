//! Extractor (C03, C04): runs the real Extractor in a canary directory tree and
//! lists everything it created.
//!
//! case line:  ext <token> <doc hex> <piece length> <content>
//! Piece files are written for every piece index i < pieces_num() as
//! content[i*pl .. min((i+1)*pl, len)], named by Metainfo::piece(i).
//! Output: REFUSED | PARSEPANIC | <DONE|FAIL|PANIC> <entry>,<entry>...
//!   entry = <hex of path relative to cwd (may start with ../) or absolute>=<hex content | D>
use crate::util::*;
use rdest::verif::{Extractor, ExtractorCmd};
use rdest::Metainfo;
use std::path::{Path, PathBuf};

fn list(root: &Path, rel_to: &Path, out: &mut Vec<(String, String)>, skip: &dyn Fn(&Path) -> bool) {
    let rd = match std::fs::read_dir(root) {
        Ok(r) => r,
        Err(_) => return,
    };
    for e in rd.flatten() {
        let p = e.path();
        if skip(&p) {
            continue;
        }
        let shown = rel(&p, rel_to);
        let md = match std::fs::symlink_metadata(&p) {
            Ok(m) => m,
            Err(_) => continue,
        };
        if md.is_dir() {
            out.push((shown, "D".to_string()));
            list(&p, rel_to, out, skip);
        } else {
            let data = std::fs::read(&p).unwrap_or_default();
            out.push((shown, hex(&data)));
        }
    }
}

/// path relative to `base` using ../ where needed (both absolute, no symlinks involved)
fn rel(p: &Path, base: &Path) -> String {
    use std::os::unix::ffi::OsStrExt;
    let pc: Vec<_> = p.components().collect();
    let bc: Vec<_> = base.components().collect();
    let mut i = 0;
    while i < pc.len() && i < bc.len() && pc[i] == bc[i] {
        i += 1;
    }
    let mut r = PathBuf::new();
    for _ in i..bc.len() {
        r.push("..");
    }
    for c in &pc[i..] {
        r.push(c.as_os_str());
    }
    hex(r.as_os_str().as_bytes())
}

pub fn run(lines: &[String]) {
    let rt = tokio::runtime::Builder::new_current_thread().enable_all().build().unwrap();
    let scratch = std::env::temp_dir().join(format!("rdest-verif-ext-{}", std::process::id()));
    let home = std::env::current_dir().unwrap();
    for line in lines {
        let mut t = line.split_whitespace();
        assert_eq!(t.next(), Some("ext"));
        let token = t.next().unwrap().to_string();
        let doc = unhex(t.next().unwrap());
        let pl: usize = t.next().unwrap().parse().unwrap();
        let content = unhex(t.next().unwrap());
        let m = match guarded(|| Metainfo::from_bencode(&doc)) {
            None => {
                println!("PARSEPANIC");
                continue;
            }
            Some(Err(_)) => {
                println!("REFUSED");
                continue;
            }
            Some(Ok(m)) => m,
        };
        let _ = std::fs::remove_dir_all(&scratch);
        let canary = scratch.join("canary");
        let cwd = canary.join("l1/l2/l3/l4/l5/cwd");
        let store = cwd.join(".store"); // piece files live in cwd itself (the client's layout)
        let _ = store;
        std::fs::create_dir_all(&cwd).unwrap();
        let absroot = PathBuf::from("/tmp/rdvabs").join(&token);
        let _ = std::fs::remove_dir_all(&absroot);
        std::env::set_current_dir(&cwd).unwrap();
        // piece files
        let mut piece_names: Vec<String> = vec![];
        for i in 0..m.pieces_num() {
            let a = std::cmp::min(i.saturating_mul(pl), content.len());
            let b = std::cmp::min(a.saturating_add(pl), content.len());
            let name: String = m.piece(i).iter().map(|b| format!("{:02X}", b)).collect::<String>() + ".piece";
            std::fs::write(&name, &content[a..b]).unwrap();
            piece_names.push(name);
        }
        let (tx, mut rx) = tokio::sync::mpsc::channel::<ExtractorCmd>(4);
        let mm = m.clone();
        let status = guarded(|| {
            rt.block_on(async {
                let mut ex = Extractor::new(mm, tx);
                ex.run().await;
                rx.recv().await
            })
        });
        let st = match status {
            None => "PANIC",
            Some(Some(ExtractorCmd::Done)) => "DONE",
            Some(Some(ExtractorCmd::Fail(_))) => "FAIL",
            Some(None) => "NOCMD",
        };
        std::env::set_current_dir(&home).unwrap();
        let mut entries: Vec<(String, String)> = vec![];
        let cwd2 = cwd.clone();
        let names = piece_names.clone();
        let skip = move |p: &Path| -> bool {
            // the piece store and the scaffolding directories themselves are not "created by the extractor"
            if p.parent() == Some(cwd2.as_path()) {
                if let Some(n) = p.file_name().and_then(|n| n.to_str()) {
                    if names.iter().any(|x| x == n) {
                        return true;
                    }
                }
            }
            false
        };
        list(&canary, &cwd, &mut entries, &skip);
        // scaffolding dirs l1..cwd appear as "..", "../..", ...: drop entries that are ancestors of cwd or cwd itself
        let entries: Vec<(String, String)> = entries
            .into_iter()
            .filter(|(p, d)| {
                let raw = String::from_utf8_lossy(&unhex(p)).to_string();
                !(d == "D" && (raw.is_empty() || raw.split('/').all(|c| c == "..")))
            })
            .collect();
        let mut all = entries;
        if absroot.exists() {
            let mut abs: Vec<(String, String)> = vec![];
            list(&absroot, Path::new("/"), &mut abs, &|_| false);
            for (p, d) in abs {
                let raw = unhex(&p);
                let mut full = b"/".to_vec();
                full.extend_from_slice(&raw);
                all.push((hex(&full), d));
            }
        }
        let _ = std::fs::remove_dir_all(&absroot);
        let _ = std::fs::remove_dir_all(&scratch);
        all.sort();
        let v: Vec<String> = all.iter().map(|(p, d)| format!("{}={}", p, d)).collect();
        println!("{} {}", st, if v.is_empty() { "-".to_string() } else { v.join(",") });
    }
    let _ = std::fs::remove_dir_all(&scratch);
}
