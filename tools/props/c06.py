"""C06 — peer stream decoding is total, segmentation-independent and bounded."""
import itertools, struct
from driver import Case
from vlib import coq_bytes
from c07 import frame_to_coq
from hndbase import hs, wmsg, INFO_HASH, PEER_ID, BLOCK


def rmsg(rng):
    """(bytes, tag): a complete message, well-formed or not"""
    r = rng.random()
    if r < 0.08:
        return struct.pack(">I", 0), "keepalive"
    if r < 0.30:
        return wmsg(rng.choice([0, 1, 2, 3])), "fixed"
    if r < 0.40:
        return wmsg(4, struct.pack(">I", rng.choice([0, 1, 2 ** 32 - 1]))), "have"
    if r < 0.48:
        return wmsg(5, bytes(rng.randrange(256) for _ in range(rng.choice([0, 1, 3])))), "bitfield"
    if r < 0.58:
        return wmsg(rng.choice([6, 8]), struct.pack(">III", rng.randrange(5), rng.choice([0, BLOCK]), rng.choice([1, BLOCK]))), "request"
    if r < 0.66:
        return wmsg(7, struct.pack(">II", rng.randrange(3), 0) + bytes(rng.randrange(256) for _ in range(rng.choice([0, 1, 5])))), "piece"
    if r < 0.68:
        return hs(), "handshake"
    if r < 0.70:   # a handshake with exactly one byte of its fixed beginning (length byte + protocol name) off
        h = bytearray(hs())
        k = rng.randrange(20)
        h[k] ^= rng.choice([1, 0x20, 0x80, 0xff])
        return bytes(h), "handshake-deviation"
    if r < 0.82:   # unknown id with a body
        return wmsg(rng.choice([9, 10, 20, 83, 84, 84, 85, 255]), bytes(rng.randrange(256) for _ in range(rng.choice([0, 1, 2, 7])))), "unknown"
    if r < 0.92:   # wrong length prefix on a fixed-size / minimum-size message
        mid = rng.choice([0, 1, 2, 3, 4, 6, 7, 8])
        ln = rng.choice([2, 3, 6, 12, 14, 8])
        return struct.pack(">IB", ln, mid) + bytes(max(0, ln - 1)), "wronglen"
    if r < 0.96:   # oversized frame
        return struct.pack(">IB", rng.choice([65537, 2 ** 31, 2 ** 32 - 1]), rng.choice([5, 7, 9])) + b"xx", "oversize"
    return bytes(rng.randrange(256) for _ in range(rng.randrange(1, 9))), "garbage"


def cuts_all(stream):
    n = len(stream)
    for mask in range(2 ** (n - 1)):
        out, cur = [], bytearray([stream[0]])
        for i in range(1, n):
            if mask >> (i - 1) & 1:
                out.append(bytes(cur))
                cur = bytearray()
            cur.append(stream[i])
        out.append(bytes(cur))
        yield out


def cut_random(rng, stream, bounds):
    pts = set()
    for b in bounds:
        for d in (-2, -1, 0, 1, 2):
            if rng.random() < 0.35 and 0 < b + d < len(stream):
                pts.add(b + d)
    for _ in range(rng.randrange(0, 4)):
        if len(stream) > 1:
            pts.add(rng.randrange(1, len(stream)))
    pts = sorted(pts)
    out, prev = [], 0
    for p in pts + [len(stream)]:
        if p > prev:
            out.append(stream[prev:p])
            prev = p
    return out


class C06:
    id = "C06"
    harness_sub = "conn"
    harness_timeout = 900
    coq_timeout = 1200
    model_targets = ["Pack.vo", "Corr/C06.vo"]
    proof_target = "Props/C06.vo"
    theorems = ["C06_total", "C06_bounded", "C06_progress", "C06_error_terminates", "C06_segmentation", "C06_any_two_cuts_agree", "C06_meaning_exists", "C06_exec_segmentation", "C06_unknown_id_skipped", "C06_complete_message_delivered", "C06_items_decode", "C06_items_any_cut"]
    allowed_axioms = []
    coq_header = "From Rdest Require Import Base Consts Wire Conn Corr.C06.\nOpen Scope N_scope.\n"
    corr_name = "Connection::recv_frame / parse_frame vs Conn.v"
    classes = {}
    rule = ("byte streams from a message grammar (all eleven kinds, unknown ids with bodies, wrong length prefixes, oversized "
            "frames, garbage, truncation, end of stream) written to the real Connection over an in-memory pipe in scripted "
            "pieces: ALL 2^(n-1) segmentations of every short stream (up to 9 bytes in the quick tier, 12 in the thorough "
            "tier), cuts at message boundaries +-2 and random cuts otherwise; after every piece recv_frame is called until "
            "it is pending. Oracle: after every prefix exactly the messages of that prefix were delivered, the buffered "
            "remainder is the undecoded rest (< one maximum frame), no panic, malformed input ends the connection. "
            "Non-trivial: streams with at least two messages or a malformed one; distinct lines.")
    statement_status = "see Props/C06.v"
    assumptions = []
    coq_chunk = 150

    def mk(self, chunks, eof, kind, info=None):
        toks = [c.hex() for c in chunks if c] + (["EOF"] if eof else [])
        return Case("conn " + ",".join(toks), kind, info or {"chunks": [c.hex()[:40] for c in chunks][:12], "eof": eof})

    def corpus(self):
        u = wmsg(9, b"\xaa\xbb")
        return [self.mk([u[:6], u[6:] + wmsg(0)], False, "corpus"), self.mk([u + wmsg(0)], False, "corpus"),
                self.mk([struct.pack(">IB", 2, 0) + b"\0"], True, "corpus"), self.mk([wmsg(9, b"\1\2\3")[:5]], True, "corpus"),
                self.mk([struct.pack(">IB", 65537, 7)], False, "corpus"), self.mk([wmsg(4, b"\0\0\0\1")[:7]], True, "corpus"),
                self.mk([hs()[:30], hs()[30:]], True, "corpus")] + [
                    self.mk([bytes(b ^ (0x20 if i == k else 0) for i, b in enumerate(hs())) + wmsg(0)], False, "corpus-handshake-deviation")
                    for k in range(20)]

    def gen(self, rng, tier):
        cases = []
        nshort = {"quick": 12, "thorough": 40, "search": 25}.get(tier, 12)
        maxlen = {"quick": 9, "thorough": 12, "search": 10}.get(tier, 9)
        for _ in range(nshort):
            stream = b""
            while len(stream) < 5:
                stream += rmsg(rng)[0]
            stream = stream[:maxlen]
            eof = rng.random() < 0.5
            for chunks in cuts_all(stream):
                c = self.mk(chunks, eof, "exhaustive-cuts")
                cases.append(c)
        nlong = {"quick": 300, "thorough": 6000, "search": 1500}.get(tier, 300)
        for _ in range(nlong):
            parts, tags, bounds = [], [], []
            for _ in range(rng.choice([1, 2, 3, 5, 8])):
                b, tag = rmsg(rng)
                parts.append(b)
                tags.append(tag)
                bounds.append(sum(map(len, parts)))
            stream = b"".join(parts)
            if rng.random() < 0.2 and len(stream) > 1:
                stream = stream[:rng.randrange(1, len(stream))]
                tags.append("truncated")
            cases.append(self.mk(cut_random(rng, stream, bounds), rng.random() < 0.5, "+".join(sorted(set(tags)))))
        return cases

    def coq_case(self, c, out):
        toks = c.line.split()[1].split(",") if len(c.line.split()) > 1 else []
        chunks = ["[]" if t == "EOF" else coq_bytes(bytes.fromhex(t)) for t in toks]
        out = out.strip()
        obs = []
        if out != "-":
            for o in out.split(" ; "):
                items = o.split("|")
                frames = [frame_to_coq(x[2:]) for x in items[:-1]]
                t = items[-1]
                term = "TClosed" if t == "C" else "TErr" if t.startswith("E") else "TCrash" if t == "X" else "(TPending %s)" % t[1:]
                obs.append("([%s], %s)" % (";".join(frames), term))
        return "CConn [%s] [%s]" % (";".join(chunks[:len(obs)]), ";".join(obs))

    def model_term(self, c):
        return "(code (%s))" % c.term


PROP = C06()
