//! Bencode: BDecoder::from_array, BEncoder (C15, C16) and helpers shared with C05/C17/C19.
use crate::util::*;
use rdest::verif::BEncoder;
use rdest::{BDecoder, BValue};
use std::collections::HashMap;

/// Gallina-like rendering; byte strings as #hex#, dictionaries sorted by key.
pub fn show(v: &BValue) -> String {
    match v {
        BValue::Int(i) => {
            if *i < 0 {
                format!("(BInt ({}))", i)
            } else {
                format!("(BInt {})", i)
            }
        }
        BValue::ByteStr(s) => format!("(BStr #{}#)", hex(s)),
        BValue::List(l) => format!("(BList {})", show_list(l)),
        BValue::Dict(d) => {
            let mut e: Vec<_> = d.iter().collect();
            e.sort_by(|a, b| a.0.cmp(b.0));
            let parts: Vec<String> = e.iter().map(|(k, v)| format!("(#{}#, {})", hex(k), show(v))).collect();
            format!("(BDict [{}])", parts.join("; "))
        }
    }
}

pub fn show_list(l: &[BValue]) -> String {
    let parts: Vec<String> = l.iter().map(show).collect();
    format!("[{}]", parts.join("; "))
}

pub fn dec_line(doc: &[u8]) -> String {
    match guarded(|| BDecoder::from_array(doc)) {
        None => "PANIC".to_string(),
        Some(Ok(vs)) => format!("OK {}", show_list(&vs)),
        Some(Err(_)) => "ERR".to_string(),
    }
}

/// value syntax: `i <num>` | `s <hex>` | `l <n> v1..vn` | `d <n> (<hexkey> v)*`
pub fn read_value<'a>(it: &mut impl Iterator<Item = &'a str>) -> BValue {
    match it.next().unwrap() {
        "i" => BValue::Int(it.next().unwrap().parse().unwrap()),
        "s" => BValue::ByteStr(unhex(it.next().unwrap())),
        "l" => {
            let n: usize = it.next().unwrap().parse().unwrap();
            BValue::List((0..n).map(|_| read_value(it)).collect())
        }
        "d" => {
            let n: usize = it.next().unwrap().parse().unwrap();
            let mut m = HashMap::new();
            for _ in 0..n {
                let k = unhex(it.next().unwrap());
                let v = read_value(it);
                m.insert(k, v);
            }
            BValue::Dict(m)
        }
        t => panic!("bad value token {}", t),
    }
}

pub fn encode(v: &BValue) -> Vec<u8> {
    let mut e = BEncoder::new();
    match v {
        BValue::Int(i) => e.add_int(*i),
        BValue::ByteStr(s) => e.add_byte_str(s),
        BValue::List(l) => e.add_list(l),
        BValue::Dict(d) => e.add_dict(d),
    };
    e.encode().clone()
}

fn enumerate(alpha: &[u8], n: usize, cur: &mut Vec<u8>, out: &mut Vec<String>) {
    if cur.len() == n {
        if let Ok(vs) = BDecoder::from_array(cur) {
            out.push(format!("{}={}", hex(cur), show_list(&vs)));
        }
        return;
    }
    for c in alpha {
        cur.push(*c);
        enumerate(alpha, n, cur, out);
        cur.pop();
    }
}

pub fn run(lines: &[String]) {
    for line in lines {
        let mut t = line.split_whitespace();
        match t.next() {
            Some("dec") => println!("{}", dec_line(&unhex(t.next().unwrap()))),
            Some("enum") => {
                let alpha = unhex(t.next().unwrap());
                let n: usize = t.next().unwrap().parse().unwrap();
                let prefix = unhex(t.next().unwrap_or("-"));
                let r = guarded(|| {
                    let mut out = vec![];
                    enumerate(&alpha, prefix.len() + n, &mut prefix.clone(), &mut out);
                    out
                });
                match r {
                    None => println!("PANIC"),
                    Some(o) => println!("ACC {} {}", o.len(), o.join("|")),
                }
            }
            Some("encdec") => {
                let r = guarded(|| {
                    let v = read_value(&mut t);
                    let e = encode(&v);
                    (hex(&e), dec_line(&e))
                });
                match r {
                    None => println!("PANIC"),
                    Some((e, d)) => println!("ENC {} DEC {}", e, d),
                }
            }
            Some("reenc") => {
                let doc = unhex(t.next().unwrap());
                let r = guarded(|| match BDecoder::from_array(&doc) {
                    Ok(vs) => {
                        let mut out = vec![];
                        for v in vs.iter() {
                            out.extend_from_slice(&encode(v));
                        }
                        format!("OK {} REENC {}", show_list(&vs), hex(&out))
                    }
                    Err(_) => "ERR".to_string(),
                });
                println!("{}", r.unwrap_or("PANIC".to_string()));
            }
            _ => panic!("bad case"),
        }
    }
}
