(* Correspondence for C15 (encoder and round trips). *)
From Rdest Require Import Base BCodec BGrammar.
Open Scope N_scope.

Inductive case :=
| CEncDec (v : bvalue) (impl_enc : bytes) (impl_dec : result (list bvalue))
| CReenc (doc : bytes) (impl_dec : result (list bvalue)) (impl_reenc : bytes).

Definition code (c : case) : N :=
  match c with
  | CEncDec v e d =>
      let k := bytes_eqb (encode v) e && res_values_eqb (decode e) d in
      let o := canonicalb e && res_values_eqb d (Ok [v]) in
      (if k then 0 else 1) + (if o then 0 else 2)
  | CReenc doc d r =>
      let k := res_values_eqb (decode doc) d
               && match decode doc with Ok vs => bytes_eqb (concat (map encode vs)) r | _ => true end in
      let o := if canonicalb doc then is_ok d && bytes_eqb r doc else true in
      (if k then 0 else 1) + (if o then 0 else 2)
  end.
Definition codes (cs : list case) : list N := map code cs.
