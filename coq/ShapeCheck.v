(* ShapeCheck.v — the models cover the whole vocabulary of the code.

   Shape.v is regenerated from /repo's sources on every run (tools/gen_consts.py): the variant names of the enums
   the models mirror.  Here each list is compared with the constructors the model has for it.  A variant added,
   removed or renamed in the code makes this file fail to compile: the tie is then broken until the model (and the
   proofs by case analysis over these types) are brought up to date. *)
From Coq Require Import String List.
Import ListNotations.
From Rdest Require Import Shape.
Open Scope string_scope.

(* commands of the connection tasks to the manager: Manager.cmd / Handler.hcmd
   (CInit CChoke CUnchoke CInterested CNotInterested CHave CBitfield CRequest CPieceDone CPieceCancel CSyncStats CKill) *)
Example PeerCmd_covered : shape_PeerCmd =
  ["Init"; "RecvChoke"; "RecvUnchoke"; "RecvInterested"; "RecvNotInterested"; "RecvHave"; "RecvBitfield"; "RecvRequest";
   "PieceDone"; "PieceCancel"; "SyncStats"; "KillReq"].
Proof. reflexivity. Qed.
(* the manager's answers: Manager.reply (RBitfield | RUnchoke_* | RNotInt_* | RHave_* | RBitfieldState | RReq_* | RPiece_* ) *)
Example InitCmd_covered : shape_InitCmd = ["SendBitfield"]. Proof. reflexivity. Qed.
Example UnchokeCmd_covered : shape_UnchokeCmd = ["SendInterestedAndRequest"; "SendRequest"; "SendNotInterested"; "Ignore"]. Proof. reflexivity. Qed.
Example NotInterestedCmd_covered : shape_NotInterestedCmd = ["PrepareKill"; "Ignore"]. Proof. reflexivity. Qed.
Example HaveCmd_covered : shape_HaveCmd = ["SendInterestedAndRequest"; "SendInterested"; "Ignore"]. Proof. reflexivity. Qed.
Example BitfieldCmd_covered : shape_BitfieldCmd = ["SendState"]. Proof. reflexivity. Qed.
Example RequestCmd_covered : shape_RequestCmd = ["LoadAndSendPiece"; "Ignore"]. Proof. reflexivity. Qed.
Example PieceCmd_covered : shape_PieceCmd = ["SendRequest"; "SendNotInterested"; "PrepareKill"; "Ignore"]. Proof. reflexivity. Qed.
(* broadcasts of the manager: Manager.broadcast (BHave, BOwnState) / Handler.event (EBroadHave, EBroadOwn) *)
Example BroadCmd_covered : shape_BroadCmd = ["SendHave"; "SendOwnState"]. Proof. reflexivity. Qed.
(* tracker task and extractor to the manager: Tracker.v (TrackerResp, Fail); Manager.spawn SpExtractor / m_extracted *)
Example TrackerCmd_covered : shape_TrackerCmd = ["TrackerResp"; "Fail"]. Proof. reflexivity. Qed.
Example ExtractorCmd_covered : shape_ExtractorCmd = ["Done"; "Fail"]. Proof. reflexivity. Qed.
(* peer wire messages: Wire.msg *)
Example Frame_covered : shape_Frame =
  ["Handshake"; "KeepAlive"; "Choke"; "Unchoke"; "Interested"; "NotInterested"; "Have"; "Bitfield"; "Request"; "Piece"; "Cancel"].
Proof. reflexivity. Qed.
(* piece status: Manager.status; bencode values: BCodec.bvalue *)
Example Status_covered : shape_Status = ["Missing"; "Reserved"; "Have"]. Proof. reflexivity. Qed.
Example BValue_covered : shape_BValue = ["Int"; "ByteStr"; "List"; "Dict"]. Proof. reflexivity. Qed.
