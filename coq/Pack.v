(* Pack.v — compact literals for the correspondence case files only: byte
   strings packed seven bytes per primitive 63-bit integer (parsing one literal
   node per byte is what dominates the run time of a case file otherwise).
   Nothing in the models, specifications or proofs depends on this file. *)
From Coq Require Import NArith ZArith List Uint63.
Import ListNotations.
Open Scope N_scope.

Definition int_bytes (k : nat) (x : int) : list N :=
  (fix go (k : nat) (x : int) (acc : list N) : list N :=
     match k with
     | O => acc
     | S k' => go k' (x >> 8)%uint63 (Z.to_N (Uint63.to_Z (x land 255)%uint63) :: acc)
     end) k x [].

(* pk n ints: the first n bytes of the big-endian 7-byte groups *)
Definition pk (n : N) (l : list int) : list N := firstn (N.to_nat n) (flat_map (int_bytes 7) l).

Definition byte_bits (b : N) : list bool :=
  [N.testbit b 7; N.testbit b 6; N.testbit b 5; N.testbit b 4;
   N.testbit b 3; N.testbit b 2; N.testbit b 1; N.testbit b 0].
(* pkb n ints: the first n bits (msb first) of the packed bytes *)
Definition pkb (n : N) (l : list int) : list bool :=
  firstn (N.to_nat n) (flat_map byte_bits (flat_map (int_bytes 7) l)).

(* deterministic pseudo-random bytes (LCG), so that case files can name large
   payloads by (seed, length) instead of spelling them out; same generator in
   tools/vlib.py and harness/src/util.rs *)
Fixpoint prand_nat (n : nat) (x : int) : list N :=
  match n with
  | O => []
  | S k => let x' := ((x * 1103515245 + 12345) land 2147483647)%uint63 in
           Z.to_N (Uint63.to_Z ((x' >> 16) land 255)%uint63) :: prand_nat k x'
  end.
Definition prand (seed : int) (n : N) : list N := prand_nat (N.to_nat n) seed.
