(* C20 — silent peers are dropped, live ones are kept and kept alive. *)
From Rdest Require Import Base Consts Wire Manager Handler HandlerProofs MgrProofs TraceProofs.
Open Scope N_scope.

(* a connection on which nothing but keep-alives (or nothing) arrives: the first two timer ticks (120 s, 240 s)
   each emit one keep-alive, the third (360 s) closes it; keep-alive frames change nothing *)
Theorem C20_silent : forall sha1 cf disk ovf s r, h_keep_alive s = 0 ->
  hstep sha1 cf disk ovf s ETick r = HCont (set_ka s 1) [ASend KeepAlive] /\
  hstep sha1 cf disk ovf (set_ka s 1) ETick r = HCont (set_ka s 2) [ASend KeepAlive] /\
  hstep sha1 cf disk ovf (set_ka s 2) ETick r = HEnd (set_ka s 2) [] false /\
  (forall s', h_hs_done s' = true -> hstep sha1 cf disk ovf s' (EFrame KeepAlive) r = HCont s' []).
Proof. exact silent_closes. Qed.

(* any other message resets the count: the next tick keeps the connection and emits a keep-alive, so a
   connection delivering another message at least once per interval is never closed for inactivity *)
Theorem C20_live : forall sha1 cf disk ovf s m r s' r2, m <> KeepAlive ->
  continues (hstep sha1 cf disk ovf s (EFrame m) r) = Some s' ->
  hstep sha1 cf disk ovf s' ETick r2 = HCont (set_ka s' 1) [ASend KeepAlive].
Proof. exact live_kept. Qed.

(* only the timer increases the count of silent intervals *)
Theorem C20_only_timer_counts : forall sha1 cf disk ovf s ev r s', ev <> ETick -> h_hs_done s = true ->
  continues (hstep sha1 cf disk ovf s ev r) = Some s' -> h_keep_alive s' <= h_keep_alive s.
Proof. exact non_tick_ka. Qed.

(* every tick that does not close the connection emits exactly one keep-alive *)
Theorem C20_emit : forall sha1 cf disk ovf s r, h_keep_alive s <> 2 ->
  hstep sha1 cf disk ovf s ETick r = HCont (set_ka s (h_keep_alive s + 1)) [ASend KeepAlive].
Proof. exact tick_emits. Qed.

(* OVER WHOLE EVENT SEQUENCES of one connection task (run: handle the events in order, None once one ends it):
   a connection that received a frame other than a keep-alive since the last tick survives the next tick and emits a
   keep-alive -- whatever else happened before and after that frame (any frames, broadcasts, manager answers), so a
   connection that gets such a frame in every interval is never closed for inactivity, however many intervals pass *)
Theorem C20_live_interval_survives : forall sha1 cf disk ovf s before m r after s' r2,
  h_hs_done s = true -> m <> KeepAlive -> no_tick after ->
  run sha1 cf disk ovf s (before ++ (EFrame m, r) :: after) = Some s' ->
  hstep sha1 cf disk ovf s' ETick r2 = HCont (set_ka s' 1) [ASend KeepAlive].
Proof. exact live_interval_survives. Qed.
(* silence: from a count of 0, through any number of keep-alive frames between the ticks, the first two ticks are
   survived and the third closes the connection *)
Theorem C20_silent_run_closes : forall sha1 cf disk ovf s k1 k2 k3 r1 r2 r3,
  h_hs_done s = true -> h_keep_alive s = 0 -> only_keepalives k1 -> only_keepalives k2 -> only_keepalives k3 ->
  run sha1 cf disk ovf s (k1 ++ (ETick, r1) :: k2 ++ (ETick, r2) :: k3) = Some (set_ka s 2) /\
  hstep sha1 cf disk ovf (set_ka s 2) ETick r3 = HEnd (set_ka s 2) [] false.
Proof. exact silent_run_closes. Qed.
(* a valid handshake, once received, stays received (the gate of C08 never closes again) *)
Theorem C20_handshake_stays : forall sha1 cf disk ovf s ev r s' acts,
  hstep sha1 cf disk ovf s ev r = HCont s' acts -> h_hs_done s = true -> h_hs_done s' = true.
Proof. exact hs_done_stays. Qed.

(* termination (KillReq, manager side): the peer's state is forgotten and the piece it held, unless already complete,
   is Missing again and so can be handed to someone else; no other piece's status moves *)
Theorem C20_release : forall m a p m1, NoDup (map fst (m_peers m)) -> pget (m_peers m) a = Some p -> kill_peer m a = Ok m1 ->
  pget (m_peers m1) a = None /\
  (forall i, p_piece_index p = Some i -> nthN (m_status m) i <> Some Manager.Have -> nthN (m_status m1) i = Some Missing) /\
  (forall j, p_piece_index p <> Some j -> nthN (m_status m1) j = nthN (m_status m) j).
Proof. exact kill_releases. Qed.

(* "three keep-alive intervals of two minutes": the code's constants, pinned *)
Example C20_intervals_pinned : peer_handler_KEEP_ALIVE_LIMIT = 2 /\ peer_handler_KEEP_ALIVE_INTERVAL_SEC = 120. Proof. split; reflexivity. Qed.

Print Assumptions C20_silent.
Print Assumptions C20_live.
Print Assumptions C20_only_timer_counts.
Print Assumptions C20_emit.
Print Assumptions C20_release.
Print Assumptions C20_live_interval_survives.
Print Assumptions C20_silent_run_closes.
Print Assumptions C20_handshake_stays.
