"""C01 — only hash-verified data is ever stored, advertised or assembled."""
from sysbase import SysBase, geometry


class C01(SysBase):
    id = "C01"
    proof_target = "Props/C01.vo"
    theorems = ["C01_writes_verified", "C01_done_after_write", "C01_mismatch_discards", "C01_only_done_makes_have", "C01_owned_stays"]
    coq_header = "From Rdest Require Import Base Corr.Sys.\nOpen Scope N_scope.\nDefinition codes := codes01.\n"
    rule = ("end-to-end runs (real Session, real PeerHandler tasks, real piece files) against 1-4 scripted remote peers of which "
            "most misbehave: corrupt every k-th block, answer for another offset/piece, duplicate every block, send garbage, "
            "disconnect after n messages, alongside honest ones; random segmentation and delays. Every Have / Bitfield bit a "
            "remote receives is checked against the piece store at that instant; afterwards every *.piece file is re-hashed. "
            "Oracle: no file that is not verified data the torrent lists, no piece owned without its file, nothing advertised "
            "early, no panic. Non-trivial: runs with at least one misbehaving peer; distinct lines.")
    statement_status = "see Props/C01.v"

    def corpus(self):
        return [self.mk(9, 16384, [40000], [("111", "corrupt 1")], "corpus", False),
                self.mk(10, 16384, [40000], [("111", "corrupt 2"), ("111", "honest")], "corpus", True),
                self.mk(11, 20000, [30000, 9], [("11", "wrongoffset 1"), ("11", "dup")], "corpus", False),
                self.mk(12, 32768, [65536], [("11", "swap")], "corpus", False),
                self.mk(13, 49152, [98304, 5], [("111", "swap"), ("111", "honest")], "corpus", False)]

    def gen(self, rng, tier):
        k = {"quick": 40, "thorough": 800, "search": 150}.get(tier, 40)
        cases = []
        for _ in range(k):
            pl, flens, n = geometry(rng)
            npeers = rng.choice([1, 2, 3, 4])
            peers = []
            for p in range(npeers):
                bits = "".join("1" if rng.random() < 0.7 else "0" for _ in range(n))
                beh = rng.choice(["corrupt %d" % rng.randrange(1, 4), "wrongoffset %d" % rng.randrange(1, 3), "dup", "swap", "swap",
                                  "garbage %d" % rng.randrange(1, 6), "dropafter %d" % rng.randrange(1, 9), "honest", "slow"])
                peers.append((bits, beh))
            cases.append(self.mk(rng.randrange(1, 10 ** 6), pl, flens, peers, "adversarial", False))
        return cases


PROP = C01()
