(* Correspondence definitions for C07: a case carries the input and what the
   implementation did; `codes` says, per case, whether the model agrees (bit 0
   set = disagreement) and whether the specification oracle accepts the
   implementation's behaviour (bit 1 set = oracle failure). *)
From Rdest Require Import Base Wire WireSpec.
Open Scope N_scope.

Inductive case :=
| CEnc (m : msg) (junk : bytes) (impl_data : bytes) (impl_parse : presult)
| CParse (buf : bytes) (impl_parse : presult)
| CToVec (n : N) (bs : bytes) (impl : option (list bool)) (impl_validate : bool)
| CFromVec (bits : list bool) (impl_data : bytes).

Definition opt_bools_eqb (a b : option (list bool)) : bool :=
  match a, b with
  | Some x, Some y => list_eqb Bool.eqb x y
  | None, None => true
  | _, _ => false
  end.

Definition code (c : case) : N :=
  match c with
  | CEnc m junk d p =>
      let k := bytes_eqb (encode_msg m) d && presult_eqb (parse_frame (d ++ junk)) p in
      let o := bep3b m d && presult_eqb p (PFrame m (len d)) in
      (if k then 0 else 1) + (if o then 0 else 2)
  | CParse buf p =>
      (* whatever the buffer holds: a frame the implementation reports must be the BEP3 reading of exactly the bytes
         it says it consumed (C06 has the oracle for what must be reported) *)
      let k := presult_eqb (parse_frame buf) p in
      let o := match p with
               | PFrame (Handshake ih pid) n =>
                   (* the eight reserved bytes of a received handshake are not interpreted (extension bits) *)
                   (n =? 68) && (n <=? len buf) &&
                   bytes_eqb (firstn 20 buf) (firstn 20 (encode_msg (Handshake ih pid))) &&
                   bytes_eqb (firstn 40 (skipn 28 buf)) (ih ++ pid) && (len ih =? 20) && (len pid =? 20)
               | PFrame m n => (n <=? len buf) && bep3b m (firstn (N.to_nat n) buf)
               | _ => true
               end in
      (if k then 0 else 1) + (if o then 0 else 2)
  | CToVec n bs r v =>
      let k := opt_bools_eqb (to_vec bs n) r && Bool.eqb (bitfield_validate bs n) v in
      let o := match r with
               | Some bits => (len bits =? n) && bits_okb bs bits && (n <=? 8 * len bs) && (8 * len bs <? n + 8)
               | None => negb ((n <=? 8 * len bs) && (8 * len bs <? n + 8))
               end in
      (if k then 0 else 1) + (if o then 0 else 2)
  | CFromVec bits d =>
      let k := bytes_eqb (encode_msg (Bitfield (from_vec bits))) d in
      let bs := skipn 5 d in
      let o := framedb 5 bs d && (len bits <=? 8 * len bs) && (8 * len bs <? len bits + 8)
               && forallb (fun i => Bool.eqb (nth i bits false) (bit_of bs i)) (seq 0 (8 * length bs)) in
      (if k then 0 else 1) + (if o then 0 else 2)
  end.

Definition codes (cs : list case) : list N := map code cs.
