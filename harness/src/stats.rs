//! Transfer statistics (src/peer_handler.rs: struct Stats, timeout_sync_stats) through the hook
//! PeerHandler::verif_stats_run.
//!
//! case line:  stats <op> <op> ...   with op = d<bytes> | u<bytes> | x | t
//! output:     one "d/u/x" triple per reporting tick (rates as numbers or "-"), joined by spaces; "NONE" when no
//!             tick reported; "PANIC" when the statistics code panicked
use crate::util::*;
use rdest::verif::PeerHandler;

pub fn run(lines: &[String]) {
    for line in lines {
        let t: Vec<&str> = line.split_whitespace().collect();
        assert_eq!(t[0], "stats");
        let ops: Vec<(char, usize)> = t[1..]
            .iter()
            .map(|o| {
                let c = o.chars().next().unwrap();
                let amount: usize = if o.len() > 1 { o[1..].parse().unwrap() } else { 0 };
                (c, amount)
            })
            .collect();
        match guarded(|| PeerHandler::verif_stats_run(&ops)) {
            None => println!("PANIC"),
            Some(reports) => {
                if reports.is_empty() {
                    println!("NONE");
                } else {
                    let f = |r: Option<u32>| r.map(|x| x.to_string()).unwrap_or_else(|| "-".to_string());
                    let v: Vec<String> = reports.iter().map(|(d, u, x)| format!("{}/{}/{}", f(*d), f(*u), x)).collect();
                    println!("{}", v.join(" "));
                }
            }
        }
    }
}
