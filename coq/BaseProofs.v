From Rdest Require Import Base.
From Coq Require Import ZifyBool ZifyN ZifyNat.
Ltac Zify.zify_post_hook ::= Z.div_mod_to_equations.
Open Scope N_scope.

Lemma len_app {A} (a b : list A) : len (a ++ b) = len a + len b.
Proof. unfold len. rewrite app_length. lia. Qed.
Lemma len_cons {A} (x : A) l : len (x :: l) = 1 + len l.
Proof. unfold len. cbn [length]. lia. Qed.
Lemma len_nil {A} : len (@nil A) = 0. Proof. reflexivity. Qed.
Lemma to_nat_len {A} (l : list A) : N.to_nat (len l) = length l.
Proof. unfold len. lia. Qed.

Lemma slice_app_exact {A} (pre mid post : list A) s n :
  s = len pre -> n = len mid -> slice (pre ++ mid ++ post) s n = mid.
Proof.
  intros -> ->. unfold slice. rewrite !to_nat_len.
  rewrite skipn_app, skipn_all, Nat.sub_diag. cbn [app skipn].
  rewrite firstn_app, firstn_all, Nat.sub_diag. cbn. apply app_nil_r.
Qed.

(* ---- chunks ------------------------------------------------------------ *)

Lemma chunks_fuel_enough {A} (n : nat) : (0 < n)%nat ->
  forall f1 f2 (l : list A), (length l <= f1)%nat -> (length l <= f2)%nat ->
  chunks_fuel f1 n l = chunks_fuel f2 n l.
Proof.
  intros Hn. induction f1 as [|f1 IH]; intros f2 l H1 H2.
  - destruct l; [|cbn in H1; lia]. destruct f2; reflexivity.
  - destruct l as [|x l]; [destruct f2; reflexivity|].
    destruct f2 as [|f2]; [cbn in H2; lia|].
    cbn [chunks_fuel]. f_equal. apply IH; rewrite skipn_length; cbn [length] in *; lia.
Qed.

Lemma chunks_nil {A} n : @chunks A n [] = [].
Proof. reflexivity. Qed.

Lemma chunks_step {A} (n : nat) (l : list A) : (0 < n)%nat -> l <> [] ->
  chunks n l = firstn n l :: chunks n (skipn n l).
Proof.
  intros Hn Hl. unfold chunks. destruct l as [|x l]; [congruence|].
  cbn [length chunks_fuel]. f_equal.
  apply chunks_fuel_enough; [exact Hn| |lia].
  rewrite skipn_length. cbn [length]. lia.
Qed.

Lemma chunks_ind {A} (n : nat) (P : list A -> Prop) : (0 < n)%nat ->
  P [] -> (forall l, l <> [] -> P (skipn n l) -> P l) -> forall l, P l.
Proof.
  intros Hn H0 Hs l.
  remember (length l) as k eqn:Ek. revert l Ek.
  induction k as [k IH] using lt_wf_ind. intros l Ek.
  destruct l as [|x l]; [exact H0|].
  apply Hs; [congruence|].
  apply (IH (length (skipn n (x :: l)))); [|reflexivity].
  rewrite skipn_length. subst k. cbn [length]. lia.
Qed.

Lemma concat_chunks {A} (n : nat) (l : list A) : (0 < n)%nat -> concat (chunks n l) = l.
Proof.
  intros Hn. pattern l. apply (chunks_ind n); [exact Hn|reflexivity|].
  clear l. intros l Hl IH. rewrite chunks_step by assumption. cbn [concat]. rewrite IH. apply firstn_skipn.
Qed.

Lemma nth_error_firstn_lt {A} (l : list A) n i : (i < n)%nat -> nth_error (firstn n l) i = nth_error l i.
Proof.
  revert n i. induction l as [|x l IH]; intros n i H.
  - rewrite firstn_nil. reflexivity.
  - destruct n as [|n]; [lia|]. destruct i as [|i]; [reflexivity|]. cbn. apply IH. lia.
Qed.
