"""Generator of .torrent-like documents (well-formed with arbitrary extras, boundary numerics,
hostile variants) for C05 / C17 / C03 / C04."""
import bgen

NUMS = [0, 1, 2, 3, 7, 16, 20, 111, 16384, 262144, 2 ** 31, 2 ** 32, 2 ** 62, 2 ** 63 - 1, -1, -12]


def rnum(rng, small=False):
    if small or rng.random() < 0.6:
        return rng.choice([0, 1, 2, 3, 4, 5, 7, 10, 20, 111, 222, 1000])
    return rng.choice(NUMS)


def rname(rng):
    r = rng.random()
    if r < 0.7:
        return rng.choice([b"NAME", b"a", b"file.bin", b"dir", b"x y", b"\xc3\xa9t\xc3\xa9", b"n\x00m"])
    if r < 0.85:
        return rng.choice([b"..", b"/abs", b"a/../../b", b"", b".", b"a//b"])
    return rng.choice([b"\xff\xfe", b"\xc3", b"\xed\xa0\x80", b"\xf4\x90\x80\x80", b"\xe0\x80\x80"])


def torrent(rng, hostile=0.3):
    """returns a bencode value ('d', [...]) plus flags"""
    flags = set()
    info = []
    if rng.random() < 0.95:
        info.append((b"name", ("s", rname(rng)) if rng.random() < 0.95 else ("i", 3)))
    pl = rnum(rng)
    if rng.random() < 0.95:
        info.append((b"piece length", ("i", pl) if rng.random() < 0.95 else ("s", b"BAD")))
    npieces = rng.choice([0, 1, 1, 2, 3, 5])
    pieces = bytes(rng.randrange(256) for _ in range(20 * npieces))
    if rng.random() < 0.1:
        pieces = pieces + b"x" * rng.randrange(1, 20)
    if rng.random() < 0.95:
        info.append((b"pieces", ("s", pieces)))
    r = rng.random()
    if r < 0.45:
        info.append((b"length", ("i", rnum(rng))))
    elif r < 0.9:
        files = []
        for _ in range(rng.choice([0, 1, 2, 2, 3, 4])):
            e = []
            if rng.random() < 0.93:
                e.append((b"length", ("i", rnum(rng)) if rng.random() < 0.95 else ("s", b"1")))
            if rng.random() < 0.93:
                e.append((b"path", ("s", rname(rng)) if rng.random() < 0.9 else ("l", [("s", b"a")])))
            if rng.random() < 0.2:
                e.append((b"md5", ("s", b"0" * 4)))
            files.append(("d", e) if rng.random() < 0.95 else ("i", 1))
        info.append((b"files", ("l", files)))
        if rng.random() < 0.05:
            info.append((b"length", ("i", 5)))
    # extra keys inside info
    for _ in range(rng.choice([0, 0, 1, 2])):
        k = rng.choice([b"private", b"source", b"zz", b"info", b"a"])
        if k not in [x[0] for x in info]:
            info.append((k, bgen.rvalue(rng, 2)))
    top = []
    if rng.random() < 0.95:
        top.append((b"announce", ("s", rng.choice([b"URL", b"http://t/a", b"http://h:1/a?k=v", b"\xff"]))
                    if rng.random() < 0.95 else ("i", 1)))
    top.append((b"info", ("d", info)) if rng.random() < 0.97 else (b"info", ("i", 1)))
    for _ in range(rng.choice([0, 0, 1, 2, 3])):
        k = rng.choice([b"comment", b"created by", b"a", b"aa", b"zzz", b"creation date", b"extra", b"nodes"])
        if k in [x[0] for x in top]:
            continue
        r = rng.random()
        if r < 0.25:   # nested dictionary that itself contains a key spelled "info"
            v = ("d", [(b"info", bgen.rvalue(rng, 1)), (b"x", ("i", 1))])
            flags.add("nested-info")
        elif r < 0.35:
            v = ("l", [("d", [(b"info", ("i", 7))])])
            flags.add("nested-info-in-list")
        else:
            v = bgen.rvalue(rng, 2)
        top.append((k, v))
    return ("d", top), flags


def document(rng):
    """bytes of a document: the torrent with legal spelling variations and surroundings"""
    v, flags = torrent(rng)
    style = rng.random()
    if style < 0.5:
        doc = bgen.encode(v)
    else:
        doc = bgen.encode(v, rng, sort=False, lead0=0.2, shuffle=0.6)
        flags.add("noncanonical")
    r = rng.random()
    if r < 0.1:
        doc = doc + bgen.encode(bgen.rvalue(rng, 1))
        flags.add("trailing")
    elif r < 0.18:
        doc = bgen.encode(rng.choice([("i", 3), ("s", b"pre"), ("d", [(b"k", ("i", 1))]), ("l", [("i", 1)])])) + doc
        flags.add("leading")
    elif r < 0.22:
        # duplicate top-level info key (second one wins in the map)
        other = bgen.encode(("d", [(b"name", ("s", b"other"))]))
        doc = doc[:-1] + b"4:info" + other + b"e"
        flags.add("duplicate-info")
    elif r < 0.27:
        doc = doc[:-rng.randrange(1, 3)]
        flags.add("truncated")
    return doc, flags
