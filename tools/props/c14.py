"""C14 — upload slots are bounded and follow the choking policy."""
from mgrbase import MgrBase, rand_bits


class C14(MgrBase):
    id = "C14"
    proof_target = "Props/C14.vo"
    theorems = ["C14_bitfield_bound", "C14_rotation_bound", "C14_slots_interested", "C14_rate_order", "C14_map_exact", "C14_messages_follow_map", "C14_timer_wrapper", "C14_timer_tick_quiet", "C14_timer_tick_bound", "C14_timer_tick_is_rotation", "C14_rate_uploads_counted", "C14_rate_block_counted", "C14_rate_task_block_counted", "C14_rate_no_upload_without_request", "C14_rate_refused_block", "C14_rate_reports_exact"]
    coq_header = ("From Rdest Require Import Base Consts Wire Manager Corr.Mgr.\nOpen Scope N_scope.\n"
                  "Definition codes := codes14.\n")
    rule = ("histories of 0-25 peers: handshakes and bitfield arrivals (each may unchoke the newcomer), interest changes, "
            "rate reports with ties and missing rates, and 1-9 choke rotations with the rate order and optimistic pick "
            "supplied by the harness (the pick drawn from the choked-and-interested peers, as new_optimistic_peers does). "
            "After every command the bound (10 regular + 1 optimistic) is evaluated on the observed state; after every "
            "rotation the policy and the exactness of the broadcast map. Non-trivial: histories with more than 10 peers "
            "or at least one rotation; distinct lines.")
    statement_status = "see Props/C14.v"

    def corpus(self):
        ops = []
        for a in range(1, 14):
            ops += ["add %d" % a, "init %d" % a, "bf %d 101" % a]
        return [self.mk("raw", 3, 4, 10, ops, "corpus")]

    def gen(self, rng, tier):
        k = {"quick": 250, "thorough": 5000, "search": 1500}.get(tier, 250)
        cases = []
        for _ in range(k):
            n = rng.choice([1, 3, 8])
            npeers = rng.choice([0, 1, 3, 9, 10, 11, 12, 15, 25])
            ops = []
            alive = []
            interested = set()
            for a in range(1, npeers + 1):
                ops += ["add %d" % a]
                alive.append(a)
                if rng.random() < 0.9:
                    ops.append("bf %d %s" % (a, rand_bits(rng, n)))
                if rng.random() < 0.6:
                    ops.append("int %d" % a)
                    interested.add(a)
                if rng.random() < 0.15 and len(ops) > 2:
                    ops.append(self.rot(rng, alive, interested))
            for _ in range(rng.choice([1, 2, 3, 9])):
                for _ in range(rng.choice([0, 1, 3])):
                    if alive:
                        a = rng.choice(alive)
                        if rng.random() < 0.5:
                            ops.append("int %d" % a)
                            interested.add(a)
                        else:
                            ops.append("nint %d" % a)
                            interested.discard(a)
                if rng.random() < 0.3:
                    a = npeers + len(ops)
                    ops += ["add %d" % a, "bf %d %s" % (a, rand_bits(rng, n))]
                    alive.append(a)
                ops.append(self.rot(rng, alive, interested))
            cases.append(self.mk("raw", n, 4, 4 * n, ops, "rotation"))
        # the timer's own wrapper: rates as the peers reported them (some not yet), leeching and seeding, three rounds
        for _ in range(k // 3):
            n = rng.choice([1, 3])
            npeers = rng.choice([1, 3, 9, 11, 12, 15])
            ops = []
            for a in range(1, npeers + 1):
                ops += ["add %d" % a, "bf %d %s" % (a, rand_bits(rng, n))]
                if rng.random() < 0.7:
                    ops.append("int %d" % a)
            # what is owned decides which rate the timer ranks by: everything owned (seeding); nothing; and the states in
            # between -- pieces still being fetched (Reserved) with or without Missing ones beside them
            r0 = rng.random()
            if r0 < 0.3:
                ops.append("setst " + ",".join(["H"] * n))
            elif r0 < 0.6:
                ops.append("setst " + ",".join(rng.choice(["H", "R1", "R2"]) if i else "R1" for i in range(n)))
            elif r0 < 0.75:
                ops.append("setst " + ",".join(rng.choice(["H", "R1", "M"]) for _ in range(n)))
            late = rng.random() < 0.3
            ties = rng.random() < 0.4
            for a in range(1, npeers + 1):
                if late and a == npeers:
                    continue           # one peer has not reported yet: the tick must not rotate
                v = lambda: rng.choice([0, 5, 5, 9]) if ties else rng.randrange(1000)
                ops.append("stats %d %d %d" % (a, v(), v()))
            for _ in range(rng.choice([1, 3, 4, 7])):
                ops.append("tick")
                if rng.random() < 0.3:
                    a = rng.randrange(1, npeers + 1)
                    ops.append(rng.choice(["int %d", "nint %d"]) % a)
                if late and rng.random() < 0.4:
                    ops.append("stats %d %d %d" % (npeers, rng.randrange(50), rng.randrange(50)))
                    late = False
            cases.append(self.mk("raw", n, 4, 4 * n, ops, "timer"))
        return cases

    def rot(self, rng, alive, interested):
        ties = rng.random() < 0.4
        rates = ["%d:%d" % (a, rng.choice([0, 5, 5, 9]) if ties else rng.randrange(1000)) for a in alive]
        rng.shuffle(rates)
        # the optimistic pick is resolved by the harness among choked+interested peers: encode as '?'
        opt = "?" if rng.random() < 0.4 else "-"
        return "rotate %s %s" % (",".join(rates) or "-", opt)


from hndbase import HndBase, Scenario, ev_wait
from c10 import download_scenario
from c09 import upload_scenario


def with_waits(rng, ev, head):
    """waits between the events of a scenario, so that the 10 s statistics timer ticks many times while blocks flow; a
    few quiet intervals at the end"""
    out = list(ev[:head])
    for e in ev[head:]:
        out.append(e)
        if rng.random() < 0.45:
            out.append(ev_wait(rng.choice([1000, 4000, 7000, 10000, 10000, 13000, 21000, 9998, 9999])))
    for _ in range(rng.choice([2, 3, 4])):
        out.append(ev_wait(rng.choice([10000, 10000, 15000])))
    return out


def upload_rate_scenario(rng, n, plens, outgoing):
    """a peer that keeps downloading from us: every piece stored, the peer unchoked, valid requests at varied offsets and
    lengths, a few refused ones in between"""
    from hndbase import greet, ev_store, ev_bown, ev_msg, m_request, m_bitfield, INTERESTED, BLOCK
    ev, _ = greet(rng, outgoing, n)
    head = len(ev)
    for i in range(n):
        ev.append(ev_store(i))
    ev.append(ev_msg(INTERESTED))
    ev.append(ev_bown(False))
    for _ in range(rng.choice([4, 8, 14])):
        i = rng.randrange(n)
        pl = plens[i]
        b = rng.choice([0, 0, 1, pl // 2, max(0, pl - 1), rng.randrange(pl)])
        l = rng.choice([1, max(1, pl - b), min(BLOCK, max(1, pl - b)), rng.randrange(1, max(2, min(BLOCK, pl - b) + 1))])
        l = min(l, BLOCK, max(1, pl - b))
        if rng.random() < 0.15:
            l = BLOCK + 1                    # refused: too long
        ev.append(ev_msg(m_request(i, b, l), req="LOAD:%d" % i))
    return ev, head + n + 2


class C14Rates(HndBase):
    """the "measured rate" the rotation ranks by: download and upload histories on the real PeerHandler with the virtual
    clock advancing between events; every SyncStats report the task sends (downloaded rate, uploaded rate, unexpected
    blocks) is compared with the model: the call sites of the statistics (HStats.v: accepted block -> downloaded,
    block nobody asked for -> unexpected, piece message written -> uploaded) composed with the counters of Stats.v"""
    id = "C14"
    coq_header = ("From Rdest Require Import Base Consts Wire Manager Handler Corr.Hnd.\nOpen Scope N_scope.\n"
                  "Definition codes := codes14r.\n")
    rule = ""

    def model_term(self, c):
        return "(k_run (%s) true (init_mst (%s)) (hc_steps (%s)), s_run (%s) true (init_mst (%s)) Stats.stats_new (hc_steps (%s)))" % ((c.term,) * 6)

    def corpus(self):
        import random
        out = []
        for k, pl in enumerate([[16384], [40000, 7]]):
            r = random.Random(k)
            out.append(self.case(Scenario(False, pl, 500 + k, with_waits(r, download_scenario(r, pl, 500 + k, False), 3), "rates-download")))
        return out

    def gen(self, rng, tier):
        k = {"quick": 60, "thorough": 1500, "search": 300}.get(tier, 60)
        cases = []
        for _ in range(k):
            n = rng.choice([1, 2, 3])
            plens = [rng.choice([1, 5, 16383, 16384, 16385, 20000, 32768, 40000]) for _ in range(n)]
            seed = rng.randrange(1, 10 ** 6)
            outgoing = rng.random() < 0.5
            if rng.random() < 0.55:
                ev = with_waits(rng, download_scenario(rng, plens, seed, outgoing), 3)
                kind = "rates-download"
            elif rng.random() < 0.7:
                ev, head = upload_rate_scenario(rng, n, plens, outgoing)
                ev = with_waits(rng, ev, head)
                kind = "rates-upload"
            else:
                ev = with_waits(rng, upload_scenario(rng, n, plens, outgoing), 2)
                kind = "rates-upload-mixed"
            cases.append(self.case(Scenario(outgoing, plens, seed, ev, kind)))
        return cases


PROP = C14()
PROP.parts = [PROP, C14Rates()]
