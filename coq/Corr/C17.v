(* Correspondence for C17.  Class bits: 1 = piece-length-zero, 2 = total-length-overflow. *)
From Rdest Require Import Base BCodec DeepFinder Metainfo InfoSpec Corr.MetaCase.
Open Scope N_scope.

Definition is_panic {A} (r : result A) : bool := match r with Panic => true | _ => false end.

(* faithful reading, checked against some top-level dictionary of the decoded document *)
Definition faithful_dict (d : dict) (o : obs) : bool :=
  match find_announce d, find_pieces d with
  | Some a, Some ps =>
      bytes_eqb a (o_url o) && (len ps =? o_n o)
      && forallb (fun ir => match snd ir, nthN ps (fst ir) with
                            | Ok h, Some h' => bytes_eqb h h'
                            | _, _ => true
                            end) (o_piece o)
  | _, _ => false
  end.

(* "the ordered file list equals what the document says", read from the dictionary without the model's find_files /
   parse_meta: a single-file torrent (info.length) is one file named info.name; otherwise every entry of info.files
   that is a dictionary with an integer length in u64 and a UTF-8 path is a file, in the document's order, zero-length
   ones included.  The accessor file_piece_ranges is compared with it: as many ranges, in order, with these paths (below
   the name directory when there are two or more) and covering these many bytes each (range ends minus range starts in
   bytes; where each boundary falls is C03's business). *)
Definition spec_entry (v : bvalue) : option (bytes * N) :=
  match v with
  | BDict e => match map_get k_length e, map_get k_path e with
               | Some (BInt z), Some (BStr p) =>
                   if (0 <=? z)%Z && (z <? 18446744073709551616)%Z && utf8_valid p then Some (p, Z.to_N z) else None
               | _, _ => None
               end
  | _ => None
  end.
Definition spec_files (d : dict) : option (bytes * N * list (bytes * N)) :=      (* name, piece length, files *)
  match map_get k_info d with
  | Some (BDict i) =>
      match map_get k_name i, map_get k_piece_length i with
      | Some (BStr name), Some (BInt pl) =>
          if (0 <? pl)%Z then
            let multi := match map_get k_files i with
                         | Some (BList l) => Some (name, Z.to_N pl, Metainfo.filter_map spec_entry l)
                         | _ => None
                         end in
            match map_get k_length i with
            | Some (BInt z) =>         (* a length that is not a u64 is no length: the files list decides *)
                if (0 <=? z)%Z && (z <? 18446744073709551616)%Z then Some (name, Z.to_N pl, [(name, Z.to_N z)]) else multi
            | _ => multi
            end
          else None
      | _, _ => None
      end
  | _ => None
  end.
Fixpoint ranges_match (dir : bytes) (pl : N) (fs : list (bytes * N)) (rs : list (bytes * N * N * N * N)) : bool :=
  match fs, rs with
  | [], [] => true
  | (p, l) :: fs', (rp, si, sb, ei, eb) :: rs' =>
      bytes_eqb rp (join_path dir p) && (ei * pl + eb =? si * pl + sb + l) && ranges_match dir pl fs' rs'
  | _, _ => false
  end.
Definition files_faithful (d : dict) (o : obs) : bool :=
  match o_ranges o, spec_files d with
  | Ok rs, Some (name, pl, fs) =>
      ranges_match (match fs with _ :: _ :: _ => name | _ => [] end) pl fs rs
  | Ok _, None => false
  | _, _ => true              (* the accessor failed or panicked: judged by the other clauses *)
  end.

Definition code (c : case) : N :=
  match c with
  | CMeta ovf doc impl =>
      let k := k_ok ovf doc impl in
      let '(o, cls) :=
        match impl with
        | Panic => (false, 0)
        | OutOfFuel => (false, 0)
        | Err => (true, 0)
        | Ok ob =>
            let pan := existsb (fun ir => is_panic (snd ir)) (o_piece ob)
                       || existsb (fun ir => is_panic (snd ir)) (o_plen ob)
                       || is_panic (o_total ob) || is_panic (o_ranges ob) in
            let faithful := match decode doc with
                            | Ok vs => existsb (fun v => match v with BDict d => faithful_dict d ob && files_faithful d ob | _ => false end) vs
                            | _ => false
                            end in
            let cls := match metainfo_of doc with
                       | Ok m => (if m_piece_length m =? 0 then 1 else 0)
                                 + (if sum_lengths (m_files m) <? two64 then 0 else 2)
                       | _ => 0
                       end in
            (negb pan && faithful, if pan && faithful then cls else 0)
        end in
      (if k then 0 else 1) + (if o then 0 else 2 + 4 * cls)
  | CCreate name tracker n hashes tor impl =>
      let k := bytes_eqb (create_torrent_with name tracker n (concat hashes)) tor
               && k_ok true tor impl in
      (* oracle: the written torrent parses back to the file's name, its length and the chunk hashes *)
      let o := match impl with
               | Ok ob =>
                   bytes_eqb (o_url ob) tracker && (o_n ob =? len hashes)
                   && res_eqb N.eqb (o_total ob) (Ok n)
                   && forallb (fun ir => match snd ir, nthN hashes (fst ir) with
                                         | Ok h, Some h' => bytes_eqb h h'
                                         | _, _ => false
                                         end) (o_piece ob)
                   && forallb (fun ir => match snd ir with
                                         | Ok l => if fst ir + 1 <? len hashes then l =? 262144
                                                   else (l =? (if n mod 262144 =? 0 then 262144 else n mod 262144))
                                         | _ => false
                                         end) (o_plen ob)
                   && match o_ranges ob with
                      | Ok [(p, _, _, _, _)] => bytes_eqb p name
                      | _ => false
                      end
               | _ => false
               end in
      (if k then 0 else 1) + (if o then 0 else 2)
  end.
Definition codes (cs : list case) : list N := map code cs.

(* C03, the partition clause on the accessor itself (geometries too large to extract: multi-gigabyte totals, piece lengths
   that are no power of two or exceed 32 bits): in a consistent torrent -- as many piece hashes as ceil(total / piece
   length) -- every piece has the piece length except the last, which has what remains; read from the dictionary *)
Definition partition_ok (d : dict) (o : obs) : bool :=
  match spec_files d with
  | Some (_, pl, fs) =>
      let total := fold_right (fun f acc => snd f + acc) 0 fs in
      let n := o_n o in
      if negb ((0 <? total) && (n =? (total + pl - 1) / pl)) then true else      (* inconsistent: nothing claimed *)
      forallb (fun ir => match snd ir with
                         | Ok l => if fst ir + 1 <? n then l =? pl else l =? total - (n - 1) * pl
                         | _ => false
                         end) (o_plen o)
      && match o_total o with Ok t => t =? total | _ => false end
  | None => true
  end.
Definition code03g (c : case) : N :=
  match c with
  | CMeta ovf doc impl =>
      (if k_ok ovf doc impl then 0 else 1) +
      (match impl, decode doc with
       | Ok ob, Ok vs => if existsb (fun v => match v with BDict d => faithful_dict d ob && partition_ok d ob | _ => false end) vs then 0 else 2
       | Panic, _ => 2
       | _, _ => 0
       end)
  | _ => 0
  end.
Definition codes03g (cs : list case) : list N := map code03g cs.
