(* Metainfo.v — executable mirror of src/metainfo.rs: from_bencode / parse,
   the accessors, file_piece_ranges and create_file. *)
From Rdest Require Export Base BCodec DeepFinder Consts.
Open Scope N_scope.

(* ---- String::from_utf8 (Unicode table 3-7: no overlongs, no surrogates, <= U+10FFFF) *)
Definition cont (b : N) : bool := (128 <=? b) && (b <=? 191).
Fixpoint utf8_valid (s : bytes) : bool :=
  match s with
  | [] => true
  | b0 :: r =>
    if b0 <? 128 then utf8_valid r
    else if (194 <=? b0) && (b0 <=? 223) then
      match r with b1 :: r' => cont b1 && utf8_valid r' | _ => false end
    else if b0 =? 224 then
      match r with b1 :: b2 :: r' => (160 <=? b1) && (b1 <=? 191) && cont b2 && utf8_valid r' | _ => false end
    else if ((225 <=? b0) && (b0 <=? 236)) || (b0 =? 238) || (b0 =? 239) then
      match r with b1 :: b2 :: r' => cont b1 && cont b2 && utf8_valid r' | _ => false end
    else if b0 =? 237 then
      match r with b1 :: b2 :: r' => (128 <=? b1) && (b1 <=? 159) && cont b2 && utf8_valid r' | _ => false end
    else if b0 =? 240 then
      match r with b1 :: b2 :: b3 :: r' => (144 <=? b1) && (b1 <=? 191) && cont b2 && cont b3 && utf8_valid r' | _ => false end
    else if (241 <=? b0) && (b0 <=? 243) then
      match r with b1 :: b2 :: b3 :: r' => cont b1 && cont b2 && cont b3 && utf8_valid r' | _ => false end
    else if b0 =? 244 then
      match r with b1 :: b2 :: b3 :: r' => (128 <=? b1) && (b1 <=? 143) && cont b2 && cont b3 && utf8_valid r' | _ => false end
    else false
  end.

(* ---- keys ------------------------------------------------------------------- *)
Definition k_announce : bytes := [97;110;110;111;117;110;99;101].
Definition k_info : bytes := [105;110;102;111].
Definition k_name : bytes := [110;97;109;101].
Definition k_piece_length : bytes := [112;105;101;99;101;32;108;101;110;103;116;104].
Definition k_pieces : bytes := [112;105;101;99;101;115].
Definition k_length : bytes := [108;101;110;103;116;104].
Definition k_files : bytes := [102;105;108;101;115].
Definition k_path : bytes := [112;97;116;104].

Record file := mkfile { f_length : N; f_path : bytes }.

Record metainfo := mkmeta {
  m_announce : bytes;
  m_name : bytes;
  m_piece_length : N;
  m_pieces : list bytes;       (* 20-byte hashes *)
  m_files : list file;
  m_hash_input : bytes         (* what calculate_hash feeds to SHA-1 *)
}.

Definition dict := list (bytes * bvalue).

Definition info_of (d : dict) : option dict :=
  match map_get k_info d with Some (BDict i) => Some i | _ => None end.

(* u64::try_from(i64) *)
Definition u64_of (z : Z) : option N := if (z <? 0)%Z then None else Some (Z.to_N z).

Definition find_announce (d : dict) : option bytes :=
  match map_get k_announce d with
  | Some (BStr s) => if utf8_valid s then Some s else None
  | _ => None
  end.
Definition find_name (d : dict) : option bytes :=
  match info_of d with
  | Some i => match map_get k_name i with
              | Some (BStr s) => if utf8_valid s then Some s else None
              | _ => None
              end
  | None => None
  end.
Definition find_piece_length (d : dict) : option N :=
  match info_of d with
  | Some i => match map_get k_piece_length i with
              | Some (BInt z) => match u64_of z with
                                 | Some n => if Metainfo_reject_zero_piece_length && (n =? 0) then None else Some n
                                 | None => None
                                 end
              | _ => None
              end
  | None => None
  end.
Definition find_pieces (d : dict) : option (list bytes) :=
  match info_of d with
  | Some i => match map_get k_pieces i with
              | Some (BStr s) => if len s mod HASH_SIZE =? 0 then Some (chunks (N.to_nat HASH_SIZE) s) else None
              | _ => None
              end
  | None => None
  end.
Definition find_length (d : dict) : option N :=
  match info_of d with
  | Some i => match map_get k_length i with
              | Some (BInt z) => u64_of z
              | _ => None
              end
  | None => None
  end.
Definition file_of (v : bvalue) : option file :=
  match v with
  | BDict e => match map_get k_length e, map_get k_path e with
               | Some (BInt z), Some (BStr p) =>
                   match u64_of z with
                   | Some n => if utf8_valid p then Some (mkfile n p) else None
                   | None => None
                   end
               | _, _ => None
               end
  | _ => None
  end.
Fixpoint filter_map {A B} (f : A -> option B) (l : list A) : list B :=
  match l with
  | [] => []
  | x :: r => match f x with Some y => y :: filter_map f r | None => filter_map f r end
  end.
Definition find_files (d : dict) : option (list file) :=
  match info_of d with
  | Some i => match map_get k_files i with
              | Some (BList l) => Some (filter_map file_of l)
              | _ => None
              end
  | None => None
  end.

(* ---- PathBuf::join (Unix) --------------------------------------------------- *)
Definition slash : N := 47.
Definition is_abs (p : bytes) : bool := match p with c :: _ => c =? slash | [] => false end.
Definition ends_with_slash (p : bytes) : bool :=
  match rev p with c :: _ => c =? slash | [] => false end.
(* dir.join(p): an absolute p replaces dir; a separator is added unless dir is empty or ends with one *)
Definition join (dir p : bytes) : bytes :=
  if is_abs p then p
  else match dir with
       | [] => p
       | _ => if ends_with_slash dir then dir ++ p else dir ++ [slash] ++ p
       end.

(* components: split at '/', as Path::components sees them (empty and "." are skipped by std,
   ".." is ParentDir, a leading '/' is RootDir) *)
Fixpoint split_go (cur : bytes) (p : bytes) : list bytes :=
  match p with
  | [] => [rev cur]
  | c :: r => if c =? slash then rev cur :: split_go [] r else split_go (c :: cur) r
  end.
Definition split_path (p : bytes) : list bytes := split_go [] p.
Definition dotdot : bytes := [46; 46].
Definition dot : bytes := [46].

(* the check added by the repair of src/metainfo.rs: only Normal / CurDir components *)
Definition safe_path (p : bytes) : bool :=
  negb (is_abs p) && negb (existsb (bytes_eqb dotdot) (split_path p)).


(* sum of the file lengths; the repaired parse refuses totals that do not fit *)
Definition sum_lengths (fs : list file) : N := fold_left (fun acc f => acc + f_length f) fs 0.

(* Metainfo::parse *)
Definition parse_meta (data : bytes) (d : dict) : option metainfo :=
  let length := find_length d in
  let multi := find_files d in
  match length, multi with
  | Some _, Some _ => None
  | None, None => None
  | _, _ =>
    match find_name d with
    | None => None
    | Some name =>
      let files := match length with
                   | Some l => [mkfile l name]
                   | None => match multi with Some fs => fs | None => [] end
                   end in
      if Metainfo_reject_total_overflow && negb (sum_lengths files <? 18446744073709551616) then None else
      if Metainfo_reject_unsafe_paths && negb (safe_path name && forallb (fun f => safe_path (f_path f)) files) then None else
      match find_announce d, find_piece_length d, find_pieces d, find_first key_info_raw data with
      | Some a, Some pl, Some ps, Some h => Some (mkmeta a name pl ps files h)
      | _, _, _, _ => None
      end
    end
  end.

(* Metainfo::from_bencode: first top-level dictionary that parses *)
Fixpoint first_parsing (data : bytes) (vs : list bvalue) : option metainfo :=
  match vs with
  | [] => None
  | BDict d :: r => match parse_meta data d with Some m => Some m | None => first_parsing data r end
  | _ :: r => first_parsing data r
  end.

(* index (among the top-level values) of the dictionary from_bencode uses *)
Fixpoint selected_index (data : bytes) (vs : list bvalue) (i : nat) : option nat :=
  match vs with
  | [] => None
  | BDict d :: r => match parse_meta data d with Some _ => Some i | None => selected_index data r (S i) end
  | _ :: r => selected_index data r (S i)
  end.

Definition metainfo_of (data : bytes) : result metainfo :=
  match decode data with
  | Ok vs => match first_parsing data vs with Some m => Ok m | None => Err end
  | Err => Err
  | Panic => Panic
  | OutOfFuel => OutOfFuel
  end.

(* ---- accessors (usize = u64; ovf = true: overflow checks on, as in debug) ------- *)
Definition two64 : N := 18446744073709551616.

Definition pieces_num (m : metainfo) : N := len (m_pieces m).

Definition piece (m : metainfo) (i : N) : result bytes :=
  match nthN (m_pieces m) i with Some h => Ok h | None => Panic end.

Definition total_length (ovf : bool) (m : metainfo) : result N :=
  fold_left (fun acc f => do a <- acc;
                          let s := a + f_length f in
                          if s <? two64 then Ok s else if ovf then Panic else Ok (s mod two64))
            (m_files m) (Ok 0).

Definition piece_length (ovf : bool) (m : metainfo) (i : N) : result N :=
  let n := pieces_num m in
  (* pieces.len() - 1 *)
  do last <- (if n =? 0 then (if ovf then Panic else Ok (two64 - 1)) else Ok (n - 1));
  if i <? last then Ok (m_piece_length m) else
  do t <- total_length ovf m;
  if m_piece_length m =? 0 then Panic else
  let l := t mod m_piece_length m in
  if negb (l =? 0) then Ok l else Ok (m_piece_length m).

Record piece_pos := mkpos { file_index : N; byte_index : N }.

Definition pos_of (m : metainfo) (pos : N) : result piece_pos :=
  if m_piece_length m =? 0 then Panic
  else Ok (mkpos (pos / m_piece_length m) (pos mod m_piece_length m)).

(* file_piece_ranges: start and end position per file (paths are joined in Path.v) *)
Fixpoint ranges_go (ovf : bool) (m : metainfo) (fs : list file) (pos : N)
  : result (list (bytes * piece_pos * piece_pos)) :=
  match fs with
  | [] => Ok []
  | f :: r =>
      let e := pos + f_length f in
      do e' <- (if e <? two64 then Ok e else if ovf then Panic else Ok (e mod two64));
      do p1 <- pos_of m pos;
      do p2 <- pos_of m e';
      do rest <- ranges_go ovf m r e';
      Ok ((f_path f, p1, p2) :: rest)
  end.
Definition file_piece_ranges (ovf : bool) (m : metainfo) : result (list (bytes * piece_pos * piece_pos)) :=
  ranges_go ovf m (m_files m) 0.

(* ---- create_file ---------------------------------------------------------------- *)
Definition create_torrent_with (name tracker : bytes) (data_len : N) (pieces : bytes) : bytes :=
  let info := map_of_list [ (k_name, BStr name); (k_piece_length, BInt (Z.of_N PIECE_LENGTH));
                            (k_pieces, BStr pieces); (k_length, BInt (Z.of_N data_len)) ] in
  let torrent := map_of_list [ (k_announce, BStr tracker); (k_info, BDict info) ] in
  encode (BDict torrent).

Section Create.
  Variable sha1 : bytes -> bytes.
  Definition create_torrent (name tracker data : bytes) : bytes :=
    create_torrent_with name tracker (len data)
                        (concat (map sha1 (chunks (N.to_nat PIECE_LENGTH) data))).
End Create.
