(* C13 — piece choice is rarest-first among what the peer can give. *)
From Coq Require Import Permutation.
From Rdest Require Import Base Consts Wire Manager MgrProofs.
Open Scope N_scope.

(* choose_piece_index with its shuffle made an argument: for EVERY permutation the shuffle can
   produce, the piece returned satisfies the rarest-first relation pick_ok ... *)
Theorem C13_pick : forall m p shuffled, Permutation shuffled (rarest_list m) ->
  pick_ok m p (choose_with shuffled p) = true.
Proof. exact choose_with_ok. Qed.

(* ... which reads: the pick is advertised by the peer, lacked by the client, not already being
   fetched unless fewer than ten pieces remain, and no other such piece is advertised by fewer
   connected peers; nothing is picked exactly when no such piece exists. *)
Theorem C13_pick_spec : forall m p pick, pick_ok m p pick = true -> PickSpec m p pick.
Proof. exact pick_ok_spec. Qed.

(* and conversely, for a connected peer, every pick the statement allows is accepted by the boolean relation: pick_ok
   is exactly the statement, not something stricter *)
Theorem C13_spec_pick : forall m a p pick, In (a, p) (m_peers m) -> PickSpec m p pick -> pick_ok m p pick = true.
Proof. exact pick_spec_ok. Qed.

(* the set the correspondence tests membership in contains only picks satisfying the relation *)
Theorem C13_allowed : forall m p pick, In pick (allowed_picks m p) -> pick_ok m p pick = true.
Proof. exact allowed_picks_ok. Qed.

(* ... and contains every such pick: the membership test rejects exactly the picks the relation rejects *)
Theorem C13_allowed_complete : forall m p pick, pick_ok m p pick = true -> In pick (allowed_picks m p).
Proof. exact allowed_picks_complete. Qed.

Check C13_allowed_complete : forall m p pick, pick_ok m p pick = true -> In pick (allowed_picks m p).
Check C13_pick : forall m p shuffled, Permutation shuffled (rarest_list m) -> pick_ok m p (choose_with shuffled p) = true.

(* non-vacuity: a state with two peers and three pieces on which the relation is decisive *)
Definition ex_peer1 := mkpeer None [true; true; true] None false true false false false None None.
Definition ex_peer2 := mkpeer None [true; false; false] None false true false false false None None.
Definition ex_m := mkmgr [Missing; Missing; Have] [(1, ex_peer1); (2, ex_peer2)] [] 0 false [4; 4; 2].
Example C13_nonvacuous : choose_with (rarest_list ex_m) ex_peer1 = Some 1 /\ pick_ok ex_m ex_peer1 (Some 0) = false.
Proof. vm_compute. split; reflexivity. Qed.

(* the number in the property text ("unless fewer than ten pieces remain") is the code's constant, pinned here: a
   changed END_GAME_LIMIT breaks this file *)
Example C13_ten_pinned : session_END_GAME_LIMIT = 10. Proof. reflexivity. Qed.

Print Assumptions C13_pick.
Print Assumptions C13_pick_spec.
Print Assumptions C13_allowed.
Print Assumptions C13_allowed_complete.
Print Assumptions C13_spec_pick.
