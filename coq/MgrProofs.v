(* MgrProofs.v — theorems about the manager model. *)
From Rdest Require Import Base BaseProofs Consts Wire Manager.
From Coq Require Import Permutation Sorted ZifyBool ZifyN ZifyNat.
Open Scope N_scope.

(* ---- C13: the chooser ---------------------------------------------------------------------- *)
Lemma insert_cnt_perm x l : Permutation (insert_cnt x l) (x :: l).
Proof.
  induction l as [|y r IH]; cbn [insert_cnt]; [apply Permutation_refl|].
  destruct (snd x <=? snd y); [apply Permutation_refl|].
  eapply Permutation_trans; [apply perm_skip; exact IH | apply perm_swap].
Qed.

Lemma sort_cnt_perm l : Permutation (sort_cnt l) l.
Proof.
  induction l as [|x l IH]; cbn [sort_cnt fold_right]; [apply Permutation_refl|].
  eapply Permutation_trans; [apply insert_cnt_perm | apply perm_skip; exact IH].
Qed.

Definition le_cnt (a b : nat * N) : Prop := snd a <= snd b.

Lemma insert_cnt_sorted x l : StronglySorted le_cnt l -> StronglySorted le_cnt (insert_cnt x l).
Proof.
  induction 1 as [|y r Hs IH Hy]; cbn [insert_cnt]; [constructor; constructor|].
  destruct (N.leb_spec (snd x) (snd y)) as [Hle|Hgt].
  - constructor; [constructor; assumption|]. constructor; [exact Hle|].
    rewrite Forall_forall in *. intros z Hz. unfold le_cnt in *. specialize (Hy z Hz). lia.
  - constructor; [exact IH|]. rewrite Forall_forall in *. intros z Hz.
    apply (Permutation_in _ (insert_cnt_perm x r)) in Hz. destruct Hz as [<-|Hz]; [unfold le_cnt; lia | apply Hy; exact Hz].
Qed.

Lemma sort_cnt_sorted l : StronglySorted le_cnt (sort_cnt l).
Proof. induction l as [|x l IH]; cbn [sort_cnt fold_right]; [constructor | apply insert_cnt_sorted; exact IH]. Qed.

Lemma find_sorted_min (f : nat * N -> bool) l x : StronglySorted le_cnt l -> find f l = Some x ->
  f x = true /\ In x l /\ forall y, In y l -> f y = true -> snd x <= snd y.
Proof.
  induction 1 as [|z r Hs IH Hz]; cbn [find]; [discriminate|].
  destruct (f z) eqn:E.
  - intros [= <-]. split; [exact E|]. split; [left; reflexivity|].
    intros y [<-|Hy] _; [lia|]. rewrite Forall_forall in Hz. apply (Hz y Hy).
  - intros H. destruct (IH H) as (A & B & C). split; [exact A|]. split; [right; exact B|].
    intros y [<-|Hy] Hf; [congruence | apply C; assumption].
Qed.

Lemma find_none_all {A} (f : A -> bool) l : find f l = None -> forall y, In y l -> f y = false.
Proof.
  induction l as [|z r IH]; cbn [find]; [intros _ y []|].
  destruct (f z) eqn:E; [discriminate|]. intros H y [<-|Hy]; [exact E | apply IH; assumption].
Qed.

Lemma in_rarest m i c : In (i, c) (rarest_list m) <-> In i (indices m) /\ desired m i = true /\ c = count_have m i.
Proof.
  unfold rarest_list. rewrite in_map_iff. split.
  - intros (j & [= <- <-] & Hj). apply filter_In in Hj. tauto.
  - intros (Hi & Hd & ->). exists i. split; [reflexivity | apply filter_In; tauto].
Qed.

Lemma eligible_in_rarest m p j : In j (indices m) -> eligible m p j = true ->
  In (j, count_have m j) (rarest_list m) /\ (0 <? count_have m j) && nth j (p_pieces p) false = true.
Proof.
  unfold eligible. intros Hin H. apply andb_true_iff in H. destruct H as [H Hn]. apply andb_true_iff in H. destruct H as [Hd Hc].
  split; [apply in_rarest; tauto | rewrite Hc, Hn; reflexivity].
Qed.

(* whatever the shuffle, the code's pick satisfies the rarest-first relation *)
Theorem choose_with_ok m p shuffled : Permutation shuffled (rarest_list m) ->
  pick_ok m p (choose_with shuffled p) = true.
Proof.
  intros Hperm. unfold choose_with.
  set (f := fun ic : nat * N => (0 <? snd ic) && nth (fst ic) (p_pieces p) false).
  assert (Hall : forall y, In y (sort_cnt shuffled) <-> In y (rarest_list m)).
  { intros y. split; intros H.
    - apply (Permutation_in _ Hperm). apply (Permutation_in _ (sort_cnt_perm shuffled)). exact H.
    - apply (Permutation_in _ (Permutation_sym (sort_cnt_perm shuffled))). apply (Permutation_in _ (Permutation_sym Hperm)). exact H. }
  destruct (find f (sort_cnt shuffled)) as [[i c]|] eqn:E.
  - destruct (find_sorted_min f _ _ (sort_cnt_sorted shuffled) E) as (Hf & Hin & Hmin).
    apply Hall, in_rarest in Hin. destruct Hin as (Hidx & Hd & ->).
    unfold f in Hf. cbn [fst snd] in Hf. apply andb_true_iff in Hf. destruct Hf as [Hc Hn].
    unfold pick_ok. rewrite Nat2N.id. apply andb_true_iff. split.
    + unfold eligible. rewrite Hd, Hc, Hn. reflexivity.
    + apply forallb_forall. intros j Hj. destruct (eligible m p j) eqn:Ej; [|reflexivity]. cbn [negb orb].
      destruct (eligible_in_rarest m p j Hj Ej) as [Hr Hfj].
      specialize (Hmin (j, count_have m j) (proj2 (Hall _) Hr) Hfj). cbn [snd] in Hmin. apply N.leb_le. exact Hmin.
  - unfold pick_ok. apply forallb_forall. intros j Hj. destruct (eligible m p j) eqn:Ej; [|reflexivity].
    destruct (eligible_in_rarest m p j Hj Ej) as [Hr Hfj].
    pose proof (find_none_all f _ E (j, count_have m j) (proj2 (Hall _) Hr)) as Hf. unfold f in Hf. cbn [fst snd] in Hf. congruence.
Qed.

(* pick_ok read as a statement *)
Definition PickSpec (m : mgr) (p : peer) (pick : option N) : Prop :=
  match pick with
  | Some i =>
      let i' := N.to_nat i in
      (* advertised by the peer, lacked by the client, not being fetched unless fewer than ten remain *)
      nth i' (p_pieces p) false = true /\
      (exists s, nth_error (m_status m) i' = Some s /\ is_have s = false /\
                 (is_missing s = true \/ still_missing m < session_END_GAME_LIMIT)) /\
      (* and no other such piece is advertised by fewer connected peers *)
      (forall j, (j < length (m_status m))%nat -> eligible m p j = true -> count_have m i' <= count_have m j)
  | None => forall j, (j < length (m_status m))%nat -> eligible m p j = false
  end.

Lemma in_indices m j : In j (indices m) <-> (j < length (m_status m))%nat.
Proof. unfold indices. rewrite in_seq. lia. Qed.

Theorem pick_ok_spec m p pick : pick_ok m p pick = true -> PickSpec m p pick.
Proof.
  destruct pick as [i|]; cbn [pick_ok PickSpec].
  - intros H. apply andb_true_iff in H. destruct H as [He Hmin].
    unfold eligible in He. apply andb_true_iff in He. destruct He as [He Hn]. apply andb_true_iff in He. destruct He as [Hd Hc].
    split; [exact Hn|]. split.
    + unfold desired in Hd. destruct (nth_error (m_status m) (N.to_nat i)) as [s|]; [|discriminate].
      exists s. split; [reflexivity|]. unfold end_game in Hd. destruct (still_missing m <? session_END_GAME_LIMIT) eqn:Eg.
      * split; [apply negb_true_iff; exact Hd | right; apply N.ltb_lt; exact Eg].
      * split; [destruct s; cbn in *; congruence | left; exact Hd].
    + intros j Hj Ej. rewrite forallb_forall in Hmin. specialize (Hmin j (proj2 (in_indices m j) Hj)).
      rewrite Ej in Hmin. cbn [negb orb] in Hmin. apply N.leb_le. exact Hmin.
  - intros H j Hj. rewrite forallb_forall in H. specialize (H j (proj2 (in_indices m j) Hj)). apply negb_true_iff. exact H.
Qed.

(* the membership set used by the correspondence is exactly the relation *)
Theorem allowed_picks_ok m p pick : In pick (allowed_picks m p) -> pick_ok m p pick = true.
Proof.
  unfold allowed_picks. destruct (filter (eligible m p) (indices m)) as [|e0 el'] eqn:E.
  - intros [<-|[]]. cbn [pick_ok]. apply forallb_forall. intros j Hj.
    destruct (eligible m p j) eqn:Ej; [|reflexivity].
    assert (In j (filter (eligible m p) (indices m))) by (apply filter_In; tauto). rewrite E in H. destruct H.
  - set (el := e0 :: el') in *. intros H. apply in_map_iff in H. destruct H as (i & <- & Hi).
    apply filter_In in Hi. destruct Hi as [Hiel Hmin]. rewrite <- E in Hiel. apply filter_In in Hiel. destruct Hiel as [Hidx He].
    cbn [pick_ok]. rewrite Nat2N.id. rewrite He. cbn [andb]. apply forallb_forall. intros j Hj.
    destruct (eligible m p j) eqn:Ej; [|reflexivity]. cbn [negb orb].
    rewrite forallb_forall in Hmin. apply Hmin. rewrite <- E. apply filter_In. tauto.
Qed.

(* ... and conversely every pick satisfying the relation is in the set: the membership test of the
   correspondence can never reject a pick the property allows (no false alarm from the set being too small) *)
Lemma eligible_in_indices m p j : eligible m p j = true -> In j (indices m).
Proof.
  intros He. apply in_indices. unfold eligible in He.
  apply andb_true_iff in He. destruct He as [He _]. apply andb_true_iff in He. destruct He as [Hd _].
  unfold desired in Hd. destruct (nth_error (m_status m) j) as [s|] eqn:E; [|discriminate].
  apply nth_error_Some. congruence.
Qed.

Theorem allowed_picks_complete m p pick : pick_ok m p pick = true -> In pick (allowed_picks m p).
Proof.
  unfold allowed_picks. destruct pick as [i|]; cbn [pick_ok]; intros H.
  - apply andb_true_iff in H. destruct H as [He Hmin].
    assert (Hel : In (N.to_nat i) (filter (eligible m p) (indices m))).
    { apply filter_In. split; [eapply eligible_in_indices; exact He | exact He]. }
    destruct (filter (eligible m p) (indices m)) as [|e0 el'] eqn:E; [destruct Hel|].
    set (el := e0 :: el') in *. apply in_map_iff. exists (N.to_nat i). split; [rewrite N2Nat.id; reflexivity|].
    apply filter_In. split; [exact Hel|]. apply forallb_forall. intros j Hj.
    assert (Hj' : In j (filter (eligible m p) (indices m))) by (rewrite E; exact Hj).
    apply filter_In in Hj'. destruct Hj' as [Hji Hje].
    rewrite forallb_forall in Hmin. specialize (Hmin j Hji). rewrite Hje in Hmin. exact Hmin.
  - destruct (filter (eligible m p) (indices m)) as [|e0 el'] eqn:E; [left; reflexivity|].
    assert (Hin : In e0 (filter (eligible m p) (indices m))) by (rewrite E; left; reflexivity).
    apply filter_In in Hin. destruct Hin as [Hi He]. rewrite forallb_forall in H. specialize (H e0 Hi).
    rewrite He in H. discriminate.
Qed.

(* the boolean relation is not stricter than the statement: for a connected peer PickSpec implies pick_ok *)
Lemma count_have_pos m a p i : In (a, p) (m_peers m) -> nth i (p_pieces p) false = true -> 0 < count_have m i.
Proof.
  intros Hin Hn. unfold count_have.
  assert (H : In (a, p) (filter (fun kp => nth i (p_pieces (snd kp)) false) (m_peers m))) by (apply filter_In; split; [exact Hin | exact Hn]).
  destruct (filter _ (m_peers m)) as [|x l]; [destruct H|]. unfold len. cbn [length]. lia.
Qed.

Theorem pick_spec_ok m a p pick : In (a, p) (m_peers m) -> PickSpec m p pick -> pick_ok m p pick = true.
Proof.
  intros Hin. destruct pick as [i|]; cbn [PickSpec pick_ok].
  - intros (Hn & (s & Hs & Hh & Hd) & Hmin).
    assert (He : eligible m p (N.to_nat i) = true).
    { unfold eligible. rewrite Hn. rewrite andb_true_r. apply andb_true_iff. split.
      - unfold desired. rewrite Hs. unfold end_game. destruct (still_missing m <? session_END_GAME_LIMIT) eqn:Eg.
        + rewrite Hh. reflexivity.
        + destruct Hd as [Hd|Hd]; [exact Hd | apply N.ltb_lt in Hd; congruence].
      - apply N.ltb_lt. eapply count_have_pos; eassumption. }
    rewrite He. cbn [andb]. apply forallb_forall. intros j Hj. destruct (eligible m p j) eqn:Ej; [|reflexivity].
    cbn [negb orb]. apply N.leb_le. apply Hmin; [apply in_indices; exact Hj | exact Ej].
  - intros H. apply forallb_forall. intros j Hj. rewrite (H j (proj1 (in_indices m j) Hj)). reflexivity.
Qed.

(* ---- statuses: Have is absorbing (C12), who may be served (C09), what is advertised (C11) ------- *)
Lemma nth_set_nth {A} (l : list A) i j x : nth_error (set_nth l i x) j =
  if Nat.eqb i j then (match nth_error l i with Some _ => Some x | None => None end) else nth_error l j.
Proof.
  revert i j. induction l as [|y l IH]; intros i j.
  - cbn. destruct (Nat.eqb i j); destruct i, j; reflexivity.
  - destruct i as [|i], j as [|j]; cbn; try reflexivity. apply IH.
Qed.

Definition have_at (st : list status) (i : nat) : Prop := nth_error st i = Some Have.

Lemma have_sset st k s i : have_at st i -> (nth_error st (N.to_nat k) = Some Have -> s = Have) -> have_at (sset st k s) i.
Proof.
  unfold have_at, sset. intros H Hs. rewrite nth_set_nth. destruct (Nat.eqb_spec (N.to_nat k) i) as [E|]; [subst i|exact H].
  rewrite H. f_equal. apply Hs. exact H.
Qed.

Lemma have_upd st k f st' i : upd_status st k f = Ok st' -> f Have = Have -> have_at st i -> have_at st' i.
Proof.
  unfold upd_status, nthN. destruct (nth_error st (N.to_nat k)) as [s|] eqn:E; [|discriminate]. intros [= <-] Hf H.
  apply have_sset; [exact H|]. intros E2. rewrite E in E2. injection E2 as ->. exact Hf.
Qed.

Lemma have_peer_handle_piece m a p pick m' r bc sp i :
  peer_handle_piece m a p pick = Ok (m', r, bc, sp) -> have_at (m_status m) i -> have_at (m_status m') i.
Proof.
  unfold peer_handle_piece. destruct pick as [c|].
  - destruct (Peer_no_reserve_when_choked && p_choked p); [unfold out; intros [= <- _ _ _]; auto|].
    destruct (upd_status (m_status m) c incr) as [st| | |] eqn:E; cbn [bind]; try discriminate.
    destruct (p_choked p); [unfold out; intros [= <- _ _ _] H; cbn; apply (have_upd _ _ _ _ _ E eq_refl H)|].
    destruct (plen_of m c); cbn [bind]; try discriminate. unfold out. intros [= <- _ _ _] H. cbn. apply (have_upd _ _ _ _ _ E eq_refl H).
  - unfold out. intros [= <- _ _ _]. auto.
Qed.

Theorem have_absorbing m c pick m' r bc sp i :
  mstep m c pick = Ok (m', r, bc, sp) -> have_at (m_status m) i -> have_at (m_status m') i.
Proof.
  destruct c; cbn [mstep]; unfold out.
  - destruct (pget (m_peers m) a); [intros [= <- _ _ _]; auto | discriminate].
  - destruct (pget (m_peers m) a) as [p|]; [|discriminate].
    destruct (p_piece_index p) as [k|]; cbn [bind].
    + destruct (upd_status (m_status m) k decr) as [st| | |] eqn:E; cbn [bind]; try discriminate.
      intros [= <- _ _ _] H. cbn. apply (have_upd _ _ _ _ _ E eq_refl H).
    + intros [= <- _ _ _]. auto.
  - destruct (pget (m_peers m) a) as [p|]; [|discriminate]. destruct pick as [k|].
    + destruct (upd_status (m_status m) k incr) as [st| | |] eqn:E; cbn [bind]; try discriminate.
      destruct (plen_of m k); cbn [bind]; try discriminate. intros [= <- _ _ _] H. cbn. apply (have_upd _ _ _ _ _ E eq_refl H).
    + intros [= <- _ _ _]. auto.
  - destruct (pget (m_peers m) a); [intros [= <- _ _ _]; auto | discriminate].
  - destruct (pget (m_peers m) a); [intros [= <- _ _ _]; auto | discriminate].
  - destruct (pget (m_peers m) a) as [p|]; [|discriminate].
    destruct (len (p_pieces p) <=? i0); [discriminate|].
    destruct (nthN (m_status m) i0) as [s|] eqn:E; [|discriminate].
    destruct (is_missing s && negb (p_am_interested p)) eqn:EM.
    + destruct (negb (p_choked p) && match p_piece_index p with None => true | Some _ => false end).
      * destruct (plen_of m i0); cbn [bind]; try discriminate. intros [= <- _ _ _] H. cbn.
        apply have_sset; [exact H|]. unfold nthN in E. intros E2. rewrite E in E2. injection E2 as ->. discriminate.
      * intros [= <- _ _ _]. auto.
    + intros [= <- _ _ _]. auto.
  - destruct (pget (m_peers m) a) as [p|]; [|discriminate].
    destruct (to_vec bits (pieces_n m)); [|discriminate].
    destruct (negb (len l =? len (p_pieces p))); [discriminate|]. intros [= <- _ _ _]. auto.
  - destruct (pget (m_peers m) a) as [p|]; [|discriminate].
    destruct (p_am_choked p); [intros [= <- _ _ _]; auto|].
    destruct (pieces_n m <=? i0); [intros [= <- _ _ _]; auto|].
    destruct (nthN (m_status m) i0) as [s|]; [|discriminate]. destruct (is_have s); intros [= <- _ _ _]; auto.
  - destruct (pget (m_peers m) a) as [p|]; [|discriminate]. destruct (p_piece_index p) as [k|]; [|discriminate].
    destruct (nthN (m_status m) k); [|discriminate].
    destruct (peer_handle_piece _ a p pick) as [[[[m2 rep] bc2] sp2]| | |] eqn:E; cbn [bind]; try discriminate.
    intros [= <- _ _ _] H. apply (have_peer_handle_piece _ _ _ _ _ _ _ _ _ E). cbn. apply have_sset; auto.
  - destruct (pget (m_peers m) a) as [p|]; [|discriminate]. destruct (p_piece_index p) as [k|]; [|discriminate].
    destruct (upd_status (m_status m) k decr) as [st| | |] eqn:E; cbn [bind]; try discriminate.
    intros H1 H. apply (have_peer_handle_piece _ _ _ _ _ _ _ _ _ H1). cbn. apply (have_upd _ _ _ _ _ E eq_refl H).
  - destruct (pget (m_peers m) a); [intros [= <- _ _ _]; auto | discriminate].
  - (* kill *)
    unfold kill_peer. destruct (pget (m_peers m) a) as [p|]; cbn [bind].
    + destruct (p_piece_index p) as [k|]; cbn [bind].
      * destruct (nthN (m_status m) k) as [s|] eqn:E; cbn [bind]; [|discriminate].
        assert (Hs : have_at (m_status m) i -> have_at (if is_have s then m_status m else sset (m_status m) k Missing) i).
        { intros H. destruct (is_have s) eqn:Eh; [exact H|]. apply have_sset; [exact H|]. unfold nthN in E. intros E2. rewrite E in E2. injection E2 as ->. discriminate. }
        destruct (all_have _); [intros [= <- _ _ _] H; cbn; auto|].
        destruct (m_candidates m); [intros [= <- _ _ _] H; cbn; auto|].
        unfold spawn_peer. cbn [m_candidates m_peers m_status m_round m_extracted m_plens].
        destruct (rev (p0 :: l)) as [|[a0 id] rest]; [intros [= <- _ _ _] H; cbn; auto|].
        destruct (pget (premove (m_peers m) a) a0); intros [= <- _ _ _] H; cbn; auto.
      * destruct (all_have _); [intros [= <- _ _ _] H; cbn; auto|].
        destruct (m_candidates m); [intros [= <- _ _ _] H; cbn; auto|].
        unfold spawn_peer. cbn [m_candidates m_peers m_status m_round m_extracted m_plens].
        destruct (rev (p0 :: l)) as [|[a0 id] rest]; [intros [= <- _ _ _] H; cbn; auto|].
        destruct (pget (premove (m_peers m) a) a0); intros [= <- _ _ _] H; cbn; auto.
    + destruct (all_have _); [intros [= <- _ _ _] H; cbn; auto|].
      destruct (m_candidates m); [intros [= <- _ _ _] H; cbn; auto|].
      unfold spawn_peer. destruct (rev (m_candidates m)) as [|[a0 id] rest]; [intros [= <- _ _ _] H; cbn; auto|].
      destruct (pget (m_peers m) a0); intros [= <- _ _ _] H; cbn; auto.
Qed.

(* C09, manager side: a piece is loaded for a peer only while we have it unchoked, only a piece we own *)
Theorem load_only_unchoked_owned m a i pick m' j bc sp :
  mstep m (CRequest a i) pick = Ok (m', RReq_Load j, bc, sp) ->
  j = i /\ m' = m /\ i < pieces_n m /\ nthN (m_status m) i = Some Have /\
  exists p, pget (m_peers m) a = Some p /\ p_am_choked p = false.
Proof.
  cbn [mstep]. unfold out. destruct (pget (m_peers m) a) as [p|] eqn:Ep; [|discriminate].
  destruct (p_am_choked p) eqn:Ec; [discriminate|].
  destruct (N.leb_spec (pieces_n m) i); [discriminate|].
  destruct (nthN (m_status m) i) as [s|] eqn:Es; [|discriminate].
  destruct s; cbn [is_have]; try discriminate. intros [= <- <- _ _].
  repeat split; auto. exists p. split; [reflexivity | exact Ec].
Qed.

(* C11, manager side: the bitfield handed to a connection marks exactly the pieces that are Have, and a
   SendHave broadcast for i happens only when a connection reports piece i done, with i Have from then on *)
Theorem init_bitfield m a id pick m' r bc sp : mstep m (CInit a id) pick = Ok (m', r, bc, sp) ->
  r = RBitfield (map is_have (m_status m)) /\ bc = [].
Proof. cbn [mstep]. unfold out. destruct (pget (m_peers m) a); [intros [= _ <- <- _]; auto | discriminate]. Qed.

Theorem have_broadcast_only_when_done m c pick m' r bc sp i : mstep m c pick = Ok (m', r, bc, sp) -> In (BHave i) bc ->
  exists a p, c = CPieceDone a /\ pget (m_peers m) a = Some p /\ p_piece_index p = Some i /\
              have_at (m_status m') (N.to_nat i).
Proof.
  destruct c; cbn [mstep]; unfold out;
    try (destruct (pget (m_peers m) a) as [p|] eqn:Ep; [|discriminate]);
    try (intros [= _ _ <- _] []; fail).
  - destruct (p_piece_index p); cbn [bind]; [destruct (upd_status _ _ _); cbn [bind]; try discriminate|]; intros [= _ _ <- _] [].
  - destruct pick; [destruct (upd_status _ _ _); cbn [bind]; try discriminate; destruct (plen_of _ _); cbn [bind]; try discriminate|]; intros [= _ _ <- _] [].
  - destruct (len (p_pieces p) <=? i0); [discriminate|]. destruct (nthN (m_status m) i0); [|discriminate].
    destruct (_ && _); [destruct (_ && _); [destruct (plen_of _ _); cbn [bind]; try discriminate|]|]; intros [= _ _ <- _] [].
  - destruct (to_vec _ _); [|discriminate]. destruct (negb _); [discriminate|]. intros [= _ _ <- _] [].
  - destruct (p_am_choked p); [intros [= _ _ <- _] []|]. destruct (pieces_n m <=? i0); [intros [= _ _ <- _] []|].
    destruct (nthN _ _); [|discriminate]. destruct (is_have _); intros [= _ _ <- _] [].
  - (* piece done *)
    destruct (p_piece_index p) as [k|] eqn:Ek; [|discriminate].
    destruct (nthN (m_status m) k) as [sk|] eqn:Esk; [|discriminate].
    destruct (peer_handle_piece _ a p pick) as [[[[m2 rep] bc2] sp2]| | |] eqn:E; cbn [bind]; try discriminate.
    intros [= <- _ <- _] [[= <-]|[]]. exists a, p. split; [reflexivity|]. split; [exact Ep|]. split; [exact Ek|].
    apply (have_peer_handle_piece _ _ _ _ _ _ _ _ _ E). cbn. unfold have_at, sset. rewrite nth_set_nth, Nat.eqb_refl.
    unfold nthN in Esk. rewrite Esk. reflexivity.
  - destruct (p_piece_index p); [|discriminate]. destruct (upd_status _ _ _) as [st| | |]; cbn [bind]; try discriminate.
    unfold peer_handle_piece. destruct pick.
    + destruct (_ && p_choked p); [unfold out; intros [= _ _ <- _] []|].
      destruct (upd_status _ _ _); cbn [bind]; try discriminate. destruct (p_choked p); [unfold out; intros [= _ _ <- _] []|].
      destruct (plen_of _ _); cbn [bind]; try discriminate. unfold out. intros [= _ _ <- _] [].
    + unfold out. intros [= _ _ <- _] [].
  - destruct (kill_peer m a) as [mk| | |]; cbn [bind]; try discriminate. destruct (all_have _); [intros [= _ _ <- _] []|].
    destruct (m_candidates mk); [intros [= _ _ <- _] []|]. destruct (spawn_peer mk). intros [= _ _ <- _] [].
Qed.

(* ---- C14: upload slots ----------------------------------------------------------------------- *)
Definition regular_slot (p : peer) : bool := negb (p_am_choked p) && negb (p_optimistic p).
Definition regular_unchoked (ps : list (addr * peer)) : N := len (filter (fun kp => regular_slot (snd kp)) ps).
Definition b2n (b : bool) : N := if b then 1 else 0.

Lemma count_pset (f : peer -> bool) ps a p p' : pget ps a = Some p ->
  len (filter (fun kp => f (snd kp)) (pset ps a p')) + b2n (f p) = len (filter (fun kp => f (snd kp)) ps) + b2n (f p').
Proof.
  induction ps as [|[k q] ps IH]; cbn [pget pset]; [discriminate|].
  destruct (k =? a) eqn:E.
  - intros [= ->]. cbn [filter snd]. destruct (f p), (f p'); cbn [b2n]; rewrite ?len_cons; lia.
  - intros H. specialize (IH H). cbn [filter snd]. destruct (f q); rewrite ?len_cons; lia.
Qed.

(* a newcomer's bitfield never takes the regular slots above ten *)
Theorem bitfield_keeps_bound m a bits pick m' r bc sp :
  Session_unchoked_counts_regular = true ->
  mstep m (CBitfield a bits) pick = Ok (m', r, bc, sp) ->
  regular_unchoked (m_peers m) <= 10 -> regular_unchoked (m_peers m') <= 10.
Proof.
  intros F. cbn [mstep]. unfold out. destruct (pget (m_peers m) a) as [p|] eqn:Ep; [|discriminate].
  destruct (to_vec bits (pieces_n m)) as [v|]; [|discriminate].
  destruct (negb (len v =? len (p_pieces p))); [discriminate|]. rewrite F.
  intros [= <- _ _ _] Hb. cbn [m_peers with_peer].
  pose proof (count_pset regular_slot (m_peers m) a p (set_pieces p v) Ep) as C1.
  change (fun kp : addr * peer => negb (p_am_choked (snd kp)) && negb (p_optimistic (snd kp))) with (fun kp : addr * peer => regular_slot (snd kp)).
  fold (regular_unchoked (pset (m_peers m) a (set_pieces p v))).
  assert (E1 : regular_unchoked (pset (m_peers m) a (set_pieces p v)) = regular_unchoked (m_peers m)).
  { unfold regular_unchoked. unfold regular_slot in C1 at 2 4. cbn [set_pieces p_am_choked p_optimistic] in C1. fold (regular_slot p) in C1. lia. }
  rewrite E1. set (u := (regular_unchoked (m_peers m) <? MAX_UNCHOKED) && p_am_choked p).
  pose proof (count_pset regular_slot (m_peers m) a p
                (set_am (set_pieces p v) (match pick with Some _ => true | None => false end) (if u then false else p_am_choked p)) Ep) as C2.
  unfold regular_unchoked in *. unfold regular_slot in C2 at 2 4. cbn [set_am set_pieces p_am_choked p_optimistic] in C2.
  unfold MAX_UNCHOKED in u. destruct u eqn:Eu.
  - apply andb_true_iff in Eu. destruct Eu as [E2 E3]. rewrite E3 in C2. cbn [negb andb b2n] in C2.
    destruct (negb (p_optimistic p)); cbn [b2n] in C2; lia.
  - destruct (p_am_choked p); cbn [negb andb b2n] in C2; [lia|]. destruct (negb (p_optimistic p)); cbn [b2n] in C2; lia.
Qed.

(* ---- C01 / C02: how the set of owned pieces evolves ------------------------------------------- *)
Lemma set_nth_length {A} (l : list A) i x : length (set_nth l i x) = length l.
Proof. revert i. induction l as [|y l IH]; intros [|i]; cbn; auto. Qed.

Lemma upd_status_length st k f st' : upd_status st k f = Ok st' -> length st' = length st.
Proof. unfold upd_status. destruct (nthN st k); [|discriminate]. intros [= <-]. apply set_nth_length. Qed.

Lemma php_length m a p pick m' r bc sp : peer_handle_piece m a p pick = Ok (m', r, bc, sp) ->
  length (m_status m') = length (m_status m).
Proof.
  unfold peer_handle_piece. destruct pick as [c|].
  - destruct (Peer_no_reserve_when_choked && p_choked p); [unfold out; intros [= <- _ _ _]; reflexivity|].
    destruct (upd_status (m_status m) c incr) as [st| | |] eqn:E; cbn [bind]; try discriminate.
    destruct (p_choked p); [unfold out; intros [= <- _ _ _]; cbn; apply (upd_status_length _ _ _ _ E)|].
    destruct (plen_of m c); cbn [bind]; try discriminate. unfold out. intros [= <- _ _ _]. cbn. apply (upd_status_length _ _ _ _ E).
  - unfold out. intros [= <- _ _ _]. reflexivity.
Qed.

Theorem status_length m c pick m' r bc sp : mstep m c pick = Ok (m', r, bc, sp) -> length (m_status m') = length (m_status m).
Proof.
  destruct c; cbn [mstep]; unfold out;
    try (destruct (pget (m_peers m) a) as [p|] eqn:Ep; [|discriminate]);
    try (intros [= <- _ _ _]; reflexivity).
  - destruct (p_piece_index p); cbn [bind]; [destruct (upd_status _ _ _) eqn:E; cbn [bind]; try discriminate; intros [= <- _ _ _]; cbn; apply (upd_status_length _ _ _ _ E) | intros [= <- _ _ _]; reflexivity].
  - destruct pick; [destruct (upd_status _ _ _) eqn:E; cbn [bind]; try discriminate; destruct (plen_of _ _); cbn [bind]; try discriminate; intros [= <- _ _ _]; cbn; apply (upd_status_length _ _ _ _ E) | intros [= <- _ _ _]; reflexivity].
  - destruct (len (p_pieces p) <=? i); [discriminate|]. destruct (nthN (m_status m) i); [|discriminate].
    destruct (_ && _); [destruct (_ && _); [destruct (plen_of _ _); cbn [bind]; try discriminate; intros [= <- _ _ _]; cbn; apply set_nth_length | intros [= <- _ _ _]; reflexivity] | intros [= <- _ _ _]; reflexivity].
  - destruct (to_vec _ _); [|discriminate]. destruct (negb _); [discriminate|]. intros [= <- _ _ _]. reflexivity.
  - destruct (p_am_choked p); [intros [= <- _ _ _]; reflexivity|]. destruct (pieces_n m <=? i); [intros [= <- _ _ _]; reflexivity|].
    destruct (nthN _ _); [|discriminate]. destruct (is_have _); intros [= <- _ _ _]; reflexivity.
  - destruct (p_piece_index p) as [k|]; [|discriminate]. destruct (nthN (m_status m) k); [|discriminate].
    destruct (peer_handle_piece _ a p pick) as [[[[m2 rep] bc2] sp2]| | |] eqn:E; cbn [bind]; try discriminate.
    intros [= <- _ _ _]. rewrite (php_length _ _ _ _ _ _ _ _ E). cbn. apply set_nth_length.
  - destruct (p_piece_index p) as [k|]; [|discriminate]. destruct (upd_status _ _ _) as [st| | |] eqn:E; cbn [bind]; try discriminate.
    intros H. rewrite (php_length _ _ _ _ _ _ _ _ H). cbn. apply (upd_status_length _ _ _ _ E).
  - unfold kill_peer. destruct (pget (m_peers m) a) as [p|]; cbn [bind].
    + assert (HL : forall st, (match p_piece_index p with
                              | Some i => match nthN (m_status m) i with
                                          | Some s => Ok (if is_have s then m_status m else sset (m_status m) i Missing)
                                          | None => Panic
                                          end
                              | None => Ok (m_status m)
                              end) = Ok st -> length st = length (m_status m)).
      { intros st. destruct (p_piece_index p); [destruct (nthN _ _) as [s|]; [|discriminate]; destruct (is_have s)|]; intros [= <-]; try reflexivity. apply set_nth_length. }
      destruct (match p_piece_index p with Some i => _ | None => _ end) as [st| | |] eqn:E; cbn [bind]; try discriminate.
      specialize (HL st eq_refl).
      destruct (all_have _); [intros [= <- _ _ _]; exact HL|].
      cbn [m_candidates]. destruct (m_candidates m); [intros [= <- _ _ _]; exact HL|].
      unfold spawn_peer. cbn [m_candidates m_peers m_status m_round m_extracted m_plens].
      destruct (rev (p0 :: l)) as [|[a0 id] rest]; [intros [= <- _ _ _]; exact HL|].
      destruct (pget _ a0); intros [= <- _ _ _]; exact HL.
    + destruct (all_have _); [intros [= <- _ _ _]; reflexivity|].
      destruct (m_candidates m); [intros [= <- _ _ _]; reflexivity|].
      unfold spawn_peer. destruct (rev (m_candidates m)) as [|[a0 id] rest]; [intros [= <- _ _ _]; reflexivity|].
      destruct (pget _ a0); intros [= <- _ _ _]; reflexivity.
Qed.

Lemma missing_monotone : forall st st' : list status, length st' = length st ->
  (forall i, have_at st i -> have_at st' i) ->
  len (filter (fun s => negb (is_have s)) st') <= len (filter (fun s => negb (is_have s)) st).
Proof.
  induction st as [|s st IH]; intros [|s' st'] HL HH; cbn in HL; try discriminate; try (cbn; lia).
  assert (Hrec : len (filter (fun s => negb (is_have s)) st') <= len (filter (fun s => negb (is_have s)) st)).
  { apply IH; [lia|]. intros i Hi. exact (HH (S i) Hi). }
  cbn [filter]. pose proof (HH O) as H0. unfold have_at in H0. cbn in H0.
  destruct s; cbn [is_have negb]; destruct s'; cbn [is_have negb]; rewrite ?len_cons; try lia.
  - specialize (H0 eq_refl). discriminate.
  - specialize (H0 eq_refl). discriminate.
Qed.

(* the number of pieces still to obtain never increases, whatever the manager handles *)
Theorem still_missing_nonincreasing m c pick m' r bc sp : mstep m c pick = Ok (m', r, bc, sp) ->
  still_missing m' <= still_missing m.
Proof.
  intros H. unfold still_missing. apply missing_monotone; [apply (status_length _ _ _ _ _ _ _ H)|].
  intros i Hi. exact (have_absorbing _ _ _ _ _ _ _ i H Hi).
Qed.

(* if the peer can give something the client wants, the chooser does not come back empty-handed *)
Theorem pick_exists m p j : In j (indices m) -> eligible m p j = true -> pick_ok m p None = false.
Proof.
  intros Hin He. cbn [pick_ok]. apply not_true_iff_false. intros H. rewrite forallb_forall in H. specialize (H j Hin).
  rewrite He in H. discriminate.
Qed.

(* a piece becomes owned only by PieceDone from the peer it was assigned to *)
Theorem only_done_makes_have m c pick m' r bc sp i : mstep m c pick = Ok (m', r, bc, sp) ->
  ~ have_at (m_status m) i -> have_at (m_status m') i ->
  exists a p, c = CPieceDone a /\ pget (m_peers m) a = Some p /\ p_piece_index p = Some (N.of_nat i).
Proof.
  intros H Hn Hh.
  assert (NoChange : m_status m' = m_status m -> False) by (intros E; rewrite E in Hh; exact (Hn Hh)).
  assert (Upd : forall st k f, upd_status (m_status m) k f = Ok st -> (forall s, f s = Have -> s = Have) -> have_at st i -> False).
  { intros st k f E Hf Hst. unfold upd_status, nthN in E. destruct (nth_error (m_status m) (N.to_nat k)) as [s|] eqn:Es; [|discriminate].
    injection E as <-. unfold have_at, sset in Hst. rewrite nth_set_nth in Hst. destruct (Nat.eqb_spec (N.to_nat k) i) as [Ek|Ek].
    - subst i. rewrite Es in Hst. injection Hst as Hst. apply Hf in Hst. subst s. exact (Hn Es).
    - exact (Hn Hst). }
  assert (Fincr : forall s, incr s = Have -> s = Have) by (intros []; cbn; congruence).
  assert (Fdecr : forall s, decr s = Have -> s = Have) by (intros [|n|]; cbn; try congruence; destruct (2 <=? n); congruence).
  assert (PHP : forall m0 a p m2 rep bc2 sp2, m_status m0 = m_status m -> peer_handle_piece m0 a p pick = Ok (m2, rep, bc2, sp2) -> have_at (m_status m2) i -> False).
  { intros m0 a p m2 rep bc2 sp2 E0. unfold peer_handle_piece. destruct pick as [c0|].
    - destruct (Peer_no_reserve_when_choked && p_choked p); [unfold out; intros [= <- _ _ _] Hx; cbn in Hx; rewrite E0 in Hx; exact (Hn Hx)|].
      rewrite E0. destruct (upd_status (m_status m) c0 incr) as [st| | |] eqn:E; cbn [bind]; try discriminate.
      destruct (p_choked p); [unfold out; intros [= <- _ _ _] Hx; cbn in Hx; exact (Upd _ _ _ E Fincr Hx)|].
      destruct (plen_of m0 c0); cbn [bind]; try discriminate. unfold out. intros [= <- _ _ _] Hx. cbn in Hx. exact (Upd _ _ _ E Fincr Hx).
    - unfold out. intros [= <- _ _ _] Hx. cbn in Hx. rewrite E0 in Hx. exact (Hn Hx). }
  destruct c; cbn [mstep] in H; unfold out in H;
    try (destruct (pget (m_peers m) a) as [p|] eqn:Ep; [|discriminate]);
    try (injection H as <- _ _ _; exfalso; apply NoChange; reflexivity).
  - exfalso. destruct (p_piece_index p); cbn [bind] in H; [destruct (upd_status _ _ _) eqn:E; cbn [bind] in H; try discriminate; injection H as <- _ _ _; cbn in Hh; exact (Upd _ _ _ E Fdecr Hh) | injection H as <- _ _ _; apply NoChange; reflexivity].
  - exfalso. destruct pick; [destruct (upd_status _ _ _) eqn:E; cbn [bind] in H; try discriminate; destruct (plen_of _ _); cbn [bind] in H; try discriminate; injection H as <- _ _ _; cbn in Hh; exact (Upd _ _ _ E Fincr Hh) | injection H as <- _ _ _; apply NoChange; reflexivity].
  - exfalso. destruct (len (p_pieces p) <=? i0); [discriminate|]. destruct (nthN (m_status m) i0) eqn:Es; [|discriminate].
    destruct (_ && _); [destruct (_ && _); [destruct (plen_of _ _); cbn [bind] in H; try discriminate|]|]; injection H as <- _ _ _; try (apply NoChange; reflexivity).
    cbn in Hh. unfold have_at, sset in Hh. rewrite nth_set_nth in Hh. destruct (Nat.eqb_spec (N.to_nat i0) i); [|exact (Hn Hh)].
    unfold nthN in Es. subst i. rewrite Es in Hh. discriminate.
  - exfalso. destruct (to_vec _ _); [|discriminate]. destruct (negb _); [discriminate|]. injection H as <- _ _ _. apply NoChange. reflexivity.
  - exfalso. destruct (p_am_choked p); [injection H as <- _ _ _; apply NoChange; reflexivity|]. destruct (pieces_n m <=? i0); [injection H as <- _ _ _; apply NoChange; reflexivity|].
    destruct (nthN _ _); [|discriminate]. destruct (is_have _); injection H as <- _ _ _; apply NoChange; reflexivity.
  - (* piece done *)
    destruct (p_piece_index p) as [k|] eqn:Ek; [|discriminate]. destruct (nthN (m_status m) k) as [sk|] eqn:Esk; [|discriminate].
    destruct (peer_handle_piece _ a p pick) as [[[[m2 rep] bc2] sp2]| | |] eqn:E; cbn [bind] in H; try discriminate.
    injection H as <- _ _ _.
    destruct (Nat.eq_dec (N.to_nat k) i) as [Eki|Nki].
    + exists a, p. split; [reflexivity|]. split; [exact Ep|]. rewrite Ek. f_equal. lia.
    + exfalso.
      (* another index: handle_piece's increment cannot make it Have *)
      unfold peer_handle_piece in E. cbn [m_status with_status] in E. destruct pick as [c0|].
      * destruct (Peer_no_reserve_when_choked && p_choked p); [unfold out in E; injection E as <- _ _ _; cbn in Hh; unfold have_at, sset in Hh; rewrite nth_set_nth in Hh; destruct (Nat.eqb_spec (N.to_nat k) i); [contradiction | exact (Hn Hh)]|].
        destruct (upd_status (sset (m_status m) k Have) c0 incr) as [st| | |] eqn:E2; cbn [bind] in E; try discriminate.
        assert (Hst : have_at st i -> False).
        { intros Hx. unfold upd_status, nthN in E2. destruct (nth_error (sset (m_status m) k Have) (N.to_nat c0)) as [s|] eqn:Es; [|discriminate].
          injection E2 as <-. unfold have_at, sset in Hx. rewrite nth_set_nth in Hx. destruct (Nat.eqb_spec (N.to_nat c0) i) as [Ec|Ec].
          - subst i. unfold sset in Es. rewrite Es in Hx. injection Hx as Hx. apply Fincr in Hx. subst s. rewrite nth_set_nth in Es.
            destruct (Nat.eqb_spec (N.to_nat k) (N.to_nat c0)); [contradiction | exact (Hn Es)].
          - rewrite nth_set_nth in Hx. destruct (Nat.eqb_spec (N.to_nat k) i); [contradiction | exact (Hn Hx)]. }
        destruct (p_choked p); [unfold out in E; injection E as <- _ _ _; cbn in Hh; exact (Hst Hh)|].
        destruct (plen_of _ c0); cbn [bind] in E; try discriminate. unfold out in E. injection E as <- _ _ _. cbn in Hh. exact (Hst Hh).
      * unfold out in E. injection E as <- _ _ _. cbn in Hh. unfold have_at, sset in Hh. rewrite nth_set_nth in Hh.
        destruct (Nat.eqb_spec (N.to_nat k) i); [contradiction | exact (Hn Hh)].
  - exfalso. destruct (p_piece_index p) as [k|]; [|discriminate]. destruct (upd_status _ _ _) as [st| | |] eqn:E; cbn [bind] in H; try discriminate.
    unfold peer_handle_piece in H. cbn [m_status with_status] in H. destruct pick as [c0|].
    + destruct (Peer_no_reserve_when_choked && p_choked p); [unfold out in H; injection H as <- _ _ _; cbn in Hh; exact (Upd _ _ _ E Fdecr Hh)|].
      destruct (upd_status st c0 incr) as [st2| | |] eqn:E2; cbn [bind] in H; try discriminate.
      assert (Hst : have_at st2 i -> False).
      { intros Hx. unfold upd_status, nthN in E2. destruct (nth_error st (N.to_nat c0)) as [s|] eqn:Es; [|discriminate].
        injection E2 as <-. unfold have_at, sset in Hx. rewrite nth_set_nth in Hx. destruct (Nat.eqb_spec (N.to_nat c0) i) as [Ec|Ec].
        - subst i. rewrite Es in Hx. injection Hx as Hx. apply Fincr in Hx. subst s. exact (Upd _ _ _ E Fdecr Es).
        - exact (Upd _ _ _ E Fdecr Hx). }
      destruct (p_choked p); [unfold out in H; injection H as <- _ _ _; cbn in Hh; exact (Hst Hh)|].
      destruct (plen_of _ c0); cbn [bind] in H; try discriminate. unfold out in H. injection H as <- _ _ _. cbn in Hh. exact (Hst Hh).
    + unfold out in H. injection H as <- _ _ _. cbn in Hh. exact (Upd _ _ _ E Fdecr Hh).
  - (* kill: statuses only go to Missing *)
    exfalso. unfold kill_peer in H. destruct (pget (m_peers m) a) as [p|]; cbn [bind] in H.
    + assert (HK : forall st, (match p_piece_index p with
                              | Some i => match nthN (m_status m) i with
                                          | Some s => Ok (if is_have s then m_status m else sset (m_status m) i Missing)
                                          | None => Panic
                                          end
                              | None => Ok (m_status m)
                              end) = Ok st -> have_at st i -> False).
      { intros st. destruct (p_piece_index p) as [k|]; [destruct (nthN _ _) as [s|]; [|discriminate]; destruct (is_have s)|]; intros [= <-] Hx; try exact (Hn Hx).
        unfold have_at, sset in Hx. rewrite nth_set_nth in Hx. destruct (Nat.eqb_spec (N.to_nat k) i); [|exact (Hn Hx)].
        destruct (nth_error (m_status m) (N.to_nat k)); discriminate. }
      destruct (match p_piece_index p with Some i => _ | None => _ end) as [st| | |] eqn:E; cbn [bind] in H; try discriminate.
      specialize (HK st eq_refl).
      destruct (all_have _); [injection H as <- _ _ _; exact (HK Hh)|].
      cbn [m_candidates] in H. destruct (m_candidates m); [injection H as <- _ _ _; exact (HK Hh)|].
      unfold spawn_peer in H. cbn [m_candidates m_peers m_status m_round m_extracted m_plens] in H.
      destruct (rev (p0 :: l)) as [|[a0 id] rest]; [injection H as <- _ _ _; exact (HK Hh)|].
      destruct (pget _ a0); injection H as <- _ _ _; exact (HK Hh).
    + destruct (all_have _); [injection H as <- _ _ _; exact (Hn Hh)|].
      destruct (m_candidates m); [injection H as <- _ _ _; exact (Hn Hh)|].
      unfold spawn_peer in H. destruct (rev (m_candidates m)) as [|[a0 id] rest]; [injection H as <- _ _ _; exact (Hn Hh)|].
      destruct (pget _ a0); injection H as <- _ _ _; exact (Hn Hh).
Qed.

(* ---- C12: the reservation invariant of the manager -------------------------------------------------- *)
Definition optN_eqb (a b : option N) : bool :=
  match a, b with Some x, Some y => x =? y | None, None => true | _, _ => false end.
(* the peer is not choking us and is assigned piece i *)
Definition assigned (i : N) (p : peer) : bool := negb (p_choked p) && optN_eqb (p_piece_index p) (Some i).
Definition cnt (ps : list (addr * peer)) (i : N) : N := len (filter (fun kp => assigned i (snd kp)) ps).

(* a piece is marked Reserved(n) only with 1 <= n <= the number of connected peers that are not choking us and
   are assigned it *)
Definition InvM (m : mgr) : Prop :=
  forall i n, nthN (m_status m) i = Some (Reserved n) -> 1 <= n <= cnt (m_peers m) i.

(* what the connection tasks guarantee about the commands they send (Handler.v: an Unchoke is relayed only when the
   peer was choking us) *)
Definition producible (m : mgr) (c : cmd) : Prop :=
  match c with
  | CUnchoke a => forall p, pget (m_peers m) a = Some p -> p_choked p = true
  | _ => True
  end.

Lemma assigned_idx i p : assigned i p = true -> p_piece_index p = Some i /\ p_choked p = false.
Proof.
  unfold assigned. intros H. apply andb_true_iff in H. destruct H as [A B]. apply negb_true_iff in A.
  destruct (p_piece_index p) as [k|]; cbn in B; [|discriminate]. apply N.eqb_eq in B. subst. auto.
Qed.
Lemma assigned_other i k p : p_piece_index p = Some k -> k <> i -> assigned i p = false.
Proof. intros H N. unfold assigned. rewrite H. cbn. replace (k =? i) with false by (symmetry; apply N.eqb_neq; exact N). apply andb_false_r. Qed.
Lemma assigned_none i p : p_piece_index p = None -> assigned i p = false.
Proof. intros H. unfold assigned. rewrite H. apply andb_false_r. Qed.
Lemma assigned_choked i p : p_choked p = true -> assigned i p = false.
Proof. intros H. unfold assigned. rewrite H. reflexivity. Qed.

Lemma cnt_pset ps a p p' i : pget ps a = Some p ->
  cnt (pset ps a p') i + b2n (assigned i p) = cnt ps i + b2n (assigned i p').
Proof. apply (count_pset (assigned i)). Qed.

Lemma cnt_ge ps a p i : pget ps a = Some p -> b2n (assigned i p) <= cnt ps i.
Proof.
  unfold cnt. induction ps as [|[k q] ps IH]; cbn [pget]; [discriminate|]. destruct (k =? a).
  - intros [= ->]. cbn [filter snd]. destruct (assigned i p); cbn [b2n]; rewrite ?len_cons; lia.
  - intros H. specialize (IH H). cbn [filter snd]. destruct (assigned i q); rewrite ?len_cons; lia.
Qed.

Lemma cnt_premove ps a p i : pget ps a = Some p -> cnt (premove ps a) i + b2n (assigned i p) = cnt ps i.
Proof.
  unfold cnt. induction ps as [|[k q] ps IH]; cbn [pget premove]; [discriminate|]. destruct (k =? a).
  - intros [= ->]. cbn [filter snd]. destruct (assigned i p); cbn [b2n]; rewrite ?len_cons; lia.
  - intros H. specialize (IH H). cbn [filter snd]. destruct (assigned i q); rewrite ?len_cons; lia.
Qed.

Lemma cnt_pset_fresh ps a p' i : pget ps a = None -> cnt (pset ps a p') i = cnt ps i + b2n (assigned i p').
Proof.
  unfold cnt. induction ps as [|[k q] ps IH]; cbn [pget pset].
  - intros _. cbn [filter snd]. destruct (assigned i p'); cbn [b2n]; rewrite ?len_cons; reflexivity.
  - destruct (k =? a); [discriminate|]. intros H. specialize (IH H). cbn [filter snd]. destruct (assigned i q); rewrite ?len_cons; lia.
Qed.

Lemma nthN_sset st k s j : nthN (sset st k s) j =
  if k =? j then (match nthN st k with Some _ => Some s | None => None end) else nthN st j.
Proof.
  unfold nthN, sset. rewrite nth_set_nth. destruct (N.eqb_spec k j) as [->|N].
  - rewrite Nat.eqb_refl. reflexivity.
  - replace (Nat.eqb (N.to_nat k) (N.to_nat j)) with false by (symmetry; apply Nat.eqb_neq; lia). reflexivity.
Qed.

Lemma incr_reserved s n : incr s = Reserved n -> (s = Missing /\ n = 1) \/ (exists k, s = Reserved k /\ n = k + 1).
Proof. destruct s as [|k|]; cbn; intros [= <-]; [left; auto | right; exists k; auto]. Qed.
Lemma decr_reserved s n : decr s = Reserved n -> s = Reserved (n + 1) /\ 1 <= n.
Proof.
  destruct s as [|k|]; cbn; try discriminate. destruct (N.leb_spec 2 k); [|discriminate]. intros [= <-]. split; [f_equal; lia | lia].
Qed.

Lemma assigned_set_none j p b : assigned j (set_assign p None b) = false.
Proof. unfold assigned. cbn. apply andb_false_r. Qed.
Lemma assigned_set_some j p c b : assigned j (set_assign p (Some c) b) = negb (p_choked p) && (c =? j).
Proof. reflexivity. Qed.
Lemma assigned_unchoke_some j p c b : assigned j (set_assign (set_choked p false) (Some c) b) = (c =? j).
Proof. reflexivity. Qed.
Lemma assigned_unchoke_none j p b : assigned j (set_assign (set_choked p false) None b) = false.
Proof. reflexivity. Qed.
Lemma assigned_set_choked_true j p : assigned j (set_choked p true) = false.
Proof. reflexivity. Qed.
Lemma assigned_have_assign j p bits i b : assigned j (set_assign (set_pieces p bits) (Some i) b) = negb (p_choked p) && (i =? j).
Proof. reflexivity. Qed.
Lemma assigned_self p k : p_choked p = false -> p_piece_index p = Some k -> assigned k p = true.
Proof. intros A B. unfold assigned. rewrite A, B. cbn. apply N.eqb_refl. Qed.

Ltac norm C := rewrite ?assigned_set_none, ?assigned_unchoke_some, ?assigned_unchoke_none, ?assigned_set_choked_true,
                       ?assigned_have_assign, ?assigned_set_some in C.

Theorem reservation_invariant m c pick m' r bc sp :
  Peer_no_reserve_when_choked = true ->
  InvM m -> producible m c -> mstep m c pick = Ok (m', r, bc, sp) -> InvM m'.
Proof.
  intros FR Inv Hpre H j n Hj.
  (* commands that only touch fields irrelevant to `assigned` and leave the statuses alone *)
  assert (Same : forall a p p', pget (m_peers m) a = Some p -> m_status m' = m_status m ->
                 m_peers m' = pset (m_peers m) a p' -> (forall i, assigned i p' = assigned i p) -> 1 <= n <= cnt (m_peers m') j).
  { intros a p p' Ep Es Epe Ha. rewrite Epe. pose proof (cnt_pset (m_peers m) a p p' j Ep) as C. rewrite Ha in C.
    rewrite Es in Hj. specialize (Inv j n Hj). lia. }
  destruct c; cbn [mstep] in H; unfold out in H.
  - (* init *)
    destruct (pget (m_peers m) a) as [p|] eqn:Ep; [|discriminate]. injection H as <- _ _ _.
    eapply (Same a p); [exact Ep | reflexivity | reflexivity | intros; reflexivity].
  - (* choke *)
    destruct (pget (m_peers m) a) as [p|] eqn:Ep; [|discriminate].
    pose proof (cnt_pset (m_peers m) a p (set_choked p true) j Ep) as C. norm C. cbn [b2n] in C.
    destruct (p_piece_index p) as [k|] eqn:Ek; cbn [bind] in H.
    + destruct (upd_status (m_status m) k decr) as [st| | |] eqn:E; cbn [bind] in H; try discriminate.
      injection H as <- _ _ _. cbn [m_status m_peers with_peer with_status] in *.
      unfold upd_status in E. destruct (nthN (m_status m) k) as [sk|] eqn:Esk; [|discriminate]. injection E as <-.
      rewrite nthN_sset in Hj. destruct (N.eqb_spec k j) as [->|Nkj].
      * rewrite Esk in Hj. injection Hj as Hj. apply decr_reserved in Hj. destruct Hj as [-> Hn].
        specialize (Inv j (n + 1) Esk). destruct (assigned j p); cbn [b2n] in C; lia.
      * specialize (Inv j n Hj). rewrite (assigned_other j k p Ek Nkj) in C. cbn [b2n] in C. lia.
    + injection H as <- _ _ _. cbn [m_status m_peers with_peer with_status] in *.
      rewrite (assigned_none j p Ek) in C. cbn [b2n] in C. specialize (Inv j n Hj). lia.
  - (* unchoke *)
    destruct (pget (m_peers m) a) as [p|] eqn:Ep; [|discriminate].
    pose proof (Hpre p Ep) as Hch.
    destruct pick as [c0|].
    + destruct (upd_status (m_status m) c0 incr) as [st| | |] eqn:E; cbn [bind] in H; try discriminate.
      destruct (plen_of m c0); cbn [bind] in H; try discriminate.
      assert (Hm' : m_status m' = st /\ m_peers m' = pset (m_peers m) a (set_assign (set_choked p false) (Some c0) true)).
      { destruct (p_am_interested p); injection H as <- _ _ _; split; reflexivity. }
      destruct Hm' as [Es Epe]. rewrite Es in Hj. rewrite Epe.
      unfold upd_status in E. destruct (nthN (m_status m) c0) as [sc|] eqn:Esc; [|discriminate]. injection E as <-.
      pose proof (cnt_pset (m_peers m) a p (set_assign (set_choked p false) (Some c0) true) j Ep) as C. norm C.
      rewrite (assigned_choked j p Hch) in C. cbn [b2n] in C.
      rewrite nthN_sset in Hj. destruct (N.eqb_spec c0 j) as [->|Ncj]; cbn [b2n] in C.
      * rewrite Esc in Hj. injection Hj as Hj.
        apply incr_reserved in Hj. destruct Hj as [[-> ->]|(k & -> & ->)]; [lia|]. specialize (Inv j k Esc). lia.
      * specialize (Inv j n Hj). lia.
    + assert (Hm' : m_status m' = m_status m /\ m_peers m' = pset (m_peers m) a (set_assign (set_choked p false) None false)).
      { destruct (p_am_interested p); injection H as <- _ _ _; split; reflexivity. }
      destruct Hm' as [Es Epe]. rewrite Es in Hj. rewrite Epe.
      pose proof (cnt_pset (m_peers m) a p (set_assign (set_choked p false) None false) j Ep) as C. norm C.
      rewrite (assigned_choked j p Hch) in C. cbn [b2n] in C. specialize (Inv j n Hj). lia.
  - destruct (pget (m_peers m) a) as [p|] eqn:Ep; [|discriminate]. injection H as <- _ _ _.
    eapply (Same a p); [exact Ep | reflexivity | reflexivity | intros; reflexivity].
  - destruct (pget (m_peers m) a) as [p|] eqn:Ep; [|discriminate]. injection H as <- _ _ _.
    eapply (Same a p); [exact Ep | reflexivity | reflexivity | intros; reflexivity].
  - (* have *)
    destruct (pget (m_peers m) a) as [p|] eqn:Ep; [|discriminate].
    destruct (len (p_pieces p) <=? i); [discriminate|].
    destruct (nthN (m_status m) i) as [si|] eqn:Esi; [|discriminate].
    destruct (is_missing si && negb (p_am_interested p)) eqn:EM.
    + destruct (negb (p_choked p) && match p_piece_index p with None => true | Some _ => false end) eqn:EA.
      * destruct (plen_of m i); cbn [bind] in H; try discriminate. injection H as <- _ _ _.
        cbn [m_status m_peers with_peer with_status] in *.
        apply andb_true_iff in EA. destruct EA as [EA1 EA2]. apply negb_true_iff in EA1.
        destruct (p_piece_index p) eqn:Ek; [discriminate|].
        pose proof (cnt_pset (m_peers m) a p (set_assign (set_pieces p (set_nth (p_pieces p) (N.to_nat i) true)) (Some i) true) j Ep) as C.
        norm C. rewrite (assigned_none j p Ek), EA1 in C. cbn [b2n negb andb] in C.
        rewrite nthN_sset in Hj. destruct (N.eqb_spec i j) as [->|Nij]; cbn [b2n] in C.
        -- rewrite Esi in Hj. injection Hj as <-. lia.
        -- specialize (Inv j n Hj). lia.
      * injection H as <- _ _ _. eapply (Same a p); [exact Ep | reflexivity | reflexivity | intros; reflexivity].
    + injection H as <- _ _ _. eapply (Same a p); [exact Ep | reflexivity | reflexivity | intros; reflexivity].
  - (* bitfield *)
    destruct (pget (m_peers m) a) as [p|] eqn:Ep; [|discriminate].
    destruct (to_vec bits (pieces_n m)) as [v|]; [|discriminate]. destruct (negb (len v =? len (p_pieces p))); [discriminate|].
    injection H as <- _ _ _. eapply (Same a p); [exact Ep | reflexivity | reflexivity | intros; reflexivity].
  - (* request *)
    destruct (pget (m_peers m) a) as [p|] eqn:Ep; [|discriminate].
    assert (m' = m).
    { destruct (p_am_choked p); [injection H as <- _ _ _; reflexivity|]. destruct (pieces_n m <=? i); [injection H as <- _ _ _; reflexivity|].
      destruct (nthN (m_status m) i) as [s|]; [|discriminate]. destruct (is_have s); injection H as <- _ _ _; reflexivity. }
    subst m'. apply Inv. exact Hj.
  - (* piece done *)
    destruct (pget (m_peers m) a) as [p|] eqn:Ep; [|discriminate].
    destruct (p_piece_index p) as [k|] eqn:Ek; [|discriminate].
    destruct (nthN (m_status m) k) as [sk|] eqn:Esk; [|discriminate].
    destruct (peer_handle_piece _ a p pick) as [[[[m2 rep] bc2] sp2]| | |] eqn:E; cbn [bind] in H; try discriminate.
    injection H as <- _ _ _. unfold peer_handle_piece in E. rewrite FR in E. cbn [andb m_status with_status] in E.
    destruct pick as [c0|].
    + destruct (p_choked p) eqn:Ech.
      * unfold out in E. injection E as <- _ _ _. cbn [m_status m_peers with_peer with_status] in *.
        pose proof (cnt_pset (m_peers m) a p (set_assign p None (p_am_interested p)) j Ep) as C. norm C.
        rewrite (assigned_choked j p Ech) in C. cbn [b2n] in C.
        rewrite nthN_sset in Hj. destruct (N.eqb_spec k j) as [->|Nkj]; [rewrite Esk in Hj; discriminate|].
        specialize (Inv j n Hj). lia.
      * destruct (upd_status (sset (m_status m) k Have) c0 incr) as [st| | |] eqn:E2; cbn [bind] in E; try discriminate.
        destruct (plen_of _ c0); cbn [bind] in E; try discriminate. unfold out in E. injection E as <- _ _ _.
        cbn [m_status m_peers with_peer with_status] in *.
        unfold upd_status in E2. destruct (nthN (sset (m_status m) k Have) c0) as [sc|] eqn:Esc; [|discriminate]. injection E2 as <-.
        pose proof (cnt_pset (m_peers m) a p (set_assign p (Some c0) (p_am_interested p)) j Ep) as C. norm C. rewrite Ech in C. cbn [negb andb] in C.
        pose proof Esc as Esc0. rewrite nthN_sset in Hj. rewrite nthN_sset in Esc.
        destruct (N.eqb_spec c0 j) as [->|Ncj]; cbn [b2n] in C.
        -- rewrite Esc0 in Hj. injection Hj as Hj.
           destruct (N.eqb_spec k j) as [->|Nkj]; [rewrite Esk in Esc; injection Esc as <-; cbn in Hj; discriminate|].
           rewrite (assigned_other j k p Ek Nkj) in C. cbn [b2n] in C.
           apply incr_reserved in Hj. destruct Hj as [[-> ->]|(k0 & -> & ->)]; [lia|]. specialize (Inv j k0 Esc). lia.
        -- rewrite nthN_sset in Hj. destruct (N.eqb_spec k j) as [->|Nkj]; [rewrite Esk in Hj; discriminate|].
           rewrite (assigned_other j k p Ek Nkj) in C. cbn [b2n] in C. specialize (Inv j n Hj). lia.
    + unfold out in E. injection E as <- _ _ _. cbn [m_status m_peers with_peer with_status] in *.
      pose proof (cnt_pset (m_peers m) a p (set_assign p None false) j Ep) as C. norm C. cbn [b2n] in C.
      rewrite nthN_sset in Hj. destruct (N.eqb_spec k j) as [->|Nkj]; [rewrite Esk in Hj; discriminate|].
      rewrite (assigned_other j k p Ek Nkj) in C. cbn [b2n] in C. specialize (Inv j n Hj). lia.
  - (* piece cancel *)
    destruct (pget (m_peers m) a) as [p|] eqn:Ep; [|discriminate].
    destruct (p_piece_index p) as [k|] eqn:Ek; [|discriminate].
    destruct (upd_status (m_status m) k decr) as [st1| | |] eqn:E1; cbn [bind] in H; try discriminate.
    unfold upd_status in E1. destruct (nthN (m_status m) k) as [sk|] eqn:Esk; [|discriminate]. injection E1 as <-.
    unfold peer_handle_piece in H. rewrite FR in H. cbn [andb m_status with_status] in H.
    pose proof (cnt_ge (m_peers m) a p k Ep) as Hge.
    destruct pick as [c0|].
    + destruct (p_choked p) eqn:Ech.
      * unfold out in H. injection H as <- _ _ _. cbn [m_status m_peers with_peer with_status] in *.
        pose proof (cnt_pset (m_peers m) a p (set_assign p None (p_am_interested p)) j Ep) as C. norm C.
        rewrite (assigned_choked j p Ech) in C. cbn [b2n] in C.
        rewrite nthN_sset in Hj. destruct (N.eqb_spec k j) as [->|Nkj].
        -- rewrite Esk in Hj. injection Hj as Hj. apply decr_reserved in Hj. destruct Hj as [-> Hn]. specialize (Inv j (n + 1) Esk). lia.
        -- specialize (Inv j n Hj). lia.
      * destruct (upd_status (sset (m_status m) k (decr sk)) c0 incr) as [st| | |] eqn:E2; cbn [bind] in H; try discriminate.
        destruct (plen_of _ c0); cbn [bind] in H; try discriminate. unfold out in H. injection H as <- _ _ _.
        cbn [m_status m_peers with_peer with_status] in *.
        unfold upd_status in E2. destruct (nthN (sset (m_status m) k (decr sk)) c0) as [sc|] eqn:Esc; [|discriminate]. injection E2 as <-.
        pose proof (cnt_pset (m_peers m) a p (set_assign p (Some c0) (p_am_interested p)) j Ep) as C. norm C. rewrite Ech in C. cbn [negb andb] in C.
        pose proof (assigned_self p k Ech Ek) as Hak.
        pose proof Esc as Esc0. rewrite nthN_sset in Hj. rewrite nthN_sset in Esc.
        destruct (N.eqb_spec c0 j) as [->|Ncj]; cbn [b2n] in C.
        -- rewrite Esc0 in Hj. injection Hj as Hj.
           destruct (N.eqb_spec k j) as [->|Nkj].
           ++ rewrite Esk in Esc. injection Esc as <-. rewrite Hak in C, Hge. cbn [b2n] in C, Hge.
              destruct sk as [|k0|]; cbn in Hj.
              ** injection Hj as <-. lia.
              ** specialize (Inv j k0 Esk). destruct (N.leb_spec 2 k0); cbn in Hj; injection Hj as <-; lia.
              ** discriminate.
           ++ rewrite (assigned_other j k p Ek Nkj) in C. cbn [b2n] in C.
              apply incr_reserved in Hj. destruct Hj as [[-> ->]|(k0 & -> & ->)]; [lia|]. specialize (Inv j k0 Esc). lia.
        -- rewrite nthN_sset in Hj. destruct (N.eqb_spec k j) as [->|Nkj].
           ++ rewrite Esk in Hj. injection Hj as Hj. apply decr_reserved in Hj. destruct Hj as [-> Hn].
              specialize (Inv j (n + 1) Esk). rewrite Hak in C. cbn [b2n] in C. lia.
           ++ rewrite (assigned_other j k p Ek Nkj) in C. cbn [b2n] in C. specialize (Inv j n Hj). lia.
    + unfold out in H. injection H as <- _ _ _. cbn [m_status m_peers with_peer with_status] in *.
      pose proof (cnt_pset (m_peers m) a p (set_assign p None false) j Ep) as C. norm C. cbn [b2n] in C.
      rewrite nthN_sset in Hj. destruct (N.eqb_spec k j) as [->|Nkj].
      * rewrite Esk in Hj. injection Hj as Hj. apply decr_reserved in Hj. destruct Hj as [-> Hn].
        specialize (Inv j (n + 1) Esk). destruct (assigned j p); cbn [b2n] in C; lia.
      * rewrite (assigned_other j k p Ek Nkj) in C. cbn [b2n] in C. specialize (Inv j n Hj). lia.
  - destruct (pget (m_peers m) a) as [p|] eqn:Ep; [|discriminate]. injection H as <- _ _ _.
    eapply (Same a p); [exact Ep | reflexivity | reflexivity | intros; reflexivity].
  - (* kill *)
    assert (KP : forall m1, kill_peer m a = Ok m1 -> forall j n, nthN (m_status m1) j = Some (Reserved n) -> 1 <= n <= cnt (m_peers m1) j).
    { unfold kill_peer. intros m1. destruct (pget (m_peers m) a) as [p|] eqn:Ep; cbn [bind].
      - destruct (p_piece_index p) as [k|] eqn:Ek; cbn [bind].
        + destruct (nthN (m_status m) k) as [sk|] eqn:Esk; cbn [bind]; [|discriminate]. intros [= <-] j0 n0 Hj0.
          cbn [m_status m_peers] in *. pose proof (cnt_premove (m_peers m) a p j0 Ep) as C.
          destruct (is_have sk) eqn:Eh.
          * destruct (N.eq_dec k j0) as [->|Nk]; [rewrite Esk in Hj0; injection Hj0 as ->; discriminate|].
            rewrite (assigned_other j0 k p Ek Nk) in C. cbn [b2n] in C. specialize (Inv j0 n0 Hj0). lia.
          * rewrite nthN_sset in Hj0. destruct (N.eqb_spec k j0) as [->|Nk]; [rewrite Esk in Hj0; discriminate|].
            rewrite (assigned_other j0 k p Ek Nk) in C. cbn [b2n] in C. specialize (Inv j0 n0 Hj0). lia.
        + intros [= <-] j0 n0 Hj0. cbn [m_status m_peers] in *. pose proof (cnt_premove (m_peers m) a p j0 Ep) as C.
          rewrite (assigned_none j0 p Ek) in C. cbn [b2n] in C. specialize (Inv j0 n0 Hj0). lia.
      - intros [= <-]. exact Inv. }
    destruct (kill_peer m a) as [m1| | |] eqn:EK; cbn [bind] in H; try discriminate. specialize (KP m1 eq_refl).
    destruct (all_have (m_status m1)); [injection H as <- _ _ _; cbn [m_status m_peers]; apply KP; exact Hj|].
    destruct (m_candidates m1) eqn:EC; [injection H as <- _ _ _; apply KP; exact Hj|].
    unfold spawn_peer in H. destruct (rev (m_candidates m1)) as [|[a0 id] rest]; [injection H as <- _ _ _; apply KP; exact Hj|].
    destruct (pget (m_peers m1) a0) eqn:E0; injection H as <- _ _ _; cbn [m_status m_peers] in *; [apply KP; exact Hj|].
    rewrite cnt_pset_fresh by exact E0. rewrite (assigned_choked j (new_peer (Some id) (length (m_plens m1))) eq_refl). cbn [b2n].
    specialize (KP j n Hj). lia.
Qed.

(* the manager's other moves leave the reservation bookkeeping alone: the rotation timer only flips am_choked /
   optimistic flags, a tracker answer only queues candidates and connects peers that are not yet connected *)
Lemma rotate_go_cnt new_opt i : forall order ps count flips ps' fl,
  rotate_go ps order new_opt count flips = Ok (ps', fl) -> cnt ps' i = cnt ps i.
Proof.
  induction order as [|a rest IH]; intros ps count flips ps' fl H; cbn [rotate_go] in H.
  - injection H as <- _. reflexivity.
  - destruct (pget ps a) as [p|] eqn:Ep; [|discriminate].
    destruct (if count <? MAX_UNCHOKED then _ else _) as [[am c2] fl0].
    rewrite (IH _ _ _ _ _ H).
    pose proof (cnt_pset ps a p (set_am_choked p am (match new_opt with [] => p_optimistic p | _ => false end)) i Ep) as C.
    change (assigned i (set_am_choked p am (match new_opt with [] => p_optimistic p | _ => false end))) with (assigned i p) in C. lia.
Qed.
Lemma set_optimistic_cnt i : forall new_opt ps flips ps' fl,
  set_optimistic ps new_opt flips = Ok (ps', fl) -> cnt ps' i = cnt ps i.
Proof.
  induction new_opt as [|a rest IH]; intros ps flips ps' fl H; cbn [set_optimistic] in H.
  - injection H as <- _. reflexivity.
  - destruct (pget ps a) as [p|] eqn:Ep; [|discriminate]. rewrite (IH _ _ _ _ H).
    pose proof (cnt_pset ps a p (set_am_choked p false true) i Ep) as C.
    change (assigned i (set_am_choked p false true)) with (assigned i p) in C. lia.
Qed.
Lemma rotation_InvM m rates new_opt m' fl : change_conn_state m rates new_opt = Ok (m', fl) -> InvM m -> InvM m'.
Proof.
  unfold change_conn_state. intros H I.
  destruct (rotate_go (m_peers m) (map fst (sort_rates rates)) new_opt 0 []) as [[ps1 fl1]| | |] eqn:E1; cbn [bind] in H; try discriminate.
  cbn [fst snd] in H. destruct (set_optimistic ps1 new_opt fl1) as [[ps2 fl2]| | |] eqn:E2; cbn [bind] in H; try discriminate.
  injection H as <- _. intros i n Hs. cbn [m_status m_peers fst] in *.
  rewrite (set_optimistic_cnt i _ _ _ _ _ E2), (rotate_go_cnt _ i _ _ _ _ _ _ E1). exact (I i n Hs).
Qed.
Lemma spawn_peer_InvM m : InvM m -> InvM (fst (spawn_peer m)).
Proof.
  intros I. unfold spawn_peer. destruct (rev (m_candidates m)) as [|[a id] rest]; [exact I|].
  destruct (pget (m_peers m) a) eqn:Ep; cbn [fst]; [exact I|].
  intros i n Hs. cbn [m_status m_peers] in *. rewrite cnt_pset_fresh by exact Ep.
  rewrite (assigned_choked i (new_peer (Some id) (length (m_plens m))) eq_refl). cbn [b2n]. specialize (I i n Hs). lia.
Qed.
Lemma spawn_n_InvM : forall k m acc, InvM m -> InvM (fst (spawn_n k m acc)).
Proof.
  induction k as [|k IH]; intros m acc I; cbn [spawn_n]; [exact I|].
  pose proof (spawn_peer_InvM m I) as I1. destruct (spawn_peer m) as [m1 sp]. apply IH. exact I1.
Qed.
Lemma tracker_resp_InvM m peers : InvM m -> InvM (fst (handle_tracker_resp m peers)).
Proof. intros I. unfold handle_tracker_resp. apply spawn_n_InvM. exact I. Qed.

(* an accepted incoming connection: with the repair (an address that is still connected is not taken again) the entry is
   fresh, starts choked and unassigned, and backs no reservation *)
Lemma accept_InvM m a : InvM m -> InvM (fst (accept_peer_with true m a)).
Proof.
  intros I. unfold accept_peer_with. destruct (MAX_NOT_INTERESTED <=? _); [exact I|].
  destruct (pget (m_peers m) a) eqn:Ep; cbn [andb fst]; [exact I|].
  intros i n Hs. cbn [with_peer m_status m_peers] in *. rewrite cnt_pset_fresh by exact Ep.
  rewrite (assigned_choked i (new_peer None (length (m_plens m))) eq_refl). cbn [b2n]. specialize (I i n Hs). lia.
Qed.
(* the pinned listener (no such check) is refuted: a second connection from the address of a peer that holds an
   assignment replaces its entry -- the reservation is left with nobody behind it, and when the first connection's task
   reports its piece the manager panics ("Piece downloaded but not requested") *)
Definition dup_m : mgr :=
  mkmgr [Reserved 1; Missing] [(7, mkpeer None [true; true] (Some 0) true true false false false None None)] [] 0 false [4; 4].
Lemma accept_duplicate_refuted :
  InvM dup_m /\ ~ InvM (fst (accept_peer_with false dup_m 7)) /\
  mstep (fst (accept_peer_with false dup_m 7)) (CPieceDone 7) None = Panic /\
  accept_peer_with true dup_m 7 = (dup_m, []).
Proof.
  split; [|split; [|split]].
  - intros i n H. unfold dup_m in *. cbn [m_status m_peers] in *. unfold nthN in H.
    destruct (N.to_nat i) as [|[|k]] eqn:E; cbn in H; try discriminate; [|destruct k; discriminate].
    injection H as <-. assert (i = 0) by lia. subst i. vm_compute. split; discriminate.
  - intros I. specialize (I 0 1 eq_refl). vm_compute in I. destruct I as [_ I]. apply I. reflexivity.
  - vm_compute. reflexivity.
  - vm_compute. reflexivity.
Qed.

(* over every history of the manager from the start: producible commands of the tasks, accepted incoming connections (spawn_peer_listener, repaired), the
   choke-rotation timer with any rate lists and optimistic picks, tracker answers with any peer lists *)
(* a chooser answer in range (C13: the chooser's answers are eligible pieces, hence in range -- WfProofs.pick_ok_valid) *)
Definition valid_pick (m : mgr) (pick : option N) : Prop :=
  match pick with Some c => (N.to_nat c < length (m_plens m))%nat | None => True end.

Inductive mreach : mgr -> Prop :=
| mreach_init st plens : length st = length plens -> (forall i n, nthN st i <> Some (Reserved n)) -> mreach (mkmgr st [] [] 0 false plens)
| mreach_add m a id : mreach m -> pget (m_peers m) a = None ->
    mreach (mkmgr (m_status m) (pset (m_peers m) a (new_peer id (length (m_plens m)))) (m_candidates m) (m_round m) (m_extracted m) (m_plens m))
| mreach_step m c pick m' r bc sp : mreach m -> producible m c -> valid_pick m pick -> mstep m c pick = Ok (m', r, bc, sp) -> mreach m'
| mreach_rotation m rates new_opt m' fl : mreach m -> change_conn_state m rates new_opt = Ok (m', fl) -> mreach m'
| mreach_tracker m peers : mreach m -> mreach (fst (handle_tracker_resp m peers))
| mreach_accept m a : mreach m -> mreach (fst (accept_peer_with true m a)).

Theorem reservation_invariant_reachable m : Peer_no_reserve_when_choked = true -> mreach m -> InvM m.
Proof.
  intros FR. induction 1 as [st plens _ H0|m a id _ IH Hf|m c pick m' r bc sp _ IH Hp _ Hs|m rates new_opt m' fl _ IH Hr|m peers _ IH|m a _ IH].
  - intros i n H. exfalso. exact (H0 i n H).
  - intros i n H. cbn [m_status m_peers] in *. rewrite cnt_pset_fresh by exact Hf.
    rewrite (assigned_choked i (new_peer id (length (m_plens m))) eq_refl). cbn [b2n]. specialize (IH i n H). lia.
  - exact (reservation_invariant m c pick m' r bc sp FR IH Hp Hs).
  - exact (rotation_InvM m rates new_opt m' fl Hr IH).
  - exact (tracker_resp_InvM m peers IH).
  - exact (accept_InvM m a IH).
Qed.

(* ---- C14: the choke rotation keeps the slot bound -------------------------------------------------- *)
Definition unch (p : peer) : bool := negb (p_am_choked p).
Definition U (ps : list (addr * peer)) : N := len (filter (fun kp => unch (snd kp)) ps).
Definition vget (ps : list (addr * peer)) (a : addr) : N := match pget ps a with Some p => b2n (unch p) | None => 0 end.
Definition V (ps : list (addr * peer)) (l : list addr) : N := fold_right (fun a acc => vget ps a + acc) 0 l.

Lemma pget_pset_same ps a p' : pget (pset ps a p') a = Some p'.
Proof.
  induction ps as [|[k q] ps IH]; cbn [pset pget]; [rewrite N.eqb_refl; reflexivity|].
  destruct (k =? a) eqn:E; cbn [pget]; rewrite E; [reflexivity | exact IH].
Qed.
Lemma pget_pset_other ps a b p' : a <> b -> pget (pset ps a p') b = pget ps b.
Proof.
  intros N. induction ps as [|[k q] ps IH]; cbn [pset pget].
  - replace (a =? b) with false by (symmetry; apply N.eqb_neq; exact N). reflexivity.
  - destruct (k =? a) eqn:E; cbn [pget].
    + apply N.eqb_eq in E. subst k. replace (a =? b) with false by (symmetry; apply N.eqb_neq; exact N). reflexivity.
    + destruct (k =? b); [reflexivity | exact IH].
Qed.
Lemma V_pset_notin ps a p' l : ~ In a l -> V (pset ps a p') l = V ps l.
Proof.
  induction l as [|b l IH]; intros Hn; [reflexivity|]. cbn [V fold_right]. fold (V (pset ps a p') l). fold (V ps l).
  rewrite IH by (intros H; apply Hn; right; exact H). unfold vget. rewrite pget_pset_other by (intros ->; apply Hn; left; reflexivity). reflexivity.
Qed.
Lemma U_pset ps a p p' : pget ps a = Some p -> U (pset ps a p') + b2n (unch p) = U ps + b2n (unch p').
Proof. apply (count_pset unch). Qed.

Lemma V_perm ps l l' : Permutation l l' -> V ps l = V ps l'.
Proof. unfold V. induction 1; cbn [fold_right] in *; lia. Qed.

Lemma pget_in_nodup ps k p : NoDup (map fst ps) -> In (k, p) ps -> pget ps k = Some p.
Proof.
  induction ps as [|[k0 q] ps IH]; intros Hnd Hin; [destruct Hin|]. cbn [map fst] in Hnd. inversion Hnd as [|? ? Hni Hnd']; subst.
  cbn [pget]. destruct Hin as [[= -> ->]|Hin]; [rewrite N.eqb_refl; reflexivity|].
  destruct (N.eqb_spec k0 k) as [->|]; [exfalso; apply Hni; apply in_map_iff; exists (k, p); auto | apply IH; assumption].
Qed.

Lemma U_is_V ps : NoDup (map fst ps) -> U ps = V ps (map fst ps).
Proof.
  intros Hnd. unfold U, V.
  assert (G : forall l, (forall kp, In kp l -> In kp ps) ->
              len (filter (fun kp => unch (snd kp)) l) = fold_right (fun a acc => vget ps a + acc) 0 (map fst l)).
  { induction l as [|[k p] l IH]; intros Hsub; [reflexivity|]. cbn [filter snd map fst fold_right].
    unfold vget at 1. rewrite (pget_in_nodup ps k p Hnd (Hsub _ (or_introl eq_refl))).
    rewrite <- IH by (intros kp H; apply Hsub; right; exact H). destruct (unch p); cbn [b2n]; rewrite ?len_cons; lia. }
  apply G. auto.
Qed.

Lemma rotate_go_bound new_opt : forall order ps count flips ps' fl', NoDup order -> count <= MAX_UNCHOKED ->
  U ps = count + V ps order -> rotate_go ps order new_opt count flips = Ok (ps', fl') -> U ps' <= MAX_UNCHOKED.
Proof.
  induction order as [|a rest IH]; intros ps count flips ps' fl' Hnd Hc HU H.
  - cbn [rotate_go] in H. injection H as <- _. cbn [V fold_right] in HU. lia.
  - cbn [rotate_go] in H. destruct (pget ps a) as [p|] eqn:Ep; [|discriminate].
    inversion Hnd as [|? ? Hni Hnd']; subst.
    cbn [V fold_right] in HU. fold (V ps rest) in HU. unfold vget in HU. rewrite Ep in HU.
    set (opt := match new_opt with [] => p_optimistic p | _ => false end) in *.
    assert (Go : forall am cnt' (fl : list (addr * bool)), cnt' <= MAX_UNCHOKED ->
                 U (pset ps a (set_am_choked p am opt)) = cnt' + V (pset ps a (set_am_choked p am opt)) rest ->
                 rotate_go (pset ps a (set_am_choked p am opt)) rest new_opt cnt' (flips ++ fl) = Ok (ps', fl') -> U ps' <= MAX_UNCHOKED).
    { intros am cnt' fl Hc' HU' H'. exact (IH _ _ _ _ _ Hnd' Hc' HU' H'). }
    pose proof (U_pset ps a p) as UP.
    unfold MAX_UNCHOKED in *.
    destruct (count <? 10) eqn:Elt.
    + destruct (p_am_choked p && p_interested p && negb (mem_addr a new_opt)) eqn:E1.
      * (* unchoke *)
        apply (Go false (count + 1) [(a, false)]); [lia | | exact H].
        rewrite V_pset_notin by exact Hni. specialize (UP (set_am_choked p false opt) Ep).
        apply andb_true_iff in E1. destruct E1 as [E1 _]. apply andb_true_iff in E1. destruct E1 as [E1 _].
        unfold unch in *. cbn [set_am_choked p_am_choked] in UP. rewrite E1 in *. cbn [negb b2n] in *. lia.
      * destruct (negb (p_am_choked p) && p_interested p) eqn:E2.
        -- apply (Go (p_am_choked p) (count + 1) []); [lia | | exact H].
           rewrite V_pset_notin by exact Hni. specialize (UP (set_am_choked p (p_am_choked p) opt) Ep).
           apply andb_true_iff in E2. destruct E2 as [E2 _]. apply negb_true_iff in E2.
           unfold unch in *. cbn [set_am_choked p_am_choked] in UP. rewrite E2 in *. cbn [negb b2n] in *. lia.
        -- destruct (negb (p_am_choked p) && negb (p_interested p)) eqn:E3.
           ++ apply (Go true count [(a, true)]); [lia | | exact H].
              rewrite V_pset_notin by exact Hni. specialize (UP (set_am_choked p true opt) Ep).
              apply andb_true_iff in E3. destruct E3 as [E3 _]. apply negb_true_iff in E3.
              unfold unch in *. cbn [set_am_choked p_am_choked] in UP. rewrite E3 in *. cbn [negb b2n] in *. lia.
           ++ apply (Go (p_am_choked p) count []); [lia | | exact H].
              rewrite V_pset_notin by exact Hni. specialize (UP (set_am_choked p (p_am_choked p) opt) Ep).
              unfold unch in *. cbn [set_am_choked p_am_choked] in UP.
              destruct (p_am_choked p) eqn:Ec; cbn [negb b2n andb] in *; [lia|].
              destruct (p_interested p); cbn in E2, E3; discriminate.
    + destruct (negb (p_am_choked p)) eqn:E1.
      * apply (Go true count [(a, true)]); [lia | | exact H].
        rewrite V_pset_notin by exact Hni. specialize (UP (set_am_choked p true opt) Ep).
        apply negb_true_iff in E1. unfold unch in *. cbn [set_am_choked p_am_choked] in UP. rewrite E1 in *. cbn [negb b2n] in *. lia.
      * apply (Go (p_am_choked p) count []); [lia | | exact H].
        rewrite V_pset_notin by exact Hni. specialize (UP (set_am_choked p (p_am_choked p) opt) Ep).
        apply negb_false_iff in E1. unfold unch in *. cbn [set_am_choked p_am_choked] in UP. rewrite E1 in *. cbn [negb b2n] in *. lia.
Qed.

Lemma set_optimistic_bound : forall new_opt ps flips ps' fl', set_optimistic ps new_opt flips = Ok (ps', fl') ->
  U ps' <= U ps + len new_opt.
Proof.
  induction new_opt as [|a rest IH]; intros ps flips ps' fl' H; cbn [set_optimistic] in H.
  - injection H as <- _. rewrite len_nil. lia.
  - destruct (pget ps a) as [p|] eqn:Ep; [|discriminate]. specialize (IH _ _ _ _ H).
    pose proof (U_pset ps a p (set_am_choked p false true) Ep) as UP. unfold unch in UP at 2. cbn [set_am_choked p_am_choked negb b2n] in UP.
    rewrite len_cons. destruct (unch p); cbn [b2n] in UP; lia.
Qed.

Lemma insert_rate_perm x l : Permutation (insert_rate x l) (x :: l).
Proof.
  induction l as [|y r IH]; cbn [insert_rate]; [apply Permutation_refl|].
  destruct (snd y <=? snd x); [apply Permutation_refl|].
  eapply Permutation_trans; [apply perm_skip; exact IH | apply perm_swap].
Qed.
Lemma sort_rates_perm l : Permutation (sort_rates l) l.
Proof.
  induction l as [|x l IH]; cbn [sort_rates fold_right]; [apply Permutation_refl|].
  eapply Permutation_trans; [apply insert_rate_perm | apply perm_skip; exact IH].
Qed.

(* after every rotation over all connected peers at most ten peers are unchoked, plus the new optimistic ones *)
Theorem rotation_bound m rates new_opt m' fl :
  NoDup (map fst (m_peers m)) -> Permutation (map fst rates) (map fst (m_peers m)) ->
  change_conn_state m rates new_opt = Ok (m', fl) -> U (m_peers m') <= MAX_UNCHOKED + len new_opt.
Proof.
  intros Hnd Hperm H. unfold change_conn_state in H.
  destruct (rotate_go (m_peers m) (map fst (sort_rates rates)) new_opt 0 []) as [[ps1 fl1]| | |] eqn:E1; cbn [bind] in H; try discriminate.
  cbn [fst snd] in H. destruct (set_optimistic ps1 new_opt fl1) as [[ps2 fl2]| | |] eqn:E2; cbn [bind] in H; try discriminate.
  injection H as <- _. cbn [m_peers fst].
  assert (Hp : Permutation (map fst (sort_rates rates)) (map fst (m_peers m))).
  { eapply Permutation_trans; [apply Permutation_map; apply sort_rates_perm | exact Hperm]. }
  assert (B1 : U ps1 <= MAX_UNCHOKED).
  { eapply (rotate_go_bound new_opt _ _ 0 [] ps1 fl1); [| unfold MAX_UNCHOKED; lia | | exact E1].
    - eapply Permutation_NoDup; [apply Permutation_sym; exact Hp | exact Hnd].
    - rewrite (U_is_V _ Hnd). rewrite (V_perm _ _ _ Hp). lia. }
  pose proof (set_optimistic_bound _ _ _ _ _ E2). lia.
Qed.

(* ---- C20 / C12: a peer that goes away is forgotten and its piece released ------------------------------ *)
Lemma pget_notin ps a : ~ In a (map fst ps) -> pget ps a = None.
Proof.
  induction ps as [|[k q] ps IH]; intros Hni; [reflexivity|]. cbn [pget]. cbn [map fst In] in Hni.
  destruct (N.eqb_spec k a) as [->|]; [exfalso; apply Hni; left; reflexivity|]. apply IH. intros H. apply Hni. right. exact H.
Qed.

Lemma pget_premove_same ps a : NoDup (map fst ps) -> pget (premove ps a) a = None.
Proof.
  induction ps as [|[k q] ps IH]; intros Hnd; [reflexivity|]. cbn [map fst] in Hnd. inversion Hnd as [|? ? Hni Hnd']; subst.
  cbn [premove]. destruct (N.eqb_spec k a) as [->|Nk].
  - apply pget_notin. exact Hni.
  - cbn [pget]. replace (k =? a) with false by (symmetry; apply N.eqb_neq; exact Nk). apply IH. exact Hnd'.
Qed.

Theorem kill_releases m a p m1 : NoDup (map fst (m_peers m)) -> pget (m_peers m) a = Some p -> kill_peer m a = Ok m1 ->
  pget (m_peers m1) a = None /\
  (forall i, p_piece_index p = Some i -> nthN (m_status m) i <> Some Have -> nthN (m_status m1) i = Some Missing) /\
  (forall j, p_piece_index p <> Some j -> nthN (m_status m1) j = nthN (m_status m) j).
Proof.
  intros Hnd Ep H. unfold kill_peer in H. rewrite Ep in H. cbn [bind] in H.
  destruct (p_piece_index p) as [k|] eqn:Ek; cbn [bind] in H.
  - destruct (nthN (m_status m) k) as [sk|] eqn:Esk; cbn [bind] in H; [|discriminate]. injection H as <-. cbn [m_peers m_status].
    split; [apply pget_premove_same; exact Hnd|]. split.
    + intros i [= <-] Hn. destruct sk; cbn [is_have]; try (rewrite nthN_sset, N.eqb_refl, Esk; reflexivity). exfalso. apply Hn. exact Esk.
    + intros j Hj. destruct (is_have sk); [reflexivity|]. rewrite nthN_sset. destruct (N.eqb_spec k j) as [->|]; [exfalso; apply Hj; reflexivity | reflexivity].
  - injection H as <-. cbn [m_peers m_status]. split; [apply pget_premove_same; exact Hnd|]. split; [discriminate | reflexivity].
Qed.

(* ---- C14: after a rotation every peer that is unchoked and not a new optimistic pick has declared interest --------- *)
Lemma rotate_go_interest new_opt : forall order ps count flips ps' fl', NoDup order ->
  rotate_go ps order new_opt count flips = Ok (ps', fl') ->
  (forall a p', In a order -> pget ps' a = Some p' -> p_am_choked p' = false -> p_interested p' = true) /\
  (forall b, ~ In b order -> pget ps' b = pget ps b).
Proof.
  induction order as [|a rest IH]; intros ps count flips ps' fl' Hnd H.
  - cbn [rotate_go] in H. injection H as <- _. split; [intros a p' [] | reflexivity].
  - cbn [rotate_go] in H. destruct (pget ps a) as [p|] eqn:Ep; [|discriminate].
    inversion Hnd as [|? ? Hni Hnd']; subst.
    set (opt := match new_opt with [] => p_optimistic p | _ => false end) in *.
    assert (Go : forall am cnt' (fl : list (addr * bool)), (am = false -> p_interested p = true) ->
                 rotate_go (pset ps a (set_am_choked p am opt)) rest new_opt cnt' (flips ++ fl) = Ok (ps', fl') ->
                 (forall a0 p', In a0 (a :: rest) -> pget ps' a0 = Some p' -> p_am_choked p' = false -> p_interested p' = true) /\
                 (forall b, ~ In b (a :: rest) -> pget ps' b = pget ps b)).
    { intros am cnt' fl Ham H'. destruct (IH _ _ _ _ _ Hnd' H') as [I1 I2]. split.
      - intros a0 p' [<-|Hin] Hp' Hc; [|exact (I1 a0 p' Hin Hp' Hc)].
        rewrite (I2 a Hni), pget_pset_same in Hp'. injection Hp' as <-. cbn [set_am_choked p_am_choked p_interested] in *. exact (Ham Hc).
      - intros b Hb. rewrite (I2 b) by (intros Hin; apply Hb; right; exact Hin).
        apply pget_pset_other. intros ->. apply Hb. left. reflexivity. }
    destruct (count <? MAX_UNCHOKED).
    + destruct (p_am_choked p && p_interested p && negb (mem_addr a new_opt)) eqn:E1.
      * apply (Go false (count + 1) [(a, false)]); [|exact H]. intros _.
        apply andb_true_iff in E1. destruct E1 as [E1 _]. apply andb_true_iff in E1. tauto.
      * destruct (negb (p_am_choked p) && p_interested p) eqn:E2.
        -- apply (Go (p_am_choked p) (count + 1) []); [|exact H]. intros _. apply andb_true_iff in E2. tauto.
        -- destruct (negb (p_am_choked p) && negb (p_interested p)) eqn:E3.
           ++ apply (Go true count [(a, true)]); [discriminate | exact H].
           ++ apply (Go (p_am_choked p) count []); [|exact H]. intros Hc. rewrite Hc in E2, E3. cbn in E2, E3.
              destruct (p_interested p); [reflexivity | discriminate].
    + destruct (negb (p_am_choked p)) eqn:E1.
      * apply (Go true count [(a, true)]); [discriminate | exact H].
      * apply (Go (p_am_choked p) count []); [|exact H]. intros Hc. rewrite Hc in E1. discriminate.
Qed.

Lemma set_optimistic_other : forall new_opt ps flips ps' fl', set_optimistic ps new_opt flips = Ok (ps', fl') ->
  forall b, ~ In b new_opt -> pget ps' b = pget ps b.
Proof.
  induction new_opt as [|a rest IH]; intros ps flips ps' fl' H b Hb; cbn [set_optimistic] in H.
  - injection H as <- _. reflexivity.
  - destruct (pget ps a) as [p|]; [|discriminate]. rewrite (IH _ _ _ _ H b) by (intros Hin; apply Hb; right; exact Hin).
    apply pget_pset_other. intros ->. apply Hb. left. reflexivity.
Qed.

Theorem rotation_slots_interested m rates new_opt m' fl :
  NoDup (map fst rates) -> change_conn_state m rates new_opt = Ok (m', fl) ->
  forall a p', In a (map fst rates) -> ~ In a new_opt -> pget (m_peers m') a = Some p' ->
  p_am_choked p' = false -> p_interested p' = true.
Proof.
  intros Hnd H a p' Hin Hno Hp Hc. unfold change_conn_state in H.
  destruct (rotate_go (m_peers m) (map fst (sort_rates rates)) new_opt 0 []) as [[ps1 fl1]| | |] eqn:E1; cbn [bind] in H; try discriminate.
  cbn [fst snd] in H. destruct (set_optimistic ps1 new_opt fl1) as [[ps2 fl2]| | |] eqn:E2; cbn [bind] in H; try discriminate.
  injection H as <- _. cbn [m_peers fst] in Hp.
  assert (Hp' : Permutation (map fst (sort_rates rates)) (map fst rates)) by (apply Permutation_map; apply sort_rates_perm).
  assert (Hnd' : NoDup (map fst (sort_rates rates))) by (eapply Permutation_NoDup; [apply Permutation_sym; exact Hp' | exact Hnd]).
  destruct (rotate_go_interest new_opt _ _ _ _ _ _ Hnd' E1) as [I1 _].
  rewrite (set_optimistic_other _ _ _ _ _ E2 a Hno) in Hp.
  apply (I1 a p'); [apply (Permutation_in _ (Permutation_sym Hp')); exact Hin | exact Hp | exact Hc].
Qed.

(* ---- C14: the rate-order clause of the rotation policy ------------------------------------------------------ *)
(* sort_rates is descending in the rate *)
Definition rate_ge (x y : addr * N) : Prop := snd y <= snd x.
Lemma insert_rate_sorted x l : StronglySorted rate_ge l -> StronglySorted rate_ge (insert_rate x l).
Proof.
  induction 1 as [|y r Hr IH Hy]; cbn [insert_rate]; [repeat constructor|].
  destruct (N.leb_spec (snd y) (snd x)) as [L|L].
  - constructor; [constructor; assumption|]. constructor; [exact L|].
    rewrite Forall_forall in *. intros z Hz. specialize (Hy z Hz). unfold rate_ge in *. lia.
  - constructor; [exact IH|]. rewrite Forall_forall in *. intros z Hz.
    apply (Permutation_in _ (insert_rate_perm x r)) in Hz. destruct Hz as [<-|Hz]; [unfold rate_ge; lia | exact (Hy z Hz)].
Qed.
Lemma sort_rates_sorted l : StronglySorted rate_ge (sort_rates l).
Proof. induction l as [|x l IH]; cbn [sort_rates fold_right]; [constructor | apply insert_rate_sorted, IH]. Qed.

Lemma sorted_app_order (l1 l2 : list (addr * N)) x y :
  StronglySorted rate_ge (l1 ++ l2) -> In x l1 -> In y l2 -> snd y <= snd x.
Proof.
  induction l1 as [|z l1 IH]; intros HS Hx Hy; [contradiction|]. cbn [app] in HS. inversion HS as [|? ? HS' HF]; subst.
  destruct Hx as [->|Hx]; [|exact (IH HS' Hx Hy)].
  rewrite Forall_forall in HF. apply (HF y). apply in_or_app. right. exact Hy.
Qed.

(* once the slots are used up every further peer is choked *)
Lemma rotate_go_full new_opt : forall order ps count flips ps' fl, NoDup order -> MAX_UNCHOKED <= count ->
  rotate_go ps order new_opt count flips = Ok (ps', fl) ->
  (forall a p', In a order -> pget ps' a = Some p' -> p_am_choked p' = true) /\
  (forall b, ~ In b order -> pget ps' b = pget ps b).
Proof.
  induction order as [|a rest IH]; intros ps count flips ps' fl Hnd Hc H; cbn [rotate_go] in H.
  - injection H as <- _. split; [intros a p' [] | reflexivity].
  - destruct (pget ps a) as [p|] eqn:Ep; [|discriminate]. inversion Hnd as [|? ? Hni Hnd']; subst.
    replace (count <? MAX_UNCHOKED) with false in H by lia.
    assert (Go : forall am fl0, am = true ->
              rotate_go (pset ps a (set_am_choked p am match new_opt with [] => p_optimistic p | _ => false end)) rest new_opt count (flips ++ fl0) = Ok (ps', fl) ->
              (forall a0 p', In a0 (a :: rest) -> pget ps' a0 = Some p' -> p_am_choked p' = true) /\
              (forall b, ~ In b (a :: rest) -> pget ps' b = pget ps b)).
    { intros am fl0 -> H'. destruct (IH _ _ _ _ _ Hnd' Hc H') as [I1 I2]. split.
      - intros a0 p' [<-|Hin] Hp'; [|exact (I1 a0 p' Hin Hp')].
        rewrite (I2 a Hni), pget_pset_same in Hp'. injection Hp' as <-. reflexivity.
      - intros b Hb. rewrite (I2 b) by (intros Hin; apply Hb; right; exact Hin).
        apply pget_pset_other. intros ->. apply Hb. left. reflexivity. }
    destruct (negb (p_am_choked p)) eqn:E1.
    + apply (Go true [(a, true)] eq_refl H).
    + apply (Go (p_am_choked p) []); [|exact H]. destruct (p_am_choked p); [reflexivity | discriminate].
Qed.

(* the order splits into a first part processed while slots were free and a rest processed when they were used up *)
Lemma rotate_go_split new_opt : forall order ps count flips ps' fl, NoDup order ->
  rotate_go ps order new_opt count flips = Ok (ps', fl) ->
  exists pre post, order = pre ++ post /\
    (forall a p', In a post -> pget ps' a = Some p' -> p_am_choked p' = true) /\
    (forall a p', In a pre -> pget ps' a = Some p' -> p_am_choked p' = true -> p_interested p' = true -> mem_addr a new_opt = true).
Proof.
  induction order as [|a rest IH]; intros ps count flips ps' fl Hnd H.
  - exists [], []. split; [reflexivity|]. split; intros a p' [].
  - destruct (N.ltb_spec count MAX_UNCHOKED) as [Hlt|Hge].
    2:{ exists [], (a :: rest). split; [reflexivity|]. split; [|intros a0 p' []].
        destruct (rotate_go_full new_opt (a :: rest) ps count flips ps' fl Hnd Hge H) as [I1 _]. exact I1. }
    cbn [rotate_go] in H. destruct (pget ps a) as [p|] eqn:Ep; [|discriminate]. inversion Hnd as [|? ? Hni Hnd']; subst.
    replace (count <? MAX_UNCHOKED) with true in H by lia.
    set (opt := match new_opt with [] => p_optimistic p | _ => false end) in *.
    assert (Go : forall am cnt' fl0,
              (am = true -> p_interested p = true -> mem_addr a new_opt = true) ->
              rotate_go (pset ps a (set_am_choked p am opt)) rest new_opt cnt' (flips ++ fl0) = Ok (ps', fl) ->
              exists pre post, a :: rest = pre ++ post /\
                (forall a0 p', In a0 post -> pget ps' a0 = Some p' -> p_am_choked p' = true) /\
                (forall a0 p', In a0 pre -> pget ps' a0 = Some p' -> p_am_choked p' = true -> p_interested p' = true -> mem_addr a0 new_opt = true)).
    { intros am cnt' fl0 Ham H'. destruct (IH _ _ _ _ _ Hnd' H') as (pre & post & E & P1 & P2).
      exists (a :: pre), post. split; [cbn [app]; rewrite E; reflexivity|]. split; [exact P1|].
      intros a0 p' [<-|Hin] Hp' Hc Hi; [|exact (P2 a0 p' Hin Hp' Hc Hi)].
      (* a is not touched by the later steps *)
      assert (Keep : pget ps' a = Some (set_am_choked p am opt)).
      { clear - H' Hni. revert H' Hni. generalize (pset ps a (set_am_choked p am opt)) (pget_pset_same ps a (set_am_choked p am opt)).
        generalize (flips ++ fl0). generalize cnt'. clear.
        induction rest as [|b rest IHr]; intros cnt flp ps0 E0 H' Hni; cbn [rotate_go] in H'.
        - injection H' as <- _. exact E0.
        - destruct (pget ps0 b) as [q|] eqn:Eq; [|discriminate].
          destruct (if cnt <? MAX_UNCHOKED then _ else _) as [[am1 cnt1] fl1].
          eapply IHr; [|exact H'|intros Hin; apply Hni; right; exact Hin].
          rewrite pget_pset_other; [exact E0|]. intros ->. apply Hni. left. reflexivity. }
      rewrite Keep in Hp'. injection Hp' as <-. cbn [set_am_choked p_am_choked p_interested] in Hc, Hi. exact (Ham Hc Hi). }
    destruct (p_am_choked p && p_interested p && negb (mem_addr a new_opt)) eqn:E1.
    + apply (Go false (count + 1) [(a, false)]); [discriminate | exact H].
    + destruct (negb (p_am_choked p) && p_interested p) eqn:E2.
      * apply (Go (p_am_choked p) (count + 1) []); [|exact H]. intros Hc _. rewrite Hc in E2. discriminate.
      * destruct (negb (p_am_choked p) && negb (p_interested p)) eqn:E3.
        -- apply (Go true count [(a, true)]); [|exact H]. intros _ Hi. rewrite Hi in E3. rewrite andb_false_r in E3. discriminate.
        -- apply (Go (p_am_choked p) count []); [|exact H]. intros Hc Hi. rewrite Hc, Hi in E1. cbn in E1.
           destruct (mem_addr a new_opt); [reflexivity | discriminate].
Qed.

Lemma mem_addr_In a l : mem_addr a l = true <-> In a l.
Proof.
  induction l as [|x l IH]; cbn [mem_addr In]; [split; [discriminate | intros []]|].
  rewrite orb_true_iff, IH, N.eqb_eq. tauto.
Qed.

Lemma set_optimistic_in : forall new_opt ps flips ps' fl', set_optimistic ps new_opt flips = Ok (ps', fl') ->
  forall a p', In a new_opt -> pget ps' a = Some p' -> p_am_choked p' = false /\ p_optimistic p' = true.
Proof.
  induction new_opt as [|a0 rest IH]; intros ps flips ps' fl' H a p' Hin Hp'; [contradiction|].
  cbn [set_optimistic] in H. destruct (pget ps a0) as [p|] eqn:Ep; [|discriminate].
  destruct (in_dec N.eq_dec a rest) as [Hr|Hr]; [exact (IH _ _ _ _ H a p' Hr Hp')|].
  destruct Hin as [<-|Hin]; [|contradiction].
  rewrite (set_optimistic_other _ _ _ _ _ H a0 Hr), pget_pset_same in Hp'. injection Hp' as <-. split; reflexivity.
Qed.

(* after a rotation over all rated peers: a peer left choked although interested never has a strictly better rate
   than a peer holding a regular slot *)
Theorem rotation_rate_order m rates new_opt m' fl :
  NoDup (map fst rates) -> change_conn_state m rates new_opt = Ok (m', fl) ->
  forall a ra b rb pa pb, In (a, ra) rates -> In (b, rb) rates ->
    pget (m_peers m') a = Some pa -> pget (m_peers m') b = Some pb ->
    p_am_choked pa = true -> p_interested pa = true ->
    p_am_choked pb = false -> p_optimistic pb = false -> ra <= rb.
Proof.
  intros Hnd H a ra b rb pa pb Ha Hb Epa Epb Hca Hia Hcb Hob. unfold change_conn_state in H.
  destruct (rotate_go (m_peers m) (map fst (sort_rates rates)) new_opt 0 []) as [[ps1 fl1]| | |] eqn:E1; cbn [bind] in H; try discriminate.
  cbn [fst snd] in H. destruct (set_optimistic ps1 new_opt fl1) as [[ps2 fl2]| | |] eqn:E2; cbn [bind] in H; try discriminate.
  injection H as <- _. cbn [m_peers fst] in Epa, Epb.
  set (srt := sort_rates rates) in *.
  assert (Hperm : Permutation srt rates) by apply sort_rates_perm.
  assert (Hnd' : NoDup (map fst srt)) by (eapply Permutation_NoDup; [apply Permutation_map, Permutation_sym, Hperm | exact Hnd]).
  (* neither is a fresh optimistic pick: their entries are as the rotation left them *)
  assert (Na : ~ In a new_opt).
  { intros Hin. destruct (set_optimistic_in _ _ _ _ _ E2 a pa Hin Epa) as [Hc _]. congruence. }
  assert (Nb : ~ In b new_opt).
  { intros Hin. destruct (set_optimistic_in _ _ _ _ _ E2 b pb Hin Epb) as [_ Ho]. congruence. }
  rewrite (set_optimistic_other _ _ _ _ _ E2 a Na) in Epa. rewrite (set_optimistic_other _ _ _ _ _ E2 b Nb) in Epb.
  destruct (rotate_go_split new_opt _ _ _ _ _ _ Hnd' E1) as (pre & post & Eo & P1 & P2).
  assert (Ia : In a (map fst srt)) by (apply in_map_iff; exists (a, ra); split; [reflexivity | apply (Permutation_in _ (Permutation_sym Hperm)), Ha]).
  assert (Ib : In b (map fst srt)) by (apply in_map_iff; exists (b, rb); split; [reflexivity | apply (Permutation_in _ (Permutation_sym Hperm)), Hb]).
  rewrite Eo in Ia, Ib. apply in_app_or in Ia. apply in_app_or in Ib.
  (* a was processed after the slots were used up, b before *)
  assert (Apost : In a post).
  { destruct Ia as [Ipre|Ipost]; [|exact Ipost]. exfalso. apply Na. apply mem_addr_In. exact (P2 a pa Ipre Epa Hca Hia). }
  assert (Bpre : In b pre).
  { destruct Ib as [Ipre|Ipost]; [exact Ipre|]. exfalso. pose proof (P1 b pb Ipost Epb). congruence. }
  (* split the sorted list accordingly *)
  set (k := length pre).
  assert (Es : srt = firstn k srt ++ skipn k srt) by (symmetry; apply firstn_skipn).
  assert (E1s : map fst (firstn k srt) = pre).
  { rewrite <- firstn_map, Eo. unfold k. rewrite firstn_app, Nat.sub_diag, firstn_all. cbn [firstn]. apply app_nil_r. }
  assert (E2s : map fst (skipn k srt) = post).
  { rewrite <- skipn_map, Eo. unfold k. rewrite skipn_app, Nat.sub_diag, skipn_all. reflexivity. }
  assert (Hnd2 : NoDup (pre ++ post)) by (rewrite <- Eo; exact Hnd').
  assert (Ina : In (a, ra) (skipn k srt)).
  { assert (I0 : In (a, ra) srt) by (apply (Permutation_in _ (Permutation_sym Hperm)), Ha).
    rewrite Es in I0. apply in_app_or in I0. destruct I0 as [I0|I0]; [|exact I0]. exfalso.
    assert (In a pre) by (rewrite <- E1s; apply in_map_iff; exists (a, ra); split; [reflexivity | exact I0]).
    clear - Hnd2 H Apost. induction pre as [|x pre IHp]; [contradiction|]. cbn [app] in Hnd2. inversion Hnd2 as [|? ? Hni Hnd3]; subst.
    destruct H as [->|H]; [apply Hni, in_or_app; right; exact Apost | apply IHp; assumption]. }
  assert (Inb : In (b, rb) (firstn k srt)).
  { assert (I0 : In (b, rb) srt) by (apply (Permutation_in _ (Permutation_sym Hperm)), Hb).
    rewrite Es in I0. apply in_app_or in I0. destruct I0 as [I0|I0]; [exact I0|]. exfalso.
    assert (Bpost : In b post) by (rewrite <- E2s; apply in_map_iff; exists (b, rb); split; [reflexivity | exact I0]).
    clear - Hnd2 Bpre Bpost. induction pre as [|x pre IHp]; [contradiction|]. cbn [app] in Hnd2. inversion Hnd2 as [|? ? Hni Hnd3]; subst.
    destruct Bpre as [->|H]; [apply Hni, in_or_app; right; exact Bpost | apply IHp; assumption]. }
  pose proof (sort_rates_sorted rates) as HS. fold srt in HS. rewrite Es in HS.
  exact (sorted_app_order _ _ (b, rb) (a, ra) HS Inb Ina).
Qed.

(* ---- C14: the broadcast map is exactly the set of changes ------------------------------------------------------ *)
Definition last_flip (fl : list (addr * bool)) (a : addr) : option bool :=
  fold_left (fun acc kv => if fst kv =? a then Some (snd kv) else acc) fl None.
Definition mlook (m : list (addr * bool)) (a : addr) : option bool :=
  match find (fun kv => fst kv =? a) m with Some kv => Some (snd kv) | None => None end.

Lemma last_flip_acc l a : forall acc : option bool,
  fold_left (fun acc kv => if fst kv =? a then Some (snd kv) else acc) l acc =
  match last_flip l a with Some b => Some b | None => acc end.
Proof.
  unfold last_flip. induction l as [|[k v] l IH]; intros acc; cbn [fold_left fst snd]; [reflexivity|].
  destruct (k =? a).
  - rewrite (IH (Some v)). destruct (fold_left _ l None); reflexivity.
  - apply IH.
Qed.

Lemma last_flip_app l1 l2 a : last_flip (l1 ++ l2) a =
  match last_flip l2 a with Some b => Some b | None => last_flip l1 a end.
Proof. unfold last_flip at 1. rewrite fold_left_app. apply last_flip_acc. Qed.

Lemma mlook_map_put m a b a' : mlook (map_put m a b) a' = if a =? a' then Some b else mlook m a'.
Proof.
  unfold mlook. induction m as [|[k v] m IH]; cbn [map_put find fst snd].
  - destruct (a =? a'); reflexivity.
  - destruct (N.eqb_spec k a) as [->|Nk]; cbn [find fst snd].
    + destruct (a =? a'); reflexivity.
    + destruct (N.eqb_spec k a') as [->|Nk'].
      * replace (a =? a') with false by (symmetry; apply N.eqb_neq; congruence). reflexivity.
      * exact IH.
Qed.

Lemma mlook_flips fl a : mlook (flips_to_map fl) a = last_flip fl a.
Proof.
  unfold flips_to_map, last_flip.
  assert (G : forall m acc, mlook m a = acc ->
          mlook (fold_left (fun m kv => map_put m (fst kv) (snd kv)) fl m) a =
          fold_left (fun acc kv => if fst kv =? a then Some (snd kv) else acc) fl acc).
  { induction fl as [|[k v] fl IH]; intros m acc E; cbn [fold_left fst snd]; [exact E|].
    apply IH. rewrite mlook_map_put, E. reflexivity. }
  apply G. reflexivity.
Qed.

Lemma last_flip_in fl a b : last_flip fl a = Some b -> In (a, b) fl.
Proof.
  pattern fl. apply rev_ind; [discriminate|]. intros [k v] l IH H. rewrite last_flip_app in H. cbn in H.
  destruct (N.eqb_spec k a) as [->|Nk].
  - injection H as <-. apply in_or_app. right. left. reflexivity.
  - apply in_or_app. left. apply IH, H.
Qed.

Definition amc (ps : list (addr * peer)) (a : addr) : option bool := option_map p_am_choked (pget ps a).

(* the flips recorded so far describe exactly how the current state differs from the initial one *)
Definition FInv (ps0 ps : list (addr * peer)) (flips : list (addr * bool)) (seen : list addr) : Prop :=
  forall a, (last_flip flips a = None -> amc ps a = amc ps0 a) /\
            (forall b, last_flip flips a = Some b -> amc ps a = Some b /\ amc ps0 a = Some (negb b) /\ In a seen).

Lemma FInv_step ps0 ps flips seen a p amv opt :
  FInv ps0 ps flips seen -> last_flip flips a = None -> pget ps a = Some p ->
  FInv ps0 (pset ps a (set_am_choked p amv opt))
       (flips ++ (if Bool.eqb amv (p_am_choked p) then [] else [(a, amv)])) (a :: seen).
Proof.
  intros HI Hn Ep x. rewrite last_flip_app. destruct (N.eq_dec a x) as [<-|Nx].
  - unfold amc. rewrite pget_pset_same. cbn [option_map set_am_choked p_am_choked].
    destruct (HI a) as [H1 _]. specialize (H1 Hn). unfold amc in H1. rewrite Ep in H1. cbn [option_map] in H1.
    destruct (Bool.eqb amv (p_am_choked p)) eqn:E.
    + cbn. rewrite Hn. split; [intros _; apply eqb_prop in E; rewrite E; exact H1 | discriminate].
    + cbn. rewrite N.eqb_refl. split; [discriminate|]. intros b [= <-]. split; [reflexivity|]. split; [|left; reflexivity].
      rewrite <- H1. f_equal. destruct amv, (p_am_choked p); cbn in *; try reflexivity; discriminate.
  - assert (L : last_flip (if Bool.eqb amv (p_am_choked p) then [] else [(a, amv)]) x = None).
    { destruct (Bool.eqb amv (p_am_choked p)); cbn; [reflexivity|]. replace (a =? x) with false by (symmetry; apply N.eqb_neq; exact Nx). reflexivity. }
    rewrite L. unfold amc. rewrite pget_pset_other by exact Nx. destruct (HI x) as [H1 H2].
    split; [exact H1|]. intros b Hb. destruct (H2 b Hb) as (A & B & C). split; [exact A|]. split; [exact B | right; exact C].
Qed.

Lemma rotate_go_FInv new_opt ps0 : forall order ps count flips seen ps' fl,
  NoDup order -> (forall a, In a order -> ~ In a seen) -> FInv ps0 ps flips seen ->
  rotate_go ps order new_opt count flips = Ok (ps', fl) -> exists seen', FInv ps0 ps' fl seen'.
Proof.
  induction order as [|a rest IH]; intros ps count flips seen ps' fl Hnd Hdis HI H; cbn [rotate_go] in H.
  - injection H as <- <-. exists seen. exact HI.
  - destruct (pget ps a) as [p|] eqn:Ep; [|discriminate]. inversion Hnd as [|? ? Hni Hnd']; subst.
    assert (Hn : last_flip flips a = None).
    { destruct (last_flip flips a) as [b|] eqn:E; [|reflexivity]. exfalso. destruct (HI a) as [_ H2].
      destruct (H2 b E) as (_ & _ & Hin). exact (Hdis a (or_introl eq_refl) Hin). }
    assert (Go : forall amv cnt fl0, fl0 = (if Bool.eqb amv (p_am_choked p) then [] else [(a, amv)]) ->
              rotate_go (pset ps a (set_am_choked p amv match new_opt with [] => p_optimistic p | _ => false end)) rest new_opt cnt (flips ++ fl0) = Ok (ps', fl) ->
              exists seen', FInv ps0 ps' fl seen').
    { intros amv cnt fl0 -> H'. eapply (IH _ _ _ (a :: seen)); [exact Hnd'| |apply FInv_step; eassumption|exact H'].
      intros x Hx [<-|Hs]; [exact (Hni Hx) | exact (Hdis x (or_intror Hx) Hs)]. }
    destruct (count <? MAX_UNCHOKED).
    + destruct (p_am_choked p && p_interested p && negb (mem_addr a new_opt)) eqn:E1.
      * apply (Go false (count + 1) [(a, false)]); [|exact H].
        apply andb_true_iff in E1. destruct E1 as [E1 _]. apply andb_true_iff in E1. destruct E1 as [-> _]. reflexivity.
      * destruct (negb (p_am_choked p) && p_interested p) eqn:E2.
        -- apply (Go (p_am_choked p) (count + 1) []); [rewrite eqb_reflx; reflexivity | exact H].
        -- destruct (negb (p_am_choked p) && negb (p_interested p)) eqn:E3.
           ++ apply (Go true count [(a, true)]); [|exact H].
              apply andb_true_iff in E3. destruct E3 as [E3 _]. apply negb_true_iff in E3. rewrite E3. reflexivity.
           ++ apply (Go (p_am_choked p) count []); [rewrite eqb_reflx; reflexivity | exact H].
    + destruct (negb (p_am_choked p)) eqn:E1.
      * apply (Go true count [(a, true)]); [|exact H]. apply negb_true_iff in E1. rewrite E1. reflexivity.
      * apply (Go (p_am_choked p) count []); [rewrite eqb_reflx; reflexivity | exact H].
Qed.

(* the rotation never records an unchoke for a peer picked as the new optimistic one *)
Lemma rotate_go_false_flips new_opt : forall order ps count flips ps' fl,
  rotate_go ps order new_opt count flips = Ok (ps', fl) ->
  forall a, In (a, false) fl -> In (a, false) flips \/ mem_addr a new_opt = false.
Proof.
  induction order as [|a rest IH]; intros ps count flips ps' fl H x Hx; cbn [rotate_go] in H.
  - injection H as _ <-. left. exact Hx.
  - destruct (pget ps a) as [p|]; [|discriminate].
    assert (Go : forall amv cnt fl0, (forall y, In (y, false) fl0 -> mem_addr y new_opt = false) ->
              rotate_go (pset ps a (set_am_choked p amv match new_opt with [] => p_optimistic p | _ => false end)) rest new_opt cnt (flips ++ fl0) = Ok (ps', fl) ->
              In (x, false) flips \/ mem_addr x new_opt = false).
    { intros amv cnt fl0 Hfl H'. destruct (IH _ _ _ _ _ H' x Hx) as [Hin|Hm]; [|right; exact Hm].
      apply in_app_or in Hin. destruct Hin as [Hin|Hin]; [left; exact Hin | right; exact (Hfl x Hin)]. }
    destruct (count <? MAX_UNCHOKED).
    + destruct (p_am_choked p && p_interested p && negb (mem_addr a new_opt)) eqn:E1.
      * apply (Go false (count + 1) [(a, false)]); [|exact H]. intros y [[= <-]|[]].
        apply andb_true_iff in E1. destruct E1 as [_ E1]. apply negb_true_iff in E1. exact E1.
      * destruct (negb (p_am_choked p) && p_interested p); [apply (Go (p_am_choked p) (count + 1) []); [intros y []|exact H]|].
        destruct (negb (p_am_choked p) && negb (p_interested p)).
        -- apply (Go true count [(a, true)]); [|exact H]. intros y [[= ]|[]].
        -- apply (Go (p_am_choked p) count []); [intros y []|exact H].
    + destruct (negb (p_am_choked p)).
      * apply (Go true count [(a, true)]); [|exact H]. intros y [[= ]|[]].
      * apply (Go (p_am_choked p) count []); [intros y []|exact H].
Qed.

Lemma set_optimistic_FInv ps0 : forall new_opt ps flips seen ps' fl,
  NoDup new_opt -> (forall a, In a new_opt -> last_flip flips a = None /\ amc ps a = Some true) ->
  FInv ps0 ps flips seen -> set_optimistic ps new_opt flips = Ok (ps', fl) -> exists seen', FInv ps0 ps' fl seen'.
Proof.
  induction new_opt as [|a rest IH]; intros ps flips seen ps' fl Hnd Hopt HI H; cbn [set_optimistic] in H.
  - injection H as <- <-. exists seen. exact HI.
  - destruct (pget ps a) as [p|] eqn:Ep; [|discriminate]. inversion Hnd as [|? ? Hni Hnd']; subst.
    destruct (Hopt a (or_introl eq_refl)) as [Hn Hc]. unfold amc in Hc. rewrite Ep in Hc. cbn in Hc. injection Hc as Hc.
    pose proof (FInv_step ps0 ps flips seen a p false true HI Hn Ep) as HS. rewrite Hc in HS. cbn [Bool.eqb] in HS.
    eapply (IH _ _ (a :: seen)); [exact Hnd'| |exact HS|exact H].
    intros x Hx. destruct (Hopt x (or_intror Hx)) as [Hnx Hcx].
    assert (Nx : a <> x) by (intros ->; exact (Hni Hx)).
    split.
    + rewrite last_flip_app. cbn. replace (a =? x) with false by (symmetry; apply N.eqb_neq; exact Nx). exact Hnx.
    + unfold amc. rewrite pget_pset_other by exact Nx. exact Hcx.
Qed.

(* the map broadcast after a rotation holds, for every peer, its new value exactly when the value changed
   (new optimistic picks are taken among peers we choke: new_optimistic_peers filters on am_choked) *)
Theorem rotation_map_exact m rates new_opt m' fl :
  NoDup (map fst rates) -> NoDup new_opt ->
  (forall a, In a new_opt -> amc (m_peers m) a = Some true) ->
  change_conn_state m rates new_opt = Ok (m', fl) ->
  forall a, match mlook fl a with
            | Some b => amc (m_peers m') a = Some b /\ amc (m_peers m) a = Some (negb b)
            | None => amc (m_peers m') a = amc (m_peers m) a
            end.
Proof.
  intros Hnd Hndo Hopt H a. unfold change_conn_state in H.
  destruct (rotate_go (m_peers m) (map fst (sort_rates rates)) new_opt 0 []) as [[ps1 fl1]| | |] eqn:E1; cbn [bind] in H; try discriminate.
  cbn [fst snd] in H. destruct (set_optimistic ps1 new_opt fl1) as [[ps2 fl2]| | |] eqn:E2; cbn [bind] in H; try discriminate.
  injection H as <- <-. cbn [m_peers fst snd]. rewrite mlook_flips.
  assert (Hnd' : NoDup (map fst (sort_rates rates))).
  { eapply Permutation_NoDup; [apply Permutation_map, Permutation_sym, sort_rates_perm | exact Hnd]. }
  assert (I0 : FInv (m_peers m) (m_peers m) [] []).
  { intros x. split; [reflexivity | intros b Hb; discriminate]. }
  destruct (rotate_go_FInv new_opt (m_peers m) _ _ _ _ [] _ _ Hnd' (fun x _ Hx => Hx) I0 E1) as [seen1 I1].
  assert (Hopt1 : forall x, In x new_opt -> last_flip fl1 x = None /\ amc ps1 x = Some true).
  { intros x Hx. destruct (last_flip fl1 x) as [b|] eqn:Eb.
    - exfalso. destruct (I1 x) as [_ H2]. destruct (H2 b Eb) as (_ & B & _). rewrite (Hopt x Hx) in B.
      destruct b; [discriminate|].
      destruct (rotate_go_false_flips new_opt _ _ _ _ _ _ E1 x (last_flip_in _ _ _ Eb)) as [[]|Hm].
      apply mem_addr_In in Hx. congruence.
    - split; [reflexivity|]. destruct (I1 x) as [H1 _]. rewrite (H1 Eb). exact (Hopt x Hx). }
  destruct (set_optimistic_FInv (m_peers m) new_opt ps1 fl1 seen1 ps2 fl2 Hndo Hopt1 I1 E2) as [seen2 I2].
  destruct (I2 a) as [H1 H2]. destruct (last_flip fl2 a) as [b|].
  - destruct (H2 b eq_refl) as (A & B & _). split; assumption.
  - exact (H1 eq_refl).
Qed.

(* ---- C11 / C02: two facts the manager-side oracles evaluate on the real Session, for the model ---------------- *)
(* a piece that becomes owned is broadcast to the established connections in the same step *)
Theorem newly_owned_is_broadcast m c pick m' r bc sp i :
  mstep m c pick = Ok (m', r, bc, sp) -> ~ have_at (m_status m) i -> have_at (m_status m') i ->
  In (BHave (N.of_nat i)) bc.
Proof.
  intros H Hn Hh. destruct (only_done_makes_have m c pick m' r bc sp i H Hn Hh) as (a & p & -> & Ep & Ei).
  cbn [mstep] in H. rewrite Ep, Ei in H.
  destruct (nthN (m_status m) (N.of_nat i)); [|discriminate].
  destruct (peer_handle_piece _ a p pick) as [[[[m2 rep2] bc2] sp2]| | |]; cbn [bind] in H; try discriminate.
  injection H as _ _ <- _. left. reflexivity.
Qed.

(* a peer that does not choke us, holds no assignment, and announces a piece we miss and had no interest in so far
   is asked for that piece in the same exchange (it need not unchoke us again) *)
Theorem idle_announcer_is_asked m a i pick p st m' r bc sp :
  pget (m_peers m) a = Some p -> nthN (m_status m) i = Some st ->
  is_missing st = true -> p_am_interested p = false -> p_choked p = false -> p_piece_index p = None ->
  mstep m (CHave a i) pick = Ok (m', r, bc, sp) ->
  exists l, r = RHave_IntReq i l /\ nthN (m_status m') i = Some (Reserved 1) /\
            exists p', pget (m_peers m') a = Some p' /\ p_piece_index p' = Some i.
Proof.
  intros Ep Es Hm Hi Hc Hx H. cbn [mstep] in H. rewrite Ep in H.
  destruct (len (p_pieces p) <=? i); [discriminate|]. rewrite Es, Hm, Hi, Hc, Hx in H. cbn [negb andb] in H.
  destruct (plen_of m i) as [l| | |]; cbn [bind] in H; try discriminate. unfold out in H. injection H as <- <- _ _.
  exists l. split; [reflexivity|]. split.
  - cbn [with_peer with_status m_status]. rewrite nthN_sset, N.eqb_refl, Es. reflexivity.
  - eexists. split; [cbn [with_peer with_status m_peers]; apply pget_pset_same | reflexivity].
Qed.

(* ---- C02, the known finding in the model: a reachable manager state in which a missing piece is offered by a
   connected peer that is never asked (it was told NotInterested while the piece was reserved for a peer that then
   left, and only its own events -- it has none to send: it waits for our Interested -- would re-evaluate it) ---- *)
Definition sh_step (r : result mgr) (c : cmd) (pick : option N) : result mgr :=
  match r with
  | Ok m =>
      (* the pick must be one the chooser can make in the state the command consults *)
      let legit := match pick_context m c with Some (m', p) => pick_ok m' p pick | None => true end in
      if legit then match mstep m c pick with Ok (m', _, _, _) => Ok m' | Err => Err | Panic => Panic | OutOfFuel => OutOfFuel end
      else Err
  | e => e
  end.
Definition sh_m0 : mgr :=
  mkmgr (repeat Missing 11) [(1, new_peer (Some []) 11); (2, new_peer (Some []) 11)] [] 0 false (repeat 4 11).
Definition sh_run : result mgr :=
  let r := Ok sh_m0 in
  let r := sh_step r (CBitfield 1 [255; 224]) (Some 8) in     (* peer 1 offers everything *)
  let r := sh_step r (CUnchoke 1) (Some 8) in                 (* ... and is assigned piece 8 *)
  let r := sh_step r (CBitfield 2 [0; 128]) None in           (* peer 2 offers only piece 8: reserved, nothing to pick *)
  sh_step r (CKill 1) None.                                   (* peer 1 leaves without delivering *)

Theorem sole_holder_left_idle :
  match sh_run with
  | Ok m => nthN (m_status m) 8 = Some Missing /\
            exists p, m_peers m = [(2, p)] /\ nth 8 (p_pieces p) false = true /\
                      p_am_interested p = false /\ p_piece_index p = None /\ p_choked p = true
  | _ => False
  end.
Proof. vm_compute. split; [reflexivity|]. eexists. repeat split. Qed.

(* ---- the rotation timer's wrapper (timeout_change_conn_state = timer_tick) -------------------------------- *)
(* while some peer has not reported both rates a tick only advances the round *)
Theorem timer_tick_quiet m order pick : timer_rates m = None ->
  exists m', timer_tick m order pick = Ok (m', None) /\ m_peers m' = m_peers m /\ m_status m' = m_status m /\
             m_round m' = (m_round m + 1) mod MAX_OPTIMISTIC_ROUNDS.
Proof. intros H. unfold timer_tick. rewrite H. eexists. repeat split. Qed.

(* otherwise it is the rotation, on whatever order the peer map yields, with the optimistic pick used in round 0 only:
   the slot bound holds afterwards *)
Theorem timer_tick_bound m order pick m' fl :
  NoDup (map fst (m_peers m)) -> Permutation (map fst order) (map fst (m_peers m)) ->
  timer_tick m order pick = Ok (m', Some fl) ->
  U (m_peers m') <= 10 + len pick /\ m_round m' = (m_round m + 1) mod MAX_OPTIMISTIC_ROUNDS /\ m_status m' = m_status m.
Proof.
  intros Hnd Hperm H. unfold timer_tick in H. destruct (timer_rates m) as [rs|]; [|discriminate].
  set (r := (m_round m + 1) mod MAX_OPTIMISTIC_ROUNDS) in *.
  set (m1 := mkmgr (m_status m) (m_peers m) (m_candidates m) r (m_extracted m) (m_plens m)) in *.
  destruct (change_conn_state m1 order (if r =? 0 then pick else [])) as [[m2 fl2]| | |] eqn:E; cbn [bind] in H; try discriminate.
  cbn [fst snd] in H. injection H as <- <-.
  pose proof (rotation_bound m1 order (if r =? 0 then pick else []) m2 fl2 Hnd Hperm E) as B.
  split; [|split].
  - change MAX_UNCHOKED with 10 in B. destruct (r =? 0); [exact B|]. change (len (@nil addr)) with 0 in B. lia.
  - unfold change_conn_state in E.
    destruct (rotate_go _ _ _ _ _) as [[ps1 f1]| | |]; cbn [bind] in E; try discriminate.
    destruct (set_optimistic _ _ _) as [[ps2 f2]| | |]; cbn [bind] in E; try discriminate. injection E as <- _. reflexivity.
  - unfold change_conn_state in E.
    destruct (rotate_go _ _ _ _ _) as [[ps1 f1]| | |]; cbn [bind] in E; try discriminate.
    destruct (set_optimistic _ _ _) as [[ps2 f2]| | |]; cbn [bind] in E; try discriminate. injection E as <- _. reflexivity.
Qed.

(* a tick that rotates IS the rotation (on the state with the advanced round): every clause proved about
   change_conn_state -- slots to interested peers, rate order, the broadcast map -- applies to it *)
Theorem timer_tick_is_rotation m order pick m' fl :
  timer_tick m order pick = Ok (m', Some fl) ->
  let r := (m_round m + 1) mod MAX_OPTIMISTIC_ROUNDS in
  change_conn_state (mkmgr (m_status m) (m_peers m) (m_candidates m) r (m_extracted m) (m_plens m)) order
                    (if r =? 0 then pick else []) = Ok (m', fl).
Proof.
  intros H. cbv zeta. unfold timer_tick in H. destruct (timer_rates m); [|discriminate].
  destruct (change_conn_state _ order _) as [[m2 fl2]| | |]; cbn [bind] in H; try discriminate.
  cbn [fst snd] in H. injection H as <- <-. reflexivity.
Qed.
