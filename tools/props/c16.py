"""C16 — the bencode decoder accepts exactly well-formed input and never panics."""
import re
from driver import Case
from vlib import coq_bytes
import bgen

ALPHA = b"012:-ilde"
TESTS = [b"", b"x", b"9:spamIsLoL", b"4", b"4:", b"4:spa", b"4+3:spa", b"0:", b"i", b"ie", b"i-e", b"i--4e", b"i-4-e",
         b"i+4e", b"i01e", b"i-01e", b"i0e", b"i4e", b"i-4e", b"i4294967297e", b"l4:spam4:eggse", b"li1ei9ee",
         b"lli1ei5ee3:abce", b"di1ee", b"di1ei1ee", b"d1:ki5ee", b"i2ei-3e", b"0:i4e", b"i1ei2ei01e",
         b"li1e", b"0", b"d1:ai1e", b"l0", b"i-0e", b"i9223372036854775807e", b"i9223372036854775808e",
         b"i-9223372036854775808e", b"i-9223372036854775809e", b"18446744073709551616:", b"18446744073709551615:a",
         b"00000000000000000000001:a", b"d1:a1:b1:a1:ce", b"d1:b1:x1:a1:ye"]


class C16:
    id = "C16"
    harness_sub = "bc"
    harness_timeout = 900
    coq_timeout = 1500
    model_targets = ["Pack.vo", "Corr/C16.vo"]
    proof_target = "Props/C16.vo"
    theorems = ["C16_total", "C16_complete", "C16_grammar_unambiguous", "C16_strict_iff", "C16_sound_partial", "C16_refuted_unterminated", "C16_every_depth_accepted"]
    allowed_axioms = []
    coq_header = "From Rdest Require Import Base BCodec BGrammar Corr.C16.\nOpen Scope N_scope.\n"
    corr_name = "BDecoder::from_array vs BCodec.decode"
    classes = {1: "unterminated-container", 2: "missing-colon-empty-string",
               3: "unterminated-container+missing-colon-empty-string"}
    rule = ("(a) exhaustive: every string over the alphabet '012:-ilde' up to the tier's length bound, compared as sets of "
            "accepted strings with their values (model) and against the strict grammar recogniser (oracle); (b) the suite's "
            "own inputs and boundary numerals as corpus; (c) valid documents (canonical and non-canonical spellings) and "
            "their mutations/truncations. Non-trivial: every case; distinct = distinct input lines.")
    statement_status = "partial: soundness holds outside the known-finding class(es); see C16_sound_partial / C16_refuted_*"
    assumptions = ["the model decoder has no native stack; the implementation's stack use is checked by the deep-nesting part"]
    exhaustive = True

    def corpus(self):
        return [Case("dec %s" % (d.hex() or "-"), "corpus", {"doc": d.decode("latin1")}) for d in TESTS]

    def gen(self, rng, tier):
        cases = []
        if tier != "search":
            top = {"quick": 5, "thorough": 7}[tier]
            for n in range(0, top + 1):
                if n <= 5:
                    cases.append(Case("enum %s %d -" % (ALPHA.hex(), n), "enum", {"len": n}))
                else:
                    for c in ALPHA:
                        cases.append(Case("enum %s %d %02x" % (ALPHA.hex(), n - 1, c), "enum", {"len": n, "prefix": chr(c)}))
        nrand = {"quick": 1500, "thorough": 20000, "search": 6000}[tier]
        for _ in range(nrand):
            v = [bgen.rvalue(rng) for _ in range(rng.choice([1, 1, 1, 2, 3]))]
            r = rng.random()
            if r < 0.25:
                doc = b"".join(bgen.encode(x) for x in v)
                kind = "valid-canonical"
            elif r < 0.45:
                doc = b"".join(bgen.encode(x, rng, sort=False, lead0=0.3, shuffle=0.5) for x in v)
                kind = "valid-noncanonical"
            else:
                doc = b"".join(bgen.encode(x, rng, sort=False, lead0=0.1, shuffle=0.3) for x in v)
                for _ in range(rng.choice([1, 1, 2, 3])):
                    doc = bgen.mutate(rng, doc)
                kind = "mutated"
            cases.append(Case("dec %s" % (doc.hex() or "-"), kind, {"doc": doc[:60].decode("latin1")}))
        return cases

    def coq_case(self, c, out):
        t = c.line.split()
        if t[0] == "dec":
            doc = bytes.fromhex(t[1]) if t[1] != "-" else b""
            return "CDec %s %s" % (coq_bytes(doc), bgen.impl_result_to_coq(out))
        if t[0] == "enum":
            m = re.match(r"ACC (\d+) ?(.*)$", out, re.S)
            entries = []
            if m.group(2).strip():
                for e in m.group(2).split("|"):
                    h, vals = e.split("=", 1)
                    entries.append("(%s, %s)" % (coq_bytes(b"" if h == "-" else bytes.fromhex(h)), bgen.impl_vals_to_coq(vals)))
            if len(entries) != int(m.group(1)):
                raise ValueError("count mismatch")
            prefix = bytes.fromhex(t[3]) if t[3] != "-" else b""
            return "CEnum %s %s %s [%s]" % (coq_bytes(bytes.fromhex(t[1])), t[2], coq_bytes(prefix), "; ".join(entries))
        raise ValueError(c.line)

    def model_term(self, c):
        t = c.line.split()
        if t[0] == "dec":
            doc = bytes.fromhex(t[1]) if t[1] != "-" else b""
            return "(decode_code %s, decode_strict %s)" % (coq_bytes(doc), coq_bytes(doc))
        return "code (%s)" % c.term[:2000]

    def shrink_candidates(self, c):
        t = c.line.split()
        if t[0] != "dec" or t[1] == "-":
            return []
        doc = bytes.fromhex(t[1])
        out = []
        for i in range(len(doc)):
            d = doc[:i] + doc[i + 1:]
            out.append(Case("dec %s" % (d.hex() or "-"), "shrunk", {"doc": d[:60].decode("latin1")}))
        return out


from deepbase import DeepPart

PROP = C16()
PROP.parts = [PROP, DeepPart("C16", "bc", "dec", b"", b"", "BDecoder::from_array")]
