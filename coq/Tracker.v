(* Tracker.v — the tracker task (TrackerClient::run's retry loop), the bounded command channel and the
   manager's handle_tracker_cmd / kill_tracker, as a transition system over all interleavings. *)
From Rdest Require Export Base Consts.
Open Scope N_scope.

(* Repair flag of Session::handle_tracker_cmd: the tracker task is awaited only after its TrackerResp
   (pinned code: after every command, including Fail). *)
Definition Session_join_tracker_only_on_resp : bool := true.

Inductive tcmd := TFail | TResp.

(* the tracker task: it still has `fails` failed announces to report, then the good one *)
Inductive ttask :=
| TSending (fails : nat)       (* next: send Fail (fails > 0) or TrackerResp (fails = 0) *)
| TSleeping (fails : nat)      (* after a Fail: time::sleep(DELAY_MS) *)
| TFinishing                   (* TrackerResp sent, the task is returning *)
| TFinished.

Inductive mstate :=
| MIdle
| MAwaitJob.                   (* inside kill_tracker: job.await *)

Record tsys := mksys {
  t_task : ttask;
  t_queue : list tcmd;          (* mpsc channel, capacity CHANNEL_SIZE *)
  t_mgr : mstate;
  t_job : bool;                 (* self.tracker.job is Some *)
  t_got_resp : bool;            (* the manager has handled the TrackerResp (candidates extended, peers spawned) *)
  t_served : N                  (* other events the manager handled meanwhile (it is not blocked) *)
}.

Definition t_init (fails : nat) : tsys := mksys (TSending fails) [] MIdle true false 0.

Inductive tstep := StTracker | StMgrRecv | StMgrJoin | StMgrOther.

Definition cap : N := session_CHANNEL_SIZE.

(* one step of the chosen component; None = that component cannot move now *)
Definition tnext (join_only_on_resp : bool) (s : tsys) (st : tstep) : option tsys :=
  match st with
  | StTracker =>
      match t_task s with
      | TSending (S k) =>
          if len (t_queue s) <? cap
          then Some (mksys (TSleeping k) (t_queue s ++ [TFail]) (t_mgr s) (t_job s) (t_got_resp s) (t_served s))
          else None                                       (* send().await blocks: channel full *)
      | TSending O =>
          if len (t_queue s) <? cap
          then Some (mksys TFinishing (t_queue s ++ [TResp]) (t_mgr s) (t_job s) (t_got_resp s) (t_served s))
          else None
      | TSleeping k => Some (mksys (TSending k) (t_queue s) (t_mgr s) (t_job s) (t_got_resp s) (t_served s))
      | TFinishing => Some (mksys TFinished (t_queue s) (t_mgr s) (t_job s) (t_got_resp s) (t_served s))
      | TFinished => None
      end
  | StMgrRecv =>
      match t_mgr s, t_queue s with
      | MIdle, c :: q =>
          let got := match c with TResp => true | TFail => t_got_resp s end in
          let join := match c with TResp => true | TFail => negb join_only_on_resp end in
          if join && t_job s
          then Some (mksys (t_task s) q MAwaitJob false got (t_served s))
          else Some (mksys (t_task s) q MIdle (t_job s) got (t_served s))
      | _, _ => None
      end
  | StMgrJoin =>
      match t_mgr s, t_task s with
      | MAwaitJob, TFinished => Some (mksys (t_task s) (t_queue s) MIdle (t_job s) (t_got_resp s) (t_served s))
      | _, _ => None
      end
  | StMgrOther =>
      (* any other event of the select! loop: peers, timers, listener *)
      match t_mgr s with
      | MIdle => Some (mksys (t_task s) (t_queue s) MIdle (t_job s) (t_got_resp s) (t_served s + 1))
      | MAwaitJob => None
      end
  end.

Inductive reachable (j : bool) (fails : nat) : tsys -> Prop :=
| r_init : reachable j fails (t_init fails)
| r_step s st s' : reachable j fails s -> tnext j s st = Some s' -> reachable j fails s'.

(* the tracker has delivered its good reply to the channel *)
Definition succeeded (s : tsys) : bool :=
  match t_task s with TFinishing | TFinished => true | _ => false end.

Definition final (s : tsys) : bool :=
  t_got_resp s && (match t_task s with TFinished => true | _ => false end)
  && (match t_mgr s with MIdle => true | _ => false end) && (match t_queue s with [] => true | _ => false end).

(* deterministic schedule used for witnesses: tracker first, then manager *)
Fixpoint run_sched (j : bool) (fuel : nat) (s : tsys) : tsys :=
  match fuel with
  | O => s
  | S f =>
      match tnext j s StTracker with
      | Some s' => run_sched j f s'
      | None => match tnext j s StMgrJoin with
                | Some s' => run_sched j f s'
                | None => match tnext j s StMgrRecv with
                          | Some s' => run_sched j f s'
                          | None => s
                          end
                end
      end
  end.
Definition stuck (j : bool) (s : tsys) : bool :=
  match tnext j s StTracker, tnext j s StMgrRecv, tnext j s StMgrJoin, tnext j s StMgrOther with
  | None, None, None, None => true
  | _, _, _, _ => false
  end.
