(* C12 — no missing piece is ever withheld by a stale reservation. *)
From Rdest Require Import Base Consts Wire Manager MgrProofs.
Open Scope N_scope.

(* a piece once owned stays owned, whatever command the manager handles *)
Theorem C12_have_absorbing : forall m c pick m' r bc sp i, mstep m c pick = Ok (m', r, bc, sp) ->
  have_at (m_status m) i -> have_at (m_status m') i.
Proof. exact have_absorbing. Qed.

(* a peer is only ever assigned a piece it advertised and the client still lacks: the chooser's relation *)
Theorem C12_asked_advertised_lacked : forall m p i, pick_ok m p (Some i) = true ->
  nth (N.to_nat i) (p_pieces p) false = true /\
  exists s, nth_error (m_status m) (N.to_nat i) = Some s /\ is_have s = false.
Proof.
  intros m p i H. destruct (pick_ok_spec m p (Some i) H) as (A & (s & B & C & _) & _). split; [exact A|]. exists s. tauto.
Qed.

(* the reservation invariant over all event histories (Reserved => some connected peer that is not choking us
   has actually been asked) needs the composition with the connection tasks; it is decided by the correspondence
   oracle (reserved_backed / asked_ok on the real Session's states after every command); no Coq proof yet.
   The three defects it found are repaired (known_findings.json). *)
Example C12_nonvacuous :
  let p := mkpeer None [true; true] None false true false true false None None in
  let m := mkmgr [Missing; Have] [(1, p)] [] 0 false [4; 2] in
  match mstep m (CUnchoke 1) (Some 0) with Ok (m', r, _, _) => m_status m' = [Reserved 1; Have] /\ r = RUnchoke_IntReq 0 4 | _ => False end.
Proof. vm_compute. split; reflexivity. Qed.

Print Assumptions C12_have_absorbing.
Print Assumptions C12_asked_advertised_lacked.
