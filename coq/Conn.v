(* Conn.v — executable mirror of src/connection.rs: parse_frame on the receive buffer and the
   recv_frame loop, against an explicit sequence of reads. *)
From Rdest Require Export Base Consts Wire.
Open Scope N_scope.

(* Repair flags of src/connection.rs, pinned by the correspondence:
   - the body of a message with an unknown id is skipped only once it is buffered (pinned: advance panics);
   - after a skipped message parsing continues with what is buffered (pinned: waits for the next read). *)
Definition Conn_skip_needs_body : bool := true.
Definition Conn_continue_after_skip : bool := true.

Inductive pstep :=
| PDeliver (m : msg) (rest : bytes)     (* Ok(Some(frame)): buffer advanced *)
| PSkip (rest : bytes)                  (* unknown id skipped: Ok(None) *)
| PWait                                 (* Incomplete: Ok(None) *)
| PFail                                 (* Err(_) *)
| PCrash.                               (* BytesMut::advance past the end / index panic *)

Definition conn_parse (buf : bytes) : pstep :=
  match parse_frame buf with
  | PFrame m n => if len buf <? n then PCrash else PDeliver m (skipn (N.to_nat n) buf)
  | PUnknown _ n =>
      if len buf <? n then (if Conn_skip_needs_body then PWait else PCrash)
      else PSkip (skipn (N.to_nat n) buf)
  | PIncomplete => PWait
  | PError => PFail
  | PPanic => PCrash
  end.

(* one call of recv_frame: the reads are the byte counts read_buf returned, given as chunks;
   an empty chunk is end of stream (read returned 0); running out of chunks means the call is
   still pending *)
Inductive rres :=
| RFrame (m : msg) | RClosed | RErr | RPending | RCrash | RFuel.

Fixpoint recv_frame (fuel : nat) (buf : bytes) (reads : list bytes) : rres * bytes * list bytes :=
  match fuel with
  | O => (RFuel, buf, reads)
  | S f =>
      let read_more :=
        match reads with
        | [] => (RPending, buf, [])
        | [] :: rest => (match buf with [] => RClosed | _ => RErr end, buf, rest)
        | chunk :: rest => recv_frame f (buf ++ chunk) rest
        end in
      match conn_parse buf with
      | PDeliver m rest => (RFrame m, rest, reads)
      | PSkip rest => if Conn_continue_after_skip then recv_frame f rest reads
                      else (* falls through to the read with the advanced buffer *)
                        match reads with
                        | [] => (RPending, rest, [])
                        | [] :: rs => (match rest with [] => RClosed | _ => RErr end, rest, rs)
                        | chunk :: rs => recv_frame f (rest ++ chunk) rs
                        end
      | PWait => read_more
      | PFail => (RErr, buf, reads)
      | PCrash => (RCrash, buf, reads)
      end
  end.

(* calling recv_frame again and again, as the peer task does, until it is pending or over *)
Fixpoint drain (fuel : nat) (buf : bytes) (reads : list bytes) (acc : list msg) : list msg * rres * bytes :=
  match fuel with
  | O => (acc, RFuel, buf)
  | S f =>
      match recv_frame (S (length buf + length (concat reads) + length reads)) buf reads with
      | (RFrame m, buf', reads') => drain f buf' reads' (acc ++ [m])
      | (r, buf', _) => (acc, r, buf')
      end
  end.
Definition run_conn (reads : list bytes) : list msg * rres * bytes :=
  drain (S (length (concat reads) + length reads)) [] reads [].

(* ---- specification: what the byte stream means, independent of any segmentation --------------- *)
Inductive sres := SMore (* everything decodable was decoded; the rest is an incomplete message *)
                | SBad.  (* a malformed length / oversized frame: the connection must end *)
Fixpoint spec_decode (fuel : nat) (s : bytes) (acc : list msg) : list msg * sres * bytes :=
  match fuel with
  | O => (acc, SMore, s)
  | S f =>
      match parse_frame s with
      | PFrame m n => if len s <? n then (acc, SMore, s) else spec_decode f (skipn (N.to_nat n) s) (acc ++ [m])
      | PUnknown _ n => if len s <? n then (acc, SMore, s) else spec_decode f (skipn (N.to_nat n) s) acc
      | PIncomplete => (acc, SMore, s)
      | PError | PPanic => (acc, SBad, s)
      end
  end.
Definition spec_stream (s : bytes) : list msg * sres * bytes := spec_decode (S (length s)) s [].
