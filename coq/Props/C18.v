(* C18 — the tracker announce names the right torrent and client. *)
From Coq Require Import String.
From Rdest Require Import Base BCodec Consts Url UrlProofs.
Open Scope N_scope.

(* the info_hash parameter percent-decodes to exactly the hash, for every byte value (NUL, '&', '%', '+', non-UTF-8) *)
Theorem C18_hash_roundtrip : forall bs, Forall (fun b => b < 256) bs -> form_decode (byte_serialize bs) = bs.
Proof. exact decode_serialize. Qed.

(* and its encoding contains no '&', '=', '?' or '#', so it cannot be cut short or merged with another parameter *)
Theorem C18_hash_safe : forall bs, Forall (fun b => b < 256) bs ->
  forallb (fun c => negb (c =? ch_amp) && negb (c =? ch_eq) && negb (c =? ch_q) && negb (c =? 35)) (byte_serialize bs) = true.
Proof. exact serialize_safe. Qed.

(* create_url keeps the announce URL as a prefix and appends exactly one separator: '&' when a query exists *)
Theorem C18_url_shape : forall announce hash,
  create_url announce hash = announce ++ [if existsb (N.eqb ch_q) announce then ch_amp else ch_q] ++ s_info_hash ++ [ch_eq] ++ byte_serialize hash.
Proof. reflexivity. Qed.

(* the statement about the whole request (path and original parameters kept; peer_id, port, left present) is
   decided on the request line the real client sends, by Corr/C18.v's oracle; no general Coq theorem over all
   announce URLs yet *)
Example C18_nonvacuous :
  let target := request_target (hx "687474703a2f2f683a312f613f6b3d76") [0; 38; 37; 43; 255] (hx "4141414141414141414141414141414141414141") 7 in
  let ps := query_pairs (snd (path_query target)) in
  lookup s_info_hash ps = Some [0; 38; 37; 43; 255] /\ lookup (hx "6b") ps = Some (hx "76") /\ lookup s_left ps = Some [55].
Proof. vm_compute. repeat split. Qed.

Print Assumptions C18_hash_roundtrip.
Print Assumptions C18_hash_safe.
Print Assumptions C18_url_shape.
