#!/bin/sh
# try_seed.sh <seed dir name, e.g. C05-1> <worktree> <check ids...>: confirm a seeded change in its scratch
# worktree, store it under seeded/, run the given checks against /repo with the patch applied, undo.
NAME="$1"; WT="$2"; shift 2
V=/verif
mkdir -p $V/seeded/$NAME
cp $WT/SEED_OUT/patch.diff $WT/SEED_OUT/demo_test.rs $WT/SEED_OUT/notes.md $V/seeded/$NAME/ 2>/dev/null
sh $V/tools/confirm_seed.sh "$WT" "$V/seeded/$NAME" | tail -1 | tee $V/seeded/$NAME/confirm.txt
git -C /repo apply $V/seeded/$NAME/patch.diff || { echo "cannot apply to /repo"; exit 1; }
for id in "$@"; do
  (cd $V && ./check $id --tier quick 2>&1 | tail -4) | tee -a $V/seeded/$NAME/check_$id.txt
done
git -C /repo checkout -- .
git -C /repo status --short | head -3
