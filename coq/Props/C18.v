(* C18 placeholder *)
From Rdest Require Import Base Url.
