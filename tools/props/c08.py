"""C08 — only peers of the same torrent (and expected identity) are served."""
from hndbase import *


class C08(HndBase):
    id = "C08"
    proof_target = "Props/C08.vo"
    theorems = ["C08_wrong_hash", "C08_wrong_id", "C08_gate", "C08_actions", "C08_gate_opens_only_by_valid_handshake"]
    coq_header = ("From Rdest Require Import Base Consts Wire Manager Handler Corr.Hnd.\nOpen Scope N_scope.\n"
                  "Definition codes := codes08.\n")
    rule = ("message histories on incoming and outgoing connections in which the handshake arrives first, late, twice or "
            "never, with the right or a wrong info-hash / peer id / protocol name (one byte off); all other message kinds (bitfield, request for a stored "
            "piece, have, unchoke ...) before and after it. Oracle: nothing but timer keep-alives is written to an incoming "
            "connection before a valid handshake, no Piece before a valid handshake on any connection, nothing at all after "
            "an invalid handshake (and the peer is reported dead), own handshake = (info-hash, own id). Non-trivial: "
            "histories with a message before the handshake or an invalid handshake; distinct lines.")
    statement_status = "see Props/C08.v"

    def corpus(self):
        e1 = [ev_msg(m_bitfield([True, False]), bf="11"), ev_store(0), ev_msg(m_request(0, 0, 4), req="LOAD:0")]
        e2 = [ev_msg(m_hs(b"J" * 20)), ev_msg(INTERESTED), ev_wait(120000)]
        e3 = [ev_start(init="10"), ev_msg(m_hs(INFO_HASH, b"Q" * 20)), ev_msg(UNCHOKE)]
        # every single-byte deviation of the handshake's fixed beginning, right hash and id: not a peer of this protocol
        dev = []
        for k in range(20):
            h = bytes(b ^ (0x20 if i == k else 0) for i, b in enumerate(hs()))
            dev.append(self.case(Scenario(False, [5, 3], 31, [ev_store(0), ev_bad(h), ev_msg(INTERESTED), ev_msg(m_request(0, 0, 4), req="LOAD:0")],
                                          "corpus-wrong-proto")))
        return [self.case(Scenario(False, [5, 3], 31, e1, "corpus")), self.case(Scenario(False, [5, 3], 31, e2, "corpus")),
                self.case(Scenario(True, [5, 3], 31, e3, "corpus"))] + dev

    def gen(self, rng, tier):
        k = {"quick": 300, "thorough": 6000, "search": 1500}.get(tier, 300)
        cases = []
        for _ in range(k):
            n = rng.choice([1, 2, 3])
            plens = [rng.choice([1, 5, 9]) for _ in range(n)]
            outgoing = rng.random() < 0.5
            wrong = rng.choice([None, None, None, "hash", "id", "proto"])
            ev = mixed_scenario(rng, n, plens, outgoing, rng.choice([3, 6, 10]), w_wait=0.08, w_broad=0.1,
                                hs_first=rng.choice([0.0, 0.5, 1.0]), wrong=wrong)
            if rng.random() < 0.4:      # a stored piece (an outgoing connection greets first: 'start' stays in front)
                ev.insert(1 if outgoing else 0, ev_store(rng.randrange(n)))
            # the manager flips the choke state only of peers that declared interest or were unchoked, both of
            # which need handled frames: no SendOwnState entry for this address before a valid handshake
            seen_valid = False
            for e in ev:
                if "Handshake" in (e.term or "") and wrong is None:
                    seen_valid = True
                if e.stim.startswith("bown") and not seen_valid:
                    e.stim, e.term = "bown -", "(SBOwn None)"
            # the manager may allow uploads (it does not know about handshakes)
            for e in ev:
                if e.stim.startswith("bytes") and "Request" in (e.term or ""):
                    e.pol["req"] = "LOAD:%d" % rng.randrange(n)
            cases.append(self.case(Scenario(outgoing, plens, rng.randrange(1, 10 ** 6), ev, "wrong-" + wrong if wrong else "history")))
        return cases


PROP = C08()
