(* C15 — bencode encode/decode are mutually inverse and canonical. *)
From Rdest Require Import Base BCodec BGrammar BProofs BEncProofs.
Open Scope N_scope.

(* decoding the encoding of any (sequence of) value(s) yields exactly the value(s);
   wf_value = what a BValue can hold: i64 integers, distinct keys, lengths < 2^64 *)
Theorem C15_decode_encode : forall vs, forallb wf_value vs = true ->
  decode (concat (map encode vs)) = Ok vs.
Proof. exact decode_encode. Qed.

(* the encoder's output is canonical bencode: keys ascending, shortest decimal
   integers and length prefixes (Canon is the independent inductive grammar) *)
Theorem C15_encode_canonical : forall v, wf_value v = true -> Canon (encode v) v.
Proof. exact encode_canon. Qed.

(* re-encoding the decoding of any canonical document reproduces it byte for byte *)
Theorem C15_reencode : forall doc vs, CanonSeq doc vs ->
  decode doc = Ok vs /\ concat (map encode vs) = doc.
Proof. exact reencode_canonical. Qed.

(* hence distinct values never share an encoding (one value, or a whole sequence) *)
Theorem C15_encode_injective : forall v1 v2, wf_value v1 = true -> wf_value v2 = true -> encode v1 = encode v2 -> v1 = v2.
Proof. exact encode_injective. Qed.

Theorem C15_encode_seq_injective : forall vs1 vs2, forallb wf_value vs1 = true -> forallb wf_value vs2 = true ->
  concat (map encode vs1) = concat (map encode vs2) -> vs1 = vs2.
Proof. exact encode_seq_injective. Qed.

Check C15_decode_encode : forall vs, forallb wf_value vs = true -> decode (concat (map encode vs)) = Ok vs.
Check C15_encode_canonical : forall v, wf_value v = true -> Canon (encode v) v.
Check C15_reencode : forall doc vs, CanonSeq doc vs -> decode doc = Ok vs /\ concat (map encode vs) = doc.

(* non-vacuity: a nested value with prefix keys, binary strings and extreme integers *)
Example C15_wf_example :
  wf_value (BDict [([97], BInt (-9223372036854775808)); ([97; 98], BList [BStr [58; 101; 0]; BDict []]);
                   ([98], BInt 9223372036854775807)]) = true.
Proof. vm_compute. reflexivity. Qed.

Print Assumptions C15_decode_encode.
Print Assumptions C15_encode_canonical.
Print Assumptions C15_reencode.
Print Assumptions C15_encode_injective.
Print Assumptions C15_encode_seq_injective.
