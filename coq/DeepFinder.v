(* DeepFinder.v — executable mirror of src/bcodec/deep_finder.rs
   (DeepFinder::find_first as used by Metainfo::calculate_hash).

   Not modelled: the scanner's iterator position after an *ignored* error of
   extract_dict_raw_value (traverse_dict drops that Result when the key did not
   match).  The model returns Err there.  For documents the decoder accepts the
   branch is not reachable; the correspondence check runs on such documents. *)
From Rdest Require Export Base BCodec.
Open Scope N_scope.

Definition lc := BCodec_lenient_colon.

(* results carry the remaining input *)
Definition raw_byte_str (first : N) (s : bytes) (extract : bool) : result (bytes * bytes) :=
  do (_, raw, r) <- parse_byte_str lc first s; Ok (if extract then raw else [], r).

Definition raw_int (s : bytes) (extract : bool) : result (bytes * bytes) :=
  do (_, raw, r) <- parse_int s; Ok (if extract then raw else [], r).

(* raw_values_vector with key = None (re-serialisation of a container body) *)
Definition raw_body_step (rec : bool -> bytes -> result (bytes * bytes))
           (with_end : bool) (s : bytes) : result (bytes * bytes) :=
  match s with
  | [] => Ok ([], [])                        (* iterator exhausted: Ok(values) *)
  | b :: r =>
    if is_digit b then
      do (v, r1) <- raw_byte_str b r true; do (vs, r2) <- rec with_end r1; Ok (v ++ vs, r2)
    else if b =? ch_i then
      do (v, r1) <- raw_int r true; do (vs, r2) <- rec with_end r1; Ok (v ++ vs, r2)
    else if (b =? ch_l) || (b =? ch_d) then
      (* raw_list / raw_dict with extract = true: opener, body, and an 'e'
         appended whether or not the input had one *)
      do (body, r1) <- rec true r;
      do (vs, r2) <- rec with_end r1;
      Ok ([b] ++ body ++ [ch_e] ++ vs, r2)
    else if b =? ch_e then
      if with_end then Ok ([], r) else Err
    else Err
  end.

Fixpoint raw_body (fuel : nat) : bool -> bytes -> result (bytes * bytes) :=
  match fuel with
  | O => fun _ _ => OutOfFuel
  | S f => raw_body_step (raw_body f)
  end.

(* one raw value with extract = true (raw_list/raw_dict/raw_int/parse_byte_str) *)
Definition raw_value (fuel : nat) (b : N) (s : bytes) : result (bytes * bytes) :=
  if is_digit b then raw_byte_str b s true
  else if b =? ch_i then raw_int s true
  else if (b =? ch_l) || (b =? ch_d) then
    do (body, r1) <- raw_body fuel true s; Ok ([b] ++ body ++ [ch_e], r1)
  else Err.

(* traverse_dict: returns the found raw value (empty = not found).  The
   remaining input is not needed by the callers (they return or restart from
   a cloned iterator), except after a completed dictionary, so it is returned. *)
Definition traverse_step (rec : bytes -> result (bytes * bytes)) (fuel : nat) (key : bytes) :
  nat -> bool -> bool -> bytes -> result (bytes * bytes) :=
  fix go (n : nat) :=
    match n with
    | O => fun _ _ _ => OutOfFuel
    | S n' => fun (key_turn extract_value : bool) (s : bytes) =>
      match s with
      | [] => Ok ([], [])
      | b :: r =>
        if key_turn then
          if is_digit b || (b =? ch_i) || (b =? ch_l) then
            do (raw, r1) <- raw_value fuel b r;
            go n' false (bytes_eqb raw key) r1
          else if b =? ch_d then
            do (raw, r1) <- raw_value fuel b r;
            if bytes_eqb raw key then go n' false true r1
            else
              do (val, _) <- rec r;
              if negb (len val =? 0) then Ok (val, []) else go n' false false r1
          else if b =? ch_e then Ok ([], r)
          else Err
        else
          if b =? ch_e then Err   (* Err(UnexpectedChar): returned, or the unmodelled ignored-error case *)
          else
          match raw_value fuel b r with
          | Ok (raw, r1) =>
              if extract_value then Ok (raw, r1)
              else if b =? ch_d then
                do (val, _) <- rec r;
                if negb (len val =? 0) then Ok (val, []) else go n' true false r1
              else go n' true false r1
          | Err => Err       (* returned when extract_value; otherwise the unmodelled ignored-error case *)
          | Panic => Panic
          | OutOfFuel => OutOfFuel
          end
      end
    end.

Fixpoint traverse_dict (fuel : nat) (key : bytes) (s : bytes) : result (bytes * bytes) :=
  match fuel with
  | O => OutOfFuel
  | S f => traverse_step (traverse_dict f key) (S (length s)) key (S (length s)) true false s
  end.

(* raw_values_vector(it, Some(key), with_end = false, extract = false) *)
Fixpoint find_top (fuel : nat) (key : bytes) (s : bytes) : result bytes :=
  match fuel with
  | O => OutOfFuel
  | S f =>
    match s with
    | [] => Ok []
    | b :: r =>
      if is_digit b then do (_, r1) <- raw_byte_str b r false; find_top f key r1
      else if b =? ch_i then do (_, r1) <- raw_int r false; find_top f key r1
      else if b =? ch_l then find_top f key r      (* raw_list with extract = false consumes nothing *)
      else if b =? ch_d then
        do (val, r1) <- traverse_dict (S (length r)) key r;
        if negb (len val =? 0) then Ok val else find_top f key r1
      else Err                                       (* 'e' at top level, or an unknown byte *)
    end
  end.

(* DeepFinder::find_first: None for an error or an empty result *)
Definition find_first (key : bytes) (doc : bytes) : option bytes :=
  match find_top (S (length doc)) key doc with
  | Ok v => if len v =? 0 then None else Some v
  | _ => None
  end.

Definition key_info_raw : bytes := [52; 58; 105; 110; 102; 111].   (* "4:info" *)
