(* Base.v — shared executable definitions: bytes as N, big-endian words,
   slicing, results.  Models only; proofs live in *Proofs.v. *)
From Coq Require Export List NArith ZArith Bool Lia.
Export ListNotations.
Open Scope N_scope.

(* A byte is an N; whatever produces bytes produces values < 256, whatever only
   copies bytes never looks at them. *)
Definition bytes := list N.

(* Result of a modelled Rust operation.  Panic is an outcome, not a default. *)
Inductive result (A : Type) : Type :=
| Ok (a : A)
| Err
| Panic
| OutOfFuel.
Arguments Ok {A} a.
Arguments Err {A}.
Arguments Panic {A}.
Arguments OutOfFuel {A}.

Definition bind {A B} (r : result A) (f : A -> result B) : result B :=
  match r with Ok a => f a | Err => Err | Panic => Panic | OutOfFuel => OutOfFuel end.
Notation "'do' x <- r ; k" := (bind r (fun x => k)) (at level 200, x pattern, r at level 100, k at level 200).

Definition is_ok {A} (r : result A) : bool := match r with Ok _ => true | _ => false end.

(* length as N *)
Definition len {A} (l : list A) : N := N.of_nat (length l).

(* u32 big-endian (to_be_bytes of a value already truncated by `as u32`) *)
Definition be32 (n : N) : bytes :=
  [ (n / 16777216) mod 256; (n / 65536) mod 256; (n / 256) mod 256; n mod 256 ].
Definition unbe32 (a b c d : N) : N := a * 16777216 + b * 65536 + c * 256 + d.

(* slice l start len: l[start .. start+len], clipped (callers guard) *)
Definition slice {A} (l : list A) (start n : N) : list A :=
  firstn (N.to_nat n) (skipn (N.to_nat start) l).

Definition nthN {A} (l : list A) (i : N) : option A := nth_error l (N.to_nat i).

Fixpoint list_eqb {A} (eqb : A -> A -> bool) (l1 l2 : list A) : bool :=
  match l1, l2 with
  | [], [] => true
  | x :: l1, y :: l2 => eqb x y && list_eqb eqb l1 l2
  | _, _ => false
  end.
Definition bytes_eqb := list_eqb N.eqb.

(* chunks n l: consecutive chunks of size n (last one shorter), as Rust's
   slice::chunks; n = 0 panics in Rust, callers guard.  Fuel = length l. *)
Fixpoint chunks_fuel {A} (fuel : nat) (n : nat) (l : list A) : list (list A) :=
  match fuel with
  | O => []
  | S f => match l with
           | [] => []
           | _ => firstn n l :: chunks_fuel f n (skipn n l)
           end
  end.
Definition chunks {A} (n : nat) (l : list A) : list (list A) := chunks_fuel (length l) n l.

(* hex strings, used only by the correspondence case files *)
From Coq Require Import Ascii String.
Definition hexval (c : ascii) : N :=
  let n := N_of_ascii c in
  if (48 <=? n) && (n <=? 57) then n - 48
  else if (97 <=? n) && (n <=? 102) then n - 87
  else 0.
Fixpoint unhex (s : string) : bytes :=
  match s with
  | String a (String b r) => (hexval a * 16 + hexval b) :: unhex r
  | _ => []
  end.
(* hx "0a0b": argument parsed in string_scope, so case files need no import *)
Definition hx (s : string) : bytes := unhex s.
Arguments hx s%string.

