//! Metainfo::from_bencode + accessors, DeepFinder::find_first (C05, C17), create_file.
use crate::util::*;
use rdest::{DeepFinder, Metainfo, RawFinder};

fn acc<T>(f: impl FnOnce() -> T, show: impl FnOnce(T) -> String) -> String {
    match guarded(f) {
        Some(v) => show(v),
        None => "PANIC".to_string(),
    }
}

pub fn meta_line(doc: &[u8]) -> String {
    let r = guarded(|| Metainfo::from_bencode(doc));
    let m = match r {
        None => return "PANIC".to_string(),
        Some(Err(_)) => return "ERR".to_string(),
        Some(Ok(m)) => m,
    };
    let n = m.pieces_num();
    let mut idx: Vec<usize> = vec![];
    for i in [0usize, 1, 2, n.wrapping_sub(2), n.wrapping_sub(1)] {
        if i < n && !idx.contains(&i) {
            idx.push(i);
        }
    }
    let ff = match guarded(|| DeepFinder::find_first("4:info", doc)) {
        None => "PANIC".to_string(),
        Some(None) => "NONE".to_string(),
        Some(Some(v)) => hex(&v),
    };
    let pieces: Vec<String> = idx
        .iter()
        .map(|&i| format!("{}:{}", i, acc(|| *m.piece(i), |h| hex(&h))))
        .collect();
    let plens: Vec<String> = idx
        .iter()
        .map(|&i| format!("{}:{}", i, acc(|| m.piece_length(i), |l| l.to_string())))
        .collect();
    let total = acc(|| m.total_length(), |t| t.to_string());
    let ranges = acc(
        || m.file_piece_ranges(),
        |rs| {
            let v: Vec<String> = rs
                .iter()
                .map(|(p, s, e)| {
                    format!(
                        "{}/{}/{}/{}/{}",
                        hex(p.to_string_lossy().as_bytes()),
                        s.file_index,
                        s.byte_index,
                        e.file_index,
                        e.byte_index
                    )
                })
                .collect();
            if v.is_empty() {
                "-".to_string()
            } else {
                v.join(",")
            }
        },
    );
    // the files as stored are only observable through ranges/total; name and url directly
    format!(
        "OK url={} n={} hash={} ff={} piece={} plen={} total={} ranges={}",
        hex(m.tracker_url().as_bytes()),
        n,
        hex(m.info_hash()),
        ff,
        if pieces.is_empty() { "-".to_string() } else { pieces.join(",") },
        if plens.is_empty() { "-".to_string() } else { plens.join(",") },
        total,
        ranges
    )
}

pub fn run(lines: &[String]) {
    for line in lines {
        let mut t = line.split_whitespace();
        match t.next() {
            Some("meta") => println!("{}", meta_line(&unhex(t.next().unwrap()))),
            Some("find") => {
                let doc = unhex(t.next().unwrap());
                println!(
                    "{}",
                    match guarded(|| DeepFinder::find_first("4:info", &doc)) {
                        None => "PANIC".to_string(),
                        Some(None) => "NONE".to_string(),
                        Some(Some(v)) => format!("SOME {}", hex(&v)),
                    }
                )
            }
            // create <name hex> <tracker hex> <content>: runs create_file in a scratch dir, prints the torrent
            Some("create") => {
                let name = String::from_utf8(unhex(t.next().unwrap())).unwrap();
                let tracker = String::from_utf8(unhex(t.next().unwrap())).unwrap();
                let data = unhex(t.next().unwrap());
                let dir = std::env::temp_dir().join(format!("rdest-verif-create-{}", std::process::id()));
                let _ = std::fs::remove_dir_all(&dir);
                std::fs::create_dir_all(&dir).unwrap();
                let cwd = std::env::current_dir().unwrap();
                std::env::set_current_dir(&dir).unwrap();
                std::fs::write(&name, &data).unwrap();
                let r = guarded(|| Metainfo::create_file(std::path::Path::new(&name), &tracker));
                let out = match r {
                    None => "PANIC".to_string(),
                    Some(Err(_)) => "ERR".to_string(),
                    Some(Ok(())) => match std::fs::read(format!("{}.torrent", name)) {
                        Ok(tor) => format!("TORRENT {} {}", hex(&tor), meta_line(&tor)),
                        Err(_) => "NOFILE".to_string(),
                    },
                };
                std::env::set_current_dir(cwd).unwrap();
                let _ = std::fs::remove_dir_all(&dir);
                println!("{}", out);
            }
            _ => panic!("bad case"),
        }
    }
}

pub fn run_resp(lines: &[String]) {
    use rdest::TrackerResp;
    for line in lines {
        let mut t = line.split_whitespace();
        match t.next() {
            Some("resp") => {
                let body = unhex(t.next().unwrap());
                let r = guarded(|| TrackerResp::from_bencode(&body).map(|r| r.peers()));
                println!(
                    "{}",
                    match r {
                        None => "PANIC".to_string(),
                        Some(Err(_)) => "ERR".to_string(),
                        Some(Ok(ps)) => {
                            let v: Vec<String> = ps.iter().map(|(a, id)| format!("{}/{}", hex(a.as_bytes()), hex(id))).collect();
                            format!("OK {}", if v.is_empty() { "-".to_string() } else { v.join(",") })
                        }
                    }
                )
            }
            _ => panic!("bad case"),
        }
    }
}
