(* CreateProofs.v — a torrent written by create_file is read back exactly (C17), and its info-hash input is the
   canonical encoding of its info dictionary (C05). *)
From Rdest Require Import Base BaseProofs BCodec BGrammar BProofs BEncProofs DeepFinder Metainfo MetaProofs FinderProofs.
From Coq Require Import ZifyBool ZifyN ZifyNat.
Open Scope N_scope.

Definition info_dict (name : bytes) (data_len : N) (pieces : bytes) : list (bytes * bvalue) :=
  [ (k_length, BInt (Z.of_N data_len)); (k_name, BStr name);
    (k_piece_length, BInt (Z.of_N PIECE_LENGTH)); (k_pieces, BStr pieces) ].
Definition torrent_dict (name tracker : bytes) (data_len : N) (pieces : bytes) : list (bytes * bvalue) :=
  [ (k_announce, BStr tracker); (k_info, BDict (info_dict name data_len pieces)) ].

Lemma create_is_sorted name tracker data_len pieces :
  create_torrent_with name tracker data_len pieces = encode (BDict (torrent_dict name tracker data_len pieces)).
Proof. unfold create_torrent_with. f_equal. Qed.

Section Facts.
  Variables (name tracker pieces : bytes) (data_len : N).
  Hypothesis Hname : len name < 18446744073709551616.
  Hypothesis Htracker : len tracker < 18446744073709551616.
  Hypothesis Hpieces : len pieces < 18446744073709551616.
  Hypothesis Hlen : data_len < 9223372036854775808.

  Let info := info_dict name data_len pieces.
  Let torrent := torrent_dict name tracker data_len pieces.

  Lemma PL_small : PIECE_LENGTH < 9223372036854775808.
  Proof. vm_compute. reflexivity. Qed.

  Lemma wf_torrent : wf_value (BDict torrent) = true.
  Proof.
    pose proof PL_small as HPL. unfold torrent, torrent_dict, info_dict. cbn [wf_value].
    change (keys_sorted [(k_announce, BStr tracker); (k_info, BDict [(k_length, BInt (Z.of_N data_len)); (k_name, BStr name);
            (k_piece_length, BInt (Z.of_N PIECE_LENGTH)); (k_pieces, BStr pieces)])]) with true.
    change (keys_sorted [(k_length, BInt (Z.of_N data_len)); (k_name, BStr name);
            (k_piece_length, BInt (Z.of_N PIECE_LENGTH)); (k_pieces, BStr pieces)]) with true.
    change (len k_announce <? 18446744073709551616) with true. change (len k_info <? 18446744073709551616) with true.
    change (len k_length <? 18446744073709551616) with true. change (len k_name <? 18446744073709551616) with true.
    change (len k_piece_length <? 18446744073709551616) with true. change (len k_pieces <? 18446744073709551616) with true.
    cbn [andb]. lia.
  Qed.

  Lemma decode_created : decode (encode (BDict torrent)) = Ok [BDict torrent].
  Proof.
    pose proof (decode_encode [BDict torrent]) as H. cbn [map concat forallb] in H. rewrite app_nil_r in H.
    apply H. rewrite wf_torrent. reflexivity.
  Qed.

  (* the entry tree of the created document *)
  Definition info_tree : tes :=
    TCons (enc_str k_length) (TAtom (encode (BInt (Z.of_N data_len))))
      (TCons (enc_str k_name) (TAtom (enc_str name))
        (TCons (enc_str k_piece_length) (TAtom (encode (BInt (Z.of_N PIECE_LENGTH))))
          (TCons (enc_str k_pieces) (TAtom (enc_str pieces)) TNil))).
  Definition torrent_tree : tes :=
    TCons (enc_str k_announce) (TAtom (enc_str tracker)) (TCons (enc_str k_info) (TDict info_tree) TNil).

  Lemma text_info : text_v (TDict info_tree) = encode (BDict info).
  Proof.
    rewrite encode_dict. unfold info, info_dict, enc_entries. cbn [map fst snd].
    rewrite sort_sorted by reflexivity. cbn [text_v info_tree text_es map concat fst snd encode].
    rewrite <- !app_assoc. reflexivity.
  Qed.

  Lemma text_torrent : text_v (TDict torrent_tree) = encode (BDict torrent).
  Proof.
    rewrite (encode_dict torrent). unfold torrent, torrent_dict, enc_entries. cbn [map fst snd].
    rewrite sort_sorted by reflexivity. pose proof text_info as T. unfold info in T. rewrite <- T.
    cbn [text_v torrent_tree text_es map concat fst snd encode]. rewrite <- ?app_assoc. reflexivity.
  Qed.

  Lemma str_text s : len s < 18446744073709551616 -> StrText (enc_str s).
  Proof. intros H. exists s. apply Canon_WfVal, Canon_str, H. Qed.
  Lemma int_text z : in_i64 z -> AtomText (encode (BInt z)).
  Proof. intros H. right. exists z. apply Canon_WfVal. cbn [encode]. apply Canon_int, H. Qed.

  Lemma wf_trees : wf_es torrent_tree.
  Proof.
    pose proof PL_small as HPL.
    assert (K : forall k, len k < 100 -> StrText (enc_str k)) by (intros k Hk; apply str_text; lia).
    cbn [wf_es torrent_tree info_tree wf_v].
    repeat split; try (apply K; vm_compute; reflexivity);
      try (left; apply str_text; assumption); try (apply int_text; unfold in_i64; lia).
  Qed.

  Theorem created_hash_input : find_first key_info_raw (encode (BDict torrent)) = Some (encode (BDict info)).
  Proof.
    pose proof (find_first_spec key_info_raw torrent_tree [] wf_trees) as F. rewrite app_nil_r, text_torrent in F.
    cbn [tfind_es torrent_tree] in F.
    change (bytes_eqb (enc_str k_announce) key_info_raw) with false in F.
    change (bytes_eqb (enc_str k_info) key_info_raw) with true in F. cbn [tfind] in F.
    rewrite text_info in F. exact F.
  Qed.

  Hypothesis Uname : utf8_valid name = true.
  Hypothesis Utracker : utf8_valid tracker = true.
  Hypothesis Sname : safe_path name = true.
  Hypothesis Hmod : len pieces mod HASH_SIZE = 0.

  Lemma u64_of_N n : u64_of (Z.of_N n) = Some n.
  Proof. unfold u64_of. replace (Z.of_N n <? 0)%Z with false by lia. rewrite N2Z.id. reflexivity. Qed.

  Theorem create_parse :
    metainfo_of (create_torrent_with name tracker data_len pieces) =
    Ok (mkmeta tracker name PIECE_LENGTH (chunks (N.to_nat HASH_SIZE) pieces) [mkfile data_len name] (encode (BDict info))).
  Proof.
    rewrite create_is_sorted. fold torrent. unfold metainfo_of. rewrite decode_created. cbn [first_parsing].
    assert (P : parse_meta (encode (BDict torrent)) torrent =
                Some (mkmeta tracker name PIECE_LENGTH (chunks (N.to_nat HASH_SIZE) pieces) [mkfile data_len name] (encode (BDict info)))).
    { unfold parse_meta.
      assert (I : info_of torrent = Some info) by reflexivity.
      assert (FL : find_length torrent = Some data_len).
      { unfold find_length. rewrite I. change (map_get k_length info) with (Some (BInt (Z.of_N data_len))). cbv beta iota. apply u64_of_N. }
      assert (FF : find_files torrent = None).
      { unfold find_files. rewrite I. change (map_get k_files info) with (@None bvalue). reflexivity. }
      assert (FN : find_name torrent = Some name).
      { unfold find_name. rewrite I. change (map_get k_name info) with (Some (BStr name)). cbv beta iota. rewrite Uname. reflexivity. }
      assert (FA : find_announce torrent = Some tracker).
      { unfold find_announce. change (map_get k_announce torrent) with (Some (BStr tracker)). cbv beta iota. rewrite Utracker. reflexivity. }
      assert (FP : find_piece_length torrent = Some PIECE_LENGTH).
      { unfold find_piece_length. rewrite I. change (map_get k_piece_length info) with (Some (BInt (Z.of_N PIECE_LENGTH))). cbv beta iota.
        rewrite u64_of_N. reflexivity. }
      assert (FS : find_pieces torrent = Some (chunks (N.to_nat HASH_SIZE) pieces)).
      { unfold find_pieces. rewrite I. change (map_get k_pieces info) with (Some (BStr pieces)). cbv beta iota. rewrite Hmod. reflexivity. }
      rewrite FL, FF, FN, FA, FP, FS, created_hash_input.
      unfold sum_lengths. cbn [fold_left f_length f_path forallb].
      replace (0 + data_len <? 18446744073709551616) with true by lia.
      rewrite Sname. reflexivity. }
    rewrite P. reflexivity.
  Qed.
End Facts.

(* chunking a concatenation of equal-sized blocks gives the blocks back *)
Lemma chunks_concat_fixed {A} (n : nat) (cs : list (list A)) : (0 < n)%nat ->
  Forall (fun c => length c = n) cs -> chunks n (concat cs) = cs.
Proof.
  intros Hn. induction 1 as [|c cs Hc _ IH]; [apply chunks_nil|]. cbn [concat].
  rewrite chunks_step; [|exact Hn|destruct c; [cbn in Hc; lia | discriminate]].
  rewrite firstn_app, Hc, Nat.sub_diag, firstn_all2 by lia. cbn [firstn]. rewrite app_nil_r.
  rewrite skipn_app, Hc, Nat.sub_diag, skipn_all2 by lia. cbn [skipn app]. rewrite IH. reflexivity.
Qed.

Lemma len_concat_fixed (k : N) (cs : list bytes) : Forall (fun c => len c = k) cs -> len (concat cs) = k * len cs.
Proof.
  induction 1 as [|c cs Hc _ IH]; [cbn; lia|]. cbn [concat]. rewrite len_app, IH, Hc, len_cons. lia.
Qed.

Lemma chunk_count_nat {A} (n : nat) (data : list A) : (0 < n)%nat -> (length (chunks n data) * n < length data + n)%nat.
Proof.
  intros Hpl. pattern data. apply (chunks_ind n); [exact Hpl | cbn; lia|].
  intros l Hl IH. rewrite chunks_step; [|exact Hpl|exact Hl]. cbn [length].
  rewrite skipn_length in IH. destruct l as [|x l]; [congruence|]. cbn [length] in *.
  destruct (length (chunks n (skipn n (x :: l)))) as [|c]; cbn [Nat.mul] in *; lia.
Qed.

Lemma chunk_count_bound (data : bytes) :
  N.of_nat (length (chunks (N.to_nat PIECE_LENGTH) data)) * PIECE_LENGTH < N.of_nat (length data) + PIECE_LENGTH.
Proof.
  assert (Hn' : N.of_nat (N.to_nat PIECE_LENGTH) = PIECE_LENGTH) by apply N2Nat.id.
  remember (N.to_nat PIECE_LENGTH) as n eqn:En. clear En.
  assert (Hpl : (0 < n)%nat) by (unfold PIECE_LENGTH in Hn'; lia).
  pose proof (chunk_count_nat n data Hpl) as G. rewrite <- Hn'.
  remember (length (chunks n data)) as k eqn:Ek. clear - G. lia.
Qed.

(* create_file, with SHA-1 any function producing 20 bytes: the document it writes is read back as exactly the
   announce, name, piece length, per-chunk hashes and single file it was made from *)
Theorem create_file_parse (sha1 : bytes -> bytes) name tracker data :
  (forall x, len (sha1 x) = HASH_SIZE) ->
  len name < 18446744073709551616 -> len tracker < 18446744073709551616 -> len data < 9223372036854775808 ->
  utf8_valid name = true -> utf8_valid tracker = true -> safe_path name = true ->
  exists h,
    metainfo_of (create_torrent sha1 name tracker data) =
      Ok (mkmeta tracker name PIECE_LENGTH (map sha1 (chunks (N.to_nat PIECE_LENGTH) data)) [mkfile (len data) name] h) /\
    find_first key_info_raw (create_torrent sha1 name tracker data) = Some h.
Proof.
  intros Hs Hn Ht Hd Un Ut Sn. unfold create_torrent.
  set (cs := map sha1 (chunks (N.to_nat PIECE_LENGTH) data)).
  assert (Fcs : Forall (fun c => len c = HASH_SIZE) cs) by (unfold cs; apply Forall_forall; intros c Hc; apply in_map_iff in Hc; destruct Hc as (x & <- & _); apply Hs).
  assert (Lp : len (concat cs) = HASH_SIZE * len cs) by (apply len_concat_fixed, Fcs).
  assert (Lcs : len cs * PIECE_LENGTH < len data + PIECE_LENGTH).
  { unfold cs, len. rewrite map_length. apply chunk_count_bound. }
  assert (Hp : len (concat cs) < 18446744073709551616) by (rewrite Lp; unfold HASH_SIZE; unfold PIECE_LENGTH in Lcs; clear - Lcs Hd; lia).
  assert (Hm : len (concat cs) mod HASH_SIZE = 0) by (rewrite Lp, N.mul_comm; apply N.mod_mul; discriminate).
  eexists. split.
  - rewrite (create_parse name tracker (concat cs) (len data) Hn Ht Hp Hd Un Ut Sn Hm). f_equal. f_equal.
    apply chunks_concat_fixed; [unfold HASH_SIZE; lia|].
    eapply Forall_impl; [|exact Fcs]. cbn. intros c Hc. unfold len in Hc. change HASH_SIZE with 20 in Hc. lia.
  - rewrite create_is_sorted. apply (created_hash_input name tracker (concat cs) (len data) Hn Ht Hp Hd).
Qed.
