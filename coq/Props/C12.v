(* C12 — placeholder, filled below *)
From Rdest Require Import Base Consts Wire Manager.
