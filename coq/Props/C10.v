(* C10 — block requests tile each assigned piece exactly once. *)
From Rdest Require Import Base Consts Wire Manager Handler HandlerProofs.
Open Scope N_scope.

(* PieceRx::left for every piece length: contiguous blocks from 0 to the piece length, each 1..16384 bytes,
   all but the last exactly 16 KiB (the last is the remainder) *)
Theorem C10_tiling : forall plen, Tiles 0 plen (left_blocks plen).
Proof. exact left_blocks_tiles. Qed.
Theorem C10_tiling_sum : forall plen, fold_right (fun bl acc => snd bl + acc) 0 (left_blocks plen) = plen /\
                                      Forall (fun bl => 0 < snd bl <= 16384) (left_blocks plen).
Proof. intros plen. destruct (tiles_sum _ _ _ (left_blocks_tiles plen)) as [A B]. split; [lia | exact B]. Qed.

(* a new assignment: the requests written name that piece and are the first (at most two) blocks of the
   tiling; asked ++ not-yet-asked is the tiling *)
Theorem C10_assignment : forall cf int i plen r a, new_piece_request cf int i plen = (r, a) ->
  rx_index r = i /\ rx_requested r ++ rx_left r = left_blocks plen /\
  requests_in a = map (fun bl => (i, fst bl, snd bl)) (rx_requested r) /\ (length (rx_requested r) <= 2)%nat.
Proof. exact new_piece_request_spec. Qed.

(* every further request is exactly the next block not yet asked for *)
Theorem C10_next : forall r r' a, send_request r = (r', a) ->
  match rx_left r with
  | [] => r' = r /\ a = []
  | (b, l) :: rest => a = [ASend (Request (rx_index r) b l)] /\ rx_left r' = rest /\
                      rx_requested r' = rx_requested r ++ [(b, l)] /\ rx_index r' = rx_index r /\ rx_hash r' = rx_hash r
                      /\ rx_buff r' = rx_buff r
  end.
Proof. exact send_request_spec. Qed.

(* the progress rule (an accepted block is followed by exactly one further request while blocks remain; the piece
   completes exactly when the last outstanding block arrives) is decided on the real task by the correspondence
   oracle step10; no Coq theorem over handle_piece histories yet *)
Example C10_nonvacuous : left_blocks 40000 = [(0, 16384); (16384, 16384); (32768, 7232)] /\ left_blocks 16384 = [(0, 16384)].
Proof. vm_compute. split; reflexivity. Qed.

Print Assumptions C10_tiling.
Print Assumptions C10_tiling_sum.
Print Assumptions C10_assignment.
Print Assumptions C10_next.
